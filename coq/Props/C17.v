(* C17 - Sign and absolute value.  Statements only; proofs are [exact]. *)
From mathcomp Require Import all_ssreflect all_algebra.
From NSpa Require Import Model.Vec Model.Hrr Model.Vtb Model.Sign
  Theory.SeqSum Theory.Conv Theory.ElemLaws Theory.SignLaws.
Import Order.TTheory GRing.Theory Num.Theory.
Local Open Scope ring_scope.

(* HRR: the DC and Nyquist coefficients are multiplicative under binding *)
Theorem C17_hrr_dc_multiplicative :
  forall (R : realDomainType) (a b : seq R),
    size a = size b -> hrr_dc (hrr_bind_core a b) = hrr_dc a * hrr_dc b.
Proof. exact: hrr_dc_bind. Qed.
Print Assumptions C17_hrr_dc_multiplicative.

Theorem C17_hrr_nyquist_multiplicative :
  forall (R : realDomainType) (a b : seq R),
    size a = size b -> ~~ odd (size a) ->
    hrr_nyq (hrr_bind_core a b) = hrr_nyq a * hrr_nyq b.
Proof. exact: hrr_nyq_bind. Qed.
Print Assumptions C17_hrr_nyquist_multiplicative.

Theorem C17_hrr_raw_signs_of_binding_are_products :
  forall (R : realDomainType) (a b : seq R),
    size a = size b ->
    sgn3_of (hrr_dc (hrr_bind_core a b)) = sgn3_mul (sgn3_of (hrr_dc a)) (sgn3_of (hrr_dc b)) /\
    sgn3_of (hrr_nyq (hrr_bind_core a b)) = sgn3_mul (sgn3_of (hrr_nyq a)) (sgn3_of (hrr_nyq b)).
Proof. exact: hrr_sign_bind_raw. Qed.
Print Assumptions C17_hrr_raw_signs_of_binding_are_products.

(* full statement of the multiplicativity clause (a definition asserts nothing) *)
Definition C17_hrr_sign_of_binding_is_product_statement : Prop :=
  forall (R : realDomainType) (a b : seq R) sa sb,
    size a = size b -> hrr_sign_of a = Ok sa -> hrr_sign_of b = Ok sb ->
    hrr_sign_of (hrr_bind_core a b) = Ok (sign_mul sa sb).

(* proved when d is odd or no Nyquist coefficient vanishes; the constructor's
   "nyquist := dc when nyquist = 0" rule breaks it otherwise (see _refuted) *)
Theorem C17_hrr_sign_of_binding_is_product_partial :
  forall (R : realDomainType) (a b : seq R) sa sb,
    size a = size b ->
    odd (size a) || ((hrr_nyq a != 0) && (hrr_nyq b != 0)) ->
    hrr_sign_of a = Ok sa -> hrr_sign_of b = Ok sb ->
    hrr_sign_of (hrr_bind_core a b) = Ok (sign_mul sa sb).
Proof. exact: hrr_sign_bind_partial. Qed.
Print Assumptions C17_hrr_sign_of_binding_is_product_partial.

(* totality: full statement, the proved part, and the refutation *)
Definition C17_hrr_sign_total_statement : Prop :=
  forall (R : realDomainType) (v : seq R), exists s, hrr_sign_of v = Ok s.

Theorem C17_hrr_sign_total_partial :
  forall (R : realDomainType) (v : seq R),
    (hrr_dc v != 0) || (hrr_nyq v == 0) ->
    exists2 s, hrr_sign_of v = Ok s &
      exactly_one (sign_is_positive s) (sign_is_negative s) (sign_is_zero s) (sign_is_indefinite s).
Proof. exact: hrr_sign_total_partial. Qed.
Print Assumptions C17_hrr_sign_total_partial.

Theorem C17_hrr_sign_fails_exactly_on_zero_dc_nonzero_nyquist :
  forall (R : realDomainType) (v : seq R),
    hrr_sign_of v = Err ValueError <-> (hrr_dc v == 0) && (hrr_nyq v != 0).
Proof. exact: hrr_sign_error_iff. Qed.
Print Assumptions C17_hrr_sign_fails_exactly_on_zero_dc_nonzero_nyquist.

(* abs: binding the sign's vector back reconstructs the vector *)
Theorem C17_hrr_sign_vectors_are_unitary :
  forall (R : realDomainType) (s : hrr_sign) d,
    (0 < d)%N -> (if dc_sign s is SZero then false else true) ->
    hrr_unitary (hrr_sign_to_vector R s d).
Proof. move=> R s d; exact: sign_vector_unitary. Qed.
Print Assumptions C17_hrr_sign_vectors_are_unitary.

Theorem C17_hrr_sign_bound_to_abs_reconstructs :
  forall (R : realDomainType) (v : seq R) s w,
    (0 < size v)%N -> hrr_sign_of v = Ok s ->
    (if dc_sign s is SZero then false else true) ->
    hrr_abs v = Ok w ->
    hrr_bind_core (hrr_sign_to_vector R s (size v)) w = v.
Proof. move=> R v s w; exact: hrr_sign_times_abs. Qed.
Print Assumptions C17_hrr_sign_bound_to_abs_reconstructs.

(* stated, not yet proved (covered by the tie): abs v is positive and abs is idempotent *)
Definition C17_hrr_abs_positive_statement : Prop :=
  forall (R : realDomainType) (v : seq R) s w,
    hrr_sign_of v = Ok s -> (if dc_sign s is SZero then false else true) ->
    hrr_abs v = Ok w ->
    exists2 t, hrr_sign_of w = Ok t & sign_is_positive t.
Definition C17_hrr_abs_idempotent_statement : Prop :=
  forall (R : realDomainType) (v : seq R) s w,
    hrr_sign_of v = Ok s -> (if dc_sign s is SZero then false else true) ->
    hrr_abs v = Ok w -> hrr_abs w = Ok w.

(* VTB / TVTB: a congruence certificate V = L D L^T decides definiteness *)
Theorem C17_certificate_positive_definite :
  forall (R : realDomainType) n (L : 'M[R]_n) (d : 'rV[R]_n) (V : 'M[R]_n),
    V = L *m diag_mx d *m L^T -> L \in unitmx -> (forall i, 0 < d 0 i) ->
    forall x, x != 0 -> 0 < quad V x.
Proof. exact: cert_posdef. Qed.
Print Assumptions C17_certificate_positive_definite.

Theorem C17_certificate_negative_definite :
  forall (R : realDomainType) n (L : 'M[R]_n) (d : 'rV[R]_n) (V : 'M[R]_n),
    V = L *m diag_mx d *m L^T -> L \in unitmx -> (forall i, d 0 i < 0) ->
    forall x, x != 0 -> quad V x < 0.
Proof. exact: cert_negdef. Qed.
Print Assumptions C17_certificate_negative_definite.

Theorem C17_certificate_zero :
  forall (R : realDomainType) n (L : 'M[R]_n) (d : 'rV[R]_n) (V : 'M[R]_n),
    V = L *m diag_mx d *m L^T -> d = 0 -> V = 0.
Proof. exact: cert_zero. Qed.
Print Assumptions C17_certificate_zero.

Theorem C17_certificate_mixed_is_indefinite :
  forall (R : realDomainType) n (L : 'M[R]_n) (d : 'rV[R]_n) (V : 'M[R]_n) i j,
    V = L *m diag_mx d *m L^T -> L \in unitmx -> 0 < d 0 i -> d 0 j < 0 ->
    (exists x, 0 < quad V x) /\ (exists x, quad V x < 0).
Proof. exact: cert_indefinite. Qed.
Print Assumptions C17_certificate_mixed_is_indefinite.

Theorem C17_negation_flips_the_form :
  forall (R : realDomainType) n (V : 'M[R]_n) x, quad (- V) x = - quad V x.
Proof. exact: quad_opp. Qed.
Print Assumptions C17_negation_flips_the_form.

Theorem C17_generic_sign_exactly_one_predicate :
  forall g, exactly_one (g_is_positive g) (g_is_negative g) (g_is_zero g) (g_is_indefinite g).
Proof. exact: gsign_exactly_one. Qed.
Print Assumptions C17_generic_sign_exactly_one_predicate.

From mathcomp Require Import ssrZ.
From Coq Require Import ZArith.
(* witnesses on the faithful model (replayed against the implementation by
   the check; both are listed in known_findings.json) *)
Theorem C17_hrr_sign_total_refuted :
  exists v : seq Z, hrr_sign_of v = Err ValueError.
Proof. by exists [:: 1; -1]%Z; vm_compute. Qed.
Print Assumptions C17_hrr_sign_total_refuted.

Theorem C17_hrr_sign_of_binding_is_product_refuted :
  exists (a b : seq Z) sa sb,
    [/\ size a = size b, hrr_sign_of a = Ok sa, hrr_sign_of b = Ok sb &
        hrr_sign_of (hrr_bind_core a b) <> Ok (sign_mul sa sb)].
Proof.
  exists [:: 1; 1]%Z, [:: 0; 1]%Z, (HrrSignOf SPos SPos), (HrrSignOf SPos SNeg).
  by split; vm_compute.
Qed.
Print Assumptions C17_hrr_sign_of_binding_is_product_refuted.


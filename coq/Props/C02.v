From NSpa Require Import Model.Vec.

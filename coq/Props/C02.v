(* C02 - Binding and superposition equal their mathematical definition,
   bilinearly.  For every commutative ring R (hence the reals), every
   dimension, every vector.  Only statements; proofs are [exact <lemma>]. *)
From mathcomp Require Import all_ssreflect all_algebra.
From NSpa Require Import Model.Vec Model.Hrr Model.Vtb
  Theory.SeqSum Theory.Conv Theory.MxBridge Theory.VtbLaws Theory.Fourier.
Import GRing.Theory.
Local Open Scope ring_scope.

(* ---------------- HRR: circular convolution ------------------------------ *)
Theorem C02_hrr_bind_is_circular_convolution :
  forall (R : comRingType) p (a b : seq R) (i : 'I_p.+1),
    size a = p.+1 ->
    vnth (hrr_bind_core a b) i = \sum_(j < p.+1) vnth a j * vnth b (i - j)%R.
Proof. exact: nth_hrr_bind. Qed.
Print Assumptions C02_hrr_bind_is_circular_convolution.

Theorem C02_hrr_bind_accepts_equal_lengths :
  forall (R : comRingType) (a b : seq R),
    size a = size b -> hrr_bind a b = Ok (hrr_bind_core a b).
Proof. exact: hrr_bind_equal. Qed.
Print Assumptions C02_hrr_bind_accepts_equal_lengths.

Theorem C02_hrr_bind_rejects_unequal_lengths :
  forall (R : comRingType) (a b : seq R),
    size a != size b -> hrr_bind a b = Err ValueError.
Proof. exact: hrr_bind_unequal. Qed.
Print Assumptions C02_hrr_bind_rejects_unequal_lengths.

Theorem C02_hrr_bind_commutative :
  forall (R : comRingType) (a b : seq R),
    size a = size b -> hrr_bind_core a b = hrr_bind_core b a.
Proof. exact: hrr_bind_comm. Qed.
Print Assumptions C02_hrr_bind_commutative.

Theorem C02_hrr_bind_associative :
  forall (R : comRingType) (a b c : seq R),
    size a = size b -> size b = size c ->
    hrr_bind_core (hrr_bind_core a b) c = hrr_bind_core a (hrr_bind_core b c).
Proof. exact: hrr_bind_assoc. Qed.
Print Assumptions C02_hrr_bind_associative.

Theorem C02_hrr_bind_additive_left :
  forall (R : comRingType) (a a' b : seq R),
    size a = size a' ->
    hrr_bind_core (vadd a a') b = vadd (hrr_bind_core a b) (hrr_bind_core a' b).
Proof. exact: hrr_bind_addl. Qed.
Print Assumptions C02_hrr_bind_additive_left.

Theorem C02_hrr_bind_homogeneous_left :
  forall (R : comRingType) (k : R) (a b : seq R),
    hrr_bind_core (vscale k a) b = vscale k (hrr_bind_core a b).
Proof. exact: hrr_bind_scalel. Qed.
Print Assumptions C02_hrr_bind_homogeneous_left.

Theorem C02_hrr_bind_additive_right :
  forall (R : comRingType) (a b b' : seq R),
    size a = size b -> size b = size b' ->
    hrr_bind_core a (vadd b b') = vadd (hrr_bind_core a b) (hrr_bind_core a b').
Proof. exact: hrr_bind_addr. Qed.
Print Assumptions C02_hrr_bind_additive_right.

Theorem C02_hrr_bind_homogeneous_right :
  forall (R : comRingType) (k : R) (a b : seq R),
    size a = size b ->
    hrr_bind_core a (vscale k b) = vscale k (hrr_bind_core a b).
Proof. exact: hrr_bind_scaler. Qed.
Print Assumptions C02_hrr_bind_homogeneous_right.

Theorem C02_hrr_binding_matrix_is_direct_binding :
  forall (R : comRingType) (v x : seq R) (swap : bool),
    size x = size v -> matvec (hrr_bmat v swap) x = hrr_bind_core x v.
Proof. exact: hrr_bmat_bind. Qed.
Print Assumptions C02_hrr_binding_matrix_is_direct_binding.

Theorem C02_hrr_binding_matrix_swapped_is_left_binding :
  forall (R : comRingType) (v x : seq R),
    size x = size v -> matvec (hrr_bmat v true) x = hrr_bind_core v x.
Proof. exact: hrr_bmat_bind_swapped. Qed.
Print Assumptions C02_hrr_binding_matrix_swapped_is_left_binding.

Theorem C02_hrr_inversion_matrix_is_direct_inversion :
  forall (R : comRingType) (v : seq R),
    matvec (hrr_imat R (size v)) v = hrr_invert v.
Proof. exact: hrr_imat_invert. Qed.
Print Assumptions C02_hrr_inversion_matrix_is_direct_inversion.

(* ---------------- VTB: sqrt(s) * A * B^T --------------------------------- *)
Theorem C02_vtb_bind_is_scaled_A_Bt :
  forall (R : comRingType) s (a b : seq R),
    size a = (s * s)%N -> size b = (s * s)%N ->
    vtb_bind a b = Ok (Scaled (vtb_core s a b) s 1) /\
    mx_of s (vtb_core s a b) = mx_of s a *m (mx_of s b)^T.
Proof. move=> R s a b sa sb; split; [exact: vtb_bindE | exact: vtb_core_mx]. Qed.
Print Assumptions C02_vtb_bind_is_scaled_A_Bt.

(* ---------------- TVTB: sqrt(s) * A * B ---------------------------------- *)
Theorem C02_tvtb_bind_is_scaled_A_B :
  forall (R : comRingType) s (a b : seq R),
    size a = (s * s)%N -> size b = (s * s)%N ->
    tvtb_bind a b = Ok (Scaled (tvtb_core s a b) s 1) /\
    mx_of s (tvtb_core s a b) = mx_of s a *m mx_of s b.
Proof. move=> R s a b sa sb; split; [exact: tvtb_bindE | exact: tvtb_core_mx]. Qed.
Print Assumptions C02_tvtb_bind_is_scaled_A_B.

Theorem C02_vtb_rejects_unequal_lengths :
  forall (R : comRingType) (a b : seq R),
    size a != size b -> vtb_bind a b = Err ValueError.
Proof. exact: vtb_bind_unequal. Qed.
Print Assumptions C02_vtb_rejects_unequal_lengths.

Theorem C02_tvtb_rejects_unequal_lengths :
  forall (R : comRingType) (a b : seq R),
    size a != size b -> tvtb_bind a b = Err ValueError.
Proof. exact: tvtb_bind_unequal. Qed.
Print Assumptions C02_tvtb_rejects_unequal_lengths.

Theorem C02_vtb_rejects_nonsquare_dimensions :
  forall (R : comRingType) (a b : seq R),
    size a = size b -> (~ exists s, (s * s)%N = size b) ->
    vtb_bind a b = Err ValueError.
Proof. exact: vtb_bind_nonsquare. Qed.
Print Assumptions C02_vtb_rejects_nonsquare_dimensions.

Theorem C02_tvtb_rejects_nonsquare_dimensions :
  forall (R : comRingType) (a b : seq R),
    size a = size b -> (~ exists s, (s * s)%N = size b) ->
    tvtb_bind a b = Err ValueError.
Proof. exact: tvtb_bind_nonsquare. Qed.
Print Assumptions C02_tvtb_rejects_nonsquare_dimensions.

Theorem C02_square_algebras_valid_dimension_iff_positive_square :
  forall d, reflect (exists2 s, (0 < s)%N & d = (s * s)%N) (vtb_valid d).
Proof. exact: vtb_validP. Qed.
Print Assumptions C02_square_algebras_valid_dimension_iff_positive_square.

(* bilinearity of both matrix algebras *)
Theorem C02_vtb_bind_additive_left :
  forall (R : comRingType) s (a a' b : seq R),
    size a = (s * s)%N -> size a' = (s * s)%N ->
    vtb_core s (vadd a a') b = vadd (vtb_core s a b) (vtb_core s a' b).
Proof. exact: vtb_core_addl. Qed.
Print Assumptions C02_vtb_bind_additive_left.
Theorem C02_vtb_bind_additive_right :
  forall (R : comRingType) s (a b b' : seq R),
    size a = (s * s)%N -> size b = size b' ->
    vtb_core s a (vadd b b') = vadd (vtb_core s a b) (vtb_core s a b').
Proof. exact: vtb_core_addr. Qed.
Print Assumptions C02_vtb_bind_additive_right.
Theorem C02_vtb_bind_homogeneous_left :
  forall (R : comRingType) s (k : R) (a b : seq R),
    size a = (s * s)%N -> vtb_core s (vscale k a) b = vscale k (vtb_core s a b).
Proof. exact: vtb_core_scalel. Qed.
Print Assumptions C02_vtb_bind_homogeneous_left.
Theorem C02_vtb_bind_homogeneous_right :
  forall (R : comRingType) s (k : R) (a b : seq R),
    size a = (s * s)%N -> vtb_core s a (vscale k b) = vscale k (vtb_core s a b).
Proof. exact: vtb_core_scaler. Qed.
Print Assumptions C02_vtb_bind_homogeneous_right.
Theorem C02_tvtb_bind_additive_left :
  forall (R : comRingType) s (a a' b : seq R),
    size a = (s * s)%N -> size a' = (s * s)%N ->
    tvtb_core s (vadd a a') b = vadd (tvtb_core s a b) (tvtb_core s a' b).
Proof. exact: tvtb_core_addl. Qed.
Print Assumptions C02_tvtb_bind_additive_left.
Theorem C02_tvtb_bind_additive_right :
  forall (R : comRingType) s (a b b' : seq R),
    size a = (s * s)%N -> size b = size b' ->
    tvtb_core s a (vadd b b') = vadd (tvtb_core s a b) (tvtb_core s a b').
Proof. exact: tvtb_core_addr. Qed.
Print Assumptions C02_tvtb_bind_additive_right.
Theorem C02_tvtb_bind_homogeneous_left :
  forall (R : comRingType) s (k : R) (a b : seq R),
    size a = (s * s)%N -> tvtb_core s (vscale k a) b = vscale k (tvtb_core s a b).
Proof. exact: tvtb_core_scalel. Qed.
Print Assumptions C02_tvtb_bind_homogeneous_left.
Theorem C02_tvtb_bind_homogeneous_right :
  forall (R : comRingType) s (k : R) (a b : seq R),
    size a = (s * s)%N -> tvtb_core s a (vscale k b) = vscale k (tvtb_core s a b).
Proof. exact: tvtb_core_scaler. Qed.
Print Assumptions C02_tvtb_bind_homogeneous_right.

(* binding matrices (both swap_inputs values) and inversion matrices agree
   with the direct operations, for every vector *)
Theorem C02_vtb_binding_matrix_is_direct_binding :
  forall (R : comRingType) s (v x : seq R) (swap : bool),
    size v = (s * s)%N -> size x = (s * s)%N ->
    exists2 M, vtb_bmat v swap = Ok (Scaled M s 1) &
               matvec M x = if swap then vtb_core s v x else vtb_core s x v.
Proof. move=> R s v x swap; exact: vtb_bmat_spec. Qed.
Print Assumptions C02_vtb_binding_matrix_is_direct_binding.

Theorem C02_tvtb_binding_matrix_is_direct_binding :
  forall (R : comRingType) s (v x : seq R) (swap : bool),
    size v = (s * s)%N -> size x = (s * s)%N ->
    exists2 M, tvtb_bmat v swap = Ok (Scaled M s 1) &
               matvec M x = if swap then tvtb_core s v x else tvtb_core s x v.
Proof. move=> R s v x swap; exact: tvtb_bmat_spec. Qed.
Print Assumptions C02_tvtb_binding_matrix_is_direct_binding.

Theorem C02_vtb_inversion_matrix_is_direct_inversion :
  forall (R : comRingType) s (x : seq R) sd,
    size x = (s * s)%N -> sd <> SLeft ->
    exists2 w, vtb_imat R (s * s) sd = Ok w &
      (matvec (wval w) x = vtb_transpose_vec s x /\
       vtb_invert x sd = Ok (Warned (vtb_transpose_vec s x) (wdep w))).
Proof. exact: vtb_imat_spec. Qed.
Print Assumptions C02_vtb_inversion_matrix_is_direct_inversion.

Theorem C02_tvtb_inversion_matrix_is_direct_inversion :
  forall (R : comRingType) s (x : seq R) sd,
    size x = (s * s)%N ->
    exists2 w, tvtb_imat R (s * s) sd = Ok w &
      (matvec (wval w) x = vtb_transpose_vec s x /\
       tvtb_invert x sd = Ok (Warned (vtb_transpose_vec s x) false)).
Proof. exact: tvtb_imat_spec. Qed.
Print Assumptions C02_tvtb_inversion_matrix_is_direct_inversion.

(* superposition is element-wise addition *)
Theorem C02_superposition_is_elementwise :
  forall (R : ringType) (a b : seq R) i,
    size a = size b -> vnth (vadd a b) i = vnth a i + vnth b i.
Proof. exact: nth_vadd. Qed.
Print Assumptions C02_superposition_is_elementwise.

From NSpa Require Import Model.Types Model.Algebra.
Theorem C02_superposition_accepts_exactly_equal_lengths :
  forall (R : comRingType) (a b : seq R),
    alg_superpose a b = if size a == size b then Ok (vadd a b) else Err ValueError.
Proof. by []. Qed.
Print Assumptions C02_superposition_accepts_exactly_equal_lengths.

(* ---------------- HRR through the Fourier domain (how HrrAlgebra.bind computes it) ------- *)
(* C: any commutative ring with an element w, w^d = 1, into which R embeds
   (the complex numbers with w = exp(-2 pi i / d)) *)
Theorem C02_hrr_bind_is_pointwise_product_of_spectra :
  forall (R C : comRingType) (iota : {rmorphism R -> C}) p (w : C),
    w ^+ p.+1 = 1 ->
    forall (a b : seq R) (k : 'I_p.+1), size a = p.+1 ->
    spectrum iota w (hrr_bind_core a b) k = spectrum iota w a k * spectrum iota w b k.
Proof. first [exact: spectrum_bind | by move=> *; exact: spectrum_bind | by intros; eapply spectrum_bind; eauto]. Qed.
Print Assumptions C02_hrr_bind_is_pointwise_product_of_spectra.

(* with w primitive (orthogonal characters) and d regular in C, the vector with the product
   spectrum is the circular convolution: irfft(rfft(a) . rfft(b)) can be nothing else *)
Theorem C02_vector_with_product_spectrum_is_the_binding :
  forall (R C : comRingType) (iota : {rmorphism R -> C}) p (w : C),
    w ^+ p.+1 = 1 ->
    (forall j : 'I_p.+1, j != 0 -> \sum_k chi w k j = 0) ->
    GRing.lreg (p.+1%:R : C) -> injective iota ->
    forall (a b r : seq R), size a = p.+1 -> size r = p.+1 ->
    (forall k : 'I_p.+1, spectrum iota w r k = spectrum iota w a k * spectrum iota w b k) ->
    r = hrr_bind_core a b.
Proof. first [exact: product_spectrum_is_binding | by move=> *; exact: product_spectrum_is_binding | by intros; eapply product_spectrum_is_binding; eauto]. Qed.
Print Assumptions C02_vector_with_product_spectrum_is_the_binding.

Theorem C02_fourier_inversion_formula :
  forall (C : comRingType) p (w : C),
    w ^+ p.+1 = 1 ->
    (forall j : 'I_p.+1, j != 0 -> \sum_k chi w k j = 0) ->
    forall (f : 'I_p.+1 -> C) m, \sum_k dft w f k * chi w k (- m) = p.+1%:R * f m.
Proof. first [exact: dft_inversion | by move=> *; exact: dft_inversion | by intros; eapply dft_inversion; eauto]. Qed.
Print Assumptions C02_fourier_inversion_formula.

(* non-vacuity of the Fourier hypotheses: d = 2, C = R = int, w = -1 *)
Example C02_fourier_hypotheses_met :
  let w : int := -1 in
  w ^+ 2 = 1 /\ (forall j : 'I_2, j != 0 -> \sum_k chi w k j = 0) /\ GRing.lreg (2%:R : int).
Proof.
  split; first by [].
  split; last by apply/lregP.
  by move=> j; rewrite !big_ord_recl big_ord0 /chi /=; case: j => [[|[|m]]] //=.
Qed.

(* non-vacuity: concrete bindings at Z *)
From mathcomp Require Import ssrZ.
From Coq Require Import ZArith.
Example C02_example_hrr :
  hrr_bind [:: 1; 2; 3]%Z [:: 4; 5; 6]%Z = Ok [:: 31; 31; 28]%Z.
Proof. by vm_compute. Qed.
Example C02_example_vtb :
  vtb_bind [:: 1; 2; 3; 4]%Z [:: 5; 6; 7; 8]%Z = Ok (Scaled [:: 17; 23; 39; 53]%Z 2 1).
Proof. by vm_compute. Qed.
Example C02_example_tvtb :
  tvtb_bind [:: 1; 2; 3; 4]%Z [:: 5; 6; 7; 8]%Z = Ok (Scaled [:: 19; 22; 43; 50]%Z 2 1).
Proof. by vm_compute. Qed.

(* C05 - Binding networks bind; unbind options recover the bound operand.
   With ideal product units (Direct mode).  Statements only.

   Every network here has the shape out = T_out ((T_a a) (.) (T_b b)), hence is
   bilinear; the theorems identify that bilinear map.  With C08 ("the inverse
   undoes binding iff unitary") the unbind maps return y exactly when x is
   unitary: VTB-left  sqrt(s) W^T X on (x, sqrt(s) X Y^T) = s Y X^T X;
   TVTB-left sqrt(s) X^T W on (x, sqrt(s) X Y) = s X^T X Y.
   The HRR network is proved for every d over the complex numbers of any real closed
   field (tables from a primitive d-th root of unity w); that the code's tables are those
   of the proved shape is tied per tested d (structure of the three matrices + complete basis). *)
From mathcomp Require Import all_ssreflect all_algebra.
From NSpa Require Import Model.Vec Model.Hrr Model.Vtb Model.Algebra Model.Nets
  Theory.SeqSum Theory.MxBridge Theory.VtbLaws Theory.NetsLaws.
Import GRing.Theory.
Local Open Scope ring_scope.

Theorem C05_matrix_mult_network_is_the_matrix_product :
  forall (R : comRingType) M K N (a b : seq R) i kk,
    (i < M)%N -> (kk < N)%N -> (0 < K)%N ->
    vnth (mm_net M K N a b) (i * N + kk) = \sum_(j < K) vnth a (i * K + j) * vnth b (j * N + kk).
Proof. first [exact: mm_net_is_matrix_product | by move=> *; exact: mm_net_is_matrix_product | by intros; eapply mm_net_is_matrix_product; eauto]. Qed.
Print Assumptions C05_matrix_mult_network_is_the_matrix_product.

Theorem C05_inversion_matrix_of_the_networks_is_the_transposition :
  forall (R : comRingType) s (x : seq R),
    size x = (s * s)%N -> matvec (net_inversion_matrix R (s * s) s) x = vtb_transpose_vec s x.
Proof. first [exact: net_inversion_is_transpose | by move=> *; exact: net_inversion_is_transpose | by intros; eapply net_inversion_is_transpose; eauto]. Qed.
Print Assumptions C05_inversion_matrix_of_the_networks_is_the_transposition.

Theorem C05_swapping_matrix_of_the_networks_is_the_transposition :
  forall (R : comRingType) s (x : seq R),
    size x = (s * s)%N -> matvec (net_swapping_matrix R (s * s) s) x = vtb_transpose_vec s x.
Proof. first [exact: net_swapping_is_transpose | by move=> *; exact: net_swapping_is_transpose | by intros; eapply net_swapping_is_transpose; eauto]. Qed.
Print Assumptions C05_swapping_matrix_of_the_networks_is_the_transposition.

Theorem C05_vtb_network_binds :
  forall (R : comRingType) s (left right : seq R),
    size left = (s * s)%N -> size right = (s * s)%N ->
    vtb_net NoUnbind left right = vtb_bind left right.
Proof. first [exact: vtb_net_binds | by move=> *; exact: vtb_net_binds | by intros; eapply vtb_net_binds; eauto]. Qed.
Print Assumptions C05_vtb_network_binds.

Theorem C05_vtb_network_unbind_right :
  forall (R : comRingType) s (left right : seq R),
    size left = (s * s)%N -> size right = (s * s)%N ->
    vtb_net UnbindRight left right = vtb_bind left (vtb_transpose_vec s right).
Proof. first [exact: vtb_net_unbind_right | by move=> *; exact: vtb_net_unbind_right | by intros; eapply vtb_net_unbind_right; eauto]. Qed.
Print Assumptions C05_vtb_network_unbind_right.

Theorem C05_vtb_network_unbind_left :
  forall (R : comRingType) s (left right : seq R),
    size left = (s * s)%N -> size right = (s * s)%N ->
    exists2 c, vtb_net UnbindLeft left right = Ok (Scaled c s 1) &
               mx_of s c = (mx_of s right)^T *m mx_of s left.
Proof. first [exact: vtb_net_unbind_left | by move=> *; exact: vtb_net_unbind_left | by intros; eapply vtb_net_unbind_left; eauto]. Qed.
Print Assumptions C05_vtb_network_unbind_left.

Theorem C05_vtb_network_rejects_both_options :
  forall (R : comRingType) (left right : seq R) s,
    size left = (s * s)%N -> vtb_net UnbindBoth left right = Err ValueError.
Proof. first [exact: vtb_net_both_options_rejected | by move=> *; exact: vtb_net_both_options_rejected | by intros; eapply vtb_net_both_options_rejected; eauto]. Qed.
Print Assumptions C05_vtb_network_rejects_both_options.

Theorem C05_tvtb_network_binds :
  forall (R : comRingType) s (left right : seq R),
    size left = (s * s)%N -> size right = (s * s)%N ->
    exists2 c, tvtb_net NoUnbind left right = Ok (Scaled c s 1) &
               mx_of s c = mx_of s left *m mx_of s right.
Proof. first [exact: tvtb_net_binds | by move=> *; exact: tvtb_net_binds | by intros; eapply tvtb_net_binds; eauto]. Qed.
Print Assumptions C05_tvtb_network_binds.

Theorem C05_tvtb_network_unbind_right :
  forall (R : comRingType) s (left right : seq R),
    size left = (s * s)%N -> size right = (s * s)%N ->
    exists2 c, tvtb_net UnbindRight left right = Ok (Scaled c s 1) &
               mx_of s c = mx_of s left *m (mx_of s right)^T.
Proof. first [exact: tvtb_net_unbind_right | by move=> *; exact: tvtb_net_unbind_right | by intros; eapply tvtb_net_unbind_right; eauto]. Qed.
Print Assumptions C05_tvtb_network_unbind_right.

Theorem C05_tvtb_network_unbind_left :
  forall (R : comRingType) s (left right : seq R),
    size left = (s * s)%N -> size right = (s * s)%N ->
    exists2 c, tvtb_net UnbindLeft left right = Ok (Scaled c s 1) &
               mx_of s c = (mx_of s left)^T *m mx_of s right.
Proof. first [exact: tvtb_net_unbind_left | by move=> *; exact: tvtb_net_unbind_left | by intros; eapply tvtb_net_unbind_left; eauto]. Qed.
Print Assumptions C05_tvtb_network_unbind_left.

(* ---------------- HRR: the CircularConvolution network, for every d ------------------------------ *)
From mathcomp Require Import complex.
From NSpa Require Import Theory.Fourier Theory.HrrNet.

(* half-spectrum products of real / imaginary parts with weights 1 (k = 0, 2k = d) and 2, recombined with
   the rows of the inverse transform, compute circular convolution *)
Theorem C05_hrr_network_computes_circular_convolution :
  forall (R : rcfType) p (w : R[i]),
    w ^+ p.+1 = 1 -> w * conjc w = 1 ->
    (forall j : 'I_p.+1, j != 0 -> \sum_k chi w k j = 0) ->
    forall (a b : seq R) (m : 'I_p.+1), size a = p.+1 ->
    cconv_net p w a b m = vnth (hrr_bind_core a b) m.
Proof. first [exact: cconv_net_is_binding | by move=> *; exact: cconv_net_is_binding | by intros; eapply cconv_net_is_binding; eauto]. Qed.
Print Assumptions C05_hrr_network_computes_circular_convolution.

(* the rows remove_imag_rows deletes multiply quantities that vanish identically *)
Theorem C05_hrr_network_removed_rows_vanish :
  forall (R : rcfType) p (w : R[i]), w ^+ p.+1 = 1 ->
    forall (a : seq R), half_im p w a 0 = 0 /\ (forall k, (2 * k = p.+1)%N -> half_im p w a k = 0).
Proof. by move=> R p w wd a; split; [exact: half_im_dc | move=> k; exact: half_im_nyquist]. Qed.
Print Assumptions C05_hrr_network_removed_rows_vanish.

(* invert_a / invert_b (the unbind options of the HRR network): conjugated input tables bind with the inverse *)
Theorem C05_hrr_network_with_inverted_inputs :
  forall (R : rcfType) p (w : R[i]),
    w ^+ p.+1 = 1 -> w * conjc w = 1 ->
    (forall j : 'I_p.+1, j != 0 -> \sum_k chi w k j = 0) ->
    forall ia ib (a b : seq R) (m : 'I_p.+1), size a = p.+1 -> size b = p.+1 ->
    cconv_net_inv p w ia ib a b m
    = vnth (hrr_bind_core (if ia then hrr_invert a else a) (if ib then hrr_invert b else b)) m.
Proof. first [exact: cconv_net_inv_is_binding | by move=> *; exact: cconv_net_inv_is_binding | by intros; eapply cconv_net_inv_is_binding; eauto]. Qed.
Print Assumptions C05_hrr_network_with_inverted_inputs.

(* non-vacuity: d = 2, w = -1 *)
Theorem C05_hrr_network_hypotheses_met :
  forall (R : rcfType), let w : R[i] := -1 in
    w ^+ 2 = 1 /\ w * conjc w = 1 /\ (forall j : 'I_2, j != 0 -> \sum_k chi w k j = 0).
Proof. first [exact: hyps_d2 | by move=> *; exact: hyps_d2 | by intros; eapply hyps_d2; eauto]. Qed.
Print Assumptions C05_hrr_network_hypotheses_met.

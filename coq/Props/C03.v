(* C03 - Operands from different vocabularies or algebras never combine
   silently (SemanticPointer part; symbols and dynamic nodes share the same
   coerce_types gate, Props/C11, and are tied by the operand matrix).
   Statements only; proofs are [exact: <lemma>]. *)
From mathcomp Require Import all_ssreflect all_algebra.
From NSpa Require Import Model.Types Model.Vec Model.Hrr Model.Vtb Model.Power Model.Algebra
  Model.SemPtr Theory.SeqSum Theory.SemPtrLaws.
Import GRing.Theory.
Local Open Scope ring_scope.

Theorem C03_compatible_iff_accepted :
  forall (R : comRingType) dim (a b : sp R), (exists voc, gate dim a b = Ok voc) <-> compatible a b.
Proof. first [exact: gate_ok_iff | by move=> *; exact: gate_ok_iff | by intros; eapply gate_ok_iff; eauto]. Qed.
Print Assumptions C03_compatible_iff_accepted.

Theorem C03_rejection_is_a_type_error :
  forall (R : comRingType) dim (a b : sp R) e, gate dim a b = Err e -> e = SpaTypeError \/ e = TypeError.
Proof. first [exact: gate_error_class | by move=> *; exact: gate_error_class | by intros; eapply gate_error_class; eauto]. Qed.
Print Assumptions C03_rejection_is_a_type_error.

Theorem C03_result_carries_operands_vocabulary :
  forall (R : comRingType) dim (a b : sp R) voc, gate dim a b = Ok voc -> voc = if spvoc a is Some i then Some i else spvoc b.
Proof. first [exact: gate_vocab | by move=> *; exact: gate_vocab | by intros; eapply gate_vocab; eauto]. Qed.
Print Assumptions C03_result_carries_operands_vocabulary.

Theorem C03_inference_table :
  forall (R : comRingType) dim (a b : sp R), sp_infer dim a b = match spvoc a, spvoc b with | None, None => Ok None | Some i, None | None, Some i => Ok (Some i) | Some i, Some j => if i == j then Ok (Some i) else Err SpaTypeError end.
Proof. first [exact: sp_infer_cases | by move=> *; exact: sp_infer_cases | by intros; eapply sp_infer_cases; eauto]. Qed.
Print Assumptions C03_inference_table.

Theorem C03_addition_is_gated_before_any_value :
  forall (R : comRingType) dim (self other : sp R) swap, sp_add_ptr dim self other swap = rbind (gate dim self other) (fun voc => let (x, y) := if swap then (spv other, spv self) else (spv self, spv other) in if size x != size y then Err ValueError else Ok (SP (vadd x y) voc (spalg self))).
Proof. first [exact: add_gated | by move=> *; exact: add_gated | by intros; eapply add_gated; eauto]. Qed.
Print Assumptions C03_addition_is_gated_before_any_value.

Theorem C03_binding_is_gated_before_any_value :
  forall (R : comRingType) dim (self other : sp R) swap, sp_bind_ptr dim self other swap = rbind (gate dim self other) (fun voc => let (x, y) := if swap then (spv other, spv self) else (spv self, spv other) in rmap (fun r => (r, voc, spalg self)) (alg_bind (spalg self) x y)).
Proof. first [exact: bind_gated | by move=> *; exact: bind_gated | by intros; eapply bind_gated; eauto]. Qed.
Print Assumptions C03_binding_is_gated_before_any_value.

Theorem C03_dot_is_gated :
  forall (R : comRingType) dim (a b : sp R) r, sp_dot dim a b = Ok r -> exists voc, gate dim a b = Ok voc.
Proof. first [exact: dot_gated | by move=> *; exact: dot_gated | by intros; eapply dot_gated; eauto]. Qed.
Print Assumptions C03_dot_is_gated.

Theorem C03_compare_is_gated :
  forall (R : comRingType) dim (a b : sp R) r, sp_compare dim a b = Ok r -> exists voc, gate dim a b = Ok voc.
Proof. first [exact: compare_gated | by move=> *; exact: compare_gated | by intros; eapply compare_gated; eauto]. Qed.
Print Assumptions C03_compare_is_gated.

Theorem C03_mse_is_gated :
  forall (R : comRingType) dim (a b : sp R) r, sp_mse dim a b = Ok r -> exists voc, gate dim a b = Ok voc.
Proof. first [exact: mse_gated | by move=> *; exact: mse_gated | by intros; eapply mse_gated; eauto]. Qed.
Print Assumptions C03_mse_is_gated.

Theorem C03_bare_arrays_are_rejected :
  forall (R : comRingType) dim (self : sp R) sw, [/\ sp_add dim self OArr = BErr TypeError, sp_sub dim self OArr = BErr TypeError, sp_mul dim self OArr sw = BErr TypeError & sp_div self OArr = BErr TypeError].
Proof. first [exact: arrays_rejected | by move=> *; exact: arrays_rejected | by intros; eapply arrays_rejected; eauto]. Qed.
Print Assumptions C03_bare_arrays_are_rejected.

From mathcomp Require Import ssrZ.
From Coq Require Import ZArith.
(* non-vacuity: pointers of one vocabulary combine, pointers of two vocabularies of equal dimensionality do not,
   a vocabulary-less pointer adopts the other operand's vocabulary *)
Example C03_examples :
  let dim := fun _ : nat => 2%nat in
  let a := SP [:: 1; 2]%Z (Some 0%nat) AHrr in let b := SP [:: 3; 4]%Z (Some 0%nat) AHrr in
  let c := SP [:: 3; 4]%Z (Some 1%nat) AHrr in let p := SP [:: 5; 6]%Z None AHrr in
  [/\ gate dim a b = Ok (Some 0%nat), gate dim a c = Err SpaTypeError, gate dim p c = Ok (Some 1%nat)
    & sp_dot dim a b = Ok 11%Z].
Proof. by vm_compute. Qed.

(* ---- the type-level model of the whole operand matrix (Model/Dispatch.v, shared with C01): what the property
   demands of every operator x operand-family cell.  [expect] is what the tie compares the implementation with. *)
From NSpa Require Import Model.Dispatch Theory.DispatchLaws.

Theorem C03_operands_of_different_vocabularies_are_rejected_for_every_operator_and_operand_family :
  forall dim op ka kb i j same_alg dims_differ,
    i <> j -> ka <> KArr -> kb <> KArr ->
    expect dim op ka kb (TVoc i) (TVoc j) same_alg dims_differ = MustReject.
Proof. exact different_vocabularies_are_rejected. Qed.
Print Assumptions C03_operands_of_different_vocabularies_are_rejected_for_every_operator_and_operand_family.

Theorem C03_vocabulary_of_another_dimensionality_is_rejected :
  forall dim op ka kb i d same_alg dims_differ,
    dim i <> d -> ka <> KArr -> kb <> KArr ->
    expect dim op ka kb (TAnyDim d) (TVoc i) same_alg dims_differ = MustReject /\
    expect dim op ka kb (TVoc i) (TAnyDim d) same_alg dims_differ = MustReject.
Proof. exact dimension_mismatch_is_rejected. Qed.
Print Assumptions C03_vocabulary_of_another_dimensionality_is_rejected.

Theorem C03_same_vocabulary_is_accepted_and_the_result_carries_it :
  forall dim op ka kb i same_alg,
    ka <> KArr -> kb <> KArr -> supported op ka kb (TVoc i) = true ->
    expect dim op ka kb (TVoc i) (TVoc i) same_alg false = MustAccept (result_type op (TVoc i)).
Proof. exact same_vocabulary_is_accepted. Qed.
Print Assumptions C03_same_vocabulary_is_accepted_and_the_result_carries_it.

Theorem C03_bare_array_never_combines_arithmetically_with_a_pointer_operand :
  forall dim op ka ta tb same_alg dims_differ,
    arithmetic op = true -> is_ptr_kind ka = true ->
    expect dim op ka KArr ta tb same_alg dims_differ = MustReject /\
    expect dim op KArr ka ta tb same_alg dims_differ = MustReject.
Proof. exact bare_array_is_rejected. Qed.
Print Assumptions C03_bare_array_never_combines_arithmetically_with_a_pointer_operand.

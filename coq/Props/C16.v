(* C16 - State represents every dimension; neuron-level access covers each
   neuron once.  Statements only.  With ideal neurons an ensemble outputs what
   it represents, so "slices partition [0,d) in order with matching input and
   output slices" is the identity map; neurons are idealised by the rate
   simulation of the tie. *)
From Coq Require Import List Bool Arith.
From NSpa Require Import Model.IdEnsArray Theory.IdEnsArrayLaws.
Import ListNotations.

Theorem C16_identity_array_covers_every_dimension_once_in_order :
  forall d sub, 0 < sub -> d mod sub = 0 -> 0 < d -> covered (parts d sub) = seq 0 d.
Proof. exact parts_cover_every_dimension_once_in_order. Qed.
Print Assumptions C16_identity_array_covers_every_dimension_once_in_order.

Theorem C16_plain_array_covers_every_dimension_once_in_order :
  forall d sub, 0 < sub -> d mod sub = 0 -> covered (plain_parts d sub) = seq 0 d.
Proof. exact plain_parts_cover_every_dimension_once_in_order. Qed.
Print Assumptions C16_plain_array_covers_every_dimension_once_in_order.

Theorem C16_neuron_slices_cover_every_neuron_once_in_order :
  forall npd d sub, 0 < sub -> d mod sub = 0 -> 0 < d ->
    covered (neuron_slices npd (parts d sub) 0) = seq 0 (npd * d).
Proof. exact neuron_slices_cover_every_neuron_once_in_order. Qed.
Print Assumptions C16_neuron_slices_cover_every_neuron_once_in_order.

Theorem C16_function_outputs_are_concatenated_in_dimension_order :
  forall f ps off,
    covered (out_slices f ps off) = seq off (fold_right (fun p acc => f (p_size p) + acc) 0 ps).
Proof. exact out_slices_cover. Qed.
Print Assumptions C16_function_outputs_are_concatenated_in_dimension_order.

Theorem C16_state_rejects_non_divisible_dimensionality :
  forall d sub, state_accepts d sub = false <-> (sub = 0 \/ d mod sub <> 0).
Proof. exact state_rejects_non_divisible. Qed.
Print Assumptions C16_state_rejects_non_divisible_dimensionality.

Example C16_example : parts 12 4 = [Part 0 1; Part 1 3; Part 4 4; Part 8 4].
Proof. reflexivity. Qed.

(* C16 - State represents every dimension; neuron-level access covers each
   neuron once.  Statements only.  With ideal neurons an ensemble outputs what
   it represents, so "slices partition [0,d) in order with matching input and
   output slices" is the identity map; neurons are idealised by the rate
   simulation of the tie. *)
From Coq Require Import List Bool Arith.
From NSpa Require Import Model.IdEnsArray Theory.IdEnsArrayLaws.
Import ListNotations.

Theorem C16_identity_array_covers_every_dimension_once_in_order :
  forall d sub, 0 < sub -> d mod sub = 0 -> 0 < d -> covered (parts d sub) = seq 0 d.
Proof. exact parts_cover_every_dimension_once_in_order. Qed.
Print Assumptions C16_identity_array_covers_every_dimension_once_in_order.

Theorem C16_plain_array_covers_every_dimension_once_in_order :
  forall d sub, 0 < sub -> d mod sub = 0 -> covered (plain_parts d sub) = seq 0 d.
Proof. exact plain_parts_cover_every_dimension_once_in_order. Qed.
Print Assumptions C16_plain_array_covers_every_dimension_once_in_order.

Theorem C16_neuron_slices_cover_every_neuron_once_in_order :
  forall npd d sub, 0 < sub -> d mod sub = 0 -> 0 < d ->
    covered (neuron_slices npd (parts d sub) 0) = seq 0 (npd * d).
Proof. exact neuron_slices_cover_every_neuron_once_in_order. Qed.
Print Assumptions C16_neuron_slices_cover_every_neuron_once_in_order.

Theorem C16_function_outputs_are_concatenated_in_dimension_order :
  forall f ps off,
    covered (out_slices f ps off) = seq off (fold_right (fun p acc => f (p_size p) + acc) 0 ps).
Proof. exact out_slices_cover. Qed.
Print Assumptions C16_function_outputs_are_concatenated_in_dimension_order.

Theorem C16_state_rejects_non_divisible_dimensionality :
  forall d sub, state_accepts d sub = false <-> (sub = 0 \/ d mod sub <> 0).
Proof. exact state_rejects_non_divisible. Qed.
Print Assumptions C16_state_rejects_non_divisible_dimensionality.

Example C16_example : parts 12 4 = [Part 0 1; Part 1 3; Part 4 4; Part 8 4].
Proof. reflexivity. Qed.

(* ---- feedback: the value is held for every number of steps --------------------------------------
   Model/StateDyn.v: out_t = e_t + filt_t, filt_{t+1} = a filt_t + (1 - a) f out_t (lowpass synapse
   with coefficient a = exp(-dt/tau), feedback gain f, ideal neurons). *)
From mathcomp Require Import all_ssreflect all_algebra.
From NSpa Require Import Model.Vec Model.StateDyn Theory.StateDynLaws.
Import GRing.Theory.
Local Open Scope ring_scope.

Theorem C16_feedback_one_holds_the_value_for_every_number_of_steps :
  forall (R : comRingType) (a : R) (filt : seq R) n, sd_after a 1 filt (size filt) n = filt.
Proof. by move=> *; exact: feedback_one_holds. Qed.
Print Assumptions C16_feedback_one_holds_the_value_for_every_number_of_steps.

Theorem C16_after_the_input_ends_the_output_decays_geometrically :
  forall (R : comRingType) (a f : R) (filt : seq R) n,
    sd_after a f filt (size filt) n = vscale ((a + (1 - a) * f) ^+ n) filt.
Proof. by move=> *; exact: after_input_ends_output_decays_geometrically. Qed.
Print Assumptions C16_after_the_input_ends_the_output_decays_geometrically.

Theorem C16_feedback_zero_remembers_nothing :
  forall (R : comRingType) (a : R) d (es : seq (seq R)),
    all (fun e => size e == d) es -> sd_run a 0 (vzero R d) es = vzero R d.
Proof. by move=> *; exact: feedback_zero_from_rest_stays_at_rest. Qed.
Print Assumptions C16_feedback_zero_remembers_nothing.

Theorem C16_feedback_one_integrates_its_input :
  forall (R : comRingType) (a : R) (filt e : seq R),
    size e = size filt -> sd_next a 1 filt e = vadd filt (vscale (1 - a) e).
Proof. by move=> *; exact: feedback_one_integrates. Qed.
Print Assumptions C16_feedback_one_integrates_its_input.

From mathcomp Require Import ssrZ.
From Coq Require Import ZArith.
Example C16_feedback_example :
  sd_after (R := [comRingType of Z]) 3%Z 1%Z [:: 5; -2; 0]%Z 3 40 = [:: 5; -2; 0]%Z /\
  sd_after (R := [comRingType of Z]) 3%Z 2%Z [:: 5; -2; 0]%Z 3 1 = [:: -5; 2; 0]%Z.
Proof. by vm_compute. Qed.
Print Assumptions C16_feedback_example.

(* C19 - Vector generators deliver vectors with their advertised properties.
   Statements only.  The generators output floating-point draws; what can be
   proved once and for all is the logic around the draws: the orthogonalisation
   step from the solver's post-condition, the axis vectors, the create_vector
   decision table, and (C12) that a unitary vector has the advertised effect.
   Every yielded vector is relation-checked inside Coq by the tie. *)
From mathcomp Require Import all_ssreflect all_algebra.
From NSpa Require Import Model.Vec Model.Algebra Model.VecGen Theory.SeqSum Theory.VecGenLaws.
Import GRing.Theory.
Local Open Scope ring_scope.

Theorem C19_orthonormal_step_is_orthogonal_to_all_earlier_vectors :
  forall (R : comRingType) i (vs : seq (seq R)) v x k,
    (k < size vs)%N -> (i <= size (nth [::] vs k))%N -> size x = i ->
    vnth (matvec (ortho_A i vs) x) k = vnth (ortho_y i vs v) k ->
    dot (nth [::] vs k) (ortho_new i x v) = 0.
Proof. by move=> *; exact: ortho_new_is_orthogonal. Qed.
Print Assumptions C19_orthonormal_step_is_orthogonal_to_all_earlier_vectors.

Theorem C19_normalisation_keeps_orthogonality :
  forall (R : comRingType) (c : R) u v, dot u v = 0 -> dot u (vscale c v) = 0.
Proof. by move=> *; exact: scale_keeps_orthogonal. Qed.
Print Assumptions C19_normalisation_keeps_orthogonality.

Theorem C19_axis_aligned_vectors_in_order :
  forall (R : comRingType) d k, (k < d)%N -> nth [::] (axis_vectors R d) k = vbasis R d k.
Proof. by move=> *; exact: axis_vectors_in_order. Qed.
Print Assumptions C19_axis_aligned_vectors_in_order.

Theorem C19_axis_aligned_vectors_exhaust_after_d :
  forall (R : comRingType) d, size (axis_vectors R d) = d.
Proof. by move=> *; exact: axis_vectors_count. Qed.
Print Assumptions C19_axis_aligned_vectors_exhaust_after_d.

Theorem C19_unknown_properties_are_rejected :
  forall al scipy props, has PUnknown props ->
    create_vector_outcome al scipy props = CVValueError \/
    create_vector_outcome al scipy props = CVImportError.
Proof. exact: unknown_property_rejected. Qed.
Print Assumptions C19_unknown_properties_are_rejected.

Theorem C19_hrr_unknown_property_is_value_error :
  forall scipy props, has PUnknown props -> create_vector_outcome AHrr scipy props = CVValueError.
Proof. exact: hrr_unknown_property_is_value_error. Qed.
Print Assumptions C19_hrr_unknown_property_is_value_error.

Theorem C19_square_algebras_positive_unitary_is_the_identity :
  forall al scipy props, al <> AHrr -> has PUnitary props -> has PPositive props -> ~~ has PUnknown props ->
    create_vector_outcome al scipy props = CVIdentityWithWarning.
Proof. exact: square_algebras_positive_unitary_is_identity. Qed.
Print Assumptions C19_square_algebras_positive_unitary_is_the_identity.

(* -- equally spaced positive unitary HRR vectors, in the Fourier domain, for every d and n -- *)
From NSpa Require Import Model.Hrr Theory.Conv Theory.ElemLaws Theory.PowerLaws Theory.Fourier Theory.EquallySpaced.

Section C19EquallySpaced.
Variables (R C : comRingType) (iota : {rmorphism R -> C}) (p : nat) (w : C).
Local Notation d := p.+1.
Hypothesis w_d : w ^+ d = 1.
Hypothesis orth : forall j : 'I_d, j != 0 -> \sum_k chi w k j = 0.
Hypothesis d_reg : GRing.lreg (d%:R : C).
Hypothesis iota_inj : injective iota.
Variables (v : nat -> seq R) (s : seq R) (o r : 'I_d -> C).
Hypothesis size_v : forall j, size (v j) = d.
Hypothesis size_s : size s = d.
Hypothesis spec_v : forall j k, spectrum iota w (v j) k = o k * r k ^+ j.
Hypothesis spec_s : forall k, spectrum iota w s k = r k.

Theorem C19_equally_spaced_next_is_previous_bound_with_one_fixed_step :
  forall j, v j.+1 = hrr_bind_core (v j) s.
Proof. by move=> *; exact: (next_is_previous_bound_with_step w_d orth d_reg iota_inj size_v spec_v spec_s). Qed.

Theorem C19_equally_spaced_returns_to_the_first_after_n_steps :
  forall n j, (forall k, r k ^+ n = 1) -> v (j + n)%N = v j /\ hrr_pow_nat s n = hrr_identity R d.
Proof.
  move=> n j rn; split.
    exact: (returns_after_n_steps w_d orth d_reg iota_inj size_v spec_v).
  exact: (step_power_n_is_identity w_d orth d_reg iota_inj size_s spec_s).
Qed.

Theorem C19_equally_spaced_offset_zero_starts_at_the_identity :
  (forall k, o k = 1) -> v 0%N = hrr_identity R d.
Proof. exact: (offset_zero_starts_at_identity w_d orth d_reg iota_inj size_v spec_v). Qed.

Theorem C19_equally_spaced_vectors_are_unitary :
  forall j, (forall k, r k * r (- k) = 1) -> (forall k, o k * o (- k) = 1) ->
  hrr_bind_core (v j) (hrr_invert (v j)) = hrr_identity R d.
Proof. by move=> *; exact: (every_vector_is_unitary w_d orth d_reg iota_inj size_v spec_v). Qed.
End C19EquallySpaced.
Print Assumptions C19_equally_spaced_next_is_previous_bound_with_one_fixed_step.
Print Assumptions C19_equally_spaced_returns_to_the_first_after_n_steps.
Print Assumptions C19_equally_spaced_offset_zero_starts_at_the_identity.
Print Assumptions C19_equally_spaced_vectors_are_unitary.

(* the hypotheses are met: d = 2 over the integers, w = -1, the two vectors (1,0), (0,1),
   step (0,1) with spectrum (1,-1), n = 2 *)
Example C19_equally_spaced_hypotheses_met :
  let w : int := -1 in
  let v := fun j : nat => if odd j then [:: 0; 1] else [:: 1; 0] : seq int in
  let s := [:: 0; 1] : seq int in
  let r := fun k : 'I_2 => if k == 0 then 1 else -1 : int in
  [/\ w ^+ 2 = 1, (forall j : 'I_2, j != 0 -> \sum_k chi w k j = 0) & GRing.lreg (2%:R : int)] /\
  [/\ (forall j k, spectrum [rmorphism of idfun] w (v j) k = 1 * r k ^+ j),
      (forall k, spectrum [rmorphism of idfun] w s k = r k) & (forall k, r k ^+ 2 = 1)].
Proof.
  split; split=> //.
  - by move=> j; rewrite !big_ord_recl big_ord0 /chi /=; case: j => [[|[|m]]] //=.
  - by apply/lregP.
  - move=> j k; rewrite /spectrum /dft !big_ord_recl big_ord0 /chi /= mul1r.
    case: k => [[|[|m]]] //= _; case oj: (odd j) => /=; rewrite ?muln0 ?muln1 ?expr0 ?expr1 ?expr1n //=.
    + by rewrite -signr_odd oj.
    + by rewrite -signr_odd oj.
  - by move=> k; rewrite /spectrum /dft !big_ord_recl big_ord0 /chi /=; case: k => [[|[|m]]].
  - by move=> k; case: k => [[|[|m]]].
Qed.
Print Assumptions C19_equally_spaced_hypotheses_met.

From mathcomp Require Import ssrZ.
From Coq Require Import ZArith.
(* non-vacuity of the orthogonalisation step: one earlier vector (1,1,0), draw (2,3,4), solved prefix x = (-3) *)
Example C19_hypotheses_met :
  let vs := [:: [:: 1; 1; 0]%Z] in let v := [:: 2; 3; 4]%Z in let x := [:: -3]%Z in
  [/\ vnth (matvec (ortho_A 1 vs) x) 0 = vnth (ortho_y 1 vs v) 0,
      ortho_new 1 x v = [:: -3; 3; 4]%Z & dot (nth [::] vs 0) (ortho_new 1 x v) = 0%Z].
Proof. by vm_compute. Qed.
Example C19_property_sets :
  [/\ create_vector_outcome AVtb false [:: PUnitary; PPositive] = CVIdentityWithWarning,
      create_vector_outcome AHrr false [:: PUnitary; PUnknown] = CVValueError
    & has PUnknown [:: PUnitary; PUnknown]].
Proof. by vm_compute. Qed.

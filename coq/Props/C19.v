(* C19 - Vector generators deliver vectors with their advertised properties.
   Statements only.  The generators output floating-point draws; what can be
   proved once and for all is the logic around the draws: the orthogonalisation
   step from the solver's post-condition, the axis vectors, the create_vector
   decision table, and (C12) that a unitary vector has the advertised effect.
   Every yielded vector is relation-checked inside Coq by the tie. *)
From mathcomp Require Import all_ssreflect all_algebra.
From NSpa Require Import Model.Vec Model.Algebra Model.VecGen Theory.SeqSum Theory.VecGenLaws.
Import GRing.Theory.
Local Open Scope ring_scope.

Theorem C19_orthonormal_step_is_orthogonal_to_all_earlier_vectors :
  forall (R : comRingType) i (vs : seq (seq R)) v x k,
    (k < size vs)%N -> (i <= size (nth [::] vs k))%N -> size x = i ->
    vnth (matvec (ortho_A i vs) x) k = vnth (ortho_y i vs v) k ->
    dot (nth [::] vs k) (ortho_new i x v) = 0.
Proof. by move=> *; exact: ortho_new_is_orthogonal. Qed.
Print Assumptions C19_orthonormal_step_is_orthogonal_to_all_earlier_vectors.

Theorem C19_normalisation_keeps_orthogonality :
  forall (R : comRingType) (c : R) u v, dot u v = 0 -> dot u (vscale c v) = 0.
Proof. by move=> *; exact: scale_keeps_orthogonal. Qed.
Print Assumptions C19_normalisation_keeps_orthogonality.

Theorem C19_axis_aligned_vectors_in_order :
  forall (R : comRingType) d k, (k < d)%N -> nth [::] (axis_vectors R d) k = vbasis R d k.
Proof. by move=> *; exact: axis_vectors_in_order. Qed.
Print Assumptions C19_axis_aligned_vectors_in_order.

Theorem C19_axis_aligned_vectors_exhaust_after_d :
  forall (R : comRingType) d, size (axis_vectors R d) = d.
Proof. by move=> *; exact: axis_vectors_count. Qed.
Print Assumptions C19_axis_aligned_vectors_exhaust_after_d.

Theorem C19_unknown_properties_are_rejected :
  forall al scipy props, has PUnknown props ->
    create_vector_outcome al scipy props = CVValueError \/
    create_vector_outcome al scipy props = CVImportError.
Proof. exact: unknown_property_rejected. Qed.
Print Assumptions C19_unknown_properties_are_rejected.

Theorem C19_hrr_unknown_property_is_value_error :
  forall scipy props, has PUnknown props -> create_vector_outcome AHrr scipy props = CVValueError.
Proof. exact: hrr_unknown_property_is_value_error. Qed.
Print Assumptions C19_hrr_unknown_property_is_value_error.

Theorem C19_square_algebras_positive_unitary_is_the_identity :
  forall al scipy props, al <> AHrr -> has PUnitary props -> has PPositive props -> ~~ has PUnknown props ->
    create_vector_outcome al scipy props = CVIdentityWithWarning.
Proof. exact: square_algebras_positive_unitary_is_identity. Qed.
Print Assumptions C19_square_algebras_positive_unitary_is_the_identity.

From mathcomp Require Import ssrZ.
From Coq Require Import ZArith.
(* non-vacuity of the orthogonalisation step: one earlier vector (1,1,0), draw (2,3,4), solved prefix x = (-3) *)
Example C19_hypotheses_met :
  let vs := [:: [:: 1; 1; 0]%Z] in let v := [:: 2; 3; 4]%Z in let x := [:: -3]%Z in
  [/\ vnth (matvec (ortho_A 1 vs) x) 0 = vnth (ortho_y 1 vs v) 0,
      ortho_new 1 x v = [:: -3; 3; 4]%Z & dot (nth [::] vs 0) (ortho_new 1 x v) = 0%Z].
Proof. by vm_compute. Qed.
Example C19_property_sets :
  [/\ create_vector_outcome AVtb false [:: PUnitary; PPositive] = CVIdentityWithWarning,
      create_vector_outcome AHrr false [:: PUnitary; PUnknown] = CVValueError
    & has PUnknown [:: PUnitary; PUnknown]].
Proof. by vm_compute. Qed.

(* C11 - Type coercion returns the least upper bound of a partial order.
   Only statements; every proof is [exact <lemma from Theory>]. *)
From Coq Require Import List Bool Arith Permutation.
From NSpa Require Import Model.Types Theory.TypesLaws.
Import ListNotations.

(* the partial order: for every assignment of dimensionalities to
   vocabulary objects, any number of vocabularies and dimensionalities *)
Theorem C11_le_reflexive : forall dim a, ty_le dim a a = true.
Proof. exact le_refl. Qed.
Print Assumptions C11_le_reflexive.

Theorem C11_le_antisymmetric :
  forall dim a b, ty_le dim a b = true -> ty_le dim b a = true -> a = b.
Proof. exact le_antisym. Qed.
Print Assumptions C11_le_antisymmetric.

Theorem C11_le_transitive :
  forall dim a b c,
    ty_le dim a b = true -> ty_le dim b c = true -> ty_le dim a c = true.
Proof. exact le_trans. Qed.
Print Assumptions C11_le_transitive.

(* exactly the documented chains, no other relations *)
Theorem C11_order_is_documented_chains :
  forall dim a b, ty_le dim a b = true <->
    (a = b \/
     match a, b with
     | TScalar, (TAny | TAnyDim _ | TVoc _) => True
     | TAny, (TAnyDim _ | TVoc _) => True
     | TAnyDim d, TVoc i => d = dim i
     | _, _ => False
     end).
Proof. exact le_correct. Qed.
Print Assumptions C11_order_is_documented_chains.

(* all six comparison operators are consistent with that one order *)
Theorem C11_gt_is_strict_part :
  forall dim a b, ty_gt dim a b = true <-> (le_spec dim b a /\ b <> a).
Proof. exact gt_correct. Qed.
Print Assumptions C11_gt_is_strict_part.

Theorem C11_lt_is_strict_part :
  forall dim a b, ty_lt dim a b = true <-> (le_spec dim a b /\ a <> b).
Proof. exact lt_correct. Qed.
Print Assumptions C11_lt_is_strict_part.

Theorem C11_ge_is_converse :
  forall dim a b, ty_ge dim a b = true <-> le_spec dim b a.
Proof. exact ge_correct. Qed.
Print Assumptions C11_ge_is_converse.

(* coercion = the unique member all others can be cast to *)
Theorem C11_coerce_returns_greatest_member :
  forall dim l t,
    coerce_types dim l = COk t <->
    (In t l /\ forall x, In x l -> le_spec dim x t).
Proof. exact coerce_ok_iff. Qed.
Print Assumptions C11_coerce_returns_greatest_member.

Theorem C11_greatest_member_unique :
  forall dim l t u, greatest dim t l -> greatest dim u l -> t = u.
Proof. exact greatest_unique. Qed.
Print Assumptions C11_greatest_member_unique.

Theorem C11_coerce_error_iff_no_such_member :
  forall dim l, l <> [] ->
    ((exists r, coerce_types dim l = CTypeError r) <->
     ~ exists t, greatest dim t l).
Proof. exact coerce_error_iff. Qed.
Print Assumptions C11_coerce_error_iff_no_such_member.

Theorem C11_coerce_independent_of_order_and_repetition :
  forall dim l l',
    (forall x, In x l <-> In x l') -> l <> [] ->
    match coerce_types dim l with
    | COk t => coerce_types dim l' = COk t
    | CTypeError _ => exists r, coerce_types dim l' = CTypeError r
    | CValueError => False
    end.
Proof. exact coerce_set_invariant. Qed.
Print Assumptions C11_coerce_independent_of_order_and_repetition.

Theorem C11_coerce_permutation_invariant :
  forall dim l l', Permutation l l' -> l <> [] ->
    match coerce_types dim l with
    | COk t => coerce_types dim l' = COk t
    | CTypeError _ => exists r, coerce_types dim l' = CTypeError r
    | CValueError => False
    end.
Proof. exact coerce_permutation. Qed.
Print Assumptions C11_coerce_permutation_invariant.

Theorem C11_error_reason_names_a_real_conflict :
  forall dim l r,
    coerce_types dim l = CTypeError r ->
    exists o t, In o l /\ In t l /\ ~ le_spec dim o t /\
      match r with
      | DifferentVocabularies =>
          exists i j, o = TVoc i /\ t = TVoc j /\ i <> j
      | DimensionalityMismatch =>
          exists d e, has_dims dim o = Some d /\ has_dims dim t = Some e /\ d <> e
      | IncompatibleTypes => True
      end.
Proof. exact coerce_reason_sound. Qed.
Print Assumptions C11_error_reason_names_a_real_conflict.

Theorem C11_equal_types_hash_equally :
  forall a b, ty_eqb a b = true -> ty_hash a = ty_hash b.
Proof. exact eq_hash. Qed.
Print Assumptions C11_equal_types_hash_equally.

Theorem C11_vocabulary_types_equal_iff_identical_object :
  forall i j, ty_eqb (TVoc i) (TVoc j) = true <-> i = j.
Proof. exact voc_eq_iff_identical. Qed.
Print Assumptions C11_vocabulary_types_equal_iff_identical_object.

(* non-vacuity: the documented chain scalar < any < any-of-16 < vocabulary 0 (16-d); incomparable pairs; a coercion *)
Example C11_hypotheses_met :
  let dim := fun i => if Nat.eqb i 2 then 32 else 16 in
  ty_le dim TScalar TAny = true /\ ty_le dim TAny (TAnyDim 16) = true /\ ty_le dim (TAnyDim 16) (TVoc 0) = true /\
  ty_le dim (TVoc 0) (TVoc 1) = false /\ ty_le dim (TAnyDim 16) (TVoc 2) = false /\
  coerce_types dim [TScalar; TVoc 1; TAnyDim 16] = COk (TVoc 1) /\
  coerce_types dim [TVoc 0; TVoc 1] = CTypeError DifferentVocabularies.
Proof. vm_compute. repeat split; reflexivity. Qed.

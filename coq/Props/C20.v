(* C20 - similarity, text and pairs.  Statements only.
   similarity's entries are by definition the dot products <data_t, vec_i> in
   vocabulary order (Model/Examine.v similarity) or the cosine with 0 for a zero
   row (cos_entry); the tie compares them for all input forms. *)
From Coq Require Import List Bool Arith ZArith String Permutation.
From NSpa Require Import Model.Examine Theory.ExamineLaws.
Import ListNotations.

Theorem C20_text_is_a_prefix_of_the_descending_sort_and_omits_nothing_more_similar :
  forall mn mx th ms,
    exists rest, sort_desc ms = text_terms mn mx th ms ++ rest /\
      forall listed omitted, In listed (text_terms mn mx th ms) -> In omitted rest ->
        (fst omitted <= fst listed)%Z.
Proof. exact text_terms_prefix. Qed.
Print Assumptions C20_text_is_a_prefix_of_the_descending_sort_and_omits_nothing_more_similar.

Theorem C20_text_lists_in_non_increasing_similarity :
  forall l, Sorted.StronglySorted simge (sort_desc l).
Proof. exact sort_desc_sorted. Qed.
Print Assumptions C20_text_lists_in_non_increasing_similarity.

Theorem C20_sort_keeps_exactly_the_terms :
  forall l, Permutation l (sort_desc l).
Proof. exact sort_desc_perm. Qed.
Print Assumptions C20_sort_keeps_exactly_the_terms.

Theorem C20_text_lists_only_given_terms :
  forall mn mx th ms m, In m (text_terms mn mx th ms) -> In m ms.
Proof. exact text_terms_are_terms. Qed.
Print Assumptions C20_text_lists_only_given_terms.

Theorem C20_text_at_least_minimum_when_that_many_exist :
  forall k mx th ms, Nat.min k (List.length ms) <= List.length (text_terms (Some k) mx th ms).
Proof. exact text_minimum. Qed.
Print Assumptions C20_text_at_least_minimum_when_that_many_exist.

Theorem C20_text_never_more_than_maximum :
  forall mn k th ms, (match mn with Some j => j <= k | None => True end) ->
    List.length (text_terms mn (Some k) th ms) <= k.
Proof. exact text_maximum. Qed.
Print Assumptions C20_text_never_more_than_maximum.

Theorem C20_text_beyond_minimum_only_above_threshold :
  forall mn mx t ms i m, nth_error (text_terms mn mx (Some t) ms) i = Some m ->
    (match mn with Some k => k <= i | None => True end) -> (t < fst m)%Z.
Proof. exact text_beyond_minimum_above_threshold. Qed.
Print Assumptions C20_text_beyond_minimum_only_above_threshold.

Theorem C20_pairs_count :
  forall keys, 2 * List.length (pairs keys) = List.length keys * (List.length keys - 1).
Proof. exact pairs_count. Qed.
Print Assumptions C20_pairs_count.

Theorem C20_pairs_are_unordered_pairs_of_distinct_positions :
  forall keys x y, In (x, y) (pairs keys) -> exists a b c, keys = a ++ x :: b ++ y :: c.
Proof. exact pairs_are_ordered_pairs. Qed.
Print Assumptions C20_pairs_are_unordered_pairs_of_distinct_positions.

(* ... and every two keys at distinct positions are listed: exactly the unordered pairs *)
Theorem C20_pairs_are_exactly_the_pairs_of_distinct_positions :
  forall keys x y, In (x, y) (pairs keys) <-> exists a b c, keys = a ++ x :: b ++ y :: c.
Proof. exact pairs_exactly. Qed.
Print Assumptions C20_pairs_are_exactly_the_pairs_of_distinct_positions.

Example C20_example_format : fmt2 5%Z 3 = "0.62"%string /\ fmt2 (-1)%Z 10 = "-0.00"%string /\ fmt2 1234%Z 2 = "308.50"%string.
Proof. repeat split; reflexivity. Qed.

(* C12 - Unitary vectors preserve length; binding powers equal repeated
   binding.  Statements only; proofs are [exact: <lemma>].

   Not theorems here (relation-checked by the tie on the implementation's exact
   outputs): that make_unitary returns a unitary vector and is idempotent (HRR:
   needs a Fourier layer over R[i]; VTB/TVTB: the row-orthogonalisation with
   np.linalg.solve), and the HRR fractional-exponent law. *)
From mathcomp Require Import all_ssreflect all_algebra.
From NSpa Require Import Model.Vec Model.Hrr Model.Vtb Model.Power
  Theory.SeqSum Theory.Conv Theory.MxBridge Theory.VtbLaws Theory.ElemLaws Theory.PowerLaws Theory.Fourier.
Import GRing.Theory.
Local Open Scope ring_scope.

Theorem C12_hrr_power_zero_is_identity :
  forall (R : comRingType) (v : seq R), hrr_pow_nat v 0 = hrr_identity R (size v).
Proof. exact: hrr_pow0. Qed.
Print Assumptions C12_hrr_power_zero_is_identity.

Theorem C12_hrr_power_one :
  forall (R : comRingType) (v : seq R), hrr_pow_nat v 1 = v.
Proof. exact: hrr_pow1. Qed.
Print Assumptions C12_hrr_power_one.

Theorem C12_hrr_power_is_left_nested_binding :
  forall (R : comRingType) (v : seq R) n, hrr_pow_nat v n.+1 = hrr_nested v n.
Proof. exact: hrr_pow_nested. Qed.
Print Assumptions C12_hrr_power_is_left_nested_binding.

Theorem C12_hrr_exponents_add :
  forall (R : comRingType) (v : seq R) m n, hrr_pow_nat v (m + n) = hrr_bind_core (hrr_pow_nat v m) (hrr_pow_nat v n).
Proof. exact: hrr_pow_add. Qed.
Print Assumptions C12_hrr_exponents_add.

Theorem C12_hrr_negative_power_is_power_of_inverse :
  forall (R : realDomainType) (v : seq R) n, hrr_power v true n = hrr_pow_nat (hrr_invert v) n.
Proof. exact: hrr_power_neg. Qed.
Print Assumptions C12_hrr_negative_power_is_power_of_inverse.

Theorem C12_hrr_unitary_preserves_dot_products :
  forall (R : comRingType) (u x y : seq R), hrr_unitary u -> size x = size u -> size y = size u -> dot (hrr_bind_core x u) (hrr_bind_core y u) = dot x y.
Proof. exact: hrr_unitary_isometry. Qed.
Print Assumptions C12_hrr_unitary_preserves_dot_products.

Theorem C12_tvtb_power_core_is_matrix_power :
  forall (R : comRingType) p (v : seq R) n, mx_of p.+1 (flatten_m (matpow p.+1 (reshape p.+1 v) n)) = (mx_of p.+1 v) ^+ n.
Proof. exact: tvtb_power_mx. Qed.
Print Assumptions C12_tvtb_power_core_is_matrix_power.

Theorem C12_tvtb_exponents_add :
  forall (R : comRingType) p (v : seq R) m n, (mx_of p.+1 v) ^+ (m + n) = (mx_of p.+1 v) ^+ m *m (mx_of p.+1 v) ^+ n.
Proof. exact: tvtb_power_add. Qed.
Print Assumptions C12_tvtb_exponents_add.

Theorem C12_tvtb_power_is_left_nested_binding :
  forall (R : comRingType) p (v : seq R) n, size v = (p.+1 * p.+1)%N -> mx_of p.+1 (tvtb_nested p.+1 v n) = (mx_of p.+1 v) ^+ n.+1.
Proof. exact: tvtb_nested_mx. Qed.
Print Assumptions C12_tvtb_power_is_left_nested_binding.

Theorem C12_vtb_left_nested_binding :
  forall (R : comRingType) p (v : seq R) n, size v = (p.+1 * p.+1)%N -> mx_of p.+1 (vtb_nested p.+1 v n) = mx_of p.+1 v *m ((mx_of p.+1 v)^T) ^+ n.
Proof. exact: vtb_nested_mx. Qed.
Print Assumptions C12_vtb_left_nested_binding.

Theorem C12_vtb_power_is_left_nested_binding :
  forall (R : comRingType) p (v : seq R) n, size v = (p.+1 * p.+1)%N -> mx_of p.+1 (vtb_core p.+1 v (flatten_m (matpow p.+1 (reshape p.+1 v) n))) = mx_of p.+1 (vtb_nested p.+1 v n).
Proof. exact: vtb_power_core_mx. Qed.
Print Assumptions C12_vtb_power_is_left_nested_binding.

Theorem C12_vtb_unitary_preserves_dot_products :
  forall (R : comRingType) s (v x y : seq R), vtb_unitary s v -> size x = (s * s)%N -> size y = (s * s)%N -> s%:R * dot (vtb_core s x v) (vtb_core s y v) = dot x y.
Proof. exact: vtb_unitary_isometry. Qed.
Print Assumptions C12_vtb_unitary_preserves_dot_products.

Theorem C12_tvtb_unitary_preserves_dot_products_right :
  forall (R : comRingType) s (v x y : seq R), tvtb_unitary_r s v -> size x = (s * s)%N -> size y = (s * s)%N -> s%:R * dot (tvtb_core s x v) (tvtb_core s y v) = dot x y.
Proof. exact: tvtb_unitary_isometry_right. Qed.
Print Assumptions C12_tvtb_unitary_preserves_dot_products_right.

Theorem C12_tvtb_unitary_preserves_dot_products_left :
  forall (R : comRingType) s (v x y : seq R), tvtb_unitary_l s v -> size v = (s * s)%N -> size x = (s * s)%N -> s%:R * dot (tvtb_core s v x) (tvtb_core s v y) = dot x y.
Proof. exact: tvtb_unitary_isometry_left. Qed.
Print Assumptions C12_tvtb_unitary_preserves_dot_products_left.

Theorem C12_hrr_unitary_inverse_undoes_binding :
  forall (R : comRingType) (v : seq R), hrr_unitary v <-> (forall a, size a = size v -> hrr_bind_core (hrr_bind_core a v) (hrr_invert v) = a).
Proof. exact: hrr_unbind_right_iff. Qed.
Print Assumptions C12_hrr_unitary_inverse_undoes_binding.

From mathcomp Require Import ssrZ.
From Coq Require Import ZArith.
Example C12_example_vtb_power :
  vtb_power [:: 1; 2; 3; 4]%Z false 3 = Ok (Scaled [:: 27; 59; 61; 133]%Z 4 1).
Proof. by vm_compute. Qed.
(* ---------------- HRR powers and unitarity in the Fourier domain ------------------------------ *)
(* C, w as in C02: any commutative ring with w^d = 1 into which R embeds.  binding_power computes
   irfft(rfft(v) ** exponent): for a natural exponent that spectrum is the spectrum of the n-fold
   binding, and (C02) the spectrum determines the vector. *)
Theorem C12_hrr_power_raises_each_spectral_coefficient :
  forall (R C : comRingType) (iota : {rmorphism R -> C}) p (w : C),
    w ^+ p.+1 = 1 ->
    forall (a : seq R) n (k : 'I_p.+1), size a = p.+1 ->
    spectrum iota w (hrr_pow_nat a n) k = spectrum iota w a k ^+ n.
Proof. first [exact: spectrum_pow | by move=> *; exact: spectrum_pow | by intros; eapply spectrum_pow; eauto]. Qed.
Print Assumptions C12_hrr_power_raises_each_spectral_coefficient.

Theorem C12_hrr_unitary_has_unit_modulus_spectrum :
  forall (R C : comRingType) (iota : {rmorphism R -> C}) p (w : C),
    w ^+ p.+1 = 1 ->
    forall (a : seq R) (k : 'I_p.+1), size a = p.+1 ->
    hrr_bind_core a (hrr_invert a) = hrr_identity R p.+1 ->
    spectrum iota w a k * spectrum iota w a (- k) = 1.
Proof. first [exact: spectrum_unitary | by move=> *; exact: spectrum_unitary | by intros; eapply spectrum_unitary; eauto]. Qed.
Print Assumptions C12_hrr_unitary_has_unit_modulus_spectrum.

(* make_unitary divides every Fourier coefficient by its modulus; fractional powers raise every
   coefficient to the exponent.  Whatever real vectors have those spectra behave as the property says,
   for every d (C a field with orthogonal characters, d invertible - e.g. the complex numbers). *)
From NSpa Require Import Theory.EquallySpaced Theory.FourierMore.
Theorem C12_hrr_make_unitary_yields_a_unitary_vector :
  forall (R : comRingType) (C : fieldType) (iota : {rmorphism R -> C}) p (w : C),
    w ^+ p.+1 = 1 -> (forall j : 'I_p.+1, j != 0 -> \sum_k chi w k j = 0) -> GRing.lreg (p.+1%:R : C) ->
    injective iota ->
    forall (a u : seq R) (m : 'I_p.+1 -> C), size a = p.+1 -> size u = p.+1 ->
    (forall k, m k != 0) -> (forall k, m k * m (- k) = spectrum iota w a k * spectrum iota w a (- k)) ->
    (forall k, spectrum iota w u k = spectrum iota w a k / m k) ->
    hrr_bind_core u (hrr_invert u) = hrr_identity R p.+1.
Proof. move=> R C iota p w wd orth dreg inj a u m sa su m0 mm H; exact: (normalised_spectrum_is_unitary wd orth dreg inj sa su m0 mm H). Qed.
Print Assumptions C12_hrr_make_unitary_yields_a_unitary_vector.

Theorem C12_hrr_make_unitary_is_idempotent :
  forall (R : comRingType) (C : fieldType) (iota : {rmorphism R -> C}) p (w : C),
    w ^+ p.+1 = 1 -> (forall j : 'I_p.+1, j != 0 -> \sum_k chi w k j = 0) -> GRing.lreg (p.+1%:R : C) ->
    injective iota ->
    forall (u u' : seq R) (m : 'I_p.+1 -> C), size u = p.+1 -> size u' = p.+1 -> (forall k, m k = 1) ->
    (forall k, spectrum iota w u' k = spectrum iota w u k / m k) -> u' = u.
Proof. move=> R C iota p w wd orth dreg inj u u' m su su' m1 H; exact: (normalising_twice_changes_nothing wd orth dreg inj su su' m1 H). Qed.
Print Assumptions C12_hrr_make_unitary_is_idempotent.

Theorem C12_hrr_real_exponents_add_under_binding :
  forall (R : comRingType) (C : fieldType) (iota : {rmorphism R -> C}) p (w : C),
    w ^+ p.+1 = 1 -> (forall j : 'I_p.+1, j != 0 -> \sum_k chi w k j = 0) -> GRing.lreg (p.+1%:R : C) ->
    injective iota ->
    forall (g : C -> 'I_p.+1 -> C) (ax ay axy : seq R) x y, size ax = p.+1 -> size axy = p.+1 ->
    (forall k, g (x + y) k = g x k * g y k) ->
    (forall k, spectrum iota w ax k = g x k) -> (forall k, spectrum iota w ay k = g y k) ->
    (forall k, spectrum iota w axy k = g (x + y) k) ->
    axy = hrr_bind_core ax ay.
Proof. move=> R C iota p w wd orth dreg inj g ax ay axy x y sx sxy gD hx hy hxy; exact: (spectral_powers_add wd orth dreg inj sx sxy gD hx hy hxy). Qed.
Print Assumptions C12_hrr_real_exponents_add_under_binding.

Theorem C12_hrr_unit_modulus_spectrum_inverse_undoes_binding :
  forall (R : comRingType) (C : fieldType) (iota : {rmorphism R -> C}) p (w : C),
    w ^+ p.+1 = 1 -> (forall j : 'I_p.+1, j != 0 -> \sum_k chi w k j = 0) -> GRing.lreg (p.+1%:R : C) ->
    injective iota ->
    forall (a u : seq R), size a = p.+1 -> size u = p.+1 ->
    (forall k : 'I_p.+1, spectrum iota w u k * spectrum iota w u (- k) = 1) ->
    hrr_bind_core (hrr_bind_core a u) (hrr_invert u) = a.
Proof. move=> R C iota p w wd orth dreg inj a u sa su uu; exact: (unitary_inverse_undoes_binding wd orth dreg inj sa su uu). Qed.
Print Assumptions C12_hrr_unit_modulus_spectrum_inverse_undoes_binding.

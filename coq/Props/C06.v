(* C06 - Symbolic expressions and pointer names mean what Python syntax says.
   Statements only.  Python's grammar for the operators that expression trees
   can hold is the relation D of Model/ExprTree.v (validated against CPython's
   parser by the tie on every printed string). *)
From Coq Require Import List Bool Arith String.
From NSpa Require Import Model.ExprTree Model.Symbolic Theory.ExprTreeLaws.
Import ListNotations.

(* the printer clause, for every tree *)
Theorem C06_printer_sound :
  forall t, D (prec t) (print t) t.
Proof. exact print_sound. Qed.
Print Assumptions C06_printer_sound.

(* history: upstream's rule (before the repair recorded in known_findings.json)
   was sound only away from left-nested ** ... *)
Theorem C06_upstream_printer_sound_partial :
  forall t, no_left_nested_pow t = true -> D (prec t) (print_upstream t) t.
Proof. exact print_upstream_sound. Qed.
Print Assumptions C06_upstream_printer_sound_partial.

(* ... where it printed (a ** b) ** c as the string Python reads as a ** (b ** c) *)
Theorem C06_upstream_printer_left_nested_pow_witness :
  let a := Leaf "a" in let b := Leaf "b" in let c := Leaf "c" in
  print_upstream (Bin BPow (Bin BPow a b) c) = [TName "a"; TBin BPow; TName "b"; TBin BPow; TName "c"]
  /\ D (blevel BPow) [TName "a"; TBin BPow; TName "b"; TBin BPow; TName "c"] (Bin BPow a (Bin BPow b c)).
Proof. exact left_nested_pow_misprinted. Qed.
Print Assumptions C06_upstream_printer_left_nested_pow_witness.

(* symbolic expressions: the tree built by the operators is the tree of the
   written operations with the same nesting, and it prints soundly *)
Theorem C06_symbolic_expression_builds_the_written_operations :
  forall e, unfold_parens e (tree_of e) = direct_tree e.
Proof. exact symbolic_tree_is_direct_tree. Qed.
Print Assumptions C06_symbolic_expression_builds_the_written_operations.

Theorem C06_symbolic_expression_prints_soundly :
  forall e, D (prec (tree_of e)) (print (tree_of e)) (tree_of e).
Proof. exact symbolic_expression_prints_soundly. Qed.
Print Assumptions C06_symbolic_expression_prints_soundly.

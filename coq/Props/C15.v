(* C15 - Associative memories pair every key with its own output.  Statements only.
   Model/AssocMem.v: mapping normalisation, the transforms of the two connections,
   the memory's value with pointwise selection units.  Selection dynamics (lateral
   inhibition of WTA, accumulation of IA) are NOT modelled: those clauses are tied by
   simulation against the intended steady state (PARTIAL). *)
From mathcomp Require Import all_ssreflect all_algebra.
From NSpa Require Import Model.Vec Model.AssocMem Theory.AssocMemLaws Theory.AssocMemWta.
Import GRing.Theory Num.Theory.
Local Open Scope ring_scope.

Theorem C15_utilities_are_similarities_to_the_keys :
  forall (R : realDomainType) (pairs : seq (seq R * seq R)) x i,
    (i < size pairs)%N -> vnth (utilities pairs x) i = dot (nth ([::], [::]) pairs i).1 x.
Proof. first [exact: utilities_are_similarities | by move=> *; exact: utilities_are_similarities | by intros; eapply utilities_are_similarities; eauto]. Qed.
Print Assumptions C15_utilities_are_similarities_to_the_keys.

Theorem C15_linear_selection_sums_paired_outputs_weighted_by_similarity :
  forall (R : realDomainType) d (pairs : seq (seq R * seq R)) x j,
    outs_ok d pairs ->
    vnth (memory (@sel_identity R) d pairs x) j = \sum_(p <- pairs) dot p.1 x * vnth p.2 j.
Proof. first [exact: memory_linear | by move=> *; exact: memory_linear | by intros; eapply memory_linear; eauto]. Qed.
Print Assumptions C15_linear_selection_sums_paired_outputs_weighted_by_similarity.

Theorem C15_pairing_is_independent_of_mapping_order :
  forall (R : realDomainType) d (pairs pairs' : seq (seq R * seq R)) x,
    outs_ok d pairs -> perm_eq pairs pairs' ->
    memory (@sel_identity R) d pairs x = memory (@sel_identity R) d pairs' x.
Proof. first [exact: memory_order_independent | by move=> *; exact: memory_order_independent | by intros; eapply memory_order_independent; eauto]. Qed.
Print Assumptions C15_pairing_is_independent_of_mapping_order.

Theorem C15_output_transform_realises_the_pairing :
  forall (R : realDomainType) (f : R -> R) d (pairs : seq (seq R * seq R)) x,
    outs_ok d pairs -> (0 < size pairs)%N ->
    memory_net (map f) pairs x = memory (map f) d pairs x.
Proof. first [exact: output_transform_pairs_outputs | by move=> *; exact: output_transform_pairs_outputs | by intros; eapply output_transform_pairs_outputs; eauto]. Qed.
Print Assumptions C15_output_transform_realises_the_pairing.

Theorem C15_clean_key_yields_its_paired_output_alone :
  forall (R : realDomainType) theta d (l1 : seq (seq R * seq R)) k o l2 x,
    outs_ok d (l1 ++ (k, o) :: l2) ->
    theta < dot k x ->
    all (fun p => dot p.1 x <= theta) l1 -> all (fun p => dot p.1 x <= theta) l2 ->
    memory (sel_threshold theta) d (l1 ++ (k, o) :: l2) x = vscale (dot k x) o.
Proof. first [exact: clean_key_yields_its_output | by move=> *; exact: clean_key_yields_its_output | by intros; eapply clean_key_yields_its_output; eauto]. Qed.
Print Assumptions C15_clean_key_yields_its_paired_output_alone.

Theorem C15_below_threshold_yields_nothing :
  forall (R : realDomainType) theta d (pairs : seq (seq R * seq R)) x,
    outs_ok d pairs -> all (fun p => dot p.1 x <= theta) pairs ->
    memory (sel_threshold theta) d pairs x = vzero R d.
Proof. first [exact: below_threshold_yields_nothing | by move=> *; exact: below_threshold_yields_nothing | by intros; eapply below_threshold_yields_nothing; eauto]. Qed.
Print Assumptions C15_below_threshold_yields_nothing.

Theorem C15_default_output_present_when_nothing_is_active :
  forall (R : realDomainType) (mp mq : R) (s : seq R),
    0 < mp -> all (fun a => a == 0) s -> default_active mp mq s.
Proof. first [exact: default_present_when_nothing_active | by move=> *; exact: default_present_when_nothing_active | by intros; eapply default_present_when_nothing_active; eauto]. Qed.
Print Assumptions C15_default_output_present_when_nothing_is_active.

Theorem C15_default_output_absent_when_a_key_is_active :
  forall (R : realDomainType) (mp mq : R) (s : seq R) i,
    0 <= mq -> all (fun a => 0 <= a) s -> (i < size s)%N -> mp <= mq * vnth s i ->
    ~~ default_active mp mq s.
Proof. first [exact: default_absent_when_a_key_is_active | by move=> *; exact: default_absent_when_a_key_is_active | by intros; eapply default_absent_when_a_key_is_active; eauto]. Qed.
Print Assumptions C15_default_output_absent_when_a_key_is_active.

Theorem C15_missing_mapping_rejected :
  forall b n, normalise b n MNone = Err (if b then ValidationError else TypeError).
Proof. first [exact: missing_mapping_rejected | by move=> *; exact: missing_mapping_rejected | by intros; eapply missing_mapping_rejected; eauto]. Qed.
Print Assumptions C15_missing_mapping_rejected.

Theorem C15_empty_mappings_rejected :
  forall b n,
    normalise b n (MDict [::]) = Err ValidationError /\ normalise b n (MSeq [::]) = Err ValidationError /\
    normalise b 0 MByKey = Err ValidationError.
Proof. first [exact: empty_mappings_rejected | by move=> *; exact: empty_mappings_rejected | by intros; eapply empty_mappings_rejected; eauto]. Qed.
Print Assumptions C15_empty_mappings_rejected.

Theorem C15_other_string_mapping_rejected :
  forall b n, normalise b n MOtherStr = Err ValidationError.
Proof. first [exact: other_string_rejected | by move=> *; exact: other_string_rejected | by intros; eapply other_string_rejected; eauto]. Qed.
Print Assumptions C15_other_string_mapping_rejected.

Theorem C15_key_sequence_and_by_key_are_auto_associative :
  forall b n k ks,
    normalise b n (MSeq (k :: ks)) = Ok [seq (i, i) | i <- first_occurrences (k :: ks)] /\
    ((0 < n)%N -> normalise b n MByKey = Ok [seq (i, i) | i <- iota 0 n]).
Proof. by move=> b n k ks; split; [exact: key_sequence_is_auto_associative | exact: by_key_pairs_every_key_with_itself]. Qed.
Print Assumptions C15_key_sequence_and_by_key_are_auto_associative.

Theorem C15_key_sequence_stores_every_key_once :
  forall (ks : seq nat), uniq (first_occurrences ks) /\ (forall k, (k \in first_occurrences ks) = (k \in ks)).
Proof. by move=> ks; split; [exact: key_sequence_has_no_duplicates | move=> k; exact: key_sequence_keeps_every_key]. Qed.
Print Assumptions C15_key_sequence_stores_every_key_once.

(* winner-take-all and accumulator memories AT THEIR INTENDED STEADY STATE (one active unit: PARTIAL, the dynamics that
   reach it are not modelled and are checked by simulation): only the winner's paired output is emitted *)
Theorem C15_single_active_unit_emits_its_paired_output_alone :
  forall (R : realDomainType) d (outs : seq (seq R)) w a,
    all (fun o => size o == d) outs -> (w < size outs)%N ->
    weighted_sum d (one_active (size outs) w a) outs = vscale a (nth [::] outs w).
Proof. first [exact: single_active_unit_emits_its_output_alone | by move=> *; exact: single_active_unit_emits_its_output_alone | by intros; eapply single_active_unit_emits_its_output_alone; eauto]. Qed.
Print Assumptions C15_single_active_unit_emits_its_paired_output_alone.

Theorem C15_winner_take_all_steady_state_emits_only_the_winner_partial :
  forall (R : realDomainType) theta d (pairs : seq (seq R * seq R)) x w,
    outs_ok d pairs -> (w < size pairs)%N -> theta < vnth (utilities pairs x) w ->
    weighted_sum d (wta_steady theta (utilities pairs x) w) [seq p.2 | p <- pairs]
    = vscale (dot (nth ([::], [::]) pairs w).1 x) (nth ([::], [::]) pairs w).2.
Proof. first [exact: wta_emits_only_the_stronger_key | by move=> *; exact: wta_emits_only_the_stronger_key | by intros; eapply wta_emits_only_the_stronger_key; eauto]. Qed.
Print Assumptions C15_winner_take_all_steady_state_emits_only_the_winner_partial.

Theorem C15_accumulator_steady_state_emits_only_the_winner_partial :
  forall (R : realDomainType) (one : R) d (pairs : seq (seq R * seq R)) x w,
    outs_ok d pairs -> (w < size pairs)%N -> 0 < vnth (utilities pairs x) w ->
    weighted_sum d (ia_steady one (utilities pairs x) w) [seq p.2 | p <- pairs]
    = vscale one (nth ([::], [::]) pairs w).2.
Proof. first [exact: ia_emits_only_the_stronger_key | by move=> *; exact: ia_emits_only_the_stronger_key | by intros; eapply ia_emits_only_the_stronger_key; eauto]. Qed.
Print Assumptions C15_accumulator_steady_state_emits_only_the_winner_partial.

(* non-vacuity of the clean-key theorem: two keys, input = first key *)
From mathcomp Require Import ssrZ.
From Coq Require Import ZArith.
Example C15_clean_key_hypotheses_met :
  let R := [realDomainType of Z] in
  let k1 : seq R := [:: 1; 0]%Z in let k2 : seq R := [:: 0; 1]%Z in
  (0 : R) < dot k1 k1 /\ all (fun p : seq R * seq R => dot p.1 k1 <= (0 : R)) [:: (k2, k1)].
Proof. by []. Qed.

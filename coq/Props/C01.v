(* C01 - Networks built from SPA expressions compute the expression's value.
   Statements only.  Model/Dynamic.v: [build] = the operator methods of
   ast/dynamic.py (which AST node each operator returns, with which pending
   transform), [deliver] = connect_to (transform composition, scalar fan-in,
   Superposition / Bind / Product / dot-product modules with ideal components),
   [eval_sp] = Semantic-Pointer arithmetic on the current source values.
   [walg_of rt al] are the shipped algebras, [rt s] standing for sqrt(s). *)
From mathcomp Require Import all_ssreflect all_algebra.
From NSpa Require Import Model.Vec Model.Hrr Model.Vtb Model.Algebra Model.Dynamic Model.Transcode
  Theory.DynLin Theory.DynamicLaws Theory.DynamicBuild Theory.DynamicInst Theory.DynamicStmts.
Import GRing.Theory.
Local Open Scope ring_scope.

(* the property, for HRR, VTB and TVTB vocabularies, every expression tree the
   compiler accepts and all source values *)
Theorem C01_compiled_expression_delivers_its_value :
  forall (R : comRingType) (rt : nat -> R) al (env_ptr : nat -> seq R) env_scalar src_dim e b,
    (forall i, size (env_ptr i) = src_dim i) ->
    build (walg_of rt al) src_dim e = Ok b ->
    delivered (walg_of rt al) env_ptr env_scalar src_dim e
    = eval_sp (walg_of rt al) env_ptr env_scalar e.
Proof. first [exact: shipped_compiler_correct | by move=> *; exact: shipped_compiler_correct | by intros; eapply shipped_compiler_correct; eauto]. Qed.
Print Assumptions C01_compiled_expression_delivers_its_value.

(* ... and for any algebra honouring the AbstractAlgebra contract *)
Theorem C01_any_lawful_algebra :
  forall (R : comRingType) (A : walg R) (env_ptr : nat -> seq R) env_scalar src_dim,
    walg_laws A -> (forall i, size (env_ptr i) = src_dim i) ->
    forall e b, build A src_dim e = Ok b ->
    delivered A env_ptr env_scalar src_dim e = eval_sp A env_ptr env_scalar e.
Proof. first [exact: compiler_correct | by move=> *; exact: compiler_correct | by intros; eapply compiler_correct; eauto]. Qed.
Print Assumptions C01_any_lawful_algebra.

Theorem C01_shipped_algebras_honour_the_contract :
  forall (R : comRingType) (rt : nat -> R) al, walg_laws (walg_of rt al).
Proof. first [exact: shipped_laws | by move=> *; exact: shipped_laws | by intros; eapply shipped_laws; eauto]. Qed.
Print Assumptions C01_shipped_algebras_honour_the_contract.

(* several connections into one sink add up *)
Theorem C01_several_statements_into_one_sink_add :
  forall (R : comRingType) (rt : nat -> R) al (env_ptr : nat -> seq R) env_scalar src_dim e1 e2 b1 b2,
    (forall i, size (env_ptr i) = src_dim i) ->
    build (walg_of rt al) src_dim e1 = Ok b1 -> build (walg_of rt al) src_dim e2 = Ok b2 ->
    delivered_all (walg_of rt al) env_ptr env_scalar src_dim [:: e1; e2]
    = add_val (eval_sp (walg_of rt al) env_ptr env_scalar e1) (eval_sp (walg_of rt al) env_ptr env_scalar e2).
Proof. first [exact: shipped_statements_add | by move=> *; exact: shipped_statements_add | by intros; eapply shipped_statements_add; eauto]. Qed.
Print Assumptions C01_several_statements_into_one_sink_add.

(* any number of statements into one sink *)
Theorem C01_any_number_of_statements_into_one_sink_add :
  forall (R : comRingType) (A : walg R) (env_ptr : nat -> seq R) env_scalar src_dim,
    walg_laws A -> (forall i, size (env_ptr i) = src_dim i) ->
    forall (e : dexpr R) (es : seq (dexpr R)), builds A src_dim e -> all (builds A src_dim) es ->
    delivered_all A env_ptr env_scalar src_dim (e :: es)
    = foldl (fun acc e' => add_val acc (eval_sp A env_ptr env_scalar e')) (eval_sp A env_ptr env_scalar e) es.
Proof. first [exact: statements_add_n | by move=> *; exact: statements_add_n | by intros; eapply statements_add_n; eauto]. Qed.
Print Assumptions C01_any_number_of_statements_into_one_sink_add.

(* connect_to with a pending outer transform: np.dot(outer, inner) denotes the composition *)
Theorem C01_pending_transform_is_applied_to_the_node_value :
  forall (R : comRingType) (A : walg R) (env_ptr : nat -> seq R) env_scalar src_dim,
    walg_laws A -> (forall i, size (env_ptr i) = src_dim i) ->
    forall n t k c, wt A src_dim n = Some t -> k_ty k t = Some c ->
    deliver A env_ptr env_scalar n k = rbind (sem A env_ptr env_scalar n) (apply_opt k).
Proof. first [exact: deliver_sem | by move=> *; exact: deliver_sem | by intros; eapply deliver_sem; eauto]. Qed.
Print Assumptions C01_pending_transform_is_applied_to_the_node_value.

Theorem C01_transform_composition :
  forall (R : comRingType) (A : walg R), walg_laws A ->
    forall (k t : transform R) a b c,
    tr_ty t a = Some b -> ty_ok A b -> tr_ty k b = Some c ->
    exists2 kt, compose k t = Ok kt &
      tr_ty kt a = Some c /\
      forall v, has_ty v a -> apply_t kt v = rbind (apply_t t v) (apply_t k).
Proof. first [exact: compose_ok | by move=> *; exact: compose_ok | by intros; eapply compose_ok; eauto]. Qed.
Print Assumptions C01_transform_composition.

(* what the operators build is well shaped and denotes the expression *)
Theorem C01_operators_build_nodes_denoting_the_expression :
  forall (R : comRingType) (A : walg R) (env_ptr : nat -> seq R) env_scalar src_dim,
    walg_laws A -> (forall i, size (env_ptr i) = src_dim i) ->
    forall e b, build A src_dim e = Ok b ->
    exists2 v, eval_sp A env_ptr env_scalar e = Ok v &
      [/\ wt A src_dim (as_node b) = Some (bty b),
          sem A env_ptr env_scalar (as_node b) = Ok v & has_ty v (bty b)].
Proof. first [exact: build_good | by move=> *; exact: build_good | by intros; eapply build_good; eauto]. Qed.
Print Assumptions C01_operators_build_nodes_denoting_the_expression.

(* clause "scaling of a fixed pointer by a dynamic scalar": a typed symbol, both orders *)
Theorem C01_dynamic_scalar_scales_a_symbol :
  forall (R : comRingType) (rt : nat -> R) al (env_ptr : nat -> seq R) env_scalar src_dim i (v : seq R) sw,
    (forall i, size (env_ptr i) = src_dim i) -> alg_valid al (size v) ->
    delivered (walg_of rt al) env_ptr env_scalar src_dim
      (if sw then DMul (DFixed true v) (DSrcScalar _ i) else DMul (DSrcScalar _ i) (DFixed true v))
    = Ok (VP (vscale (env_scalar i) v)).
Proof. first [exact: scalar_times_symbol | by move=> *; exact: scalar_times_symbol | by intros; eapply scalar_times_symbol; eauto]. Qed.
Print Assumptions C01_dynamic_scalar_scales_a_symbol.

(* the same clause for a SemanticPointer object is REFUTED for the faithful model:
   Semantic-Pointer arithmetic defines the value, the compiler raises NotImplementedError
   (known finding dynamic-scalar-times-semantic-pointer-not-implemented) *)
Theorem C01_dynamic_scalar_times_semantic_pointer_refuted :
  forall (R : comRingType) (rt : nat -> R) al (env_ptr : nat -> seq R) env_scalar src_dim i (v : seq R),
    alg_valid al (size v) ->
    build (walg_of rt al) src_dim (DMul (DSrcScalar _ i) (DFixed false v)) = Err NotImplementedErr /\
    build (walg_of rt al) src_dim (DMul (DFixed false v) (DSrcScalar _ i)) = Err NotImplementedErr /\
    eval_sp (walg_of rt al) env_ptr env_scalar (DMul (DSrcScalar _ i) (DFixed false v))
    = Ok (VP (vscale (env_scalar i) v)).
Proof. first [exact: scalar_times_semantic_pointer_refuted | by move=> *; exact: scalar_times_semantic_pointer_refuted | by intros; eapply scalar_times_semantic_pointer_refuted; eauto]. Qed.
Print Assumptions C01_dynamic_scalar_times_semantic_pointer_refuted.

(* Transcode adapters (decision function; the behaviour of every form is tied by the sources / sinks of the simulations) *)
Theorem C01_transcode_forms_denote_their_vector :
  forall (R text : Type) (parse_out : text -> result (seq R)) (a p : seq R) (e : text),
    [/\ extract parse_out (TArray _ a) = Ok a, extract parse_out (TPointer _ p) = Ok p,
        extract parse_out (TSymbol _ e) = parse_out e & extract parse_out (TString _ e) = parse_out e].
Proof. by move=> *; exact: extract_forms. Qed.
Print Assumptions C01_transcode_forms_denote_their_vector.

Theorem C01_transcode_function_of_the_input_pointer :
  forall (R text : Type) (parse_out : text -> result (seq R)) (g : seq R -> seq R) t x,
    node_output parse_out true (FTimeInput (fun _ p => TPointer text (g p))) t x = Ok (g x).
Proof. by move=> *; exact: node_output_of_input_function. Qed.
Print Assumptions C01_transcode_function_of_the_input_pointer.

(* non-vacuity: the hypothesis [build e = Ok b] is met by a non-trivial expression *)
Theorem C01_build_succeeds_somewhere :
  forall (R : comRingType) (rt : nat -> R),
  exists b, build (walg_of rt AHrr) (fun _ => 2%N)
    (DSub (DMul (DFixed true [:: 1; 0]) (DSrc _ 0)) (DMul (DNum 2) (DInv STwo (DSrc _ 1)))) = Ok b.
Proof. first [exact: build_succeeds_somewhere | by move=> *; exact: build_succeeds_somewhere | by intros; eapply build_succeeds_somewhere; eauto]. Qed.
Print Assumptions C01_build_succeeds_somewhere.

(* C10 - parse and populate evaluate pointer expressions in the vocabulary's
   algebra; create_pointer returns the first candidate below the bound.
   Statements only; proofs are [exact: <lemma>]. *)
From mathcomp Require Import all_ssreflect all_algebra.
From NSpa Require Import Model.Vec Model.Hrr Model.Vtb Model.Power Model.Algebra Model.Parse
  Theory.ParseLaws.
Import Order.TTheory GRing.Theory Num.Theory.
Local Open Scope ring_scope.

Theorem C10_special_names_are_the_vocabularys_own_elements :
  forall (R : comRingType) al d (entries : seq (seq R)) s,
    eval al d entries [::] [::] (ESpecial s) =
    match alg_element al
            (match s with SIdentity => EIdentity | SZeroEl => EZero | SAbsorbing => EAbsorbing end)
            d STwo with
    | Ok w => inr (VPtr (of_scaled (wval w)))
    | Err e => inl (PExn e)
    end.
Proof. first [exact: special_is_own_element | by move=> *; exact: special_is_own_element | by intros; eapply special_is_own_element; eauto]. Qed.
Print Assumptions C10_special_names_are_the_vocabularys_own_elements.

Theorem C10_number_is_multiple_of_the_vocabularys_identity :
  forall (R : comRingType) al d (entries : seq (seq R)) p q neg i,
    alg_element al EIdentity d STwo = Ok i ->
    parse al d entries [::] [::] (ENum p q neg) = inr (sv_scale (signed R p neg) q%:R (of_scaled (wval i))).
Proof. first [exact: number_is_multiple_of_own_identity | by move=> *; exact: number_is_multiple_of_own_identity | by intros; eapply number_is_multiple_of_own_identity; eauto]. Qed.
Print Assumptions C10_number_is_multiple_of_the_vocabularys_identity.

Theorem C10_names_denote_entries :
  forall (R : comRingType) al d (entries : seq (seq R)) i,
    (i < size entries)%N -> eval al d entries [::] [::] (EName i) = inr (VPtr (sv_plain (nth [::] entries i))).
Proof. first [exact: name_is_entry | by move=> *; exact: name_is_entry | by intros; eapply name_is_entry; eauto]. Qed.
Print Assumptions C10_names_denote_entries.

Theorem C10_unknown_name_is_a_parse_error :
  forall (R : comRingType) al d (entries : seq (seq R)) i,
    (size entries <= i)%N -> eval al d entries [::] [::] (EName i) = inl (PExn SpaParseError).
Proof. first [exact: unknown_name_is_parse_error | by move=> *; exact: unknown_name_is_parse_error | by intros; eapply unknown_name_is_parse_error; eauto]. Qed.
Print Assumptions C10_unknown_name_is_a_parse_error.

Theorem C10_star_is_binding_in_the_vocabularys_algebra :
  forall (R : comRingType) al d (entries : seq (seq R)) a b x y,
    eval al d entries [::] [::] a = inr (VPtr x) -> eval al d entries [::] [::] b = inr (VPtr y) ->
    eval al d entries [::] [::] (EMul a b) = lift (sv_bind al x y).
Proof. first [exact: mul_is_binding | by move=> *; exact: mul_is_binding | by intros; eapply mul_is_binding; eauto]. Qed.
Print Assumptions C10_star_is_binding_in_the_vocabularys_algebra.

Theorem C10_plus_is_superposition :
  forall (R : comRingType) al d (entries : seq (seq R)) a b x y,
    eval al d entries [::] [::] a = inr (VPtr x) -> eval al d entries [::] [::] b = inr (VPtr y) ->
    eval al d entries [::] [::] (EAdd a b) = match sv_add x y with inr z => inr (VPtr z) | inl er => inl er end.
Proof. first [exact: add_is_superposition | by move=> *; exact: add_is_superposition | by intros; eapply add_is_superposition; eauto]. Qed.
Print Assumptions C10_plus_is_superposition.

Theorem C10_minus_is_plus_negation :
  forall (R : comRingType) al d (entries : seq (seq R)) a b x y,
    eval al d entries [::] [::] a = inr (VPtr x) -> eval al d entries [::] [::] b = inr (VPtr y) ->
    eval al d entries [::] [::] (ESub a b) = match sv_add x (sv_neg y) with inr z => inr (VPtr z) | inl er => inl er end.
Proof. first [exact: sub_is_add_neg | by move=> *; exact: sub_is_add_neg | by intros; eapply sub_is_add_neg; eauto]. Qed.
Print Assumptions C10_minus_is_plus_negation.

Theorem C10_tilde_is_the_algebras_inverse :
  forall (R : comRingType) al d (entries : seq (seq R)) a x,
    eval al d entries [::] [::] a = inr (VPtr x) ->
    eval al d entries [::] [::] (EInv a) =
      match alg_invert al (sv_core x) STwo with
      | Ok w => inr (VPtr (SVal (wval w) (sv_num x) (sv_den x) (sv_div x)))
      | Err er => inl (PExn er)
      end.
Proof. first [exact: invert_uses_own_algebra | by move=> *; exact: invert_uses_own_algebra | by intros; eapply invert_uses_own_algebra; eauto]. Qed.
Print Assumptions C10_tilde_is_the_algebras_inverse.

(* create_pointer *)
Theorem C10_empty_vocabulary_takes_first_candidate :
  forall (R : realDomainType) (bound : R) p cands,
    create_pointer_sel [::] bound (p :: cands) = (Some p, false).
Proof. first [exact: create_pointer_empty_vocabulary | by move=> *; exact: create_pointer_empty_vocabulary | by intros; eapply create_pointer_empty_vocabulary; eauto]. Qed.
Print Assumptions C10_empty_vocabulary_takes_first_candidate.

Theorem C10_first_candidate_below_the_bound_is_returned :
  forall (R : realDomainType) (v0 : seq R) vectors (bound : R) cands p rest,
    [seq q <- cands | max_sim (v0 :: vectors) q < bound] = p :: rest ->
    create_pointer_sel (v0 :: vectors) bound cands = (Some p, false).
Proof. first [exact: create_pointer_first_qualifying | by move=> *; exact: create_pointer_first_qualifying | by intros; eapply create_pointer_first_qualifying; eauto]. Qed.
Print Assumptions C10_first_candidate_below_the_bound_is_returned.

Theorem C10_otherwise_least_similar_candidate_with_warning :
  forall (R : realDomainType) (v0 : seq R) vectors (bound : R) cands,
    [seq q <- cands | max_sim (v0 :: vectors) q < bound] = [::] ->
    exists r, create_pointer_sel (v0 :: vectors) bound cands = (r, true) /\
      match r with
      | Some p => p \in cands /\
                  forall q, q \in cands -> max_sim (v0 :: vectors) p <= max_sim (v0 :: vectors) q
      | None => cands = [::]
      end.
Proof. first [exact: create_pointer_least_similar | by move=> *; exact: create_pointer_least_similar | by intros; eapply create_pointer_least_similar; eauto]. Qed.
Print Assumptions C10_otherwise_least_similar_candidate_with_warning.

From mathcomp Require Import ssrZ.
From Coq Require Import ZArith.
(* non-vacuity: 'A * B + A' in a 3-dimensional HRR vocabulary; create_pointer skipping a too-similar first candidate *)
Example C10_hypotheses_met_name :
  let ents := [:: [:: 1; 2; 0]; [:: 0; 1; 1]]%Z in
  (match parse AHrr 3 ents [::] [::] (EName 0) with inr x => sv_core x | inl _ => [::] end) = [:: 1; 2; 0]%Z.
Proof. by vm_compute. Qed.
Example C10_hypotheses_met_expr :
  let ents := [:: [:: 1; 2; 0]; [:: 0; 1; 1]]%Z in
  (match parse AHrr 3 ents [::] [::] (EAdd (EMul (EName 0) (EName 1)) (EName 0)) with inr x => sv_core x | inl _ => [::] end) = [:: 3; 3; 3]%Z.
Proof. by vm_compute. Qed.
Example C10_hypotheses_met_create :
  create_pointer_sel (R := [realDomainType of Z]) [:: [:: 2; 0; 0]%Z] 3%Z [:: [:: 5; 0; 0]; [:: 0; 5; 0]]%Z = (Some [:: 0; 5; 0]%Z, false).
Proof. by vm_compute. Qed.

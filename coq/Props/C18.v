(* C18 - One vocabulary per dimensionality per model.  Statements only. *)
From Coq Require Import List Bool Arith.
From NSpa Require Import Model.NetworkCtx Theory.NetworkCtxLaws Theory.NetworkCtxExplicit.
Import ListNotations.

(* for nesting trees of any depth and shape *)
Theorem C18_one_vocabulary_map_per_model :
  forall t first occs s', build_model t first = (occs, s') ->
    forall o1 o2, In o1 occs -> In o2 occs ->
      o_over o1 = false -> o_over o2 = false -> o_map o1 = o_map o2.
Proof. exact one_map_per_model. Qed.
Print Assumptions C18_one_vocabulary_map_per_model.

Theorem C18_same_dimensionality_same_vocabulary_object :
  forall t first occs s', build_model t first = (occs, s') ->
    forall o1 o2, In o1 occs -> In o2 occs ->
      o_over o1 = false -> o_over o2 = false -> o_dim o1 = o_dim o2 ->
      (o_map o1, o_dim o1) = (o_map o2, o_dim o2).
Proof. exact same_dimension_same_vocabulary. Qed.
Print Assumptions C18_same_dimensionality_same_vocabulary_object.

Theorem C18_vocabularies_of_a_model_are_created_by_that_model :
  forall t first occs s', build_model t first = (occs, s') ->
    first <= next_map s' /\ forall o, In o occs -> first <= o_map o < next_map s'.
Proof. exact model_maps_are_fresh. Qed.
Print Assumptions C18_vocabularies_of_a_model_are_created_by_that_model.

Theorem C18_independently_built_models_never_share_vocabularies :
  forall t1 t2 first occs1 s1 occs2 s2,
    build_model t1 first = (occs1, s1) ->
    build_model t2 (next_map s1) = (occs2, s2) ->
    forall o1 o2, In o1 occs1 -> In o2 occs2 -> o_map o1 <> o_map o2.
Proof. exact successive_models_share_nothing. Qed.
Print Assumptions C18_independently_built_models_never_share_vocabularies.

Theorem C18_rejected_dimensionality_arguments :
  forall a, coerce_dim a = false <->
    match a with DInt z neg => neg = true \/ z = 0 | DVocab => False | DOther => True end.
Proof. exact coerce_dim_rejects. Qed.
Print Assumptions C18_rejected_dimensionality_arguments.

(* "or the one explicitly supplied for its subtree": every module below `spa.Network(vocabs=my_map)`,
   at any depth and through plain or SPA sub-networks that bring no map of their own, uses my_map -
   a map no module built earlier can have used *)
Theorem C18_explicitly_supplied_map_governs_its_whole_subtree :
  forall seed ch cfg in_ctx over s occs s',
    no_explicit_forest ch = true ->
    build (Spa true seed ch) cfg in_ctx over s = (occs, s') ->
    next_map s' = S (next_map s) /\
    forall o, In o occs -> o_map o = next_map s /\ o_over o = true.
Proof. exact supplied_map_governs_its_subtree. Qed.
Print Assumptions C18_explicitly_supplied_map_governs_its_whole_subtree.

(* below a supplied or inherited map nothing is created: no module or container of the subtree makes a map of its own *)
Theorem C18_modules_below_an_inherited_map_create_no_map :
  forall f m in_ctx over s occs s',
    no_explicit_forest f = true ->
    build_forest f (Some m) in_ctx over s = (occs, s') -> s' = s /\ forall o, In o occs -> o_map o = m.
Proof. exact inherited_map_creates_nothing. Qed.
Print Assumptions C18_modules_below_an_inherited_map_create_no_map.

(* Not a theorem: "a different seed yields different pointers" (a statement
   about NumPy's generator; tested by the tie).  Reproducibility from the seed
   is determinism of [build_model] (a Coq function) together with the seed
   recorded for every map in [seeds]. *)
Example C18_example :
  map o_map (fst (build_model
     (Plain (FCons (Module 16) (FCons (Spa false (Some 1) (FCons (Module 16) (FCons (Spa true None (FCons (Module 16) FNil)) FNil)))
             (FCons (Module 32) FNil)))) 0))
  = [0; 0; 1; 0].
Proof. reflexivity. Qed.

Example C18_explicit_subtree_example :
  map (fun o => (o_over o, o_map o)) (fst (build_model
     (Plain (FCons (Module 16) (FCons (Spa true (Some 1) (FCons (Module 16) (FCons (Plain (FCons (Spa false None (FCons (Module 32) FNil)) FNil)) FNil)))
             (FCons (Module 16) FNil)))) 0))
  = [(false, 0); (true, 1); (true, 1); (false, 0)].
Proof. reflexivity. Qed.

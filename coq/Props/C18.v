(* C18 - One vocabulary per dimensionality per model.  Statements only. *)
From Coq Require Import List Bool Arith.
From NSpa Require Import Model.NetworkCtx Theory.NetworkCtxLaws.
Import ListNotations.

(* for nesting trees of any depth and shape *)
Theorem C18_one_vocabulary_map_per_model :
  forall t first occs s', build_model t first = (occs, s') ->
    forall o1 o2, In o1 occs -> In o2 occs ->
      o_over o1 = false -> o_over o2 = false -> o_map o1 = o_map o2.
Proof. exact one_map_per_model. Qed.
Print Assumptions C18_one_vocabulary_map_per_model.

Theorem C18_same_dimensionality_same_vocabulary_object :
  forall t first occs s', build_model t first = (occs, s') ->
    forall o1 o2, In o1 occs -> In o2 occs ->
      o_over o1 = false -> o_over o2 = false -> o_dim o1 = o_dim o2 ->
      (o_map o1, o_dim o1) = (o_map o2, o_dim o2).
Proof. exact same_dimension_same_vocabulary. Qed.
Print Assumptions C18_same_dimensionality_same_vocabulary_object.

Theorem C18_vocabularies_of_a_model_are_created_by_that_model :
  forall t first occs s', build_model t first = (occs, s') ->
    first <= next_map s' /\ forall o, In o occs -> first <= o_map o < next_map s'.
Proof. exact model_maps_are_fresh. Qed.
Print Assumptions C18_vocabularies_of_a_model_are_created_by_that_model.

Theorem C18_independently_built_models_never_share_vocabularies :
  forall t1 t2 first occs1 s1 occs2 s2,
    build_model t1 first = (occs1, s1) ->
    build_model t2 (next_map s1) = (occs2, s2) ->
    forall o1 o2, In o1 occs1 -> In o2 occs2 -> o_map o1 <> o_map o2.
Proof. exact successive_models_share_nothing. Qed.
Print Assumptions C18_independently_built_models_never_share_vocabularies.

Theorem C18_rejected_dimensionality_arguments :
  forall a, coerce_dim a = false <->
    match a with DInt z neg => neg = true \/ z = 0 | DVocab => False | DOther => True end.
Proof. exact coerce_dim_rejects. Qed.
Print Assumptions C18_rejected_dimensionality_arguments.

(* Not a theorem: "a different seed yields different pointers" (a statement
   about NumPy's generator; tested by the tie).  Reproducibility from the seed
   is determinism of [build_model] (a Coq function) together with the seed
   recorded for every map in [seeds]. *)
Example C18_example :
  map o_map (fst (build_model
     (Plain (FCons (Module 16) (FCons (Spa false (Some 1) (FCons (Module 16) (FCons (Spa true None (FCons (Module 16) FNil)) FNil)))
             (FCons (Module 32) FNil)))) 0))
  = [0; 0; 1; 0].
Proof. reflexivity. Qed.

(* C07 - Semantic Pointer operators are the algebra lifted to immutable values.
   Immutability is by construction in the model (operators are functions of
   the operand records); in Python it is NumPy's read-only flag, exercised by
   the tie's write attempts and operand snapshots.
   Statements only; proofs are [exact: <lemma>]. *)
From mathcomp Require Import all_ssreflect all_algebra.
From NSpa Require Import Model.Types Model.Vec Model.Hrr Model.Vtb Model.Power Model.Algebra
  Model.SemPtr Theory.SeqSum Theory.SemPtrLaws.
Import GRing.Theory.
Local Open Scope ring_scope.

Theorem C07_mul_binds_left_operand_on_the_left :
  forall (R : comRingType) dim (a b : sp R) voc r, gate dim a b = Ok voc -> alg_bind (spalg a) (spv a) (spv b) = Ok r -> sp_mul dim a (OPtr b) false = BBound r voc (spalg a).
Proof. first [exact: mul_operand_order | by move=> *; exact: mul_operand_order | by intros; eapply mul_operand_order; eauto]. Qed.
Print Assumptions C07_mul_binds_left_operand_on_the_left.

Theorem C07_reflected_mul_binds_other_on_the_left :
  forall (R : comRingType) dim (self other : sp R) voc r, gate dim self other = Ok voc -> alg_bind (spalg self) (spv other) (spv self) = Ok r -> sp_mul dim self (OPtr other) true = BBound r voc (spalg self).
Proof. first [exact: rmul_operand_order | by move=> *; exact: rmul_operand_order | by intros; eapply rmul_operand_order; eauto]. Qed.
Print Assumptions C07_reflected_mul_binds_other_on_the_left.

Theorem C07_sub_is_elementwise_in_operand_order :
  forall (R : comRingType) dim (a b : sp R) voc, gate dim a b = Ok voc -> size (spv a) = size (spv b) -> exists2 p, sp_sub dim a (OPtr b) = BPtr p & [/\ spvoc p = voc, spalg p = spalg a & forall i, vnth (spv p) i = vnth (spv a) i - vnth (spv b) i].
Proof. first [exact: sub_elementwise | by move=> *; exact: sub_elementwise | by intros; eapply sub_elementwise; eauto]. Qed.
Print Assumptions C07_sub_is_elementwise_in_operand_order.

Theorem C07_add_is_elementwise_both_forms :
  forall (R : comRingType) dim (a b : sp R) voc swap, gate dim a b = Ok voc -> size (spv a) = size (spv b) -> exists2 p, sp_add_ptr dim a b swap = Ok p & [/\ spvoc p = voc, spalg p = spalg a & forall i, vnth (spv p) i = vnth (spv a) i + vnth (spv b) i].
Proof. first [exact: add_elementwise | by move=> *; exact: add_elementwise | by intros; eapply add_elementwise; eauto]. Qed.
Print Assumptions C07_add_is_elementwise_both_forms.

Theorem C07_scaling_by_number_same_on_both_sides :
  forall (R : comRingType) dim (self : sp R) c sw, exists2 p, sp_mul dim self (ONum c) sw = BPtr p & [/\ spvoc p = spvoc self, spalg p = spalg self & forall i, vnth (spv p) i = c * vnth (spv self) i].
Proof. first [exact: scale_both_sides | by move=> *; exact: scale_both_sides | by intros; eapply scale_both_sides; eauto]. Qed.
Print Assumptions C07_scaling_by_number_same_on_both_sides.

Theorem C07_division_by_zero_is_an_error :
  forall (R : comRingType) (self : sp R), sp_div self (ONum 0) = BErr ZeroDivisionError.
Proof. first [exact: div_zero | by move=> *; exact: div_zero | by intros; eapply div_zero; eauto]. Qed.
Print Assumptions C07_division_by_zero_is_an_error.

Theorem C07_division_by_nonzero_number :
  forall (R : comRingType) (self : sp R) c, c != 0 -> sp_div self (ONum c) = BDiv (spv self) c (spvoc self) (spalg self).
Proof. first [exact: div_nonzero | by move=> *; exact: div_nonzero | by intros; eapply div_nonzero; eauto]. Qed.
Print Assumptions C07_division_by_nonzero_number.

Theorem C07_negation_is_elementwise :
  forall (R : comRingType) (p : sp R) i, vnth (spv (sp_neg p)) i = - vnth (spv p) i.
Proof. first [exact: neg_elementwise | by move=> *; exact: neg_elementwise | by intros; eapply neg_elementwise; eauto]. Qed.
Print Assumptions C07_negation_is_elementwise.

Theorem C07_compare_with_zero_vector_gives_zero :
  forall (R : comRingType) dim (a b : sp R) voc, gate dim a b = Ok voc -> size (spv a) = size (spv b) -> sq_norm (spv a) * sq_norm (spv b) = 0 -> sp_compare dim a b = Ok (0, 1).
Proof. first [exact: compare_zero | by move=> *; exact: compare_zero | by intros; eapply compare_zero; eauto]. Qed.
Print Assumptions C07_compare_with_zero_vector_gives_zero.

Theorem C07_compare_is_cosine :
  forall (R : comRingType) dim (a b : sp R) voc, gate dim a b = Ok voc -> size (spv a) = size (spv b) -> sq_norm (spv a) * sq_norm (spv b) != 0 -> sp_compare dim a b = Ok (dot (spv a) (spv b), sq_norm (spv a) * sq_norm (spv b)).
Proof. first [exact: compare_formula | by move=> *; exact: compare_formula | by intros; eapply compare_formula; eauto]. Qed.
Print Assumptions C07_compare_is_cosine.

Theorem C07_zero_vector_normalises_to_itself :
  forall (R : comRingType) (p : sp R), sq_norm (spv p) = 0 -> sp_normalized p = (spv p, 1).
Proof. first [exact: normalized_zero | by move=> *; exact: normalized_zero | by intros; eapply normalized_zero; eauto]. Qed.
Print Assumptions C07_zero_vector_normalises_to_itself.

Theorem C07_normalized_divides_by_the_norm :
  forall (R : comRingType) (p : sp R), sq_norm (spv p) != 0 -> sp_normalized p = (spv p, sq_norm (spv p)).
Proof. first [exact: normalized_nonzero | by move=> *; exact: normalized_nonzero | by intros; eapply normalized_nonzero; eauto]. Qed.
Print Assumptions C07_normalized_divides_by_the_norm.

Theorem C07_mse_is_mean_squared_difference :
  forall (R : comRingType) dim (a b : sp R) voc, gate dim a b = Ok voc -> size (spv a) = size (spv b) -> sp_mse dim a b = Ok (sq_norm (vsub (spv a) (spv b)), size (spv a)).
Proof. first [exact: mse_formula | by move=> *; exact: mse_formula | by intros; eapply mse_formula; eauto]. Qed.
Print Assumptions C07_mse_is_mean_squared_difference.

Theorem C07_inverses_use_own_algebra_and_keep_vocabulary :
  forall (R : comRingType) (p : sp R) sd w, sp_invert p sd = Ok w -> exists2 u, alg_invert (spalg p) (spv p) sd = Ok u & wval w = SP (wval u) (spvoc p) (spalg p).
Proof. first [exact: invert_own_algebra | by move=> *; exact: invert_own_algebra | by intros; eapply invert_own_algebra; eauto]. Qed.
Print Assumptions C07_inverses_use_own_algebra_and_keep_vocabulary.

Theorem C07_arrays_are_rejected :
  forall (R : comRingType) dim (self : sp R) sw, [/\ sp_add dim self OArr = BErr TypeError, sp_sub dim self OArr = BErr TypeError, sp_mul dim self OArr sw = BErr TypeError & sp_div self OArr = BErr TypeError].
Proof. first [exact: arrays_rejected | by move=> *; exact: arrays_rejected | by intros; eapply arrays_rejected; eauto]. Qed.
Print Assumptions C07_arrays_are_rejected.

From mathcomp Require Import ssrZ.
From Coq Require Import ZArith.
(* non-vacuity: two pointers of one VTB vocabulary (d = 4): accepted, bound in operand order *)
Example C07_hypotheses_met :
  let dim := fun _ : nat => 4%nat in
  let a := SP [:: 1; 2; 3; 4]%Z (Some 0%nat) AVtb in let b := SP [:: 5; 6; 7; 8]%Z (Some 0%nat) AVtb in
  [/\ gate dim a b = Ok (Some 0%nat), size (spv a) = size (spv b),
      alg_bind AVtb (spv a) (spv b) = Ok (Scaled [:: 17; 23; 39; 53]%Z 2 1)
    & alg_bind AVtb (spv b) (spv a) = Ok (Scaled [:: 17; 39; 23; 53]%Z 2 1)].
Proof. by vm_compute. Qed.

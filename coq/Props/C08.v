(* C08 - Special elements and inverses act as specified on the requested
   side.  For every commutative ring, every dimension, every vector.
   Only statements; proofs are [exact: <lemma>]. *)
From mathcomp Require Import all_ssreflect all_algebra.
From NSpa Require Import Model.Vec Model.Hrr Model.Vtb
  Theory.SeqSum Theory.Conv Theory.MxBridge Theory.VtbLaws Theory.ElemLaws Theory.Fourier.
Import GRing.Theory.
Local Open Scope ring_scope.

Theorem C08_hrr_identity_right :
  forall (R : comRingType) (a : seq R), hrr_bind_core a (hrr_identity R (size a)) = a.
Proof. exact: hrr_identity_right. Qed.
Print Assumptions C08_hrr_identity_right.

Theorem C08_hrr_identity_left :
  forall (R : comRingType) (a : seq R), hrr_bind_core (hrr_identity R (size a)) a = a.
Proof. exact: hrr_identity_left. Qed.
Print Assumptions C08_hrr_identity_left.

Theorem C08_hrr_negative_identity_right :
  forall (R : comRingType) (a : seq R), hrr_bind_core a (hrr_neg_identity R (size a)) = vneg a.
Proof. exact: hrr_neg_identity_right. Qed.
Print Assumptions C08_hrr_negative_identity_right.

Theorem C08_hrr_negative_identity_left :
  forall (R : comRingType) (a : seq R), hrr_bind_core (hrr_neg_identity R (size a)) a = vneg a.
Proof. exact: hrr_neg_identity_left. Qed.
Print Assumptions C08_hrr_negative_identity_left.

Theorem C08_hrr_zero_right :
  forall (R : comRingType) (a : seq R), hrr_bind_core a (hrr_zero R (size a)) = vzero R (size a).
Proof. exact: hrr_zero_right. Qed.
Print Assumptions C08_hrr_zero_right.

Theorem C08_hrr_zero_left :
  forall (R : comRingType) (a : seq R), hrr_bind_core (hrr_zero R (size a)) a = vzero R (size a).
Proof. exact: hrr_zero_left. Qed.
Print Assumptions C08_hrr_zero_left.

Theorem C08_hrr_absorbing_right :
  forall (R : comRingType) (a : seq R), hrr_bind_core a (hrr_absorbing_core R (size a)) = vscale (sumv a) (hrr_absorbing_core R (size a)).
Proof. exact: hrr_absorbing_right. Qed.
Print Assumptions C08_hrr_absorbing_right.

Theorem C08_hrr_absorbing_left :
  forall (R : comRingType) (a : seq R), hrr_bind_core (hrr_absorbing_core R (size a)) a = vscale (sumv a) (hrr_absorbing_core R (size a)).
Proof. exact: hrr_absorbing_left. Qed.
Print Assumptions C08_hrr_absorbing_left.

Theorem C08_hrr_absorbing_unit_length :
  forall (R : comRingType) d, dot (hrr_absorbing_core R d) (hrr_absorbing_core R d) = d%:R.
Proof. exact: hrr_absorbing_norm. Qed.
Print Assumptions C08_hrr_absorbing_unit_length.

Theorem C08_hrr_right_inverse_undoes_binding_iff_unitary :
  forall (R : comRingType) (v : seq R), hrr_unitary v <-> (forall a, size a = size v -> hrr_bind_core (hrr_bind_core a v) (hrr_invert v) = a).
Proof. exact: hrr_unbind_right_iff. Qed.
Print Assumptions C08_hrr_right_inverse_undoes_binding_iff_unitary.

Theorem C08_hrr_left_inverse_undoes_binding_iff_unitary :
  forall (R : comRingType) (v : seq R), hrr_unitary v <-> (forall a, size a = size v -> hrr_bind_core (hrr_invert v) (hrr_bind_core v a) = a).
Proof. exact: hrr_unbind_left_iff. Qed.
Print Assumptions C08_hrr_left_inverse_undoes_binding_iff_unitary.

Theorem C08_hrr_invert_twice :
  forall (R : comRingType) (v : seq R), hrr_invert (hrr_invert v) = v.
Proof. exact: hrr_invert_invol. Qed.
Print Assumptions C08_hrr_invert_twice.

Theorem C08_hrr_inverse_is_inversion_matrix :
  forall (R : comRingType) (v : seq R), matvec (hrr_imat R (size v)) v = hrr_invert v.
Proof. exact: hrr_imat_invert. Qed.
Print Assumptions C08_hrr_inverse_is_inversion_matrix.

Theorem C08_vtb_right_identity :
  forall (R : comRingType) s (a : seq R), size a = (s * s)%N -> vtb_core s a (eye_flat R s) = a.
Proof. exact: vtb_identity_right. Qed.
Print Assumptions C08_vtb_right_identity.

Theorem C08_vtb_right_identity_radicand :
  forall (R : comRingType) s (a : seq R), size a = (s * s)%N -> vtb_sbind (Scaled a 1 1) (Scaled (eye_flat R s) 1 s) = Ok (Scaled a (s * 1 * 1) (1 * 1 * s)).
Proof. exact: vtb_sbind_identity. Qed.
Print Assumptions C08_vtb_right_identity_radicand.

Theorem C08_vtb_right_negative_identity :
  forall (R : comRingType) s (a : seq R), size a = (s * s)%N -> vtb_core s a (vneg (eye_flat R s)) = vneg a.
Proof. exact: vtb_neg_identity_right. Qed.
Print Assumptions C08_vtb_right_negative_identity.

Theorem C08_vtb_zero_right :
  forall (R : comRingType) s (a : seq R), size a = (s * s)%N -> vtb_core s a (vzero R (s * s)) = vzero R (s * s).
Proof. exact: vtb_zero_right. Qed.
Print Assumptions C08_vtb_zero_right.

Theorem C08_vtb_zero_left :
  forall (R : comRingType) s (a : seq R), vtb_core s (vzero R (s * s)) a = vzero R (s * s).
Proof. exact: vtb_zero_left. Qed.
Print Assumptions C08_vtb_zero_left.

Theorem C08_vtb_identity_sidedness_guard :
  forall (R : comRingType) s sd, vtb_identity R (s * s) sd = match sd with SLeft => Err NotImplementedErr | SRight => Ok (Warned (Scaled (eye_flat R s) 1 s) false) | STwo => Ok (Warned (Scaled (eye_flat R s) 1 s) true) end.
Proof. exact: vtb_identity_guard. Qed.
Print Assumptions C08_vtb_identity_sidedness_guard.

Theorem C08_vtb_negative_identity_sidedness_guard :
  forall (R : comRingType) s sd, vtb_neg_identity R (s * s) sd = match sd with SRight => Ok (Warned (Scaled (vneg (eye_flat R s)) 1 s) false) | _ => Err NotImplementedErr end.
Proof. exact: vtb_neg_identity_guard. Qed.
Print Assumptions C08_vtb_negative_identity_sidedness_guard.

Theorem C08_vtb_absorbing_refused :
  forall (R : comRingType) d sd, vtb_absorbing R d sd = Err NotImplementedErr.
Proof. exact: vtb_absorbing_guard. Qed.
Print Assumptions C08_vtb_absorbing_refused.

Theorem C08_vtb_invert_sidedness_guard :
  forall (R : comRingType) s (v : seq R) sd, size v = (s * s)%N -> vtb_invert v sd = match sd with SLeft => Err NotImplementedErr | SRight => Ok (Warned (vtb_transpose_vec s v) false) | STwo => Ok (Warned (vtb_transpose_vec s v) true) end.
Proof. exact: vtb_invert_guard. Qed.
Print Assumptions C08_vtb_invert_sidedness_guard.

Theorem C08_vtb_has_no_left_identity :
  forall (R : comRingType) s (e : seq R), (1 < s)%N -> size e = (s * s)%N -> ~ (forall v, size v = (s * s)%N -> vtb_core s e v = v).
Proof. exact: vtb_no_left_identity. Qed.
Print Assumptions C08_vtb_has_no_left_identity.

Theorem C08_vtb_right_inverse_undoes_binding_iff_unitary :
  forall (R : comRingType) s (v : seq R), vtb_unitary s v <-> (forall a, size a = (s * s)%N -> s%:R *: mx_of s (vtb_core s (vtb_core s a v) (vtb_transpose_vec s v)) = mx_of s a).
Proof. exact: vtb_unbind_right_iff. Qed.
Print Assumptions C08_vtb_right_inverse_undoes_binding_iff_unitary.

Theorem C08_square_invert_twice :
  forall (R : comRingType) s (v : seq R), size v = (s * s)%N -> vtb_transpose_vec s (vtb_transpose_vec s v) = v.
Proof. exact: transpose_vec_invol. Qed.
Print Assumptions C08_square_invert_twice.

Theorem C08_square_inverse_is_inversion_matrix :
  forall (R : comRingType) s (x : seq R), size x = (s * s)%N -> matvec (vtb_imat_core R s) x = vtb_transpose_vec s x.
Proof. exact: imat_transpose. Qed.
Print Assumptions C08_square_inverse_is_inversion_matrix.

Theorem C08_tvtb_identity_right :
  forall (R : comRingType) s (a : seq R), size a = (s * s)%N -> tvtb_core s a (eye_flat R s) = a.
Proof. exact: tvtb_identity_right. Qed.
Print Assumptions C08_tvtb_identity_right.

Theorem C08_tvtb_identity_left :
  forall (R : comRingType) s (a : seq R), size a = (s * s)%N -> tvtb_core s (eye_flat R s) a = a.
Proof. exact: tvtb_identity_left. Qed.
Print Assumptions C08_tvtb_identity_left.

Theorem C08_tvtb_negative_identity_right :
  forall (R : comRingType) s (a : seq R), size a = (s * s)%N -> tvtb_core s a (vneg (eye_flat R s)) = vneg a.
Proof. exact: tvtb_neg_identity_right. Qed.
Print Assumptions C08_tvtb_negative_identity_right.

Theorem C08_tvtb_negative_identity_left :
  forall (R : comRingType) s (a : seq R), size a = (s * s)%N -> tvtb_core s (vneg (eye_flat R s)) a = vneg a.
Proof. exact: tvtb_neg_identity_left. Qed.
Print Assumptions C08_tvtb_negative_identity_left.

Theorem C08_tvtb_zero_right :
  forall (R : comRingType) s (a : seq R), size a = (s * s)%N -> tvtb_core s a (vzero R (s * s)) = vzero R (s * s).
Proof. exact: tvtb_zero_right. Qed.
Print Assumptions C08_tvtb_zero_right.

Theorem C08_tvtb_zero_left :
  forall (R : comRingType) s (a : seq R), tvtb_core s (vzero R (s * s)) a = vzero R (s * s).
Proof. exact: tvtb_zero_left. Qed.
Print Assumptions C08_tvtb_zero_left.

Theorem C08_tvtb_identity_any_side :
  forall (R : comRingType) s sd, tvtb_identity R (s * s) sd = Ok (Warned (Scaled (eye_flat R s) 1 s) false).
Proof. exact: tvtb_identity_guard. Qed.
Print Assumptions C08_tvtb_identity_any_side.

Theorem C08_tvtb_absorbing_refused :
  forall (R : comRingType) d sd, tvtb_absorbing R d sd = Err NotImplementedErr.
Proof. exact: tvtb_absorbing_guard. Qed.
Print Assumptions C08_tvtb_absorbing_refused.

Theorem C08_tvtb_right_inverse_undoes_binding_iff_unitary :
  forall (R : comRingType) s (v : seq R), size v = (s * s)%N -> tvtb_unitary_r s v <-> (forall a, size a = (s * s)%N -> s%:R *: mx_of s (tvtb_core s (tvtb_core s a v) (vtb_transpose_vec s v)) = mx_of s a).
Proof. exact: tvtb_unbind_right_iff. Qed.
Print Assumptions C08_tvtb_right_inverse_undoes_binding_iff_unitary.

Theorem C08_tvtb_left_inverse_undoes_binding_iff_unitary :
  forall (R : comRingType) s (v : seq R), size v = (s * s)%N -> tvtb_unitary_l s v <-> (forall a, size a = (s * s)%N -> s%:R *: mx_of s (tvtb_core s (vtb_transpose_vec s v) (tvtb_core s v a)) = mx_of s a).
Proof. exact: tvtb_unbind_left_iff. Qed.
Print Assumptions C08_tvtb_left_inverse_undoes_binding_iff_unitary.

Theorem C08_tvtb_unitarity_is_two_sided :
  forall (R : comUnitRingType) s (v : seq R), tvtb_unitary_r s v <-> tvtb_unitary_l s v.
Proof. exact: tvtb_unitary_sides. Qed.
Print Assumptions C08_tvtb_unitarity_is_two_sided.

(* ---------------- HRR inverse in the Fourier domain ------------------------------------------ *)
Theorem C08_hrr_inverse_reverses_the_spectrum :
  forall (R C : comRingType) (iota : {rmorphism R -> C}) p (w : C),
    w ^+ p.+1 = 1 ->
    forall (a : seq R) (k : 'I_p.+1), size a = p.+1 ->
    spectrum iota w (hrr_invert a) k = spectrum iota w a (- k).
Proof. first [exact: spectrum_invert | by move=> *; exact: spectrum_invert | by intros; eapply spectrum_invert; eauto]. Qed.
Print Assumptions C08_hrr_inverse_reverses_the_spectrum.

Theorem C08_vector_with_reversed_spectrum_is_the_inverse :
  forall (R C : comRingType) (iota : {rmorphism R -> C}) p (w : C),
    w ^+ p.+1 = 1 ->
    (forall j : 'I_p.+1, j != 0 -> \sum_k chi w k j = 0) ->
    GRing.lreg (p.+1%:R : C) -> injective iota ->
    forall (a r : seq R), size a = p.+1 -> size r = p.+1 ->
    (forall k : 'I_p.+1, spectrum iota w r k = spectrum iota w a (- k)) -> r = hrr_invert a.
Proof. first [exact: reversed_spectrum_is_inverse | by move=> *; exact: reversed_spectrum_is_inverse | by intros; eapply reversed_spectrum_is_inverse; eauto]. Qed.
Print Assumptions C08_vector_with_reversed_spectrum_is_the_inverse.

(* non-vacuity: exactly unitary vectors exist in every algebra (d = 4) *)
From mathcomp Require Import ssrZ.
From Coq Require Import ZArith.
Example C08_example_hrr_unitary : hrr_unitary [:: 0; 0; -1; 0]%Z.
Proof. by vm_compute. Qed.
Example C08_example_tvtb_identity_acts :
  tvtb_core 2 [:: 1; 2; 3; 4]%Z (eye_flat _ 2) = [:: 1; 2; 3; 4]%Z.
Proof. by vm_compute. Qed.

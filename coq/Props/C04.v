(* C04 - Only the effects of the highest-utility action reach their targets.
   Statements only.  Model/Routing.v: the wiring ActionSelection._build produces and
   what targets receive with ideal components (one-hot selection, ideal gates and
   channels).  PARTIAL: the winner-take-all dynamics that make the selection
   one-hot are not modelled; that hypothesis is observed in simulation. *)
From mathcomp Require Import all_ssreflect all_algebra.
From NSpa Require Import Model.Vec Model.Routing Theory.RoutingLaws Theory.RoutingRobust.
Import GRing.Theory Num.Theory.
Local Open Scope ring_scope.

Theorem C04_winner_effects_reach_their_targets_and_nothing_else :
  forall (R : realDomainType) (dims : nat -> nat) (dyn : nat -> seq R) (theta : R),
    0 <= theta -> theta < 1 ->
    forall (actions : seq (seq (effect R))) w t,
    (w < size actions)%N -> all (all (effect_ok dims dyn)) actions ->
    received dims dyn theta (onehot R w) t (build actions) = declared dims dyn t (nth [::] actions w).
Proof. first [exact: winner_effects_reach_targets | by move=> *; exact: winner_effects_reach_targets | by intros; eapply winner_effects_reach_targets; eauto]. Qed.
Print Assumptions C04_winner_effects_reach_their_targets_and_nothing_else.

Theorem C04_targets_of_losing_actions_receive_nothing :
  forall (R : realDomainType) (dims : nat -> nat) (dyn : nat -> seq R) (theta : R),
    0 <= theta -> theta < 1 ->
    forall (actions : seq (seq (effect R))) w t,
    (w < size actions)%N -> all (all (effect_ok dims dyn)) actions ->
    all (fun e => e_target e != t) (nth [::] actions w) ->
    received dims dyn theta (onehot R w) t (build actions) = vzero R (dims t).
Proof. first [exact: losers_are_silent | by move=> *; exact: losers_are_silent | by intros; eapply losers_are_silent; eauto]. Qed.
Print Assumptions C04_targets_of_losing_actions_receive_nothing.

Theorem C04_utilities_are_connected_by_index :
  forall (R : realDomainType) (actions : seq (seq (effect R))) i,
    (i < size actions)%N -> nth (WUtility R 0 0) (build actions) i = WUtility R i i.
Proof. first [exact: utilities_by_index | by move=> *; exact: utilities_by_index | by intros; eapply utilities_by_index; eauto]. Qed.
Print Assumptions C04_utilities_are_connected_by_index.

(* one wire under a one-hot selection: passes exactly when its action is the winner *)
Theorem C04_each_wire_passes_iff_its_action_wins :
  forall (R : realDomainType) (dims : nat -> nat) (dyn : nat -> seq R) (theta : R),
    0 <= theta -> theta < 1 ->
    forall w t i (e : effect R) j,
    vnth (contribution dims dyn theta (onehot R w) t (effect_wire i e)) j
    = if i == w then vnth (effect_value dims dyn t e) j else 0.
Proof. first [exact: contribution_onehot | by move=> *; exact: contribution_onehot | by intros; eapply contribution_onehot; eauto]. Qed.
Print Assumptions C04_each_wire_passes_iff_its_action_wins.

(* ---- any selection activity, not only a one-hot one (Theory/RoutingRobust.v) ---------------- *)
(* what a target receives, component by component, as a function of the thalamus activities:
   fixed effects scaled by their action's activity, dynamic effects passed iff the gate is open *)
Theorem C04_received_value_for_any_selection_activity :
  forall (R : realDomainType) (dims : nat -> nat) (dyn : nat -> seq R) (theta : R)
         (actions : seq (seq (effect R))) (act : nat -> R) t j,
    all (all (effect_ok dims dyn)) actions ->
    vnth (received dims dyn theta act t (build actions)) j
    = \sum_(i < size actions) \sum_(e <- nth [::] actions i)
         vnth (leak_value dims dyn (act i) (~~ gate_active theta (act i)) t e) j.
Proof. first [exact: received_any | by move=> *; exact: received_any | by intros; eapply received_any; eauto]. Qed.
Print Assumptions C04_received_value_for_any_selection_activity.

(* "suppressed to near zero in all dimensions": losers with activity at most eps (gates closed)
   leak at most eps times their total fixed effect into any component of any target *)
Theorem C04_losing_actions_leak_at_most_eps_times_their_fixed_effects :
  forall (R : realDomainType) (dims : nat -> nat) (dyn : nat -> seq R) (theta : R)
         (actions : seq (seq (effect R))) (act : nat -> R) (w : 'I_(size actions)) eps t j,
    all (all (effect_ok dims dyn)) actions ->
    ~~ gate_active theta (act w) ->
    (forall i : 'I_(size actions), i != w -> gate_active theta (act i) /\ `|act i| <= eps) ->
    `| vnth (received dims dyn theta act t (build actions)) j
       - \sum_(e <- nth [::] actions w) vnth (leak_value dims dyn (act w) true t e) j |
    <= eps * \sum_(i < size actions | i != w) \sum_(e <- nth [::] actions i) `|vnth (fixed_part dims t e) j|.
Proof. first [exact: losers_leak_at_most | by move=> *; exact: losers_leak_at_most | by intros; eapply losers_leak_at_most; eauto]. Qed.
Print Assumptions C04_losing_actions_leak_at_most_eps_times_their_fixed_effects.

(* the exact case: winner at 1 with an open gate, losers at 0 with closed gates *)
Theorem C04_exact_selection_delivers_exactly_the_declared_effects :
  forall (R : realDomainType) (dims : nat -> nat) (dyn : nat -> seq R) (theta : R)
         (actions : seq (seq (effect R))) (act : nat -> R) (w : 'I_(size actions)) t j,
    all (all (effect_ok dims dyn)) actions ->
    act w = 1 -> ~~ gate_active theta (act w) ->
    (forall i : 'I_(size actions), i != w -> gate_active theta (act i) /\ act i = 0) ->
    vnth (received dims dyn theta act t (build actions)) j
    = \sum_(e <- nth [::] actions w) vnth (effect_value dims dyn t e) j.
Proof. first [exact: exact_selection | by move=> *; exact: exact_selection | by intros; eapply exact_selection; eauto]. Qed.
Print Assumptions C04_exact_selection_delivers_exactly_the_declared_effects.

(* non-vacuity: a two-action rule set with a fixed and a dynamic effect meets the hypotheses *)
From mathcomp Require Import ssrZ.
From Coq Require Import ZArith.
Example C04_hypotheses_met :
  let R := [realDomainType of Z] in
  let acts : seq (seq (effect R)) :=
    [:: [:: Effect (SFixed [:: 1; 0]%Z) 0 false]; [:: Effect (SDyn R 0) 0 false]] in
  all (all (effect_ok (fun _ => 2%N) (fun _ => [:: 0; 1]%Z))) acts /\
  received (fun _ => 2%N) (fun _ => [:: 0; 1]%Z) (0 : R) (onehot R 1) 0 (build acts) = [:: 0; 1]%Z.
Proof. by []. Qed.

(* non-vacuity of the leak bound: winner at activity 1 (gate open), loser at activity -1
   (gate closed, magnitude 1 = eps): the loser's fixed effect leaks with factor -1 *)
Example C04_leak_hypotheses_met :
  let R := [realDomainType of Z] in
  let acts : seq (seq (effect R)) :=
    [:: [:: Effect (SFixed [:: 1; 0]%Z) 0 false]; [:: Effect (SFixed [:: 0; 1]%Z) 0 false]] in
  let act : nat -> R := fun i => if i == 0%N then 1%Z else (-1)%Z in
  [/\ all (all (effect_ok (fun _ => 2%N) (fun _ => [:: 0; 0]%Z))) acts,
      ~~ gate_active (0 : R) (act 0%N), gate_active (0 : R) (act 1%N), (`|act 1%N| <= 1)%R
    & received (fun _ => 2%N) (fun _ => [:: 0; 0]%Z) (0 : R) act 0 (build acts) = [:: 1; -1]%Z].
Proof. by []. Qed.

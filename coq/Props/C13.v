(* C13 - Translation and reinterpretation between vocabularies preserve keyed
   content.  Statements only.  (reinterpret keeps the vector by construction;
   its vocabulary / algebra rules and create_subset are compared by the tie.) *)
From mathcomp Require Import all_ssreflect all_algebra.
From NSpa Require Import Model.Vec Model.Algebra Model.Translate Theory.SeqSum Theory.TranslateLaws Theory.TranslateKeys.
Import GRing.Theory.
Local Open Scope ring_scope.

(* the transform is the sum over the used keys of outer(t_k, s_k): applied to any
   x it yields sum_k <s_k, x> t_k *)
Theorem C13_transform_is_sum_of_outer_products :
  forall (R : comRingType) d_to d_from (pairs : seq (seq R * seq R)) x i,
    (i < d_to)%N -> size x = d_from -> all (fun p => size p.2 == d_from) pairs ->
    vnth (matvec (outer_sum d_to d_from pairs) x) i = combo pairs x i.
Proof. first [exact: transform_apply | by move=> *; exact: transform_apply | by intros; eapply transform_apply; eauto]. Qed.
Print Assumptions C13_transform_is_sum_of_outer_products.

Theorem C13_orthonormal_source_entries_map_onto_their_namesakes :
  forall (R : comRingType) d_to d_from (pairs : seq (seq R * seq R)) (j i : nat),
    (i < d_to)%N -> all (fun p => size p.2 == d_from) pairs -> (j < size pairs)%N ->
    (forall k, (k < size pairs)%N ->
       dot (nth ([::], [::]) pairs k).2 (nth ([::], [::]) pairs j).2 = (k == j)%:R) ->
    vnth (matvec (outer_sum d_to d_from pairs) (nth ([::], [::]) pairs j).2) i =
    vnth (nth ([::], [::]) pairs j).1 i.
Proof. first [exact: orthonormal_sources_map_exactly | by move=> *; exact: orthonormal_sources_map_exactly | by intros; eapply orthonormal_sources_map_exactly; eauto]. Qed.
Print Assumptions C13_orthonormal_source_entries_map_onto_their_namesakes.

(* least-squares solver: from its post-condition (an exact solution of from . X = to
   exists whenever the source entries are linearly independent) every source
   entry maps exactly *)
Theorem C13_exact_solver_solution_maps_every_source_entry :
  forall (R : comRingType) (from to X : seq (seq R)) (d_from d_to j i : nat),
    (0 < d_from)%N -> (j < size from)%N -> (i < d_to)%N -> size X = d_from ->
    (forall k, (k < size X)%N -> size (nth [::] X k) = d_to) ->
    mnth (matmul from X) j i = mnth to j i ->
    vnth (matvec (mtrans X) (nth [::] from j)) i = mnth to j i.
Proof. first [exact: exact_solution_maps_rows | by move=> *; exact: exact_solution_maps_rows | by intros; eapply exact_solution_maps_rows; eauto]. Qed.
Print Assumptions C13_exact_solver_solution_maps_every_source_entry.

Theorem C13_only_requested_keys_present_in_both_are_used :
  forall (R : comRingType) d_from d_to (src tgt_after : entries R) tgt_before requested populate strict m w used,
    transform_to d_from d_to src tgt_after tgt_before requested populate strict = TOk m w used ->
    forall k, k \in used ->
      [/\ k \in (if requested is Some l then l else map fst src), has_key src k &
          (k \in tgt_before) || (populate == Some true)].
Proof. by move=> *; eapply used_keys_are_requested_and_held_by_both; eauto. Qed.
Print Assumptions C13_only_requested_keys_present_in_both_are_used.

Theorem C13_warning_iff_populate_unspecified_and_keys_missing :
  forall (R : comRingType) d_from d_to (src tgt_after : entries R) tgt_before requested populate strict m w used,
    transform_to d_from d_to src tgt_after tgt_before requested populate strict = TOk m w used ->
    w = (populate == None) &&
        ([seq k <- [seq k <- undup (if requested is Some l then l else map fst src) | has_key src k]
                | k \notin tgt_before] != [::]).
Proof. by move=> *; eapply warning_iff_unspecified_and_missing; eauto. Qed.
Print Assumptions C13_warning_iff_populate_unspecified_and_keys_missing.

Theorem C13_target_unchanged_unless_populate_is_true :
  forall tgt_before src_keys requested populate,
    populate != Some true -> target_keys_after tgt_before src_keys requested populate = tgt_before.
Proof. exact: target_unchanged_unless_populate. Qed.
Print Assumptions C13_target_unchanged_unless_populate_is_true.

Theorem C13_populate_creates_exactly_the_missing_requested_keys :
  forall tgt_before src_keys requested,
    target_keys_after tgt_before src_keys requested (Some true) =
    tgt_before ++ [seq k <- [seq k <- undup (if requested is Some l then l else src_keys) | k \in src_keys]
                          | k \notin tgt_before].
Proof. exact: populate_creates_exactly_the_missing_requested_keys. Qed.
Print Assumptions C13_populate_creates_exactly_the_missing_requested_keys.

(* ---- how the requested key list is read (Theory/TranslateKeys.v) -------------------------------- *)
Theorem C13_a_key_requested_twice_counts_once :
  forall (R : comRingType) d_from d_to (src tgt_after : entries R) tgt_before l populate strict,
    transform_to d_from d_to src tgt_after tgt_before (Some (l ++ l)) populate strict
    = transform_to d_from d_to src tgt_after tgt_before (Some l) populate strict.
Proof. exact: requested_twice_counts_once. Qed.
Print Assumptions C13_a_key_requested_twice_counts_once.

Theorem C13_duplicates_in_the_requested_keys_are_immaterial :
  forall (R : comRingType) d_from d_to (src tgt_after : entries R) tgt_before l populate strict,
    transform_to d_from d_to src tgt_after tgt_before (Some (undup l)) populate strict
    = transform_to d_from d_to src tgt_after tgt_before (Some l) populate strict.
Proof. exact: requested_duplicates_removed. Qed.
Print Assumptions C13_duplicates_in_the_requested_keys_are_immaterial.

Theorem C13_requesting_every_source_key_is_requesting_none :
  forall (R : comRingType) d_from d_to (src tgt_after : entries R) tgt_before populate strict,
    transform_to d_from d_to src tgt_after tgt_before (Some (map fst src)) populate strict
    = transform_to d_from d_to src tgt_after tgt_before None populate strict.
Proof. exact: all_source_keys_is_no_selection. Qed.
Print Assumptions C13_requesting_every_source_key_is_requesting_none.

Theorem C13_requested_keys_absent_from_the_source_are_ignored :
  forall (R : comRingType) d_from d_to (src tgt_after : entries R) tgt_before l extra populate strict,
    all (fun k => ~~ has_key src k) extra ->
    transform_to d_from d_to src tgt_after tgt_before (Some (l ++ extra)) populate strict
    = transform_to d_from d_to src tgt_after tgt_before (Some l) populate strict.
Proof. exact: keys_absent_from_the_source_are_ignored. Qed.
Print Assumptions C13_requested_keys_absent_from_the_source_are_ignored.

From mathcomp Require Import ssrZ.
From Coq Require Import ZArith.
(* non-vacuity: an orthonormal two-key source (e0, e1) translated into a three-dimensional target; the transform maps
   e0 and e1 onto their namesakes; transform_to succeeds with both keys used and no warning *)
Example C13_hypotheses_met :
  let pairs : seq (seq Z * seq Z) := [:: ([:: 1; 2; 3], [:: 1; 0]); ([:: 0; -1; 1], [:: 0; 1])]%Z in
  [/\ all (fun p => size p.2 == 2%nat) pairs,
      matvec (outer_sum 3 2 pairs) [:: 1; 0]%Z = [:: 1; 2; 3]%Z
    & matvec (outer_sum 3 2 pairs) [:: 0; 1]%Z = [:: 0; -1; 1]%Z].
Proof. by vm_compute. Qed.

(* non-vacuity of the key-list theorems: a request naming A twice and a key the source does not hold *)
Example C13_key_list_example :
  let src : entries [comRingType of Z] := [:: (0%nat, [:: 1; 0]%Z); (1%nat, [:: 0; 1]%Z)] in
  let tgt : entries [comRingType of Z] := [:: (0%nat, [:: 1; 2; 3]%Z); (1%nat, [:: 0; -1; 1]%Z)] in
  transform_to 2 3 src tgt [:: 0; 1]%nat (Some [:: 0; 0; 7]%nat) (Some false) false
  = TOk [:: [:: 1; 0]; [:: 2; 0]; [:: 3; 0]]%Z false [:: 0%nat].
Proof. by vm_compute. Qed.

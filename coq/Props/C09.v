(* C09 - A vocabulary stays a consistent, append-only mapping under any
   history.  Statements only; proofs are [exact <lemma>]. *)
From Coq Require Import List Bool Arith ZArith String.
From NSpa Require Import Model.Vocab Theory.VocabLaws.
Import ListNotations.

(* the invariant: keys, index map and vector matrix aligned; keys valid and
   distinct; every stored vector has the vocabulary's dimensionality *)
Theorem C09_invariant_holds_initially : forall d strict, Inv (empty_vocab d strict).
Proof. exact Inv_empty. Qed.
Print Assumptions C09_invariant_holds_initially.

(* every operation - including failing ones - preserves the invariant, only
   appends to the list of (key, vector) pairs, and keeps the configuration *)
Theorem C09_every_operation_preserves_invariant_and_is_append_only :
  forall gen v o, Inv v ->
    Inv (fst (step gen v o)) /\
    (exists t, abs (fst (step gen v o)) = abs v ++ t) /\
    same_cfg v (fst (step gen v o)).
Proof. exact step_ext. Qed.
Print Assumptions C09_every_operation_preserves_invariant_and_is_append_only.

(* ... hence every reachable state, for histories of any length *)
Theorem C09_every_history_preserves_invariant_and_is_append_only :
  forall gen v ops, Inv v ->
    Inv (run gen v ops) /\ (exists t, abs (run gen v ops) = abs v ++ t) /\ same_cfg v (run gen v ops).
Proof. exact run_ext. Qed.
Print Assumptions C09_every_history_preserves_invariant_and_is_append_only.

Theorem C09_reachable_states_satisfy_invariant :
  forall gen d strict ops, Inv (run gen (empty_vocab d strict) ops).
Proof. exact run_inv. Qed.
Print Assumptions C09_reachable_states_satisfy_invariant.

(* an addition either appends exactly (key, vector) or leaves the state unchanged *)
Theorem C09_add_appends_or_leaves_unchanged :
  forall v k p, Inv v ->
    let '(v', r) := add v k p in
    Inv v' /\ same_cfg v v' /\ vpos v' = vpos v /\
    match r with
    | None => abs v' = abs v ++ [(k, pvec p)]
    | Some _ => v' = v
    end.
Proof. exact add_inv. Qed.
Print Assumptions C09_add_appends_or_leaves_unchanged.

Theorem C09_add_succeeds_iff :
  forall v k p,
    (exists v', add v k p = (v', None)) <->
    (valid_name k = true /\ assoc k (vkey2idx v) = None /\
     powner p <> ForeignVocab /\ psame_alg p = true /\ List.length (pvec p) = vdims v).
Proof. exact add_ok_iff. Qed.
Print Assumptions C09_add_succeeds_iff.

(* invalid / reserved / duplicate names, foreign vocabulary or algebra and
   wrong-length pointers are rejected without changing the vocabulary *)
Theorem C09_rejected_additions_change_nothing :
  forall v k p,
    (valid_name k = false \/ (exists i, assoc k (vkey2idx v) = Some i) \/
     powner p = ForeignVocab \/ psame_alg p = false \/ List.length (pvec p) <> vdims v) ->
    exists e, add v k p = (v, Some e).
Proof. exact add_rejections. Qed.
Print Assumptions C09_rejected_additions_change_nothing.

(* strict vocabularies never gain a key through lookup, parsing, membership,
   pointer creation or subset extraction *)
Theorem C09_strict_vocabulary_never_gains_keys_by_lookup :
  forall gen v o, vstrict v = true ->
    match o with OAdd _ _ | OPopulate _ => True
    | _ => abs (fst (step gen v o)) = abs v end.
Proof. exact strict_never_gains. Qed.
Print Assumptions C09_strict_vocabulary_never_gains_keys_by_lookup.

(* non-strict: a missing valid key is added, with the next generated vector *)
Theorem C09_nonstrict_lookup_adds_exactly_the_missing_valid_key :
  forall gen v k, Inv v -> vstrict v = false -> valid_name k = true ->
    assoc k (vkey2idx v) = None -> List.length (gen (vpos v)) = vdims v ->
    abs (fst (getitem gen v k)) = abs v ++ [(k, gen (vpos v))].
Proof. exact getitem_nonstrict_missing. Qed.
Print Assumptions C09_nonstrict_lookup_adds_exactly_the_missing_valid_key.

Theorem C09_present_key_is_returned_not_recreated :
  forall gen v k i, assoc k (vkey2idx v) = Some i -> mem k special_names = false ->
    String.eqb k "__tracebackhide__"%string = false ->
    getitem gen v k = (v, inl (LVector (nth i (vvectors v) []))).
Proof. exact getitem_present. Qed.
Print Assumptions C09_present_key_is_returned_not_recreated.

(* length, iteration order and membership agree with the abstract list *)
Theorem C09_observers_agree :
  forall v, Inv v ->
    vlen v = List.length (abs v) /\ map fst (abs v) = vkeys v /\
    (forall k, contains v k = mem k special_names || existsb (String.eqb k) (vkeys v)).
Proof. exact observers_consistent. Qed.
Print Assumptions C09_observers_agree.

(* non-vacuity: a concrete history with failures in it *)
Example C09_example_history :
  abs (run (script_vec 2) (empty_vocab 2 false)
         [OAdd "A" (Ptr [1%Z; 2%Z] Own true); OAdd "a" (Ptr [0%Z; 0%Z] Own true);
          OAdd "A" (Ptr [5%Z; 5%Z] Own true); OGet "B"; OAdd "C" (Ptr [1%Z] NoVocab true)])
  = [("A"%string, [1%Z; 2%Z]); ("B"%string, script_vec 2 0)].
Proof. reflexivity. Qed.

(* C14 - Action-selection blocks leave no residue, whatever happens inside
   them.  Statements only; proofs are [exact <lemma>]. *)
From Coq Require Import List Bool Arith String.
From NSpa Require Import Model.ActionSel Theory.ActionSelLaws.
Import ListNotations.

Theorem C14_every_block_ends_at_rest :
  forall g body, active g = false -> at_rest (fst (fst (run_block g body))) = true.
Proof. exact block_ends_at_rest. Qed.
Print Assumptions C14_every_block_ends_at_rest.

Theorem C14_every_history_ends_at_rest :
  forall c evs, at_rest (run_events (rest c) evs) = true.
Proof. exact every_history_ends_at_rest. Qed.
Print Assumptions C14_every_history_ends_at_rest.

Theorem C14_block_outcome_independent_of_history :
  forall g h body, at_rest g = true -> at_rest h = true ->
    snd (fst (run_block g body)) = snd (fst (run_block h body)) /\
    snd (run_block g body) = snd (run_block h body).
Proof. exact block_outcome_independent_of_history. Qed.
Print Assumptions C14_block_outcome_independent_of_history.

Theorem C14_inside_a_block_nothing_connects_immediately :
  forall g body, conns (fst (fst (run_block g body))) = conns g.
Proof. exact block_never_connects. Qed.
Print Assumptions C14_inside_a_block_nothing_connects_immediately.

Theorem C14_outside_a_block_routing_connects_immediately :
  forall g, routed g = false ->
    let '(g', _, e) := run_event g EvRoute in
    conns g' = S (conns g) /\ e = None /\ sw_eq g g'.
Proof. exact plain_route_connects_immediately. Qed.
Print Assumptions C14_outside_a_block_routing_connects_immediately.

Theorem C14_built_only_if_completed_without_error :
  forall g body, built (snd (fst (run_block g body))) = true -> snd (run_block g body) = None.
Proof. exact built_only_without_error. Qed.
Print Assumptions C14_built_only_if_completed_without_error.

Theorem C14_nested_block_rejected_without_change :
  forall g body, active g = true -> run_block g body = (g, new_block, Some ASelError).
Proof. exact nested_block_rejected_without_change. Qed.
Print Assumptions C14_nested_block_rejected_without_change.

Theorem C14_misuse_is_reported_with_the_documented_error :
  forall g b,
    (forall body, exec_stmt g b (SNested body) = (g, b, Some ASelError)) /\
    (forall name effs, snd (exec_stmt g b (SIfmax name CNonScalar effs)) = Some ATypeError) /\
    (forall name c effs, c <> CNonScalar -> existsb (fun e => negb (is_route e)) effs = true ->
       snd (exec_stmt g b (SIfmax name c effs)) = Some ASelError) /\
    (active g = false -> snd (run_event g EvIfmaxOutside) = Some ASelError).
Proof. exact misuse_errors. Qed.
Print Assumptions C14_misuse_is_reported_with_the_documented_error.

Theorem C14_routing_outside_an_action_fails_the_block :
  forall g body g1 b1, active g = false ->
    exec_body (G true true (free g) (conns g)) new_block body = (g1, b1, None) ->
    free g1 <> 0 -> snd (run_block g body) = Some ASelError.
Proof. exact free_floating_routing_fails. Qed.
Print Assumptions C14_routing_outside_an_action_fails_the_block.

Theorem C14_keys_one_per_action_in_declaration_order :
  forall b,
    List.length (block_keys b) = List.length (names b) /\
    forall n, n < List.length (names b) ->
      nth n (block_keys b) (KPos 0) =
      match nth n (names b) None with Some s => KName s | None => KPos n end.
Proof. exact keys_one_per_action. Qed.
Print Assumptions C14_keys_one_per_action_in_declaration_order.

Theorem C14_retrievable_by_position :
  forall b n, n < List.length (names b) -> block_getitem b (KPos n) = Some n.
Proof. exact getitem_by_position. Qed.
Print Assumptions C14_retrievable_by_position.

Theorem C14_retrievable_by_name :
  forall b n s, n < List.length (names b) -> nth n (names b) None = Some s ->
    (forall m, m < List.length (names b) -> nth m (names b) None = Some s -> m = n) ->
    block_getitem b (KName s) = Some n.
Proof. exact getitem_by_name. Qed.
Print Assumptions C14_retrievable_by_name.

(* non-vacuity: a failing block followed by a good one *)
Example C14_example :
  let g := run_events (rest 0)
             [EvBlock [SIfmax None CZero [ERoute]; SFree]; EvRoute;
              EvBlock [SIfmax (Some "a"%string) CZero [ERoute]]] in
  (at_rest g, conns g) = (true, 1).
Proof. reflexivity. Qed.

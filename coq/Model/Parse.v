(* Model of Vocabulary.parse (expression evaluation in the vocabulary's
   algebra) and of Vocabulary.create_pointer (candidate selection).

   Text -> AST is CPython's parser (eval); the model starts from the AST and
   the harness sends the printed text to the implementation.

   Values carry a symbolic square root and a rational divisor:
   {core; num; den; div} = core * sqrt(num/den) / div   (div > 0).
   Sums need equal radicands (otherwise [Unrepresentable]: such expressions
   are not generated for the tie). *)
From mathcomp Require Import all_ssreflect all_algebra.
From NSpa Require Import Model.Vec Model.Hrr Model.Vtb Model.Power Model.Algebra.
Set Implicit Arguments.
Unset Strict Implicit.
Unset Printing Implicit Defensive.
Import GRing.Theory.
Local Open Scope ring_scope.

Inductive method := MNormalized | MLinv | MRinv.
Inductive special := SIdentity | SZeroEl | SAbsorbing.

Inductive expr :=
| EName of nat                 (* index into the vocabulary's entries *)
| ESpecial of special
| ENum of nat & nat & bool     (* literal p/q with sign: (p, q, negative) *)
| ENeg of expr
| EInv of expr                 (* ~e *)
| EAdd of expr & expr
| ESub of expr & expr
| EMul of expr & expr
| EDivNum of expr & nat & nat & bool   (* e / (p/q) *)
| EPow of expr & nat & bool    (* e ** (+-n) *)
| EMethod of expr & method
(* --- additions for compiled expressions (C01): the evaluator doubles as
       Semantic-Pointer arithmetic on the current source values --- *)
| EScalarSrc of nat            (* a scalar-valued source (module output), index into [scalars] *)
| EDot of expr & expr          (* dot product of two pointers *)
| ESide of expr & bool         (* linv (true) / rinv (false), as operators of dynamic nodes *)
| EApply of nat & expr.        (* translate / reinterpret: apply matrix number k of [matrices] *)

Inductive perr := PUnrepresentable | PExn of exn.

Section Eval.
Variable R : comRingType.
Local Notation vec := (seq R).

Record sval := SVal { sv_core : vec; sv_num : R; sv_den : R; sv_div : R }.

(* result of evaluating a sub-expression: a pointer or a Python number p/q *)
Inductive value := VPtr of sval | VNum of R & R.   (* VNum p q = p / q *)

Definition of_scaled (x : scaled vec) : sval :=
  SVal (core x) (rnum x)%:R (rden x)%:R 1.

Definition sv_plain (v : vec) : sval := SVal v 1 1 1.

Variable al : alg.
Variable d : nat.
Variable entries : seq vec.     (* the vocabulary's vectors, in key order *)
Variable scalars : seq (R * R). (* values p/q of scalar sources *)
Variable matrices : seq (seq vec). (* transforms used by translate / reinterpret *)

(* binding of two scaled values: cores bind (algebra adds its own radicand) *)
Definition sv_bind (x y : sval) : result sval :=
  rmap (fun r => SVal (core r) ((rnum r)%:R * sv_num x * sv_num y)
                               ((rden r)%:R * sv_den x * sv_den y) (sv_div x * sv_div y))
       (alg_bind al (sv_core x) (sv_core y)).

Definition same_rad (x y : sval) : bool := sv_num x * sv_den y == sv_num y * sv_den x.

Definition sv_add (x y : sval) : sum perr sval :=
  if size (sv_core x) != size (sv_core y) then inl (PExn ValueError) else
  if same_rad x y then
    inr (SVal (vadd (vscale (sv_div y) (sv_core x)) (vscale (sv_div x) (sv_core y)))
              (sv_num x) (sv_den x) (sv_div x * sv_div y))
  else inl PUnrepresentable.

Definition sv_neg (x : sval) : sval := SVal (vneg (sv_core x)) (sv_num x) (sv_den x) (sv_div x).

(* x * (p/q): core scaled by p, divisor by q *)
Definition sv_scale (p q : R) (x : sval) : sval :=
  SVal (vscale p (sv_core x)) (sv_num x) (sv_den x) (sv_div x * q).

Definition lift (r : result sval) : sum perr value :=
  match r with Ok x => inr (VPtr x) | Err e => inl (PExn e) end.

Definition special_value (s : special) : sum perr value :=
  match alg_element al
          (match s with SIdentity => EIdentity | SZeroEl => EZero | SAbsorbing => EAbsorbing end)
          d STwo with
  | Ok w => inr (VPtr (of_scaled (wval w)))
  | Err e => inl (PExn e)
  end.

Definition signed (n : nat) (neg : bool) : R := if neg then - n%:R else n%:R.

Fixpoint eval (e : expr) : sum perr value :=
  match e with
  | EName i => if (i < size entries)%N then inr (VPtr (sv_plain (nth [::] entries i)))
               else inl (PExn SpaParseError)
  | ESpecial s => special_value s
  | ENum p q neg => inr (VNum (signed p neg) q%:R)
  | ENeg a =>
      match eval a with
      | inr (VPtr x) => inr (VPtr (sv_neg x))
      | inr (VNum p q) => inr (VNum (- p) q)
      | inl er => inl er
      end
  | EInv a =>
      match eval a with
      | inr (VPtr x) =>
          match alg_invert al (sv_core x) STwo with
          | Ok w => inr (VPtr (SVal (wval w) (sv_num x) (sv_den x) (sv_div x)))
          | Err er => inl (PExn er)
          end
      | inr (VNum _ _) => inl (PExn TypeError)
      | inl er => inl er
      end
  | EAdd a b =>
      match eval a, eval b with
      | inr (VPtr x), inr (VPtr y) => match sv_add x y with inr z => inr (VPtr z) | inl er => inl er end
      | inr (VNum p q), inr (VNum p' q') => inr (VNum (p * q' + p' * q) (q * q'))
      | inr _, inr _ => inl (PExn TypeError)
      | inl er, _ => inl er
      | _, inl er => inl er
      end
  | ESub a b =>
      match eval a, eval b with
      | inr (VPtr x), inr (VPtr y) =>
          match sv_add x (sv_neg y) with inr z => inr (VPtr z) | inl er => inl er end
      | inr (VNum p q), inr (VNum p' q') => inr (VNum (p * q' - p' * q) (q * q'))
      | inr _, inr _ => inl (PExn TypeError)
      | inl er, _ => inl er
      | _, inl er => inl er
      end
  | EMul a b =>
      match eval a, eval b with
      | inr (VPtr x), inr (VPtr y) => lift (sv_bind x y)
      | inr (VPtr x), inr (VNum p q) | inr (VNum p q), inr (VPtr x) => inr (VPtr (sv_scale p q x))
      | inr (VNum p q), inr (VNum p' q') => inr (VNum (p * p') (q * q'))
      | inl er, _ => inl er
      | _, inl er => inl er
      end
  | EDivNum a p q neg =>
      match eval a with
      | inr (VPtr x) => if p == 0%N then inl (PExn ZeroDivisionError)
                        else inr (VPtr (sv_scale (signed q neg) p%:R x))
      | inr (VNum _ _) => inl PUnrepresentable
      | inl er => inl er
      end
  | EPow a n neg =>
      match eval a with
      | inr (VPtr x) =>
          (* binding_power of the core; radicands: (num/den)^n for n >= 1 *)
          match al with
          | AHrr =>
              let v' := if neg then hrr_invert (sv_core x) else sv_core x in
              inr (VPtr (SVal (hrr_pow_nat v' n) (sv_num x ^+ n) (sv_den x ^+ n) (sv_div x ^+ n)))
          | AVtb =>
              match vtb_power (sv_core x) neg n with
              | Ok r => inr (VPtr (SVal (core r) ((rnum r)%:R * sv_num x ^+ n) ((rden r)%:R * sv_den x ^+ n) (sv_div x ^+ n)))
              | Err er => inl (PExn er)
              end
          | ATvtb =>
              match tvtb_power (sv_core x) neg n with
              | Ok r => inr (VPtr (SVal (core r) ((rnum r)%:R * sv_num x ^+ n) ((rden r)%:R * sv_den x ^+ n) (sv_div x ^+ n)))
              | Err er => inl (PExn er)
              end
          end
      | inr (VNum _ _) => inl PUnrepresentable
      | inl er => inl er
      end
  | EScalarSrc i => let pq := nth (0, 1) scalars i in inr (VNum pq.1 pq.2)
  | EDot a b =>
      match eval a, eval b with
      | inr (VPtr x), inr (VPtr y) =>
          if size (sv_core x) != size (sv_core y) then inl (PExn ValueError)
          (* <x,y> = <cx,cy> * sqrt(nx ny / (dx dy)); rational iff the radicands agree: sqrt = nx/dx *)
          else if same_rad x y then inr (VNum (dot (sv_core x) (sv_core y) * sv_num x) (sv_den x * sv_div x * sv_div y))
          else inl PUnrepresentable
      | inr _, inr _ => inl (PExn SpaTypeError)
      | inl er, _ => inl er
      | _, inl er => inl er
      end
  | ESide a isleft =>
      match eval a with
      | inr (VPtr x) =>
          match alg_invert al (sv_core x) (if isleft then SLeft else SRight) with
          | Ok w => inr (VPtr (SVal (wval w) (sv_num x) (sv_den x) (sv_div x)))
          | Err er => inl (PExn er)
          end
      | inr (VNum _ _) => inl (PExn SpaTypeError)
      | inl er => inl er
      end
  | EApply k a =>
      match eval a with
      | inr (VPtr x) => inr (VPtr (SVal (matvec (nth [::] matrices k) (sv_core x)) (sv_num x) (sv_den x) (sv_div x)))
      | inr (VNum _ _) => inl (PExn SpaTypeError)
      | inl er => inl er
      end
  | EMethod a m =>
      match eval a with
      | inr (VPtr x) =>
          match m with
          | MNormalized =>
              (* v / ||v|| with ||v||^2 = (num/den) * <core,core>; zero unchanged *)
              let n2 := dot (sv_core x) (sv_core x) in
              if (n2 == 0) || (sv_num x == 0) then inr (VPtr x)
              else inr (VPtr (SVal (sv_core x) 1 n2 1))
          | MLinv =>
              match alg_invert al (sv_core x) SLeft with
              | Ok w => inr (VPtr (SVal (wval w) (sv_num x) (sv_den x) (sv_div x)))
              | Err er => inl (PExn er)
              end
          | MRinv =>
              match alg_invert al (sv_core x) SRight with
              | Ok w => inr (VPtr (SVal (wval w) (sv_num x) (sv_den x) (sv_div x)))
              | Err er => inl (PExn er)
              end
          end
      | inr (VNum _ _) => inl (PExn AttributeError)
      | inl er => inl er
      end
  end.

(* parse(text): a number n denotes n times the vocabulary's identity *)
Definition parse (e : expr) : sum perr sval :=
  match eval e with
  | inr (VPtr x) => inr x
  | inr (VNum p q) =>
      match special_value SIdentity with
      | inr (VPtr i) => inr (sv_scale p q i)
      | inr _ => inl PUnrepresentable
      | inl er => inl er
      end
  | inl er => inl er
  end.

End Eval.

(* ---- create_pointer: candidate selection ---------------------------------- *)
Section CreatePointer.
Variable R : realDomainType.
Local Notation vec := (seq R).

(* np.max(np.dot(vectors, p)) for a non-empty vocabulary *)
Definition max_sim (vectors : seq vec) (p : vec) : R :=
  foldr (fun v m => Num.max (dot v p) m) (dot (head [::] vectors) p) (behead vectors).

(* loop state: best candidate and its similarity (None = +inf) *)
Fixpoint select (vectors : seq vec) (bound : R) (cands : seq vec)
    (best : option (vec * R)) : option vec * bool (* warning *) :=
  match cands with
  | [::] => (omap fst best, true)           (* attempts exhausted: for/else warns *)
  | p :: rest =>
      let s := max_sim vectors p in
      let better := if best is Some (_, bs) then s < bs else true in
      if better then
        if s < bound then (Some p, false) else select vectors bound rest (Some (p, s))
      else select vectors bound rest best
  end.

(* create_pointer(attempts) over the candidate stream; an empty vocabulary
   takes the first candidate *)
Definition create_pointer_sel (vectors : seq vec) (bound : R) (cands : seq vec)
    : option vec * bool :=
  if vectors is [::] then
    (if cands is p :: _ then (Some p, false) else (None, true))
  else select vectors bound cands None.

End CreatePointer.

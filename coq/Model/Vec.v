(* Executable vector / matrix primitives over any ring, on [seq R].
   Only foldr / map / iota / mkseq / nth are used so that everything computes
   under vm_compute when R := Z (mathcomp.zify.ssrZ).  No proofs here. *)
From mathcomp Require Import all_ssreflect all_algebra.
Set Implicit Arguments.
Unset Strict Implicit.
Unset Printing Implicit Defensive.
Import GRing.Theory.
Local Open Scope ring_scope.

(* Outcome of an operation that may raise *)
Inductive exn :=
| ValueError | TypeError | SpaTypeError | SpaParseError | ValidationError
| NotImplementedErr | ZeroDivisionError | ImportError | KeyError
| SpaActionSelectionError | AttributeError | StopIteration | OtherError.

Inductive result (A : Type) :=
| Ok of A
| Err of exn.
Arguments Err {A} _.

Definition rbind {A B} (x : result A) (f : A -> result B) : result B :=
  match x with Ok a => f a | Err e => Err e end.
Definition rmap {A B} (f : A -> B) (x : result A) : result B :=
  match x with Ok a => Ok (f a) | Err e => Err e end.

Section Vec.
Variable R : ringType.

(* sum_{i<n} f i, as a right fold *)
Definition rsum (n : nat) (f : nat -> R) : R :=
  foldr (fun i acc => f i + acc) 0 (iota 0 n).

Definition vnth (v : seq R) (i : nat) : R := nth 0 v i.
Definition mkvec (n : nat) (f : nat -> R) : seq R := mkseq f n.
Definition mkmat (m n : nat) (f : nat -> nat -> R) : seq (seq R) :=
  mkseq (fun i => mkseq (f i) n) m.
Definition mnth (m : seq (seq R)) (i j : nat) : R := nth 0 (nth [::] m i) j.

Definition vadd (a b : seq R) : seq R :=
  mkvec (size a) (fun i => vnth a i + vnth b i).
Definition vsub (a b : seq R) : seq R :=
  mkvec (size a) (fun i => vnth a i - vnth b i).
Definition vneg (a : seq R) : seq R := map -%R a.
Definition vscale (c : R) (a : seq R) : seq R := map ( *%R c) a.
Definition vzero (n : nat) : seq R := nseq n 0.
Definition vbasis (n k : nat) : seq R := mkvec n (fun i => (i == k)%:R).

Definition dot (a b : seq R) : R :=
  rsum (size a) (fun i => vnth a i * vnth b i).
Definition sumv (a : seq R) : R := rsum (size a) (vnth a).

(* np.dot(m, v) for a list-of-rows matrix *)
Definition matvec (m : seq (seq R)) (v : seq R) : seq R :=
  map (fun row => dot row v) m.
(* np.dot(a, b) *)
Definition ncols (m : seq (seq R)) : nat := size (nth [::] m 0).
Definition matmul (a b : seq (seq R)) : seq (seq R) :=
  mkmat (size a) (ncols b) (fun i j => rsum (size b) (fun k => mnth a i k * mnth b k j)).
Definition mtrans (a : seq (seq R)) : seq (seq R) :=
  mkmat (ncols a) (size a) (fun i j => mnth a j i).
Definition meye (n : nat) : seq (seq R) := mkmat n n (fun i j => (i == j)%:R).
Definition mscale (c : R) (a : seq (seq R)) : seq (seq R) := map (vscale c) a.

(* v.reshape((s, s)) and m.flatten() (row major) *)
Definition reshape (s : nat) (v : seq R) : seq (seq R) :=
  mkmat s s (fun i j => vnth v (i * s + j)).
Definition flatten_m (m : seq (seq R)) : seq R := flatten m.

(* np.kron(np.eye(s), B) for an s x s matrix B *)
Definition kron_eye (s : nat) (B : seq (seq R)) : seq (seq R) :=
  mkmat (s * s) (s * s)
    (fun p q => if (p %/ s == q %/ s)%N then mnth B (p %% s) (q %% s) else 0).

End Vec.

(* exact integer square root test used by the VTB/TVTB dimension check:
   int(np.sqrt(d)) ** 2 == d *)
Fixpoint isqrt_from (k fuel : nat) (d : nat) : nat :=
  match fuel with
  | 0 => k
  | fuel'.+1 => if (k.+1 * k.+1 <= d)%N then isqrt_from k.+1 fuel' d else k
  end.
Definition isqrt (d : nat) : nat := isqrt_from 0 d d.

Definition exn_code (e : exn) : nat :=
  match e with
  | ValueError => 0 | TypeError => 1 | SpaTypeError => 2 | SpaParseError => 3
  | ValidationError => 4 | NotImplementedErr => 5 | ZeroDivisionError => 6
  | ImportError => 7 | KeyError => 8 | SpaActionSelectionError => 9
  | AttributeError => 10 | StopIteration => 11 | OtherError => 12
  end.
Definition exn_eqb (a b : exn) : bool := exn_code a == exn_code b.

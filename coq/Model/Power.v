(* Model of binding_power for the three algebras (integer exponents; the
   SciPy-absent fallback of VTB/TVTB is the coded loop) and of the default
   AbstractAlgebra.binding_power loop.

   HRR  : irfft(rfft(v') ** |e|), v' = invert v if e < 0  ==  e0 bound |e| times with v'
   VTB  : e = 0 -> right identity; else bind(v', (sqrt(s) V')^(|e|-1) / sqrt(s)),
          v' = invert_R v if e < 0
   TVTB : (sqrt(s) V')^|e| / sqrt(s), v' = invert v if e < 0
   fractional exponents: ImportError without SciPy (VTB/TVTB); HRR: ValueError
   unless the sign is positive (the value itself is not executable over a ring) *)
From mathcomp Require Import all_ssreflect all_algebra.
From NSpa Require Import Model.Vec Model.Hrr Model.Vtb.
Set Implicit Arguments.
Unset Strict Implicit.
Unset Printing Implicit Defensive.
Import GRing.Theory.
Local Open Scope ring_scope.

Section Power.
Variable R : comRingType.
Local Notation vec := (seq R).
Local Notation mat := (seq (seq R)).

(* power = eye; for _ in range(n): power = dot(power, m) *)
Definition matpow (s : nat) (M : mat) (n : nat) : mat :=
  iter n (fun P => matmul P M) (meye R s).

Definition vtb_power (v : vec) (neg : bool) (n : nat) : result (scaled vec) :=
  rbind (sub_d (size v)) (fun s =>
    if n is n'.+1 then
      let v' := if neg then vtb_transpose_vec s v else v in
      let P := flatten_m (matpow s (reshape s v') n') in
      (* P carries sqrt(s)^(n') / sqrt(s); bind adds sqrt(s) *)
      rmap (fun r => Scaled (core r) (s ^ n') 1) (vtb_bind v' P)
    else Ok (Scaled (eye_flat R s) 1 s)).

Definition tvtb_power (v : vec) (neg : bool) (n : nat) : result (scaled vec) :=
  rbind (sub_d (size v)) (fun s =>
    let v' := if neg then vtb_transpose_vec s v else v in
    let P := flatten_m (matpow s (reshape s v') n) in
    Ok (if n is n'.+1 then Scaled P (s ^ n') 1 else Scaled P 1 s)).

(* n-fold left-nested binding ((v*v)*v)*...*v, n >= 1, as cores + radicand *)
Definition vtb_nested (s : nat) (v : vec) (n : nat) : vec :=
  iter n (fun c => matvec (kron_eye s (reshape s v)) c) v.

Definition tvtb_nested (s : nat) (v : vec) (n : nat) : vec :=
  iter n (fun c => matvec (kron_eye s (mtrans (reshape s v))) c) v.

Definition hrr_nested (v : vec) (n : nat) : vec :=
  iter n (fun c => hrr_bind_core c v) v.

End Power.

(* Model of nengo_spa/semantic_pointer.py: SemanticPointer as an immutable
   value {vector; vocabulary; algebra}, its operators and methods.

   Values that carry a square root are returned symbolically:
     - binding results: [scaled vec] (core * sqrt(rnum/rden), Model/Vtb.v)
     - normalized / compare / length / distance: numerator and the radicand
       of the denominator, [num / sqrt den2]
     - division and mse: numerator and denominator, [num / den]
   Python operator dispatch (a.__op__(b), then b.__rop__(a)) is transcribed
   for the operand kinds a SemanticPointer can meet: another pointer, a number
   (int, float, NumPy scalar, 0-d array: is_number), a bare n-d array
   (is_array), anything else. *)
From mathcomp Require Import all_ssreflect all_algebra.
From NSpa Require Import Model.Types Model.Vec Model.Hrr Model.Vtb Model.Power Model.Algebra.
Set Implicit Arguments.
Unset Strict Implicit.
Unset Printing Implicit Defensive.
Import GRing.Theory.
Local Open Scope ring_scope.

Section SemPtr.
Variable R : comRingType.
Local Notation vec := (seq R).

Record sp := SP { spv : vec; spvoc : option nat; spalg : alg }.

(* the other operand of a binary operator *)
Inductive operand :=
| OPtr of sp            (* a SemanticPointer (a Fixed node of pointer type) *)
| ONum of R             (* is_number: Python / NumPy scalar or 0-d array *)
| OArr                  (* bare n-d array (n >= 1) *)
| OOther.               (* str, list, None, ... *)

Variable dim : nat -> nat.  (* dimensionality of vocabulary object i *)

Definition sp_type (p : sp) : ty := if spvoc p is Some i then TVoc i else TAny.

(* infer_types(self, other) for two pointers: the coerced vocabulary *)
Definition sp_infer (a b : sp) : result (option nat) :=
  match coerce_types dim [:: sp_type a; sp_type b] with
  | COk (TVoc i) => Ok (Some i)
  | COk _ => Ok None
  | CTypeError _ => Err SpaTypeError
  | CValueError => Err OtherError
  end.

(* _ensure_algebra_match when the result has no vocabulary *)
Definition sp_algebra_gate (voc : option nat) (a b : sp) : result unit :=
  if voc is None then
    if alg_eqb (spalg a) (spalg b) then Ok tt else Err TypeError
  else Ok tt.

Definition sq_norm (v : vec) : R := dot v v.

(* ---- binary operators: self (op) other, with `swap` for the reflected form *)
(* _add(other, swap): superpose(a, b) with a, b swapped when reflected.
   NumPy addition of unequal lengths raises ValueError. *)
Definition sp_add_ptr (self other : sp) (swap : bool) : result sp :=
  rbind (sp_infer self other) (fun voc =>
  rbind (sp_algebra_gate voc self other) (fun _ =>
    let (a, b) := if swap then (spv other, spv self) else (spv self, spv other) in
    if size a != size b then Err ValueError
    else Ok (SP (vadd a b) voc (spalg self)))).

Definition sp_neg (p : sp) : sp := SP (vneg (spv p)) (spvoc p) (spalg p).

(* _bind(other, swap) *)
Definition sp_bind_ptr (self other : sp) (swap : bool) : result (scaled vec * option nat * alg) :=
  rbind (sp_infer self other) (fun voc =>
  rbind (sp_algebra_gate voc self other) (fun _ =>
    let (a, b) := if swap then (spv other, spv self) else (spv self, spv other) in
    rmap (fun r => (r, voc, spalg self)) (alg_bind (spalg self) a b))).

(* outcome of a Python binary operator expression x OP y *)
Inductive bin_result :=
| BPtr of sp                               (* a pointer with a plain vector *)
| BBound of scaled vec & option nat & alg  (* a pointer produced by binding *)
| BDiv of vec & R & option nat & alg       (* pointer with vector num / den *)
| BErr of exn.

Definition lift_add (r : result sp) : bin_result :=
  match r with Ok p => BPtr p | Err e => BErr e end.
Definition lift_bind (r : result (scaled vec * option nat * alg)) : bin_result :=
  match r with Ok (v, voc, al) => BBound v voc al | Err e => BErr e end.

(* self + other : __add__ is TypeCheckedBinaryOp(Fixed): arrays (and NumPy
   scalars, which are np.generic) raise TypeError, non-Fixed operands return
   NotImplemented and, since int/float/str cannot add a pointer either,
   Python raises TypeError *)
Definition sp_add (self : sp) (o : operand) : bin_result :=
  match o with
  | OPtr b => lift_add (sp_add_ptr self b false)
  | _ => BErr TypeError
  end.

(* self - other = self + (-other); -other is evaluated first *)
Definition sp_sub (self : sp) (o : operand) : bin_result :=
  match o with
  | OPtr b => lift_add (sp_add_ptr self (sp_neg b) false)
  | ONum _ => BErr TypeError
  | OArr => BErr TypeError
  | OOther => BErr TypeError
  end.

(* self * other : _mul *)
Definition sp_mul (self : sp) (o : operand) (swap : bool) : bin_result :=
  match o with
  | ONum c => BPtr (SP (vscale c (spv self)) (spvoc self) (spalg self))
  | OArr => BErr TypeError
  | OPtr b => lift_bind (sp_bind_ptr self b swap)
  | OOther => BErr TypeError
  end.

(* self / other *)
Definition sp_div (self : sp) (o : operand) : bin_result :=
  match o with
  | ONum c => if c == 0 then BErr ZeroDivisionError
              else BDiv (spv self) c (spvoc self) (spalg self)
  | OArr => BErr TypeError
  | _ => BErr TypeError
  end.

(* ---- unary operators and methods ---------------------------------------- *)
Definition sp_invert (p : sp) (sd : side) : result (warned sp) :=
  rmap (fun w => Warned (SP (wval w) (spvoc p) (spalg p)) (wdep w))
       (alg_invert (spalg p) (spv p) sd).

(* normalized: v / ||v||, the zero vector is returned unchanged: (v, den2)
   denotes v / sqrt(den2) *)
Definition sp_normalized (p : sp) : vec * R :=
  (spv p, if sq_norm (spv p) == 0 then 1 else sq_norm (spv p)).

(* length: sqrt of *)
Definition sp_length2 (p : sp) : R := sq_norm (spv p).

(* dot with a pointer (type-checked, algebras of vocabulary-less pointers must
   match) or an array-like *)
Definition sp_dot (a b : sp) : result R :=
  rbind (sp_infer a b) (fun voc => rbind (sp_algebra_gate voc a b) (fun _ =>
    if size (spv a) != size (spv b) then Err ValueError else Ok (dot (spv a) (spv b)))).

(* compare: (num, den2) denotes num / sqrt(den2); zero scale gives 0 *)
Definition sp_compare (a b : sp) : result (R * R) :=
  rbind (sp_infer a b) (fun voc => rbind (sp_algebra_gate voc a b) (fun _ =>
    if size (spv a) != size (spv b) then Err ValueError else
    let sc2 := sq_norm (spv a) * sq_norm (spv b) in
    if sc2 == 0 then Ok (0, 1) else Ok (dot (spv a) (spv b), sc2))).

(* mse: (num, d) denotes num / d *)
Definition sp_mse (a b : sp) : result (R * nat) :=
  rbind (sp_infer a b) (fun voc => rbind (sp_algebra_gate voc a b) (fun _ =>
    if size (spv a) != size (spv b) then Err ValueError else
    Ok (sq_norm (vsub (spv a) (spv b)), size (spv a)))).

Definition sp_copy (p : sp) : sp := p.
Definition sp_len (p : sp) : nat := size (spv p).
Definition sp_binding_matrix (p : sp) (swap : bool) := alg_bmat (spalg p) (spv p) swap.

End SemPtr.
Arguments BErr {R} _.
Arguments OArr {R}.
Arguments OOther {R}.

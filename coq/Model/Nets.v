(* Model of the binding networks with ideal (exact) product units:
   networks/matrix_multiplication.py, networks/vtb.py, networks/tvtb.py,
   networks/circularconvolution.py (routing and option flags only: its
   cos/sin tables are not executable over a ring), modules/bind.py.
   Every network has the shape  out = T_out . ((T_a . a) (.) (T_b . b)).
   Generic over a commutative ring; executable at Z; no proofs here. *)
From mathcomp Require Import all_ssreflect all_algebra.
From NSpa Require Import Model.Vec Model.Hrr Model.Vtb Model.Algebra.
Set Implicit Arguments.
Unset Strict Implicit.
Unset Printing Implicit Defensive.
Import GRing.Theory.
Local Open Scope ring_scope.

Section Nets.
Variable R : comRingType.
Local Notation vec := (seq R).

(* ---- MatrixMult((M,K),(K,N)) ------------------------------------------------------ *)
(* product unit c = j + kk*K + i*K*N multiplies left[j + i*K] with right[kk + j*N];
   output row c // K collects it *)
Definition mm_left (K N c : nat) : nat := (c %% K) + (c %/ (K * N)) * K.
Definition mm_right (K N c : nat) : nat := ((c %% (K * N)) %/ K) + (c %% K) * N.

Definition mm_net (M K N : nat) (a b : vec) : vec :=
  let size_c := (M * K * N)%N in
  let prod := mkvec size_c (fun c => vnth a (mm_left K N c) * vnth b (mm_right K N c)) in
  mkvec (M * N) (fun r => rsum size_c (fun c => if (c %/ K == r)%N then vnth prod c else 0)).

(* ---- networks/vtb.py helper matrices ------------------------------------------------- *)
(* inversion_matrix: m[(s*i) % d + (s*i) // d, i] = 1 *)
Definition net_inversion_matrix (d s : nat) : seq vec :=
  mkmat d d (fun r i => (r == (s * i) %% d + (s * i) %/ d)%N%:R).
(* swapping_matrix: m[i, i // s + s * (i % s)] = 1 *)
Definition net_swapping_matrix (d s : nat) : seq vec :=
  mkmat d d (fun i j => (j == i %/ s + s * (i %% s))%N%:R).

Inductive net_opts := NoUnbind | UnbindLeft | UnbindRight | UnbindBoth.

Definition block (s i : nat) (v : vec) : vec := take s (drop (i * s) v).

(* VTB(d, unbind_left, unbind_right): routing into `vec` and `mat`, then per block
   a MatrixMult((s,s),(s,1)) whose output is scaled by sqrt(s) *)
Definition vtb_net (opts : net_opts) (left right : vec) : result (scaled vec) :=
  let d := size left in
  rbind (sub_d d) (fun s =>
    match opts with
    | UnbindBoth => Err ValueError
    | _ =>
        let '(mat, vec_) :=
          match opts with
          | UnbindLeft => (matvec (net_inversion_matrix d s) left, matvec (net_swapping_matrix d s) right)
          | UnbindRight => (matvec (net_inversion_matrix d s) right, left)
          | _ => (right, left)
          end in
        Ok (Scaled (flatten [seq mm_net s s 1 mat (block s i vec_) | i <- iota 0 s]) s 1)
    end).

(* TVTB: as VTB, but every MatrixMult reads mat through the inversion matrix, and
   unbind_left routes the left input (inverted) into `vec` and the right input
   into `mat` (this routing is the repair of a defect found by this check:
   upstream routed them the other way round and unbound on the wrong side) *)
Definition tvtb_net (opts : net_opts) (left right : vec) : result (scaled vec) :=
  let d := size left in
  rbind (sub_d d) (fun s =>
    match opts with
    | UnbindBoth => Err ValueError
    | _ =>
        let '(mat, vec_) :=
          match opts with
          | UnbindLeft => (right, matvec (net_inversion_matrix d s) left)
          | UnbindRight => (matvec (net_inversion_matrix d s) right, left)
          | _ => (right, left)
          end in
        let mat_in := matvec (net_inversion_matrix d s) mat in
        Ok (Scaled (flatten [seq mm_net s s 1 mat_in (block s i vec_) | i <- iota 0 s]) s 1)
    end).

(* CircularConvolution(d, invert_a, invert_b): correlation with the inverted input *)
Definition hrr_net (opts : net_opts) (a b : vec) : vec :=
  let a' := match opts with UnbindLeft | UnbindBoth => hrr_invert a | _ => a end in
  let b' := match opts with UnbindRight | UnbindBoth => hrr_invert b | _ => b end in
  hrr_bind_core a' b'.

End Nets.

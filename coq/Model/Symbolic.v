(* Model of nengo_spa/ast/symbolic.py (PointerSymbol / FixedScalar as builders of
   expression trees) and of the link to Vocabulary.parse:
     evaluate() = vocab.parse(str(tree)).
   Operators build tree nodes; the four methods build x.method() nodes (this is
   the repaired behaviour: upstream concatenated strings into a new leaf, so
   (A + B).normalized() became the leaf "A + B.normalized()").  A number becomes
   the leaf repr(python scalar). *)
From Coq Require Import List Bool Arith String.
From NSpa Require Import Model.ExprTree.
Import ListNotations.

Inductive smethod := SNormalized | SUnitary | SLinv | SRinv.
Definition smethod_name (m : smethod) : string :=
  match m with SNormalized => "normalized" | SUnitary => "unitary" | SLinv => "linv" | SRinv => "rinv" end%string.

(* a symbolic program: what the user writes with Python operators on sym.X *)
Inductive sexpr :=
| SSym (name : string)
| SParen (text : string) (inner : tree)  (* sym("...") : text wrapped in parentheses; inner = its parse *)
| SNumLit (lit : string)                 (* a Python number, by its repr *)
| SNeg (a : sexpr)
| SInv (a : sexpr)
| SAdd (a b : sexpr)
| SSub (a b : sexpr)
| SMul (a b : sexpr)
| SDiv (a b : sexpr)
| SMethod (a : sexpr) (m : smethod).

(* the tree the PointerSymbol operators build (node for node) *)
Fixpoint tree_of (e : sexpr) : tree :=
  match e with
  | SSym n => Leaf n
  | SParen text _ => Leaf ("(" ++ text ++ ")")
  | SNumLit lit => Leaf lit
  | SNeg a => Un UNeg (tree_of a)
  | SInv a => Un UInv (tree_of a)
  | SAdd a b => Bin BAdd (tree_of a) (tree_of b)
  | SSub a b => Bin BSub (tree_of a) (tree_of b)
  | SMul a b => Bin BMul (tree_of a) (tree_of b)
  | SDiv a b => Bin BDiv (tree_of a) (tree_of b)
  | SMethod a m => Call0 (Attr (smethod_name m) (tree_of a))
  end.

(* the same operations with the same nesting, as a tree over atomic leaves
   (what "applying the operations directly" denotes) *)
Fixpoint direct_tree (e : sexpr) : tree :=
  match e with
  | SSym n => Leaf n
  | SParen _ inner => inner
  | SNumLit lit => Leaf lit
  | SNeg a => Un UNeg (direct_tree a)
  | SInv a => Un UInv (direct_tree a)
  | SAdd a b => Bin BAdd (direct_tree a) (direct_tree b)
  | SSub a b => Bin BSub (direct_tree a) (direct_tree b)
  | SMul a b => Bin BMul (direct_tree a) (direct_tree b)
  | SDiv a b => Bin BDiv (direct_tree a) (direct_tree b)
  | SMethod a m => Call0 (Attr (smethod_name m) (direct_tree a))
  end.

(* reading a parenthesised leaf back: Python parses "(" text ")" to [inner];
   everything else is structural *)
Fixpoint unfold_parens (e : sexpr) (t : tree) : tree :=
  match e, t with
  | SParen _ inner, Leaf _ => inner
  | SNeg a, Un op c => Un op (unfold_parens a c)
  | SInv a, Un op c => Un op (unfold_parens a c)
  | SAdd a b, Bin op l r | SSub a b, Bin op l r | SMul a b, Bin op l r | SDiv a b, Bin op l r =>
      Bin op (unfold_parens a l) (unfold_parens b r)
  | SMethod a _, Call0 (Attr n c) => Call0 (Attr n (unfold_parens a c))
  | _, _ => t
  end.

(* ---- the faithful (unrepaired) method rule, kept for the refutation ----------- *)
Fixpoint tree_of_upstream (e : sexpr) : tree :=
  match e with
  | SMethod a m => Leaf (to_string (tree_of_upstream a) ++ "." ++ smethod_name m ++ "()")
  | SSym n => Leaf n
  | SParen text _ => Leaf ("(" ++ text ++ ")")
  | SNumLit lit => Leaf lit
  | SNeg a => Un UNeg (tree_of_upstream a)
  | SInv a => Un UInv (tree_of_upstream a)
  | SAdd a b => Bin BAdd (tree_of_upstream a) (tree_of_upstream b)
  | SSub a b => Bin BSub (tree_of_upstream a) (tree_of_upstream b)
  | SMul a b => Bin BMul (tree_of_upstream a) (tree_of_upstream b)
  | SDiv a b => Bin BDiv (tree_of_upstream a) (tree_of_upstream b)
  end.

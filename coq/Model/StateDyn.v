(* State with feedback, ideal (Direct) neurons, discrete time as Nengo steps it:
     out_t      = e_t + filt_t                        (ensembles pass their input through)
     filt_{t+1} = a filt_t + (1 - a) f out_t         (lowpass synapse, a = exp(-dt/tau); gain f)
   e_t: external input arriving unfiltered at the State's input. *)
From mathcomp Require Import all_ssreflect all_algebra.
From NSpa Require Import Model.Vec.
Set Implicit Arguments.
Unset Strict Implicit.
Unset Printing Implicit Defensive.
Import GRing.Theory.
Local Open Scope ring_scope.

Section StateDyn.
Variable R : comRingType.
Variables a f : R.
Implicit Types filt e : seq R.

Definition sd_out filt e : seq R := vadd e filt.
Definition sd_next filt e : seq R := vadd (vscale a filt) (vscale ((1 - a) * f) (sd_out filt e)).

(* the filter state after feeding the inputs es, oldest first *)
Fixpoint sd_run filt (es : seq (seq R)) : seq R :=
  if es is e :: es' then sd_run (sd_next filt e) es' else filt.

(* what the output shows n steps after the input has ended *)
Definition sd_after filt d n : seq R := sd_out (sd_run filt (nseq n (vzero R d))) (vzero R d).
End StateDyn.

(* Model of nengo_spa/ast/expr_tree.py: expression trees, the precedence table
   and the four __str__ rules, printing to a token list (rendered to the exact
   string the implementation produces), and Python's expression grammar for
   these operators as a stratified derivation relation.

   Not modelled: limit_str_length (names shortened with an ellipsis are outside
   the claim); call arguments (the library only builds zero-argument calls
   x.method()). *)
From Coq Require Import List Bool Arith String.
Import ListNotations.

Inductive uop := UNeg | UPos | UInv.
Inductive bop :=
| BOr | BXor | BAnd            (* | ^ & *)
| BShl | BShr                  (* << >> *)
| BAdd | BSub
| BMul | BMatMul | BDiv | BFloorDiv | BMod
| BPow.

Inductive tree :=
| Leaf (s : string)
| Un (op : uop) (t : tree)
| Bin (op : bop) (l r : tree)
| Attr (name : string) (t : tree)
| Call0 (t : tree).            (* t() *)

(* positions in the precedence table (only their order matters) *)
Definition blevel (op : bop) : nat :=
  match op with
  | BOr => 1 | BXor => 2 | BAnd => 3
  | BShl | BShr => 4
  | BAdd | BSub => 5
  | BMul | BMatMul | BDiv | BFloorDiv | BMod => 6
  | BPow => 8
  end.
Definition unary_level := 7.
Definition primary_level := 9.
Definition atom_level := 10.

Definition prec (t : tree) : nat :=
  match t with
  | Leaf _ => atom_level
  | Un _ _ => unary_level
  | Bin op _ _ => blevel op
  | Attr _ _ | Call0 _ => primary_level
  end.

Inductive token :=
| TName (s : string)
| TBin (op : bop)      (* rendered with a space on each side *)
| TUn (op : uop)
| TLpar | TRpar | TDot.

Definition paren (ts : list token) : list token := [TLpar] ++ ts ++ [TRpar].

(* upstream's rules before the repair: binary: lhs parenthesised if
   prec(self) > prec(lhs), rhs if prec(self) >= prec(rhs), for every operator
   including **; unary: >= ; attribute and call: > *)
Fixpoint print_upstream (t : tree) : list token :=
  match t with
  | Leaf s => [TName s]
  | Un op c =>
      [TUn op] ++ (if prec c <=? unary_level then paren (print_upstream c) else print_upstream c)
  | Bin op l r =>
      (if prec l <? blevel op then paren (print_upstream l) else print_upstream l)
      ++ [TBin op] ++
      (if prec r <=? blevel op then paren (print_upstream r) else print_upstream r)
  | Attr name c =>
      (if prec c <? primary_level then paren (print_upstream c) else print_upstream c) ++ [TDot; TName name]
  | Call0 c =>
      (if prec c <? primary_level then paren (print_upstream c) else print_upstream c) ++ [TLpar; TRpar]
  end.

(* the coded rules (after the repair of the power operator): as above, except
   that for the right-associative power operator the lhs is parenthesised if prec(self) >= prec(lhs) and
   the rhs if prec(self) > prec(rhs) *)
Fixpoint print (t : tree) : list token :=
  match t with
  | Leaf s => [TName s]
  | Un op c =>
      [TUn op] ++ (if prec c <=? unary_level then paren (print c) else print c)
  | Bin BPow l r =>
      (if prec l <=? blevel BPow then paren (print l) else print l)
      ++ [TBin BPow] ++
      (if prec r <? blevel BPow then paren (print r) else print r)
  | Bin op l r =>
      (if prec l <? blevel op then paren (print l) else print l)
      ++ [TBin op] ++
      (if prec r <=? blevel op then paren (print r) else print r)
  | Attr name c =>
      (if prec c <? primary_level then paren (print c) else print c) ++ [TDot; TName name]
  | Call0 c =>
      (if prec c <? primary_level then paren (print c) else print c) ++ [TLpar; TRpar]
  end.

(* ---- rendering ------------------------------------------------------------------ *)
Definition bop_str (op : bop) : string :=
  match op with
  | BOr => "|" | BXor => "^" | BAnd => "&" | BShl => "<<" | BShr => ">>"
  | BAdd => "+" | BSub => "-" | BMul => "*" | BMatMul => "@" | BDiv => "/"
  | BFloorDiv => "//" | BMod => "%" | BPow => "**"
  end%string.
Definition uop_str (op : uop) : string :=
  match op with UNeg => "-" | UPos => "+" | UInv => "~" end%string.

Definition render_token (t : token) : string :=
  match t with
  | TName s => s
  | TBin op => (" " ++ bop_str op ++ " ")%string
  | TUn op => uop_str op
  | TLpar => "("%string | TRpar => ")"%string | TDot => "."%string
  end.
Definition render (ts : list token) : string :=
  fold_right (fun t acc => (render_token t ++ acc)%string) EmptyString ts.
Definition to_string (t : tree) : string := render (print t).

(* ---- Python's grammar for these operators ------------------------------------- *)
(* D n ts t : the token list ts is an expression of level >= n denoting tree t
     or_expr (1) ::= or_expr "|" xor_expr | xor_expr          ... left-assoc binary levels 1..6
     u_expr  (7) ::= ("-"|"+"|"~") u_expr | power
     power   (8) ::= primary ["**" u_expr]
     primary (9) ::= atom | primary "." NAME | primary "(" ")"
     atom   (10) ::= NAME | "(" or_expr ")"                                              *)
Inductive D : nat -> list token -> tree -> Prop :=
| D_leaf s : D atom_level [TName s] (Leaf s)
| D_paren ts t : D 1 ts t -> D atom_level (paren ts) t
| D_up n ts t : D (S n) ts t -> D n ts t
| D_bin op ts1 ts2 t1 t2 :
    blevel op <> blevel BPow ->
    D (blevel op) ts1 t1 -> D (S (blevel op)) ts2 t2 ->
    D (blevel op) (ts1 ++ [TBin op] ++ ts2) (Bin op t1 t2)
| D_un op ts t : D unary_level ts t -> D unary_level ([TUn op] ++ ts) (Un op t)
| D_pow ts1 ts2 t1 t2 :
    D primary_level ts1 t1 -> D unary_level ts2 t2 ->
    D (blevel BPow) (ts1 ++ [TBin BPow] ++ ts2) (Bin BPow t1 t2)
| D_attr name ts t : D primary_level ts t -> D primary_level (ts ++ [TDot; TName name]) (Attr name t)
| D_call ts t : D primary_level ts t -> D primary_level (ts ++ [TLpar; TRpar]) (Call0 t).

(* trees on which the coded printer is sound: no ** whose left operand is a ** *)
Fixpoint no_left_nested_pow (t : tree) : bool :=
  match t with
  | Leaf _ => true
  | Un _ c | Attr _ c | Call0 c => no_left_nested_pow c
  | Bin op l r =>
      no_left_nested_pow l && no_left_nested_pow r &&
      match op, l with
      | BPow, Bin BPow _ _ => false
      | _, _ => true
      end
  end.

(* Model of nengo_spa/algebras/hrr_algebra.py (HrrAlgebra, HrrSign).
   Generic over a commutative ring; executable at Z.  No proofs here.

   bind            : the documented defining sum c[i] = sum_j a[j] b[i-j]
                     (the code computes it as irfft(rfft a * rfft b, n); NumPy's
                     FFT is not modelled - the tie compares values)
   get_binding_matrix : T[i][j] = v[(i - j) % D]   (swap_inputs ignored)
   invert          : v[-arange(n)]  i.e. index (n - i) % n
   get_inversion_matrix : eye(d)[-arange(d)]
   special elements: identity e0, negative identity, zero, absorbing
                     ones/sqrt(d)  (core = ones, radicand 1/d)
   binding_power   : integer exponents: |n|-fold product in the Fourier domain
                     of (invert v if n < 0), i.e. e0 bound |n| times with v'
   sign            : (sgn dc, sgn nyquist) with nyquist := 0 for odd d,
                     HrrSign constructor guards, predicates, to_vector
   abs             : AbstractAlgebra.abs = bind(invert(to_vector(sign v)), v) *)
From mathcomp Require Import all_ssreflect all_algebra.
From NSpa Require Import Model.Vec.
Set Implicit Arguments.
Unset Strict Implicit.
Unset Printing Implicit Defensive.
Import GRing.Theory.
Local Open Scope ring_scope.

Section Hrr.
Variable R : comRingType.
Local Notation vec := (seq R).

Definition hrr_valid (d : nat) : bool := (0 < d)%N.

(* index (i - j) mod d for 0 <= i, j < d, on naturals *)
Definition subm (d i j : nat) : nat := (i + (d - j %% d)) %% d.

Definition hrr_bind_core (a b : vec) : vec :=
  let d := size a in
  mkvec d (fun i => rsum d (fun j => vnth a j * vnth b (subm d i j))).

Definition hrr_bind (a b : vec) : result vec :=
  if size a == size b then Ok (hrr_bind_core a b) else Err ValueError.

Definition hrr_bmat (v : vec) (swap : bool) : seq vec :=
  let d := size v in mkmat d d (fun i j => vnth v (subm d i j)).

Definition hrr_invert (v : vec) : vec :=
  let d := size v in mkvec d (fun i => vnth v (subm d 0 i)).

Definition hrr_imat (d : nat) : seq vec :=
  mkmat d d (fun i j => (j == subm d 0 i)%:R).

Definition hrr_identity (d : nat) : vec := vbasis R d 0.
Definition hrr_neg_identity (d : nat) : vec := vneg (hrr_identity d).
Definition hrr_zero (d : nat) : vec := vzero R d.
(* absorbing element: core (1,...,1), to be multiplied by sqrt(1/d) *)
Definition hrr_absorbing_core (d : nat) : vec := nseq d 1.

(* e0 bound n times with v *)
Definition hrr_pow_nat (v : vec) (n : nat) : vec :=
  iter n (fun p => hrr_bind_core p v) (hrr_identity (size v)).

End Hrr.

(* ---- sign: needs an order ------------------------------------------------ *)
Section HrrSign.
Variable R : realDomainType.
Local Notation vec := (seq R).

(* three-valued sign as in int(np.sign x) *)
Inductive sgn3 := SNeg | SZero | SPos.
Definition sgn3_of (x : R) : sgn3 :=
  if x == 0 then SZero else if 0 < x then SPos else SNeg.
Definition sgn3_mul (a b : sgn3) : sgn3 :=
  match a, b with
  | SZero, _ | _, SZero => SZero
  | SPos, x | x, SPos => x
  | SNeg, SNeg => SPos
  end.
Definition sgn3_val (a : sgn3) : R :=
  match a with SNeg => -1 | SZero => 0 | SPos => 1 end.

Definition hrr_dc (v : vec) : R := sumv v.
Definition hrr_nyq (v : vec) : R :=
  if odd (size v) then 0
  else rsum (size v) (fun i => (-1) ^+ i * vnth v i).

(* HrrSign(dc_sign, nyquist_sign): ValueError when dc = 0 and nyquist <> 0;
   nyquist := dc when nyquist = 0 *)
Record hrr_sign := HrrSignOf { dc_sign : sgn3; nyq_sign : sgn3 }.
Definition mk_hrr_sign (dc nq : sgn3) : result hrr_sign :=
  match dc, nq with
  | SZero, (SNeg | SPos) => Err ValueError
  | _, SZero => Ok (HrrSignOf dc dc)
  | _, _ => Ok (HrrSignOf dc nq)
  end.

Definition hrr_sign_of (v : vec) : result hrr_sign :=
  mk_hrr_sign (sgn3_of (hrr_dc v)) (sgn3_of (hrr_nyq v)).

Definition sign_is_positive (s : hrr_sign) : bool :=
  match dc_sign s, nyq_sign s with
  | SPos, (SPos | SZero) => true | _, _ => false end.
Definition sign_is_negative (s : hrr_sign) : bool :=
  match dc_sign s, nyq_sign s with
  | SNeg, _ | _, SNeg => true | _, _ => false end.
Definition sign_is_indefinite (s : hrr_sign) : bool := false.
Definition sign_is_zero (s : hrr_sign) : bool :=
  ~~ (sign_is_positive s || sign_is_negative s || sign_is_indefinite s).

(* roll(e0, 1) = e1 (for d = 1 the roll is the identity) *)
Definition hrr_sign_to_vector (s : hrr_sign) (d : nat) : vec :=
  match dc_sign s with
  | SZero => vzero R d
  | dc =>
      let v := if sgn3_mul dc (nyq_sign s) is SNeg
               then vbasis R d (1 %% d) else vbasis R d 0 in
      vscale (sgn3_val dc) v
  end.

Definition hrr_abs (v : vec) : result vec :=
  rbind (hrr_sign_of v) (fun s =>
    hrr_bind (hrr_invert (hrr_sign_to_vector s (size v))) v).

(* binding_power with an integer exponent (sign, magnitude) *)
Definition hrr_power (v : vec) (neg : bool) (n : nat) : vec :=
  hrr_pow_nat (if neg then hrr_invert v else v) n.

End HrrSign.

(* Model of the Transcode adapters (modules/transcode.py: SpArrayExtractor, make_sp_func, make_parse_func,
   TranscodeFunctionParam.to_node_output): whatever form a value is given in - array, Semantic Pointer,
   symbol, expression string - the node emits the vector it denotes in the output vocabulary, and a function
   of the input pointer receives the input vector as a pointer of the input vocabulary. *)
From mathcomp Require Import all_ssreflect all_algebra.
From NSpa Require Import Model.Vec.
Set Implicit Arguments.
Unset Strict Implicit.
Unset Printing Implicit Defensive.

Section Transcode.
Variable R : Type.
Local Notation vec := (seq R).
Variable text : Type.                       (* expression strings *)
Variable parse_out : text -> result vec.    (* output_vocab.parse(text).v *)

(* a value handed to / returned by a Transcode *)
Inductive tvalue :=
| TArray of vec                 (* ndarray: passed through *)
| TPointer of vec               (* SemanticPointer: its .v *)
| TSymbol of text               (* PointerSymbol: its expression, parsed *)
| TString of text.              (* str: parsed in the output vocabulary *)

(* SpArrayExtractor.__call__ *)
Definition extract (v : tvalue) : result vec :=
  match v with
  | TArray a => Ok a
  | TPointer p => Ok p
  | TSymbol e | TString e => parse_out e
  end.

(* the function argument of Transcode *)
Inductive tfunction :=
| FConst of tvalue                        (* a fixed str / SemanticPointer / PointerSymbol *)
| FTime of (nat -> tvalue)                (* function(t), time in steps *)
| FTimeInput of (nat -> vec -> tvalue).   (* function(t, x): x the raw input array (no input vocabulary) *)

(* to_node_output: what the node emits at time t for raw input x; with an input vocabulary the function
   sees SemanticPointer(x, vocab=input_vocab), i.e. the same vector *)
Definition node_output (has_out_vocab : bool) (f : tfunction) (t : nat) (x : vec) : result vec :=
  let value := match f with FConst v => v | FTime g => g t | FTimeInput g => g t x end in
  if has_out_vocab then extract value
  else match value with TArray a => Ok a | _ => Err ValidationError end.

(* every form denotes its vector *)
Theorem extract_forms a p e :
  [/\ extract (TArray a) = Ok a, extract (TPointer p) = Ok p, extract (TSymbol e) = parse_out e
    & extract (TString e) = parse_out e].
Proof. by []. Qed.

(* a constant or time function given as pointer / array reaches the output unchanged at every time *)
Theorem node_output_of_pointer_forms (v : vec) t x :
  node_output true (FConst (TPointer v)) t x = Ok v /\
  node_output true (FTime (fun _ => TArray v)) t x = Ok v /\
  node_output true (FTime (fun _ => TPointer v)) t x = Ok v.
Proof. by []. Qed.

(* a function of the input pointer is applied to the current input *)
Theorem node_output_of_input_function (g : vec -> vec) t x :
  node_output true (FTimeInput (fun _ p => TPointer (g p))) t x = Ok (g x).
Proof. by []. Qed.

End Transcode.

(* Model of the expression compiler: nengo_spa/ast/dynamic.py (DynamicNode,
   Transformed, Summed, ModuleOutput), the fixed operands of ast/symbolic.py and
   semantic_pointer.py as they meet dynamic nodes, and `>>` (connectors.py).

   Source language: expressions over module outputs (dynamic pointers and dynamic
   scalars), fixed pointers (symbols / Semantic Pointers, already evaluated in
   their vocabulary) and numbers.

   [build] transcribes the operator methods: which AST node each operator
   returns (a pending linear transform, a sum, or the output of a Bind / Product
   / dot-product module whose inputs were connected), with the transform matrices
   the code computes (binding matrix with or without swapped inputs, inversion
   matrix per side, row / column vectors, 1/c).  [sem] is what such a node
   delivers with ideal components: a connection delivers transform * value,
   several connections into one input add, Direct-mode modules compute their
   function exactly, at steady state.  [eval_sp] is Semantic-Pointer arithmetic.

   The algebra is abstract ([walg]): vectors over a ring in which the algebra's
   own scale factor exists (e.g. sqrt(s) for VTB/TVTB); instances for the three
   shipped algebras are in Theory/DynamicLaws.v. *)
From mathcomp Require Import all_ssreflect all_algebra.
From NSpa Require Import Model.Vec Model.Vtb.
Set Implicit Arguments.
Unset Strict Implicit.
Unset Printing Implicit Defensive.
Import GRing.Theory.
Local Open Scope ring_scope.

Section Dynamic.
Variable R : comRingType.
Local Notation vec := (seq R).
Local Notation mat := (seq (seq R)).

(* what the compiler needs from an algebra *)
Record walg := WAlg {
  w_bind : vec -> vec -> vec;
  w_bmat : vec -> bool -> mat;          (* get_binding_matrix(v, swap_inputs) *)
  w_inv : side -> vec -> result vec;    (* invert per sidedness *)
  w_imat : nat -> side -> result mat;   (* get_inversion_matrix(d, sidedness) *)
  w_valid : nat -> bool                 (* is_valid_dimensionality *)
}.
Variable A : walg.

(* ---- source language --------------------------------------------------------------- *)
Inductive dexpr :=
| DSrc of nat                 (* dynamic pointer: output of module i *)
| DSrcScalar of nat           (* dynamic scalar *)
| DFixed of bool & vec        (* fixed pointer, evaluated: typed symbol (true) or SemanticPointer object (false) *)
| DNum of R                   (* number *)
| DAdd of dexpr & dexpr
| DSub of dexpr & dexpr
| DNeg of dexpr
| DMul of dexpr & dexpr
| DDivNum of dexpr & R & R    (* e / c, with the reciprocal 1/c supplied (c * rc = 1) *)
| DInv of side & dexpr
| DDot of dexpr & dexpr
| DApply of mat & dexpr.      (* reinterpret (identity matrix) / translate (transform_to matrix) *)

(* SPA type of a node: a vocabulary (identified with its dimensionality; distinct
   vocabularies of one dimensionality are the business of Model/Types.v) or scalar *)
Inductive vty := TyPtr of nat | TyScalar.
Definition vty_eqb (a b : vty) : bool :=
  match a, b with
  | TyPtr d, TyPtr e => d == e
  | TyScalar, TyScalar => true
  | _, _ => false
  end.

(* values: pointers and scalars *)
Inductive dval := VP of vec | VS of R.

Variable env_ptr : nat -> vec.
Variable env_scalar : nat -> R.
Variable src_dim : nat -> nat.        (* dimensionality of the vocabulary of source i *)

Definition sdot (a b : vec) : R := dot a b.

(* ---- Semantic-Pointer arithmetic on the current source values ---------------------- *)
Definition sp_add (a b : result dval) : result dval :=
  match a, b with
  | Ok (VP x), Ok (VP y) => Ok (VP (vadd x y))
  | Ok (VS x), Ok (VS y) => Ok (VS (x + y))
  | Ok _, Ok _ => Err SpaTypeError
  | Err er, _ => Err er
  | _, Err er => Err er
  end.

Definition sp_neg (a : result dval) : result dval :=
  match a with
  | Ok (VP x) => Ok (VP (vneg x))
  | Ok (VS x) => Ok (VS (- x))
  | Err er => Err er
  end.

Definition sp_mul (a b : result dval) : result dval :=
  match a, b with
  | Ok (VP x), Ok (VP y) => Ok (VP (w_bind A x y))
  | Ok (VP x), Ok (VS c) | Ok (VS c), Ok (VP x) => Ok (VP (vscale c x))
  | Ok (VS x), Ok (VS y) => Ok (VS (x * y))
  | Err er, _ => Err er
  | _, Err er => Err er
  end.

Definition sp_inv (sd : side) (a : result dval) : result dval :=
  match a with
  | Ok (VP x) => rmap VP (w_inv A sd x)
  | Ok (VS _) => Err SpaTypeError
  | Err er => Err er
  end.

Definition sp_dot (a b : result dval) : result dval :=
  match a, b with
  | Ok (VP x), Ok (VP y) => Ok (VS (sdot x y))
  | Ok _, Ok _ => Err SpaTypeError
  | Err er, _ => Err er
  | _, Err er => Err er
  end.

Definition sp_apply (T : mat) (a : result dval) : result dval :=
  match a with
  | Ok (VP x) => Ok (VP (matvec T x))
  | Ok (VS _) => Err SpaTypeError
  | Err er => Err er
  end.

Fixpoint eval_sp (e : dexpr) : result dval :=
  match e with
  | DSrc i => Ok (VP (env_ptr i))
  | DSrcScalar i => Ok (VS (env_scalar i))
  | DFixed _ v => Ok (VP v)
  | DNum c => Ok (VS c)
  | DAdd a b => sp_add (eval_sp a) (eval_sp b)
  | DSub a b => sp_add (eval_sp a) (sp_neg (eval_sp b))
  | DNeg a => sp_neg (eval_sp a)
  | DMul a b => sp_mul (eval_sp a) (eval_sp b)
  | DDivNum a c rc => sp_mul (eval_sp a) (Ok (VS rc))
  | DInv sd a => sp_inv sd (eval_sp a)
  | DDot a b => sp_dot (eval_sp a) (eval_sp b)
  | DApply T a => sp_apply T (eval_sp a)
  end.

(* ---- the AST nodes the operators build ------------------------------------------------ *)
Inductive transform :=
| TMat of mat            (* matrix *)
| TScale of R            (* scalar gain *)
| TRow of vec            (* 1 x d: dot with a fixed pointer, result scalar *)
| TCol of vec.           (* d x 1: a dynamic scalar scaling a fixed pointer *)

Inductive node :=
| NOut of nat                        (* ModuleOutput of a source module (pointer) *)
| NOutScalar of nat
| NFixedPtr of vec                   (* a fixed pointer: realised as a constant Node *)
| NFixedScalar of R
| NTransformed of node & transform   (* pending linear transform *)
| NSummed of bool & node & node      (* Summed((a, b), type_); the flag: type_ == TScalar *)
| NBind of node & node               (* output of a Bind module fed with (left, right) *)
| NProduct of node & node            (* output of a Product module *)
| NDotProd of node & node.           (* output of a Compare-style dot-product module *)

(* what a node delivers with ideal components *)
Definition apply_t (t : transform) (v : dval) : result dval :=
  match t, v with
  | TMat m, VP x => Ok (VP (matvec m x))
  | TScale c, VP x => Ok (VP (vscale c x))
  | TScale c, VS x => Ok (VS (c * x))
  | TRow r, VP x => Ok (VS (sdot r x))
  | TCol c, VS x => Ok (VP (vscale x c))
  | _, _ => Err ValidationError
  end.

Fixpoint sem (n : node) : result dval :=
  match n with
  | NOut i => Ok (VP (env_ptr i))
  | NOutScalar i => Ok (VS (env_scalar i))
  | NFixedPtr v => Ok (VP v)
  | NFixedScalar c => Ok (VS c)
  | NTransformed m t => rbind (sem m) (apply_t t)
  | NSummed _ a b =>
      match sem a, sem b with
      | Ok (VP x), Ok (VP y) => Ok (VP (vadd x y))
      | Ok (VS x), Ok (VS y) => Ok (VS (x + y))
      | Ok _, Ok _ => Err ValidationError
      | Err er, _ => Err er
      | _, Err er => Err er
      end
  | NBind a b =>
      match sem a, sem b with
      | Ok (VP x), Ok (VP y) => Ok (VP (w_bind A x y))
      | Ok _, Ok _ => Err ValidationError
      | Err er, _ => Err er
      | _, Err er => Err er
      end
  | NProduct a b =>
      match sem a, sem b with
      | Ok (VS x), Ok (VS y) => Ok (VS (x * y))
      | Ok _, Ok _ => Err ValidationError
      | Err er, _ => Err er
      | _, Err er => Err er
      end
  | NDotProd a b =>
      match sem a, sem b with
      | Ok (VP x), Ok (VP y) => Ok (VS (sdot x y))
      | Ok _, Ok _ => Err ValidationError
      | Err er, _ => Err er
      | _, Err er => Err er
      end
  end.

(* ---- connect_to: how a node is wired to a sink --------------------------------------------- *)
(* np.dot(outer, inner) on the transform shapes that occur *)
Definition vecmat (r : vec) (m : mat) : vec := matvec (mtrans m) r.
Definition outer_prod (c r : vec) : mat := mkmat (size c) (size r) (fun i j => vnth c i * vnth r j).

Definition tscale (a : R) (t : transform) : transform :=
  match t with
  | TScale b => TScale (a * b)
  | TMat m => TMat (mscale a m)
  | TRow r => TRow (vscale a r)
  | TCol c => TCol (vscale a c)
  end.

Definition compose (k t : transform) : result transform :=
  match k, t with
  | TScale a, _ => Ok (tscale a t)
  | _, TScale a => Ok (tscale a k)
  | TMat a, TMat b => Ok (TMat (matmul a b))
  | TMat a, TCol c => Ok (TCol (matvec a c))
  | TRow r, TMat m => Ok (TRow (vecmat r m))
  | TRow r, TCol c => Ok (TScale (sdot r c))
  | TCol c, TRow r => Ok (TMat (outer_prod c r))
  | _, _ => Err ValidationError
  end.

Definition apply_opt (k : option transform) (v : dval) : result dval :=
  if k is Some t then apply_t t v else Ok v.

Definition add_val (x y : result dval) : result dval :=
  match x, y with
  | Ok (VP a), Ok (VP b) => Ok (VP (vadd a b))
  | Ok (VS a), Ok (VS b) => Ok (VS (a + b))
  | Ok _, Ok _ => Err ValidationError
  | Err er, _ => Err er
  | _, Err er => Err er
  end.

(* value arriving at the sink after n.connect_to(sink, transform=k) *)
Fixpoint deliver (n : node) (k : option transform) : result dval :=
  match n with
  | NOut i => apply_opt k (VP (env_ptr i))          (* nengo.Connection(output, sink, transform=k) *)
  | NOutScalar i => apply_opt k (VS (env_scalar i))
  | NFixedPtr v => apply_opt k (VP v)               (* Connection(Node(v), sink, transform=k) *)
  | NFixedScalar c => apply_opt k (VS c)
  | NTransformed m t =>                             (* transform = np.dot(k, self.transform) *)
      match k with
      | None => deliver m (Some t)
      | Some k' => rbind (compose k' t) (fun kt => deliver m (Some kt))
      end
  | NSummed true a b => add_val (deliver a k) (deliver b k)       (* scalar: fan-in *)
  | NSummed false a b =>                                          (* Superposition module *)
      rbind (add_val (deliver a None) (deliver b None)) (apply_opt k)
  | NBind a b =>
      match deliver a None, deliver b None with
      | Ok (VP x), Ok (VP y) => apply_opt k (VP (w_bind A x y))
      | Ok _, Ok _ => Err ValidationError
      | Err er, _ => Err er
      | _, Err er => Err er
      end
  | NProduct a b =>
      match deliver a None, deliver b None with
      | Ok (VS x), Ok (VS y) => apply_opt k (VS (x * y))
      | Ok _, Ok _ => Err ValidationError
      | Err er, _ => Err er
      | _, Err er => Err er
      end
  | NDotProd a b =>
      match deliver a None, deliver b None with
      | Ok (VP x), Ok (VP y) => apply_opt k (VS (sdot x y))
      | Ok _, Ok _ => Err ValidationError
      | Err er, _ => Err er
      | _, Err er => Err er
      end
  end.

(* ---- build: the operator methods ---------------------------------------------------------- *)
(* a built operand: dynamic node, or fixed value (folded symbolically), with its SPA type *)
Inductive built :=
| BDyn of node & vty
| BFixP of bool & vec
| BFixS of R.

Definition bty (b : built) : vty :=
  match b with
  | BDyn _ t => t
  | BFixP _ v => TyPtr (size v)
  | BFixS _ => TyScalar
  end.

Definition as_node (b : built) : node :=
  match b with
  | BDyn n _ => n
  | BFixP _ v => NFixedPtr v
  | BFixS c => NFixedScalar c
  end.

Definition is_dyn (b : built) : bool := if b is BDyn _ _ then true else false.

Definition neg_built (b : built) : built :=
  match b with
  | BDyn n t => BDyn (NTransformed n (TScale (-1))) t     (* Transformed(self, transform=-1) *)
  | BFixP s v => BFixP s (vneg v)
  | BFixS c => BFixS (- c)
  end.

(* infer_types over two operands of equal kind *)
Definition same_type (x y : built) : result vty :=
  if vty_eqb (bty x) (bty y) then Ok (bty x) else Err SpaTypeError.

(* a raw module (leaf), as opposed to an AST node produced by an operator *)
Definition is_raw (b : built) : bool :=
  match b with BDyn (NOut _) _ | BDyn (NOutScalar _) _ => true | _ => false end.

(* x + y.  Python reflects the operator when the left operand does not handle the right one:
   - fixed + dynamic        -> dynamic.__radd__(fixed)  = dynamic + fixed
   - AST node + raw module  -> module.__radd__(node)    = module + node
   so in these two cases the right operand comes first in Summed. *)
Definition add_built (x y : built) : result built :=
  rbind (same_type x y) (fun t =>
  match x, y with
  | BFixP s a, BFixP s' b => Ok (BFixP (s && s') (vadd a b))
  | BFixS a, BFixS b => Ok (BFixS (a + b))
  | BDyn _ _, _ =>
      if is_raw y && ~~ is_raw x
      then Ok (BDyn (NSummed (vty_eqb t TyScalar) (as_node y) (as_node x)) t)
      else Ok (BDyn (NSummed (vty_eqb t TyScalar) (as_node x) (as_node y)) t)
  | _, _ => Ok (BDyn (NSummed (vty_eqb t TyScalar) (as_node y) (as_node x)) t)
  end).

(* x - y: self + (-other); reflected: other.__rsub__(self) = (-other) + self *)
Definition sub_built (x y : built) : result built :=
  if is_dyn x && ~~ is_raw x && is_raw y
  then rbind (same_type x y) (fun t =>
         Ok (BDyn (NSummed (vty_eqb t TyScalar) (as_node (neg_built y)) (as_node x)) t))
  else add_built x (neg_built y).

(* x * y, x written on the left.  Only Symbol operands (numbers, pointer symbols) take the
   _mul_with_fixed route; a SemanticPointer object is not a Symbol and is bound through a Bind
   module fed by a constant node. *)
Definition mul_built (x y : built) : result built :=
  match x, y with
  | BFixP s a, BFixP s' b => rbind (same_type x y) (fun _ => Ok (BFixP (s && s') (w_bind A a b)))
  | BFixP s a, BFixS c | BFixS c, BFixP s a => Ok (BFixP s (vscale c a))
  | BFixS a, BFixS b => Ok (BFixS (a * b))
  (* dynamic (op) fixed: _mul_with_fixed *)
  | BDyn n t, BFixS c | BFixS c, BDyn n t => Ok (BDyn (NTransformed n (TScale c)) t)
  | BDyn n (TyPtr _), BFixP true v =>                             (* self * other *)
      rbind (same_type x y) (fun t => Ok (BDyn (NTransformed n (TMat (w_bmat A v false))) t))
  | BFixP true v, BDyn n (TyPtr _) =>                             (* other * self *)
      rbind (same_type x y) (fun t => Ok (BDyn (NTransformed n (TMat (w_bmat A v true))) t))
  (* a dynamic scalar scaling a typed symbol: column transform, pointer-typed result
     (repaired: upstream passed the 1-D vector as transform and typed the result scalar) *)
  | BDyn n TyScalar, BFixP true v | BFixP true v, BDyn n TyScalar =>
      Ok (BDyn (NTransformed n (TCol v)) (TyPtr (size v)))
  (* dynamic (op) dynamic or SemanticPointer object: _mul_with_dynamic *)
  | BDyn _ TyScalar, BFixP false _ | BFixP false _, BDyn _ TyScalar => Err NotImplementedErr
  | BDyn n (TyPtr _), BFixP false v =>
      rbind (same_type x y) (fun t => Ok (BDyn (NBind n (NFixedPtr v)) t))
  | BFixP false v, BDyn n (TyPtr _) =>
      rbind (same_type x y) (fun t => Ok (BDyn (NBind (NFixedPtr v) n) t))
  | BDyn n (TyPtr _), BDyn m (TyPtr _) =>
      rbind (same_type x y) (fun t => Ok (BDyn (NBind n m) t))
  | BDyn n TyScalar, BDyn m TyScalar => Ok (BDyn (NProduct n m) TyScalar)
  | BDyn _ _, BDyn _ _ => Err NotImplementedErr   (* dynamic scaling of a dynamic pointer *)
  end.

Definition inv_built (sd : side) (x : built) : result built :=
  match x with
  | BDyn n (TyPtr d) => rmap (fun m => BDyn (NTransformed n (TMat m)) (TyPtr d)) (w_imat A d sd)
  | BFixP s v => rmap (BFixP s) (w_inv A sd v)
  | _ => Err SpaTypeError
  end.

Definition dot_built (x y : built) : result built :=
  match bty x, bty y with
  | TyPtr d, TyPtr e =>
      if d != e then Err SpaTypeError else
      match x, y with
      | BFixP _ a, BFixP _ b => Ok (BFixS (sdot a b))
      | BDyn n _, BFixP _ v | BFixP _ v, BDyn n _ => Ok (BDyn (NTransformed n (TRow v)) TyScalar)
      | _, _ => Ok (BDyn (NDotProd (as_node x) (as_node y)) TyScalar)
      end
  | _, _ => Err SpaTypeError                  (* "Cannot do a dot product with a scalar." *)
  end.

(* reinterpret / translate: T maps the operand's vocabulary into one of dimensionality [size T] *)
Definition shaped (T : mat) (d : nat) : bool := all (fun r => size r == d) T.

Definition apply_built (T : mat) (x : built) : result built :=
  match x with
  | BDyn n (TyPtr d) => if shaped T d && w_valid A (size T)
                        then Ok (BDyn (NTransformed n (TMat T)) (TyPtr (size T))) else Err ValidationError
  | BFixP s v => if shaped T (size v) && w_valid A (size T) then Ok (BFixP s (matvec T v)) else Err ValidationError
  | _ => Err SpaTypeError
  end.

Fixpoint build (e : dexpr) : result built :=
  match e with
  | DSrc i => if w_valid A (src_dim i) then Ok (BDyn (NOut i) (TyPtr (src_dim i))) else Err ValidationError
  | DSrcScalar i => Ok (BDyn (NOutScalar i) TyScalar)
  | DFixed s v => if w_valid A (size v) then Ok (BFixP s v) else Err ValidationError
  | DNum c => Ok (BFixS c)
  | DAdd a b => rbind (build a) (fun x => rbind (build b) (fun y => add_built x y))
  | DSub a b => rbind (build a) (fun x => rbind (build b) (fun y => sub_built x y))
  | DNeg a => rmap neg_built (build a)
  | DMul a b => rbind (build a) (fun x => rbind (build b) (fun y => mul_built x y))
  | DDivNum a c rc => rbind (build a) (fun x => mul_built x (BFixS rc))
  | DInv sd a => rbind (build a) (inv_built sd)
  | DDot a b => rbind (build a) (fun x => rbind (build b) (fun y => dot_built x y))
  | DApply T a => rbind (build a) (apply_built T)
  end.

(* `e >> sink`: what the sink receives *)
Definition delivered (e : dexpr) : result dval :=
  rbind (build e) (fun b => deliver (as_node b) None).

(* several statements into one sink add *)
Definition delivered_all (es : seq dexpr) : result dval :=
  if es is e :: es' then foldl (fun acc e' => add_val acc (delivered e')) (delivered e) es'
  else Err ValueError.

End Dynamic.

(* ---- the three shipped algebras as instances ---------------------------------------------------
   [rt s] stands for sqrt(s), the scale factor of VTB / TVTB binding (s = sqrt d);
   HRR has none. *)
From NSpa Require Import Model.Hrr Model.Power Model.Algebra.
Section Instances.
Variable R : comRingType.
Variable rt : nat -> R.

Definition sfac (n : nat) : R := if n == 1%N then 1 else rt n.

Definition walg_of (al : alg) : walg R :=
  WAlg (fun x y => match alg_bind al x y with
                   | Ok r => vscale (sfac (rnum r)) (core r)
                   | Err _ => [::]
                   end)
       (fun v sw => match alg_bmat al v sw with
                    | Ok r => mscale (sfac (rnum r)) (core r)
                    | Err _ => [::]
                    end)
       (fun sd v => unwarn (alg_invert al v sd))
       (fun d sd => unwarn (alg_imat al d sd))
       (alg_valid al).
End Instances.

(* Model of nengo_spa/action_selection.py and of the routing switch in
   connectors.py as a state machine.  Stdlib style; executable; no proofs here.

   Process-wide state: ActionSelection.active (is a block open),
   ModuleInput.routed_mode, RoutedConnection.free_floating (its size), and the
   number of `>>` connections made immediately.

   A block is a `with ActionSelection():` statement whose body is a list of
   statements.  Python evaluates the argument expressions of ifmax before the
   call, so each routing effect `a >> b` first becomes a free-floating
   RoutedConnection and is then claimed by add_action. *)
From Coq Require Import List Bool Arith String.
Import ListNotations.

Inductive aexn := ASelError | ATypeError | ABuildError | AOtherError.

Inductive cond := CZero | CScalar | CNonScalar.
Inductive effect := ERoute | ENonRoute | EFailingFixed.
  (* EFailingFixed: a routing effect whose construction fails in _build
     (e.g. a number routed into a pointer-valued sink) *)

Inductive stmt :=
| SIfmax (name : option string) (c : cond) (effs : list effect)
| SFree                       (* `a >> b` outside any ifmax *)
| SRaise                      (* the body raises *)
| SNested (body : list stmt)  (* a nested `with ActionSelection():` *)
| SNestedCaught.              (* a nested `with ActionSelection():` whose error is caught by the body, which continues *)

Record gstate := G { active : bool; routed : bool; free : nat; conns : nat }.
Definition rest (c : nat) : gstate := G false false 0 c.
Definition at_rest (g : gstate) : bool :=
  negb (active g) && negb (routed g) && Nat.eqb (free g) 0.

Record block := B { built : bool; names : list (option string); has_failing : bool }.
Definition new_block : block := B false [] false.

Definition is_route (e : effect) : bool :=
  match e with ERoute | EFailingFixed => true | ENonRoute => false end.
Definition count_routes (l : list effect) : nat := List.length (filter is_route l).

(* one body statement inside an open block *)
Definition exec_stmt (g : gstate) (b : block) (s : stmt) : gstate * block * option aexn :=
  match s with
  | SFree => (G (active g) (routed g) (S (free g)) (conns g), b, None)
  | SRaise => (g, b, Some AOtherError)
  | SNested _ => (g, b, Some ASelError)      (* inner __enter__ fails, nothing changes *)
  | SNestedCaught => (g, b, None)            (* ... and the enclosing block goes on as if nothing had happened *)
  | SIfmax name c effs =>
      (* argument evaluation: every routing expression is created free-floating *)
      let g1 := G (active g) (routed g) (free g + count_routes effs) (conns g) in
      match c with
      | CNonScalar => (g1, b, Some ATypeError)
      | _ =>
          if existsb (fun e => negb (is_route e)) effs then (g1, b, Some ASelError)
          else
            (* add_action claims the effects; the condition is connected to the utility *)
            (G (active g1) (routed g1) (free g1 - count_routes effs) (conns g1),
             B (built b) (names b ++ [name])
               (has_failing b || existsb (fun e => match e with EFailingFixed => true | _ => false end) effs),
             None)
      end
  end.

Fixpoint exec_body (g : gstate) (b : block) (body : list stmt) : gstate * block * option aexn :=
  match body with
  | [] => (g, b, None)
  | s :: r =>
      match exec_stmt g b s with
      | (g1, b1, None) => exec_body g1 b1 r
      | res => res
      end
  end.

(* `with ActionSelection() as blk: body` *)
Definition run_block (g : gstate) (body : list stmt) : gstate * block * option aexn :=
  if active g then (g, new_block, Some ASelError) else
  let g0 := G true true (free g) (conns g) in
  let '(g1, b1, e) := exec_body g0 new_block body in
  (* __exit__: the switches are reset first *)
  let g2 := G false false (free g1) (conns g1) in
  match e with
  | Some ex => (G false false 0 (conns g2), b1, Some ex)
  | None =>
      if negb (Nat.eqb (free g2) 0) then (G false false 0 (conns g2), b1, Some ASelError)
      else
        let g3 := G false false 0 (conns g2) in
        if Nat.eqb (List.length (names b1)) 0 then (g3, b1, None)
        else if has_failing b1 then (g3, b1, Some ABuildError)
        else (g3, B true (names b1) false, None)
  end.

(* top-level events *)
Inductive event :=
| EvBlock (body : list stmt)
| EvRoute                     (* plain `a >> b` outside any block *)
| EvIfmaxOutside.

Definition run_event (g : gstate) (ev : event) : gstate * option block * option aexn :=
  match ev with
  | EvBlock body => let '(g1, b, e) := run_block g body in (g1, Some b, e)
  | EvRoute =>
      if routed g then (G (active g) (routed g) (S (free g)) (conns g), None, None)
      else (G (active g) (routed g) (free g) (S (conns g)), None, None)
  | EvIfmaxOutside =>
      if active g then (g, None, None) else (g, None, Some ASelError)
  end.

Fixpoint run_events (g : gstate) (evs : list event) : gstate :=
  match evs with
  | [] => g
  | ev :: r => run_events (fst (fst (run_event g ev))) r
  end.

(* ---- keys of a block: per action its name, else its position --------------- *)
Inductive key := KName (s : string) | KPos (i : nat).

Fixpoint keys_from (i : nat) (l : list (option string)) : list key :=
  match l with
  | [] => []
  | Some s :: r => KName s :: keys_from (S i) r
  | None :: r => KPos i :: keys_from (S i) r
  end.
Definition block_keys (b : block) : list key := keys_from 0 (names b).

(* _name2idx[name] = position at the time of add_action (later duplicates overwrite) *)
Fixpoint name_index (s : string) (i : nat) (l : list (option string)) (acc : option nat) : option nat :=
  match l with
  | [] => acc
  | Some t :: r => name_index s (S i) r (if String.eqb s t then Some i else acc)
  | None :: r => name_index s (S i) r acc
  end.

(* blk[key]: index of the utility returned *)
Definition block_getitem (b : block) (k : key) : option nat :=
  match k with
  | KPos i => if Nat.ltb i (List.length (names b)) then Some i else None
  | KName s => name_index s 0 (names b) None
  end.

(* Model of vocabulary resolution while a model is constructed
   (nengo_spa/network.py Network.__init__, vocabulary.py VocabularyOrDimParam /
   VocabularyMap.get_or_create).  Stdlib style; executable; no proofs here.

   A model script is a nesting tree of containers; `with net:` pushes the
   network onto Nengo's Network.context and its config onto Config.context.
   spa.Network.__init__ resolves its vocabulary map in this order:
     1. the explicit `vocabs` argument,
     2. Config.default(Network, 'vocabs'): the map of the innermost enclosing
        SPA network (which stored it with self.config[Network].vocabs = ...),
     3. the process-wide weak map _master_vocabs[Network.context[0]] (keyed by
        the root network of the current construction),
     4. a fresh VocabularyMap (seeded from this network's own seed argument),
        registered under the root if there is one.
   Every SPA module (State, Bind, ...) is itself a spa.Network and resolves its
   map the same way; an integer dimensionality d then becomes
   map.get_or_create(d).  A vocabulary is identified by (map id, d). *)
From Coq Require Import List Bool Arith.
Import ListNotations.

Inductive tree :=
| Module (d : nat)                                   (* SPA module given an integer dimensionality *)
| Plain (children : forest)                          (* nengo.Network container *)
| Spa (explicit : bool) (seed : option nat) (children : forest)
      (* spa.Network container; explicit: built with its own vocabs=[...] *)
with forest :=
| FNil
| FCons (t : tree) (f : forest).

(* construction state: next fresh map id, the master map of the current root,
   and the seed each map was created with *)
Record cstate := CS { next_map : nat; master : option nat; seeds : list (nat * option nat) }.

Definition fresh (s : cstate) (seed : option nat) (register : bool) : nat * cstate :=
  let m := next_map s in
  (m, CS (S m) (if register then Some m else master s) (seeds s ++ [(m, seed)])).

(* resolution steps 2-4 (explicit maps are allocated by the caller) *)
Definition resolve (cfg : option nat) (in_ctx : bool) (seed : option nat) (s : cstate) : nat * cstate :=
  match cfg with
  | Some m => (m, s)
  | None =>
      if in_ctx then
        match master s with
        | Some m => (m, s)
        | None => fresh s seed true
        end
      else fresh s seed false
  end.

(* a module occurrence: is it below an explicit override, its map, its d *)
Record occ := Occ { o_over : bool; o_map : nat; o_dim : nat }.

Fixpoint build (t : tree) (cfg : option nat) (in_ctx over : bool) (s : cstate) : list occ * cstate :=
  match t with
  | Module d =>
      let '(m, s1) := resolve cfg in_ctx None s in ([Occ over m d], s1)
  | Plain ch => build_forest ch cfg true over s
  | Spa explicit seed ch =>
      let '(m, s1) :=
        if explicit then fresh s seed false   (* the user's own VocabularyMap *)
        else resolve cfg in_ctx seed s in
      build_forest ch (Some m) true (over || explicit) s1
  end
with build_forest (f : forest) (cfg : option nat) (in_ctx over : bool) (s : cstate) : list occ * cstate :=
  match f with
  | FNil => ([], s)
  | FCons t r =>
      let '(o1, s1) := build t cfg in_ctx over s in
      let '(o2, s2) := build_forest r cfg in_ctx over s1 in
      (o1 ++ o2, s2)
  end.

(* building a whole model: a fresh root, so the master entry starts empty;
   map ids keep increasing across models built one after another *)
Definition build_model (t : tree) (first_map : nat) : list occ * cstate :=
  build t None false false (CS first_map None []).

(* VocabularyOrDimParam.coerce *)
Inductive dim_arg := DInt (z : nat) (negative : bool) | DVocab | DOther.
Definition coerce_dim (a : dim_arg) : bool (* accepted *) :=
  match a with
  | DInt z neg => negb neg && (1 <=? z)
  | DVocab => true
  | DOther => false
  end.

(* Type-level model of binary operations between the operand families of the
   SPA expression DSL (C03, shared with C01): every route in
   semantic_pointer.py / ast/symbolic.py / ast/dynamic.py / connectors.py that
   combines two typed operands ends in infer_types = coerce_types on the two
   operand types (Model/Types.v), preceded by the array gate of
   TypeCheckedBinaryOp / _mul / __truediv__ and followed, for two vocabulary-less
   SemanticPointers, by _ensure_algebra_match.

   [expect] says what the property demands of a cell of the operand matrix:
   rejection, acceptance with a given result type, or nothing (combinations the
   DSL does not support for reasons unrelated to vocabularies). *)
From Coq Require Import List Bool Arith.
From NSpa Require Import Model.Types.
Import ListNotations.

Inductive kind :=
| KSp        (* SemanticPointer *)
| KSym       (* PointerSymbol *)
| KDyn       (* dynamic node of pointer type (module output) *)
| KDynScalar (* dynamic node of scalar type *)
| KNum       (* Python / NumPy number *)
| KArr.      (* bare n-d array *)

Inductive bop := PAdd | PSub | PMul | PDiv | PDot | PCompare | PMse | PRoute.

Definition kind_eqb (a b : kind) : bool :=
  match a, b with
  | KSp, KSp | KSym, KSym | KDyn, KDyn | KDynScalar, KDynScalar
  | KNum, KNum | KArr, KArr => true
  | _, _ => false
  end.

Definition is_ptr_kind (k : kind) : bool :=
  match k with KSp | KSym | KDyn => true | _ => false end.
Definition arithmetic (op : bop) : bool :=
  match op with PAdd | PSub | PMul | PDiv => true | _ => false end.

Inductive verdict :=
| MustFail                   (* any error: vocabulary-less pointers of unequal length
                                pass the type gate and fail in NumPy / Nengo *)
| MustReject                 (* SpaTypeError or TypeError, no value *)
| MustAccept (t : option ty) (* succeeds; Some t: the result has SPA type t *)
| Free.

Section WithDim.
Variable dim : nat -> nat.

Definition is_voc (t : ty) := match t with TVoc _ => true | _ => false end.
Definition is_any (t : ty) := match t with TAny => true | _ => false end.

(* combinations that the DSL implements whenever the operand types are
   compatible (t = coerced type) *)
Definition supported (op : bop) (ka kb : kind) (t : ty) : bool :=
  match op with
  | PAdd | PSub =>
      match ka, kb with
      | KSp, KSp | KSym, KSym | KDyn, KDyn | KDyn, KSym | KSym, KDyn
      | KDyn, KSp | KSp, KDyn => true
      | KSp, KSym | KSym, KSp => is_voc t
      | _, _ => false
      end
  | PMul =>
      match ka, kb with
      | KSp, KSp | KSym, KSym | KDyn, KDyn | KDyn, KSym | KSym, KDyn
      | KDyn, KSp | KSp, KDyn => true
      | KSp, KSym | KSym, KSp => is_voc t
      | (KSp | KSym | KDyn), KNum | KNum, (KSp | KSym | KDyn) => true
      | _, _ => false
      end
  | PDiv => match ka, kb with (KSp | KSym | KDyn), KNum => true | _, _ => false end
  | PDot =>
      match ka, kb with
      | KSp, KSp | KDyn, KDyn | KDyn, KSp => true
      | KDyn, KSym | KSym, KSym => is_voc t
      | _, _ => false
      end
  | PCompare | PMse => match ka, kb with KSp, KSp => true | _, _ => false end
  | PRoute => match ka, kb with (KDyn | KSym | KSp), KDyn => is_voc t | _, _ => false end
  end.

(* SPA type of the result of an accepted operation *)
Definition result_type (op : bop) (t : ty) : option ty :=
  match op with
  | PAdd | PSub | PMul | PDiv => Some t
  | PDot => Some TScalar
  | PCompare | PMse | PRoute => None
  end.

(* ta, tb: SPA types of the operands (numbers and dynamic scalars: TScalar);
   same_alg: the two operands use the same algebra *)
Definition expect (op : bop) (ka kb : kind) (ta tb : ty) (same_alg dims_differ : bool) : verdict :=
  if (kind_eqb ka KArr || kind_eqb kb KArr) then
    if arithmetic op && (is_ptr_kind ka || is_ptr_kind kb) then MustReject else Free
  else
  match coerce_types dim [ta; tb] with
  | CTypeError _ => MustReject
  | CValueError => Free
  | COk t =>
      (* a vocabulary-less pointer carries no dimensionality / algebra in its
         type: a length mismatch surfaces later as a NumPy / Nengo error, an
         algebra mismatch with the other operand's vocabulary as ValueError *)
      if dims_differ then
        (* two Semantic Pointers of unequal length never combine: the vector operation itself fails
           (ValueError from the algebra or NumPy) as soon as the expression is written; compare is left
           free (a zero operand short-circuits to 0) *)
        (if kind_eqb ka KSp && kind_eqb kb KSp && supported op ka kb t
            && match op with PAdd | PSub | PMul | PDot | PMse => true | _ => false end
         then MustFail else Free)
      else
      if (is_any ta || is_any tb) && negb same_alg && negb (kind_eqb ka KSp && kind_eqb kb KSp && negb (is_voc t))
      then Free else
      (* a dynamic operand without vocabulary (reinterpret(x) with no target) combined with another pointer operand
         that brings no vocabulary either: there is no algebra to build a network with; not claimed *)
      if (kind_eqb ka KDyn || kind_eqb kb KDyn) && is_ptr_kind ka && is_ptr_kind kb && negb (is_voc t) then Free else
      if kind_eqb ka KSp && kind_eqb kb KSp && negb (is_voc t) && negb same_alg
      then (if supported op ka kb t then MustReject else Free)
      else if supported op ka kb t then MustAccept (result_type op t) else Free
  end.

End WithDim.

(* what was observed *)
Inductive c03_obs :=
| CAccepted (t : option ty)   (* returned; Some t if the result is a typed node / pointer *)
| CTypeRejected               (* SpaTypeError or TypeError *)
| COtherError.

Definition c03_check (dims : list nat) (op : bop) (ka kb : kind) (ta tb : ty)
    (same_alg dims_differ : bool) (o : c03_obs) : bool :=
  match expect (fun i => nth i dims 0) op ka kb ta tb same_alg dims_differ, o with
  | MustFail, (CTypeRejected | COtherError) => true
  | MustFail, _ => false
  | MustReject, CTypeRejected => true
  | MustReject, _ => false
  | MustAccept (Some t), CAccepted (Some u) => ty_eqb t u
  | MustAccept (Some TScalar), CAccepted None => true   (* a plain number *)
  | MustAccept None, CAccepted _ => true
  | MustAccept _, _ => false
  | Free, _ => true
  end.

(* Model of nengo_spa/vector_generation.py and of the create_vector decision logic
   of the three algebras.  The random number generator and np.linalg.solve are
   external: a draw is an argument, the solver a section variable constrained
   only by its post-condition.  Generic over a commutative ring; no proofs here. *)
From mathcomp Require Import all_ssreflect all_algebra.
From NSpa Require Import Model.Vec Model.Algebra.
Set Implicit Arguments.
Unset Strict Implicit.
Unset Printing Implicit Defensive.
Import GRing.Theory.
Local Open Scope ring_scope.

(* ---- create_vector: which branch is taken ------------------------------------- *)
Inductive vprop := PUnitary | PPositive | PUnknown.
Inductive cv_outcome :=
| CVRandomUnit          (* randn normalised *)
| CVUnitary             (* make_unitary(randn) ; HRR: of the normalised / abs'd vector *)
| CVPositive            (* HRR: abs of the normalised vector *)
| CVPositiveUnitary     (* HRR: make_unitary(abs(v)) *)
| CVIdentityWithWarning (* VTB/TVTB: the only positive unitary vector *)
| CVImportError         (* VTB/TVTB positive vectors need SciPy *)
| CVValueError.         (* unknown property *)

Definition has (p : vprop) (l : seq vprop) : bool :=
  match p with
  | PUnitary => has (fun x => if x is PUnitary then true else false) l
  | PPositive => has (fun x => if x is PPositive then true else false) l
  | PUnknown => has (fun x => if x is PUnknown then true else false) l
  end.

Definition create_vector_outcome (al : alg) (scipy : bool) (props : seq vprop) : cv_outcome :=
  match al with
  | AHrr =>
      if has PUnknown props then CVValueError
      else if has PPositive props && has PUnitary props then CVPositiveUnitary
      else if has PPositive props then CVPositive
      else if has PUnitary props then CVUnitary
      else CVRandomUnit
  | _ =>
      if has PUnitary props && has PPositive props then
        (if has PUnknown props then CVValueError else CVIdentityWithWarning)
      else if has PUnitary props then
        (if has PUnknown props then CVValueError else CVUnitary)
      else if has PPositive props then
        (if scipy then (if has PUnknown props then CVValueError else CVPositive) else CVImportError)
      else if has PUnknown props then CVValueError else CVRandomUnit
  end.

(* ---- OrthonormalVectors: one step ----------------------------------------------- *)
Section Ortho.
Variable R : comRingType.
Local Notation vec := (seq R).

(* previous vectors [vs] (i of them), a fresh draw v: the first i components are
   replaced by x = solve(A, y) with A = vs[:, :i], y = -(vs[:, i:] . v[i:]) *)
Definition ortho_A (i : nat) (vs : seq vec) : seq vec := map (take i) vs.
Definition ortho_y (i : nat) (vs : seq vec) (v : vec) : vec :=
  map (fun u => - dot (drop i u) (drop i v)) vs.
Definition ortho_new (i : nat) (x v : vec) : vec := x ++ drop i v.

End Ortho.

(* AxisAlignedVectors(d): e_0, e_1, ..., e_{d-1} *)
Definition axis_vectors (R : ringType) (d : nat) : seq (seq R) := [seq vbasis R d k | k <- iota 0 d].

(* Model of VtbAlgebra.sign / TvtbAlgebra.sign / abs and GenericSign.

   sign(v): m = get_binding_matrix(v); not symmetric -> indefinite; otherwise by
   the eigenvalues of m: all > 0 -> +1, all < 0 -> -1, all = 0 -> 0, else
   indefinite.  LAPACK's eigvalsh is not modelled.  The executable classifier
   works from a congruence certificate V = L * D * L^T (L unit lower
   triangular, D diagonal) supplied with the case, and classifies by the signs
   of D (Theory/SignLaws.v: certificate => definiteness of the quadratic
   form).  m = sqrt(s) * kron(I, V) (V^T for TVTB) is symmetric / definite iff
   V is. *)
From mathcomp Require Import all_ssreflect all_algebra.
From NSpa Require Import Model.Vec Model.Hrr Model.Vtb.
Set Implicit Arguments.
Unset Strict Implicit.
Unset Printing Implicit Defensive.
Import GRing.Theory Num.Theory.
Local Open Scope ring_scope.

(* GenericSign(sign) with sign in {-1, 0, 1, None} *)
Inductive gsign := GNeg | GZero | GPos | GInd.
Definition g_is_positive (g : gsign) := if g is GPos then true else false.
Definition g_is_negative (g : gsign) := if g is GNeg then true else false.
Definition g_is_zero (g : gsign) := if g is GZero then true else false.
Definition g_is_indefinite (g : gsign) := if g is GInd then true else false.

Section VtbSign.
Variable R : realDomainType.
Local Notation vec := (seq R).
Local Notation mat := (seq (seq R)).

Definition mat_eqb (s : nat) (a b : mat) : bool :=
  all (fun i => all (fun j => mnth a i j == mnth b i j) (iota 0 s)) (iota 0 s).

Definition is_symmetric (s : nat) (V : mat) : bool := mat_eqb s V (mtrans V).

Definition unit_lower (s : nat) (L : mat) : bool :=
  all (fun i => all (fun j =>
        if (i < j)%N then mnth L i j == 0
        else if i == j then mnth L i j == 1 else true) (iota 0 s)) (iota 0 s).

Definition diag_mat (s : nat) (D : vec) : mat :=
  mkmat s s (fun i j => if i == j then vnth D i else 0).

(* None: the certificate does not certify V *)
Definition classify_cert (s : nat) (V L : mat) (D : vec) : option gsign :=
  if ~~ is_symmetric s V then Some GInd else
  if ~~ (unit_lower s L && (size D == s) &&
         mat_eqb s V (matmul (matmul L (diag_mat s D)) (mtrans L)))
  then None else
  Some (if all (fun x => 0 < x) D then GPos
        else if all (fun x => x < 0) D then GNeg
        else if all (fun x => x == 0) D then GZero
        else GInd).

Definition sq_sign (v : vec) (L : mat) (D : vec) : result (option gsign) :=
  rbind (sub_d (size v)) (fun s => Ok (classify_cert s (reshape s v) L D)).

(* VtbSign.to_vector / TvtbSign.to_vector: +-right identity, zero; core with radicand 1/s *)
Definition sq_sign_vector (g : gsign) (d : nat) : result (scaled vec) :=
  match g with
  | GInd => Err NotImplementedErr
  | GPos => rbind (sub_d d) (fun s => Ok (Scaled (eye_flat R s) 1 s))
  | GNeg => rbind (sub_d d) (fun s => Ok (Scaled (vneg (eye_flat R s)) 1 s))
  | GZero => Ok (Scaled (vzero R d) 1 1)
  end.

(* VtbAlgebra.abs = bind(v, to_vector(sign v));
   TvtbAlgebra.abs (base class) = bind(invert(to_vector(sign v)), v) *)
Definition vtb_abs (v : vec) (g : gsign) : result (scaled vec) :=
  rbind (sq_sign_vector g (size v)) (fun sv => vtb_sbind (Scaled v 1 1) sv).
Definition tvtb_abs (v : vec) (g : gsign) : result (scaled vec) :=
  rbind (sq_sign_vector g (size v)) (fun sv =>
  rbind (tvtb_invert (core sv) STwo) (fun w =>
    tvtb_sbind (Scaled (wval w) (rnum sv) (rden sv)) (Scaled v 1 1))).

End VtbSign.

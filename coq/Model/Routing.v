(* Model of the wiring ActionSelection._build produces (action_selection.py,
   modules/thalamus.py: connect_fixed, construct_gate, construct_channel,
   connect_gate; modules/basalganglia.py: connect_input) and of what the targets
   receive with ideal components.

   An action has a utility and a list of effects `source >> target`; a source is
   fixed (pointer symbol / number: a constant value) or dynamic (a compiled
   expression, value given by C01).  Scalars are one-element vectors here.
   No proofs in this file. *)
From mathcomp Require Import all_ssreflect all_algebra.
From NSpa Require Import Model.Vec.
Set Implicit Arguments.
Unset Strict Implicit.
Unset Printing Implicit Defensive.
Import GRing.Theory.
Local Open Scope ring_scope.

Section Routing.
Variable R : realDomainType.
Local Notation vec := (seq R).

Inductive source :=
| SFixed of vec          (* effect.fixed: transform() = the value itself *)
| SDyn of nat.           (* dynamic expression number k *)

Record effect := Effect { e_src : source; e_target : nat; e_scalar : bool }.

(* ---- the wiring ------------------------------------------------------------------------ *)
Inductive wire :=
| WUtility of nat & nat                 (* utility node i -> basal ganglia input index *)
| WFixed of nat & nat & vec             (* thalamus unit i -> target, transform *)
| WGated of nat & nat & bool & nat.     (* gate driven by unit i, own channel (scalar?) into target, fed by expression k *)

Definition effect_wire (i : nat) (e : effect) : wire :=
  match e_src e with
  | SFixed v => WFixed i (e_target e) v
  | SDyn k => WGated i (e_target e) (e_scalar e) k
  end.

Definition build_from (start : nat) (actions : seq (seq effect)) : seq wire :=
  flatten [seq [seq effect_wire ie.1 e | e <- ie.2] | ie <- zip (iota start (size actions)) actions].

Definition build (actions : seq (seq effect)) : seq wire :=
  [seq WUtility i i | i <- iota 0 (size actions)] ++ build_from 0 actions.

(* ---- ideal components -------------------------------------------------------------------- *)
Variable dims : nat -> nat.           (* dimensionality of target t *)
Variable dyn : nat -> vec.            (* current value of dynamic expression k *)
Variable theta_gate : R.              (* gate threshold *)

(* gate on unit activity a: input 1 - a, active (inhibiting its channel) iff above threshold *)
Definition gate_active (a : R) : bool := theta_gate < 1 - a.

(* what wire w contributes to target t given the selection activities act *)
Definition contribution (act : nat -> R) (t : nat) (w : wire) : vec :=
  match w with
  | WFixed i t' v => if t' == t then vscale (act i) v else vzero R (dims t)
  | WGated i t' _ k => if (t' == t) && ~~ gate_active (act i) then dyn k else vzero R (dims t)
  | WUtility _ _ => vzero R (dims t)
  end.

Definition received (act : nat -> R) (t : nat) (ws : seq wire) : vec :=
  foldr (fun w acc => vadd (contribution act t w) acc) (vzero R (dims t)) ws.

(* the specification: sum of the effects declared for action w into target t *)
Definition effect_value (t : nat) (e : effect) : vec :=
  if e_target e == t then (match e_src e with SFixed v => v | SDyn k => dyn k end)
  else vzero R (dims t).

Definition declared (t : nat) (effs : seq effect) : vec :=
  foldr (fun e acc => vadd (effect_value t e) acc) (vzero R (dims t)) effs.

Definition onehot (w : nat) : nat -> R := fun i => (i == w)%:R.

(* well-formedness: every effect value has the dimensionality of its target *)
Definition effect_ok (e : effect) : bool :=
  match e_src e with
  | SFixed v => size v == dims (e_target e)
  | SDyn k => size (dyn k) == dims (e_target e)
  end.

End Routing.

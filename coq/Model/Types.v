(* Model of nengo_spa/types.py: the SPA type order and coerce_types.
   Executable, stdlib style, no proofs in this file.

   Transcription notes (method by method):
   - Type.__eq__            : same class and same name
   - TAnyVocabOfDim.__eq__  : additionally same dimensions
   - TVocabulary.__eq__     : additionally the *identical* vocabulary object;
                              a vocabulary is modelled by its allocation index
                              [id]; its dimensionality is [dim id].
   - X.__gt__(other) "other can be cast to X":
       Type (TScalar)  : False
       _TAnyVocab      : other == TScalar
       TAnyVocabOfDim  : other <= TAnyVocab
       TVocabulary     : other <= TAnyVocabOfDim(self.vocab.dimensions)
   - __lt__ : other.__gt__(self);  __le__ : lt or eq;  __ge__ : gt or eq
   - __hash__ : Type and _TAnyVocab hash class^name, TVocabulary adds the
     vocabulary; TAnyVocabOfDim overrides __eq__ without __hash__, which makes
     instances unhashable in Python (hash raises TypeError): [None]. *)

From Coq Require Import List Bool Arith PeanoNat.
Import ListNotations.

Inductive ty : Type :=
| TScalar
| TAny
| TAnyDim (d : nat)
| TVoc (id : nat).

Section WithDim.
Variable dim : nat -> nat.   (* dimensionality of vocabulary object [id] *)

Definition ty_eqb (a b : ty) : bool :=
  match a, b with
  | TScalar, TScalar => true
  | TAny, TAny => true
  | TAnyDim d, TAnyDim e => Nat.eqb d e
  | TVoc i, TVoc j => Nat.eqb i j
  | _, _ => false
  end.

(* layered transcription of the mutually recursive __gt__/__le__ calls *)
Definition gt_any (o : ty) : bool := ty_eqb o TScalar.
(* other <= TAnyVocab  =  TAnyVocab.__gt__(other) or other == TAnyVocab *)
Definition le_any (o : ty) : bool := gt_any o || ty_eqb o TAny.
Definition gt_anydim (o : ty) : bool := le_any o.
Definition le_anydim (d : nat) (o : ty) : bool :=
  gt_anydim o || ty_eqb o (TAnyDim d).
Definition gt_voc (i : nat) (o : ty) : bool := le_anydim (dim i) o.

(* a.__gt__(b) *)
Definition ty_gt (a b : ty) : bool :=
  match a with
  | TScalar => false
  | TAny => gt_any b
  | TAnyDim _ => gt_anydim b
  | TVoc i => gt_voc i b
  end.

Definition ty_lt (a b : ty) : bool := ty_gt b a.
Definition ty_le (a b : ty) : bool := ty_lt a b || ty_eqb a b.
Definition ty_ge (a b : ty) : bool := ty_gt a b || ty_eqb a b.
Definition ty_ne (a b : ty) : bool := negb (ty_eqb a b).

(* hash classes: None = unhashable (TypeError) *)
Inductive hclass := HScalar | HAny | HVoc (i : nat).
Definition ty_hash (a : ty) : option hclass :=
  match a with
  | TScalar => Some HScalar
  | TAny => Some HAny
  | TAnyDim _ => None
  | TVoc i => Some (HVoc i)
  end.

(* Python's builtin max over a non-empty sequence: keeps the first element
   that no later element is strictly greater than (uses x > current). *)
Fixpoint py_max_from (cur : ty) (l : list ty) : ty :=
  match l with
  | [] => cur
  | x :: r => if ty_gt x cur then py_max_from x r else py_max_from cur r
  end.

Definition py_max (l : list ty) : option ty :=
  match l with
  | [] => None
  | x :: r => Some (py_max_from x r)
  end.

Inductive reason := DifferentVocabularies | DimensionalityMismatch
                  | IncompatibleTypes.

Inductive coerce_result :=
| COk (t : ty)
| CTypeError (r : reason)     (* SpaTypeError with that reason prefix *)
| CValueError.                (* max() of an empty sequence *)

Definition has_vocab (t : ty) : option nat :=
  match t with TVoc i => Some i | _ => None end.
Definition has_dims (t : ty) : option nat :=
  match t with TAnyDim d => Some d | TVoc i => Some (dim i) | _ => None end.

Definition pick_reason (offender top : ty) : reason :=
  match has_vocab offender, has_vocab top with
  | Some i, Some j =>
      if negb (Nat.eqb i j) then DifferentVocabularies
      else match has_dims offender, has_dims top with
           | Some d, Some e =>
               if negb (Nat.eqb d e) then DimensionalityMismatch
               else IncompatibleTypes
           | _, _ => IncompatibleTypes
           end
  | _, _ =>
      match has_dims offender, has_dims top with
      | Some d, Some e =>
          if negb (Nat.eqb d e) then DimensionalityMismatch
          else IncompatibleTypes
      | _, _ => IncompatibleTypes
      end
  end.

Definition coerce_types (l : list ty) : coerce_result :=
  match py_max l with
  | None => CValueError
  | Some top =>
      match find (fun t => negb (ty_le t top)) l with
      | None => COk top
      | Some offender => CTypeError (pick_reason offender top)
      end
  end.

End WithDim.

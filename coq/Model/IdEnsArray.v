(* Model of nengo_spa/networks/identity_ensemble_array.py and of the wiring of
   nengo_spa/modules/state.py.  Stdlib style; executable; no proofs here.

   IdentityEnsembleArray(npd, d, sub) consists of, in all_ensembles order:
     first      : dimension [0, 1)
     second     : dimensions [1, sub)                 (only if sub > 1)
     remainder  : d/sub - 1 ensembles of sub dims    (only if d > sub)
                  covering [sub + k*sub, sub + (k+1)*sub)
   each with npd neurons per represented dimension; input and output slices
   coincide; neuron_input / neuron_output address the neurons of the ensembles
   in that order. *)
From Coq Require Import List Bool Arith.
Import ListNotations.

Record part := Part { p_start : nat; p_size : nat }.

Definition remainder_parts (d sub : nat) : list part :=
  map (fun k => Part (sub + k * sub) sub) (seq 0 (d / sub - 1)).

Definition parts (d sub : nat) : list part :=
  [Part 0 1]
  ++ (if 1 <? sub then [Part 1 (sub - 1)] else [])
  ++ (if sub <? d then remainder_parts d sub else []).

(* plain EnsembleArray (represent_cc_identity = False): d/sub ensembles of sub dims *)
Definition plain_parts (d sub : nat) : list part :=
  map (fun k => Part (k * sub) sub) (seq 0 (d / sub)).

(* neuron slices: running offset over the ensembles *)
Fixpoint neuron_slices (npd : nat) (ps : list part) (offset : nat) : list part :=
  match ps with
  | [] => []
  | p :: r => Part offset (npd * p_size p) :: neuron_slices npd r (offset + npd * p_size p)
  end.

(* dimensions covered by a list of parts, in order *)
Definition covered (ps : list part) : list nat :=
  flat_map (fun p => seq (p_start p) (p_size p)) ps.

(* State(vocab of dimension d, subdimensions=sub): accepted iff sub divides d *)
Definition state_accepts (d sub : nat) : bool := (0 <? sub) && (d mod sub =? 0).

(* add_output(name, fn) with one function applied per ensemble: output slices when
   the function maps k dimensions to [out_size k] values *)
Fixpoint out_slices (out_size : nat -> nat) (ps : list part) (offset : nat) : list part :=
  match ps with
  | [] => []
  | p :: r => Part offset (out_size (p_size p)) :: out_slices out_size r (offset + out_size (p_size p))
  end.

(* discrete low-pass feedback with ideal neurons: x' = x + (dt/tau) * (feedback*x + u - x)
   as an exact rational recurrence is not needed: with feedback 1 and u = 0 the
   increment vanishes; with feedback 0 and u = 0 the state decays geometrically *)
Definition feedback_increment_num (feedback_is_one : bool) (x u : nat) : nat :=
  if feedback_is_one then u else u - x.

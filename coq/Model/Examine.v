(* Model of nengo_spa/examine.py: similarity, text, pairs.  Stdlib style;
   executable; no proofs here.

   Numbers are exact: vectors have integer entries scaled by a common power of
   two, so dot products are dyadic rationals n / 2^k, compared and formatted
   exactly ('%0.2f' rounds the exact binary value half-to-even, as CPython). *)
From Coq Require Import List Bool Arith ZArith String Ascii.
Import ListNotations.
Local Open Scope Z_scope.

Definition zdot (a b : list Z) : Z :=
  fold_right Z.add 0 (map (fun p => fst p * snd p) (combine a b)).

(* similarity without normalisation: entry (t, i) = <data_t, vec_i>, rows in
   vocabulary order; shape (N) for a single vector, (T, N) for a series *)
Definition sim_row (vectors : list (list Z)) (d : list Z) : list Z :=
  map (fun v => zdot v d) vectors.
Definition similarity (vectors data : list (list Z)) : list (list Z) :=
  map (sim_row vectors) data.

(* cosine: (num, den2) = <d,v> / sqrt(|d|^2 |v|^2); a zero row gives 0 (never undefined) *)
Definition cos_entry (v d : list Z) : Z * Z :=
  let n2 := zdot v v * zdot d d in
  if n2 =? 0 then (0, 1) else (zdot v d, n2).
Definition similarity_normalized (vectors data : list (list Z)) : list (list (Z * Z)) :=
  map (fun d => map (fun v => cos_entry v d) vectors) data.

(* ---- text ----------------------------------------------------------------------- *)
(* a match: similarity (scaled integer) and term *)
Definition mt := (Z * string)%type.

(* descending order on (similarity, term): sort(); reverse() *)
Definition mt_geb (a b : mt) : bool :=
  match Z.compare (fst a) (fst b) with
  | Gt => true
  | Lt => false
  | Eq => match String.compare (snd a) (snd b) with Lt => false | _ => true end
  end.

Fixpoint insert_desc (x : mt) (l : list mt) : list mt :=
  match l with
  | [] => [x]
  | y :: r => if mt_geb x y then x :: l else y :: insert_desc x r
  end.
Definition sort_desc (l : list mt) : list mt := fold_right insert_desc [] l.

(* the selection loop; [len] = number of terms taken so far *)
Fixpoint select (minimum maximum : option nat) (threshold : option Z) (ms : list mt) (len : nat) : list mt :=
  match ms with
  | [] => []
  | m :: rest =>
      if (match minimum with Some k => Nat.ltb len k | None => false end) then
        m :: select minimum maximum threshold rest (S len)
      else if (match maximum with Some k => Nat.eqb len k | None => false end) then []
      else if (match threshold with Some th => th <? fst m | None => true end) then
        m :: select minimum maximum threshold rest (S len)
      else []
  end.

Definition text_terms (minimum maximum : option nat) (threshold : option Z) (ms : list mt) : list mt :=
  select minimum maximum threshold (sort_desc ms) 0.

(* ---- '%0.2f' on n / 2^k ---------------------------------------------------------- *)
Definition digit (d : Z) : string := String (ascii_of_nat (48 + Z.to_nat d)) EmptyString.
Fixpoint digits_fuel (fuel : nat) (n : Z) (acc : string) : string :=
  match fuel with
  | O => acc
  | S f => if n <? 10 then (digit n ++ acc)%string
           else digits_fuel f (n / 10) (digit (n mod 10) ++ acc)%string
  end.
Definition nat_str (n : Z) : string := digits_fuel 60 n EmptyString.

(* round |n| * 100 / 2^k half to even *)
Definition round_half_even (num den : Z) : Z :=
  let q := num / den in
  let r := num mod den in
  if 2 * r <? den then q
  else if den <? 2 * r then q + 1
  else if Z.even q then q else q + 1.

Definition fmt2 (n : Z) (k : nat) : string :=
  let den := Z.shiftl 1 (Z.of_nat k) in
  let q := round_half_even (Z.abs n * 100) den in
  let body := (nat_str (q / 100) ++ "." ++ digit ((q mod 100) / 10) ++ digit (q mod 10))%string in
  if n <? 0 then ("-" ++ body)%string else body.

Fixpoint join (sep : string) (l : list string) : string :=
  match l with
  | [] => EmptyString
  | [x] => x
  | x :: r => (x ++ sep ++ join sep r)%string
  end.

(* text(...): sims are integers scaled by 2^k *)
Definition text (k : nat) (minimum maximum : option nat) (threshold : option Z) (ms : list mt) : string :=
  join ";" (map (fun m => (fmt2 (fst m) k ++ snd m)%string) (text_terms minimum maximum threshold ms)).

(* ---- pairs ---------------------------------------------------------------------- *)
Fixpoint pairs (keys : list string) : list (string * string) :=
  match keys with
  | [] => []
  | x :: r => map (fun y => (x, y)) r ++ pairs r
  end.

(* Dispatch over the three shipped algebras: one interface used by the
   SemanticPointer / vocabulary / expression models.  Generic over a
   commutative ring; no proofs here. *)
From mathcomp Require Import all_ssreflect all_algebra.
From NSpa Require Import Model.Vec Model.Hrr Model.Vtb Model.Power.
Set Implicit Arguments.
Unset Strict Implicit.
Unset Printing Implicit Defensive.
Import GRing.Theory.
Local Open Scope ring_scope.

Inductive alg := AHrr | AVtb | ATvtb.
Definition alg_eqb (a b : alg) : bool :=
  match a, b with AHrr, AHrr | AVtb, AVtb | ATvtb, ATvtb => true | _, _ => false end.

Inductive element := EIdentity | ENegIdentity | EZero | EAbsorbing.

Definition plain {T} (x : T) : scaled T := Scaled x 1 1.
Definition unwarn {T} (w : result (warned T)) : result T := rmap (@wval T) w.
Definition nowarn {T} (x : T) : warned T := Warned x false.

Definition alg_valid (al : alg) (d : nat) : bool :=
  match al with AHrr => hrr_valid d | _ => vtb_valid d end.

Section Alg.
Variable R : comRingType.
Local Notation vec := (seq R).
Local Notation mat := (seq (seq R)).

Definition alg_bind (al : alg) (a b : vec) : result (scaled vec) :=
  match al with
  | AHrr => rmap plain (hrr_bind a b)
  | AVtb => vtb_bind a b
  | ATvtb => tvtb_bind a b
  end.

(* superpose(a, b): element-wise addition; operands of unequal length are rejected (all algebras) *)
Definition alg_superpose (a b : vec) : result vec :=
  if size a == size b then Ok (vadd a b) else Err ValueError.

Definition alg_bmat (al : alg) (v : vec) (swap : bool) : result (scaled mat) :=
  match al with
  | AHrr => Ok (plain (hrr_bmat v swap))
  | AVtb => vtb_bmat v swap
  | ATvtb => tvtb_bmat v swap
  end.

Definition alg_invert (al : alg) (v : vec) (sd : side) : result (warned vec) :=
  match al with
  | AHrr => Ok (nowarn (hrr_invert v))
  | AVtb => vtb_invert v sd
  | ATvtb => tvtb_invert v sd
  end.

Definition alg_imat (al : alg) (d : nat) (sd : side) : result (warned mat) :=
  match al with
  | AHrr => Ok (nowarn (hrr_imat R d))
  | AVtb => vtb_imat R d sd
  | ATvtb => tvtb_imat R d sd
  end.

Definition hrr_element (el : element) (d : nat) : scaled vec :=
  match el with
  | EIdentity => plain (hrr_identity R d)
  | ENegIdentity => plain (hrr_neg_identity R d)
  | EZero => plain (hrr_zero R d)
  | EAbsorbing => Scaled (hrr_absorbing_core R d) 1 d
  end.

Definition alg_element (al : alg) (el : element) (d : nat) (sd : side)
    : result (warned (scaled vec)) :=
  match al, el with
  | AHrr, _ => Ok (nowarn (hrr_element el d))
  | AVtb, EIdentity => vtb_identity R d sd
  | AVtb, ENegIdentity => vtb_neg_identity R d sd
  | AVtb, EZero => vtb_zero R d sd
  | AVtb, EAbsorbing => vtb_absorbing R d sd
  | ATvtb, EIdentity => tvtb_identity R d sd
  | ATvtb, ENegIdentity => tvtb_neg_identity R d sd
  | ATvtb, EZero => tvtb_zero R d sd
  | ATvtb, EAbsorbing => tvtb_absorbing R d sd
  end.

Definition alg_sbind (al : alg) (x y : scaled vec) : result (scaled vec) :=
  match al with
  | AHrr => rmap (fun c => scale_mul (plain c) x y) (hrr_bind (core x) (core y))
  | AVtb => vtb_sbind x y
  | ATvtb => tvtb_sbind x y
  end.

Definition alg_sinvert (al : alg) (v : scaled vec) (sd : side)
    : result (warned (scaled vec)) :=
  rmap (fun w => Warned (Scaled (wval w) (rnum v) (rden v)) (wdep w))
       (alg_invert al (core v) sd).

End Alg.
Arguments alg_imat {R} al d sd.
Arguments alg_element {R} al el d sd.
Arguments hrr_element {R} el d.

(* Model of nengo_spa/modules/associative_memory.py: mapping normalisation, the
   input / output transforms, the default-output wiring, and the memory's value
   with ideal selection units (networks/selection.py Thresholding as a unit
   [x > theta -> x, else 0]; Direct mode: the identity).

   Keys and outputs are expressions parsed in the input / output vocabulary
   (C10); the model starts from their vectors.  No proofs here. *)
From mathcomp Require Import all_ssreflect all_algebra.
From NSpa Require Import Model.Vec.
Set Implicit Arguments.
Unset Strict Implicit.
Unset Printing Implicit Defensive.
Import GRing.Theory.
Local Open Scope ring_scope.

(* ---- the mapping argument ----------------------------------------------------------- *)
(* keys are identified by their index in the vocabulary's key list; [MDict] is a dict in
   insertion order, [MSeq] a sequence of keys, [MOtherStr] any string but 'by-key' *)
Inductive mapping :=
| MNone
| MByKey
| MOtherStr
| MDict of seq (nat * nat)
| MSeq of seq nat.

(* {k: k for k in mapping}: a repeated key is stored once, at the position of its first occurrence *)
Definition first_occurrences (ks : seq nat) : seq nat := rev (undup (rev ks)).

(* __init__ up to the parse calls: the (input key, output key) pairs in matching order *)
Definition normalise (has_output_vocab : bool) (n_input_keys : nat) (m : mapping)
    : result (seq (nat * nat)) :=
  match m with
  | MNone => if has_output_vocab then Err ValidationError else Err TypeError
  | MOtherStr => Err ValidationError
  | MByKey =>
      if n_input_keys == 0%N then Err ValidationError
      else Ok [seq (k, k) | k <- iota 0 n_input_keys]
  | MDict ps => if ps is [::] then Err ValidationError else Ok ps
  | MSeq ks => if ks is [::] then Err ValidationError else Ok [seq (k, k) | k <- first_occurrences ks]
  end.

Section Mem.
Variable R : realDomainType.
Local Notation vec := (seq R).
Local Notation mat := (seq (seq R)).

(* transforms of the two connections *)
Definition input_transform (pairs : seq (vec * vec)) : mat := [seq p.1 | p <- pairs].
Definition output_transform (pairs : seq (vec * vec)) : mat := mtrans [seq p.2 | p <- pairs].

(* selection units *)
Definition sel_identity (u : vec) : vec := u.
Definition sel_threshold (theta : R) (u : vec) : vec := [seq (if theta < x then x else 0) | x <- u].

(* sum_i s_i * o_i, the value a connection with transform V^T delivers *)
Definition weighted_sum (d_out : nat) (s : vec) (outs : seq vec) : vec :=
  foldr (fun so acc => vadd (vscale so.1 so.2) acc) (vzero R d_out) (zip s outs).

(* the memory: utilities = K x, selected activities, output = V^T s *)
Definition utilities (pairs : seq (vec * vec)) (x : vec) : vec := matvec (input_transform pairs) x.

Definition memory (sel : vec -> vec) (d_out : nat) (pairs : seq (vec * vec)) (x : vec) : vec :=
  weighted_sum d_out (sel (utilities pairs x)) [seq p.2 | p <- pairs].

(* the same value computed the way the network does: np.dot(V.T, s) *)
Definition memory_net (sel : vec -> vec) (pairs : seq (vec * vec)) (x : vec) : vec :=
  matvec (output_transform pairs) (sel (utilities pairs x)).

(* default output.  The gate ensemble receives 1 - sum(s) / min_activation; an ideal
   thresholding ensemble (intercepts >= 0) passes positive values and is silent otherwise.
   [mq / mp] = 1 / min_activation_value, kept as a fraction so the model runs over Z. *)
Definition gate_input_times (mp mq : R) (s : vec) : R := mp - mq * sumv s.   (* = mp * (1 - sum s / m) *)

Definition default_active (mp mq : R) (s : vec) : bool := 0 < gate_input_times mp mq s.

(* Direct mode (no rectification): mp * output = mp * memory + (mp - mq * sum s) * default *)
Definition memory_default_direct_times (mp mq : R) (d_out : nat) (pairs : seq (vec * vec))
    (dflt x : vec) : vec :=
  let s := utilities pairs x in
  vadd (vscale mp (weighted_sum d_out s [seq p.2 | p <- pairs]))
       (vscale (gate_input_times mp mq s) dflt).

End Mem.

(* Model of nengo_spa/vocabulary.py (Vocabulary) as a state machine.
   Stdlib style; executable; no proofs in this file.

   State: keys (list, iteration order), key2idx (association list), vectors
   (rows), strictness, dimensionality, position in the pointer generator.
   The pointer generator is a scripted stream [gen : nat -> list Z]; with
   max_similarity large every candidate is accepted, so create_pointer
   returns the next stream element (candidate selection itself is C10).

   add(key, p), in source order:
     1. name check  (regex ^[A-Z][_a-zA-Z0-9]*$, keyword, reserved) -> SpaParseError
     2. raw vectors are wrapped into a pointer of this vocabulary
     3. duplicate key                                    -> ValidationError
     4. pointer of another vocabulary / algebra           -> ValidationError
     5. wrong List.length                                      -> ValidationError
        (this guard is the repair of a defect found by this check: upstream
         updated key2idx and keys and then failed in np.vstack)
     6. key2idx[key] := len(key2idx); keys.append(key); vectors := vstack
   __getitem__: special names; non-strict: add(key, create_pointer()) when
   missing; then lookup (KeyError when absent). *)
From Coq Require Import List Bool Arith ZArith String Ascii.
Import ListNotations.

Inductive vexn := VSpaParseError | VValidationError | VKeyError | VValueError | VSyntaxError | VNameError.

(* ---- name validity --------------------------------------------------------- *)
Definition is_upper (c : ascii) : bool :=
  let n := nat_of_ascii c in ((65 <=? n) && (n <=? 90))%nat.
Definition is_lower (c : ascii) : bool :=
  let n := nat_of_ascii c in ((97 <=? n) && (n <=? 122))%nat.
Definition is_digit (c : ascii) : bool :=
  let n := nat_of_ascii c in ((48 <=? n) && (n <=? 57))%nat.
Definition is_word (c : ascii) : bool :=
  is_upper c || is_lower c || is_digit c || (nat_of_ascii c =? 95)%nat.

Fixpoint all_word (s : string) : bool :=
  match s with
  | EmptyString => true
  | String c r => is_word c && all_word r
  end.

Definition special_names : list string := ["AbsorbingElement"%string; "Identity"%string; "Zero"%string].
Definition reserved_names : list string := ["None"%string; "True"%string; "False"%string] ++ special_names.

Definition mem (k : string) (l : list string) : bool := existsb (String.eqb k) l.

(* Python keywords that match the regex are None, True, False: all reserved *)
Definition valid_name (k : string) : bool :=
  match k with
  | EmptyString => false
  | String c r => is_upper c && all_word r && negb (mem k reserved_names)
  end.

(* ---- state ------------------------------------------------------------------ *)
Record vocab := Vocab {
  vdims : nat;
  vstrict : bool;
  vkeys : list string;
  vkey2idx : list (string * nat);
  vvectors : list (list Z);
  vpos : nat            (* vectors drawn from the pointer generator so far *)
}.

Definition empty_vocab (d : nat) (strict : bool) : vocab := Vocab d strict [] [] [] 0.

Fixpoint assoc (k : string) (l : list (string * nat)) : option nat :=
  match l with
  | [] => None
  | (k', i) :: r => if String.eqb k k' then Some i else assoc k r
  end.

Definition contains (v : vocab) (k : string) : bool :=
  mem k special_names || match assoc k (vkey2idx v) with Some _ => true | None => false end.
Definition vlen (v : vocab) : nat := List.length (vvectors v).

(* pointer offered to add *)
Inductive owner := Own | NoVocab | ForeignVocab.
Record ptr := Ptr { pvec : list Z; powner : owner; psame_alg : bool }.

Definition add (v : vocab) (k : string) (p : ptr) : vocab * option vexn :=
  if negb (valid_name k) then (v, Some VSpaParseError) else
  if match assoc k (vkey2idx v) with Some _ => true | None => false end
  then (v, Some VValidationError) else
  if match powner p with ForeignVocab => true | _ => false end || negb (psame_alg p)
  then (v, Some VValidationError) else
  if negb (List.length (pvec p) =? vdims v)%nat then (v, Some VValidationError) else
  (Vocab (vdims v) (vstrict v) (vkeys v ++ [k])
         (vkey2idx v ++ [(k, List.length (vkey2idx v))])
         (vvectors v ++ [pvec p]) (vpos v), None).

Section WithGen.
Variable gen : nat -> list Z.

(* create_pointer(): next stream element, a pointer of this vocabulary *)
Definition create_pointer (v : vocab) : vocab * ptr :=
  (Vocab (vdims v) (vstrict v) (vkeys v) (vkey2idx v) (vvectors v) (S (vpos v)),
   Ptr (gen (vpos v)) Own true).

Inductive lookup := LSpecial (name : string) | LVector (x : list Z).

Definition getitem (v : vocab) (k : string) : vocab * (lookup + vexn) :=
  if String.eqb k "__tracebackhide__"%string then (v, inr VKeyError) else
  if mem k special_names then (v, inl (LSpecial k)) else
  let '(v1, err) :=
    if negb (vstrict v) && negb (contains v k) then
      let '(v0, p) := create_pointer v in add v0 k p
    else (v, None) in
  match err with
  | Some e => (v1, inr e)
  | None =>
      match assoc k (vkey2idx v1) with
      | Some i => (v1, inl (LVector (nth i (vvectors v1) [])))
      | None => (v1, inr VKeyError)
      end
  end.

(* state effect of evaluating an expression with the vocabulary as the name
   space: the names are looked up in evaluation (= source) order; the first
   failing lookup aborts.  A KeyError inside eval surfaces as NameError, which
   parse() converts to SpaParseError and populate() lets through. *)
Fixpoint eval_names (v : vocab) (names : list string) : vocab * option vexn :=
  match names with
  | [] => (v, None)
  | k :: r =>
      match getitem v k with
      | (v1, inl _) => eval_names v1 r
      | (v1, inr VKeyError) => (v1, Some VNameError)
      | (v1, inr e) => (v1, Some e)
      end
  end.

Definition parse_names (v : vocab) (names : list string) : vocab * option vexn :=
  match eval_names v names with
  | (v1, Some _) => (v1, Some VSpaParseError)
  | r => r
  end.

(* populate items *)
Inductive item :=
| IName (k : string)                         (* "Name"  or "Name.method()" *)
| IAssign (k : string) (names : list string) (value : list Z).
     (* "Name = expr": the names of expr, and its value (computed by C10) *)

Fixpoint populate (v : vocab) (items : list item) : vocab * option vexn :=
  match items with
  | [] => (v, None)
  | IName k :: r =>
      let '(v0, p) := create_pointer v in
      match add v0 k p with
      | (v1, None) => populate v1 r
      | (v1, Some e) => (v1, Some e)
      end
  | IAssign k names value :: r =>
      match eval_names v names with
      | (v0, Some e) => (v0, Some e)
      | (v0, None) =>
          match add v0 k (Ptr value Own true) with
          | (v1, None) => populate v1 r
          | (v1, Some e) => (v1, Some e)
          end
      end
  end.

(* create_subset(keys): reads self[key] for every key (a non-strict source
   gains missing valid keys - see C13) *)
Fixpoint subset_reads (v : vocab) (keys : list string) : vocab * option vexn :=
  match keys with
  | [] => (v, None)
  | k :: r =>
      if mem k special_names then (v, Some VSpaParseError)  (* add of a reserved name *)
      else match getitem v k with
           | (v1, inl _) => subset_reads v1 r
           | (v1, inr e) => (v1, Some e)
           end
  end.

(* ---- operations of the history alphabet ---------------------------------- *)
Inductive op :=
| OAdd (k : string) (p : ptr)
| OGet (k : string)
| OContains (k : string)
| OCreatePointer
| OParse (names : list string)
| OPopulate (items : list item)
| OSubset (keys : list string)
| OMalformedParse      (* text that is not a Python expression: SyntaxError *)
| ONoop.               (* write attempts through arrays handed in or out *)

Definition step (v : vocab) (o : op) : vocab * option vexn :=
  match o with
  | OAdd k p => add v k p
  | OGet k => match getitem v k with (v1, inl _) => (v1, None) | (v1, inr e) => (v1, Some e) end
  | OContains _ => (v, None)
  | OCreatePointer => (fst (create_pointer v), None)
  | OParse names => parse_names v names
  | OPopulate items => populate v items
  | OSubset keys => subset_reads v keys
  | OMalformedParse => (v, Some VSyntaxError)
  | ONoop => (v, None)
  end.

Definition run (v : vocab) (ops : list op) : vocab :=
  fold_left (fun s o => fst (step s o)) ops v.

End WithGen.

(* the scripted generator shared with the harness *)
Definition script_vec (d i : nat) : list Z :=
  map (fun j => (Z.of_nat (((i + 1) * (j + 2) * 7 + i * i) mod 11) - 5)%Z) (seq 0 d).

(* Model of nengo_spa/algebras/vtb_algebra.py and tvtb_algebra.py.
   Generic over a commutative ring; executable at Z.  No proofs here.

   Irrational factors are carried symbolically: a [scaled] value
   {core; rnum; rden} denotes core * sqrt(rnum / rden).

   _get_sub_d            : int(sqrt d), ValueError unless a perfect square
   get_binding_matrix    : VTB   sqrt(s) * kron(eye s, V)        (V = reshape v)
                           TVTB  sqrt(s) * kron(eye s, V^T)
                           swap_inputs: VTB  P . m ; TVTB  P . m^T . P
   get_inversion_matrix  : eye(d).reshape(d,s,s).T.reshape(d,d): entry (r,p) is
                           1 iff p = (r mod s)*s + r/s  (derived index formula,
                           validated entry-wise by the tie)
   bind a b              : dot(get_binding_matrix b, a)
   invert                : reshape.T.flatten with the sidedness guards
   identity etc.         : eye(s)/d**0.25 = eye(s) * sqrt(1/s), guards as coded *)
From mathcomp Require Import all_ssreflect all_algebra.
From NSpa Require Import Model.Vec.
Set Implicit Arguments.
Unset Strict Implicit.
Unset Printing Implicit Defensive.
Import GRing.Theory.
Local Open Scope ring_scope.

Record scaled (T : Type) := Scaled { core : T; rnum : nat; rden : nat }.

Inductive side := SLeft | SRight | STwo.
(* result with an optional DeprecationWarning flag *)
Record warned (T : Type) := Warned { wval : T; wdep : bool }.

Definition sub_d (d : nat) : result nat :=
  let s := isqrt d in if (s * s == d)%N then Ok s else Err ValueError.

Definition vtb_valid (d : nat) : bool :=
  (0 < d)%N && (let s := isqrt d in (s * s == d)%N).

Section Vtb.
Variable R : comRingType.
Local Notation vec := (seq R).
Local Notation mat := (seq (seq R)).

(* inversion / swapping matrix: the s x s transposition permutation *)
Definition tperm (s r : nat) : nat := (r %% s) * s + r %/ s.
Definition vtb_imat_core (s : nat) : mat :=
  mkmat (s * s) (s * s) (fun r p => (p == tperm s r)%:R).

Definition vtb_transpose_vec (s : nat) (v : vec) : vec :=
  flatten_m (mtrans (reshape s v)).

(* --- VTB ------------------------------------------------------------------ *)
Definition vtb_bmat (v : vec) (swap : bool) : result (scaled mat) :=
  rbind (sub_d (size v)) (fun s =>
    let m := kron_eye s (reshape s v) in
    let m := if swap then matmul (vtb_imat_core s) m else m in
    Ok (Scaled m s 1)).

Definition vtb_bind (a b : vec) : result (scaled vec) :=
  if size a != size b then Err ValueError else
  rbind (vtb_bmat b false) (fun m =>
    Ok (Scaled (matvec (core m) a) (rnum m) (rden m))).

Definition vtb_invert (v : vec) (sd : side) : result (warned vec) :=
  match sd with
  | SLeft => Err NotImplementedErr
  | _ => rbind (sub_d (size v)) (fun s =>
           Ok (Warned (vtb_transpose_vec s v) (if sd is STwo then true else false)))
  end.

Definition vtb_imat (d : nat) (sd : side) : result (warned mat) :=
  match sd with
  | SLeft => Err NotImplementedErr
  | _ => rbind (sub_d d) (fun s =>
           Ok (Warned (vtb_imat_core s) (if sd is STwo then true else false)))
  end.

Definition eye_flat (s : nat) : vec := flatten_m (meye R s).

Definition vtb_identity (d : nat) (sd : side) : result (warned (scaled vec)) :=
  match sd with
  | SLeft => Err NotImplementedErr
  | _ => rbind (sub_d d) (fun s =>
           Ok (Warned (Scaled (eye_flat s) 1 s) (if sd is STwo then true else false)))
  end.

Definition vtb_neg_identity (d : nat) (sd : side) : result (warned (scaled vec)) :=
  match sd with
  | SRight => rbind (vtb_identity d sd) (fun w =>
      Ok (Warned (Scaled (vneg (core (wval w))) (rnum (wval w)) (rden (wval w))) (wdep w)))
  | _ => Err NotImplementedErr
  end.

Definition vtb_zero (d : nat) (sd : side) : result (warned (scaled vec)) :=
  Ok (Warned (Scaled (vzero R d) 1 1) false).

Definition vtb_absorbing (d : nat) (sd : side) : result (warned (scaled vec)) :=
  Err NotImplementedErr.

(* --- TVTB ----------------------------------------------------------------- *)
Definition tvtb_bmat (v : vec) (swap : bool) : result (scaled mat) :=
  rbind (sub_d (size v)) (fun s =>
    let m := kron_eye s (mtrans (reshape s v)) in
    let m := if swap
             then matmul (matmul (vtb_imat_core s) (mtrans m)) (vtb_imat_core s)
             else m in
    Ok (Scaled m s 1)).

Definition tvtb_bind (a b : vec) : result (scaled vec) :=
  if size a != size b then Err ValueError else
  rbind (tvtb_bmat b false) (fun m =>
    Ok (Scaled (matvec (core m) a) (rnum m) (rden m))).

Definition tvtb_invert (v : vec) (sd : side) : result (warned vec) :=
  rbind (sub_d (size v)) (fun s => Ok (Warned (vtb_transpose_vec s v) false)).

Definition tvtb_imat (d : nat) (sd : side) : result (warned mat) :=
  rbind (sub_d d) (fun s => Ok (Warned (vtb_imat_core s) false)).

Definition tvtb_identity (d : nat) (sd : side) : result (warned (scaled vec)) :=
  rbind (sub_d d) (fun s => Ok (Warned (Scaled (eye_flat s) 1 s) false)).

Definition tvtb_neg_identity (d : nat) (sd : side) : result (warned (scaled vec)) :=
  rbind (tvtb_identity d sd) (fun w =>
    Ok (Warned (Scaled (vneg (core (wval w))) (rnum (wval w)) (rden (wval w))) false)).

Definition tvtb_zero (d : nat) (sd : side) : result (warned (scaled vec)) :=
  Ok (Warned (Scaled (vzero R d) 1 1) false).

Definition tvtb_absorbing (d : nat) (sd : side) : result (warned (scaled vec)) :=
  Err NotImplementedErr.

(* binding of scaled operands: cores bind, radicands multiply
   (sqrt(n1/d1) * sqrt(n2/d2) = sqrt(n1*n2/(d1*d2)); the algebra's own factor
   sqrt(s) comes from the unscaled bind) *)
Definition scale_mul {T} (r : scaled T) (x y : scaled vec) : scaled T :=
  Scaled (core r) (rnum r * rnum x * rnum y) (rden r * rden x * rden y).

Definition vtb_sbind (x y : scaled vec) : result (scaled vec) :=
  rmap (fun r => scale_mul r x y) (vtb_bind (core x) (core y)).
Definition tvtb_sbind (x y : scaled vec) : result (scaled vec) :=
  rmap (fun r => scale_mul r x y) (tvtb_bind (core x) (core y)).

End Vtb.

(* VTB and TVTB: the kron / reshape / matvec route of the code computes
   sqrt(s) * A * B^T (VTB) resp. sqrt(s) * A * B (TVTB) on the s x s matrices of
   the operands, for every s and every commutative ring; binding matrices with
   swapped inputs, inversion matrices, bilinearity, dimension checks. *)
From mathcomp Require Import all_ssreflect all_algebra zify.
From NSpa Require Import Model.Vec Model.Vtb Theory.SeqSum Theory.MxBridge.
Set Implicit Arguments.
Unset Strict Implicit.
Unset Printing Implicit Defensive.
Import GRing.Theory.
Local Open Scope ring_scope.

Section VtbLaws.
Variable R : comRingType.
Implicit Types (a b v x : seq R) (s : nat).

(* cores of the binding operations for a known sub-dimension *)
Definition vtb_core s a b : seq R := matvec (kron_eye s (reshape s b)) a.
Definition tvtb_core s a b : seq R := matvec (kron_eye s (mtrans (reshape s b))) a.

Lemma ncols_reshape s v : (0 < s)%N -> ncols (reshape s v) = s.
Proof. by move=> s0; rewrite /ncols row_mkmat // size_mkvec. Qed.

Lemma size_reshape s v : size (reshape s v) = s.
Proof. by rewrite size_mkmat. Qed.

Lemma mnth_mtrans_reshape s v i j :
  (i < s)%N -> (j < s)%N -> mnth (mtrans (reshape s v)) i j = vnth v (j * s + i).
Proof.
  move=> li lj.
  have s0 : (0 < s)%N by apply: leq_ltn_trans li.
  by rewrite /mtrans ncols_reshape // size_reshape mnth_mkmat // nth_reshape.
Qed.

(* the kron(eye, B) . a route, entry (i, j) *)
Lemma kron_matvec s (B : seq (seq R)) a i j :
  size a = (s * s)%N -> (i < s)%N -> (j < s)%N ->
  vnth (matvec (kron_eye s B) a) (i * s + j) =
  \sum_(k < s) mnth B j k * vnth a (i * s + k).
Proof.
  move=> sa li lj.
  have lq := idx_lt li lj.
  rewrite nth_matvec ?size_mkmat // row_mkmat // dot_mkvec idx_div // idx_mod //.
  rewrite (sum_mul_ord s s (fun q =>
    (if i == (q %/ s)%N then mnth B j (q %% s) else 0) * vnth a q)).
  rewrite (bigD1 (Ordinal li)) //= [X in _ + X]big1 ?addr0; last first.
    move=> i' ne; apply: big1 => k _.
    rewrite idx_div // (_ : (i == i') = false) ?mul0r //.
    by apply/negbTE; apply: contra ne => /eqP e; apply/eqP/val_inj.
  apply: eq_bigr => k _.
  by rewrite !idx_div // eqxx !idx_mod.
Qed.

Lemma size_vtb_core s a b : size (vtb_core s a b) = (s * s)%N.
Proof. by rewrite size_matvec size_mkmat. Qed.
Lemma size_tvtb_core s a b : size (tvtb_core s a b) = (s * s)%N.
Proof. by rewrite size_matvec size_mkmat. Qed.

(* VTB: A * B^T *)
Theorem vtb_core_mx s a b :
  size a = (s * s)%N ->
  mx_of s (vtb_core s a b) = mx_of s a *m (mx_of s b)^T.
Proof.
  move=> sa; apply/matrixP => i j; rewrite !mxE kron_matvec //.
  apply: eq_bigr => k _; rewrite !mxE nth_reshape // mulrC.
  by [].
Qed.

(* TVTB: A * B *)
Theorem tvtb_core_mx s a b :
  size a = (s * s)%N ->
  mx_of s (tvtb_core s a b) = mx_of s a *m mx_of s b.
Proof.
  move=> sa; apply/matrixP => i j; rewrite !mxE kron_matvec //.
  apply: eq_bigr => k _; rewrite !mxE mnth_mtrans_reshape // mulrC.
  by [].
Qed.

(* the API functions in terms of the cores *)
Theorem vtb_bindE s a b :
  size a = (s * s)%N -> size b = (s * s)%N ->
  vtb_bind a b = Ok (Scaled (vtb_core s a b) s 1).
Proof.
  move=> sa sb; rewrite /vtb_bind sa sb eqxx /= /vtb_bmat sb.
  by rewrite (proj2 (sub_d_ok _ _) (erefl _)).
Qed.

Theorem tvtb_bindE s a b :
  size a = (s * s)%N -> size b = (s * s)%N ->
  tvtb_bind a b = Ok (Scaled (tvtb_core s a b) s 1).
Proof.
  move=> sa sb; rewrite /tvtb_bind sa sb eqxx /= /tvtb_bmat sb.
  by rewrite (proj2 (sub_d_ok _ _) (erefl _)).
Qed.

Theorem vtb_bind_unequal a b : size a != size b -> vtb_bind a b = Err ValueError.
Proof. by rewrite /vtb_bind => ->. Qed.
Theorem tvtb_bind_unequal a b : size a != size b -> tvtb_bind a b = Err ValueError.
Proof. by rewrite /tvtb_bind => ->. Qed.

Theorem vtb_bind_nonsquare a b :
  size a = size b -> (~ exists s, (s * s)%N = size b) -> vtb_bind a b = Err ValueError.
Proof.
  move=> sab ns; rewrite /vtb_bind sab eqxx /= /vtb_bmat.
  by rewrite (proj2 (sub_d_err _) ns).
Qed.
Theorem tvtb_bind_nonsquare a b :
  size a = size b -> (~ exists s, (s * s)%N = size b) -> tvtb_bind a b = Err ValueError.
Proof.
  move=> sab ns; rewrite /tvtb_bind sab eqxx /= /tvtb_bmat.
  by rewrite (proj2 (sub_d_err _) ns).
Qed.

(* ---- mx_of is linear ----------------------------------------------------- *)
Lemma mx_of_vadd s a b : size a = size b -> mx_of s (vadd a b) = mx_of s a + mx_of s b.
Proof. by move=> sab; apply/matrixP => i j; rewrite !mxE nth_vadd. Qed.
Lemma mx_of_vscale s k a : mx_of s (vscale k a) = k *: mx_of s a.
Proof. by apply/matrixP => i j; rewrite !mxE nth_vscale. Qed.
Lemma mx_of_vneg s a : mx_of s (vneg a) = - mx_of s a.
Proof. by apply/matrixP => i j; rewrite !mxE nth_vneg. Qed.

(* ---- bilinearity ---------------------------------------------------------- *)
Theorem vtb_core_addl s a a' b :
  size a = (s * s)%N -> size a' = (s * s)%N ->
  vtb_core s (vadd a a') b = vadd (vtb_core s a b) (vtb_core s a' b).
Proof.
  move=> sa sa'; apply: (@mx_of_inj _ s); rewrite ?size_vadd ?size_vtb_core //.
  rewrite mx_of_vadd ?size_vtb_core // !vtb_core_mx ?size_vadd //.
  by rewrite mx_of_vadd ?sa ?sa' // mulmxDl.
Qed.
Theorem vtb_core_addr s a b b' :
  size a = (s * s)%N -> size b = size b' ->
  vtb_core s a (vadd b b') = vadd (vtb_core s a b) (vtb_core s a b').
Proof.
  move=> sa sb; apply: (@mx_of_inj _ s); rewrite ?size_vadd ?size_vtb_core //.
  rewrite mx_of_vadd ?size_vtb_core // !vtb_core_mx //.
  by rewrite mx_of_vadd // linearD /= mulmxDr.
Qed.
Theorem vtb_core_scalel s k a b :
  size a = (s * s)%N ->
  vtb_core s (vscale k a) b = vscale k (vtb_core s a b).
Proof.
  move=> sa; apply: (@mx_of_inj _ s); rewrite ?size_vscale ?size_vtb_core //.
  by rewrite mx_of_vscale !vtb_core_mx ?size_vscale // mx_of_vscale scalemxAl.
Qed.
Theorem vtb_core_scaler s k a b :
  size a = (s * s)%N ->
  vtb_core s a (vscale k b) = vscale k (vtb_core s a b).
Proof.
  move=> sa; apply: (@mx_of_inj _ s); rewrite ?size_vscale ?size_vtb_core //.
  by rewrite mx_of_vscale !vtb_core_mx // mx_of_vscale linearZ /= scalemxAr.
Qed.

Theorem tvtb_core_addl s a a' b :
  size a = (s * s)%N -> size a' = (s * s)%N ->
  tvtb_core s (vadd a a') b = vadd (tvtb_core s a b) (tvtb_core s a' b).
Proof.
  move=> sa sa'; apply: (@mx_of_inj _ s); rewrite ?size_vadd ?size_tvtb_core //.
  rewrite mx_of_vadd ?size_tvtb_core // !tvtb_core_mx ?size_vadd //.
  by rewrite mx_of_vadd ?sa ?sa' // mulmxDl.
Qed.
Theorem tvtb_core_addr s a b b' :
  size a = (s * s)%N -> size b = size b' ->
  tvtb_core s a (vadd b b') = vadd (tvtb_core s a b) (tvtb_core s a b').
Proof.
  move=> sa sb; apply: (@mx_of_inj _ s); rewrite ?size_vadd ?size_tvtb_core //.
  rewrite mx_of_vadd ?size_tvtb_core // !tvtb_core_mx //.
  by rewrite mx_of_vadd // mulmxDr.
Qed.
Theorem tvtb_core_scalel s k a b :
  size a = (s * s)%N ->
  tvtb_core s (vscale k a) b = vscale k (tvtb_core s a b).
Proof.
  move=> sa; apply: (@mx_of_inj _ s); rewrite ?size_vscale ?size_tvtb_core //.
  by rewrite mx_of_vscale !tvtb_core_mx ?size_vscale // mx_of_vscale scalemxAl.
Qed.
Theorem tvtb_core_scaler s k a b :
  size a = (s * s)%N ->
  tvtb_core s a (vscale k b) = vscale k (tvtb_core s a b).
Proof.
  move=> sa; apply: (@mx_of_inj _ s); rewrite ?size_vscale ?size_tvtb_core //.
  by rewrite mx_of_vscale !tvtb_core_mx // mx_of_vscale scalemxAr.
Qed.

(* TVTB binding is associative (it is the matrix product) *)
Theorem tvtb_core_assoc s a b c :
  size a = (s * s)%N -> size b = (s * s)%N ->
  tvtb_core s (tvtb_core s a b) c = tvtb_core s a (tvtb_core s b c).
Proof.
  move=> sa sb; apply: (@mx_of_inj _ s); rewrite ?size_tvtb_core //.
  rewrite tvtb_core_mx ?size_tvtb_core // tvtb_core_mx // tvtb_core_mx //.
  by rewrite tvtb_core_mx // mulmxA.
Qed.

(* ---- transposition: invert, inversion matrix, swapping matrix ------------ *)
Lemma size_transpose_vec s v : size (vtb_transpose_vec s v) = (s * s)%N.
Proof.
  case: s => [|s]; first by rewrite /vtb_transpose_vec /mtrans /ncols /= .
  by rewrite /vtb_transpose_vec /mtrans ncols_reshape // size_reshape size_flatten_mkmat.
Qed.

Lemma nth_transpose_vec s v i j :
  (i < s)%N -> (j < s)%N -> vnth (vtb_transpose_vec s v) (i * s + j) = vnth v (j * s + i).
Proof.
  move=> li lj.
  have s0 : (0 < s)%N by apply: leq_ltn_trans li.
  rewrite /vtb_transpose_vec /mtrans ncols_reshape // size_reshape nth_flatten_mkmat //.
  by rewrite nth_reshape.
Qed.

Theorem mx_of_transpose s v : mx_of s (vtb_transpose_vec s v) = (mx_of s v)^T.
Proof. by apply/matrixP => i j; rewrite !mxE nth_transpose_vec. Qed.

Theorem transpose_vec_invol s v :
  size v = (s * s)%N -> vtb_transpose_vec s (vtb_transpose_vec s v) = v.
Proof.
  move=> sv; apply: (@mx_of_inj _ s); rewrite ?size_transpose_vec //.
  by rewrite !mx_of_transpose trmxK.
Qed.

Lemma tperm_idx s i j : (i < s)%N -> (j < s)%N -> tperm s (i * s + j) = (j * s + i)%N.
Proof. by move=> li lj; rewrite /tperm idx_mod // idx_div. Qed.

Lemma tperm_lt s r : (r < s * s)%N -> (tperm s r < s * s)%N.
Proof.
  move=> lt.
  have s0 : (0 < s)%N by case: s lt.
  by rewrite /tperm; apply: idx_lt; rewrite ?ltn_mod // ltn_divLR.
Qed.

(* the inversion matrix applied to a vector is the direct inversion *)
Theorem imat_transpose s x :
  size x = (s * s)%N -> matvec (vtb_imat_core R s) x = vtb_transpose_vec s x.
Proof.
  move=> sx; apply: (@mx_of_inj _ s);
    rewrite ?size_matvec ?size_mkmat ?size_transpose_vec //.
  apply/matrixP => i j; rewrite mx_of_transpose !mxE.
  have lq := idx_lt (ltn_ord i) (ltn_ord j).
  rewrite nth_matvec ?size_mkmat // row_mkmat // dot_mkvec tperm_idx //.
  have lt' := idx_lt (ltn_ord j) (ltn_ord i).
  rewrite (bigD1 (Ordinal lt')) //= eqxx mul1r big1 ?addr0 // => q ne.
  rewrite (_ : (nat_of_ord q == (j * s + i)%N) = false) ?mul0r //.
  by apply/negbTE; apply: contra ne => /eqP e; apply/eqP/val_inj.
Qed.

(* matvec of a product of list matrices *)
Lemma matvec_matmul (A B : seq (seq R)) x i :
  (forall k, (k < size B)%N -> size (nth [::] B k) = ncols B) ->
  (i < size A)%N ->
  vnth (matvec (matmul A B) x) i =
  \sum_(k < size B) mnth A i k * vnth (matvec B x) k.
Proof.
  move=> HB li.
  rewrite nth_matvec ?size_mkmat // row_mkmat // dot_mkvec.
  under eq_bigr => j _ do rewrite rsum_ord mulr_suml.
  rewrite exchange_big /=; apply: eq_bigr => k _.
  rewrite nth_matvec // /dot HB // rsum_ord mulr_sumr.
  by apply: eq_bigr => j _; rewrite mulrA.
Qed.

Lemma rows_kron s (B : seq (seq R)) k :
  (k < size (kron_eye s B))%N -> size (nth [::] (kron_eye s B) k) = ncols (kron_eye s B).
Proof.
  rewrite size_mkmat => lk; rewrite row_mkmat // size_mkvec /ncols.
  by rewrite row_mkmat ?size_mkvec //; apply: leq_ltn_trans lk.
Qed.

Lemma nth_imat_matvec s y r :
  (r < s * s)%N -> vnth (matvec (vtb_imat_core R s) y) r = vnth y (tperm s r).
Proof.
  move=> lr.
  rewrite nth_matvec ?size_mkmat // row_mkmat // dot_mkvec.
  have lt' := tperm_lt lr.
  rewrite (bigD1 (Ordinal lt')) //= eqxx mul1r big1 ?addr0 // => q ne.
  rewrite (_ : (nat_of_ord q == tperm s r) = false) ?mul0r //.
  by apply/negbTE; apply: contra ne => /eqP e; apply/eqP/val_inj.
Qed.

(* VTB binding matrix with swapped inputs: P . (kron(I,V) . x) = bind v x *)
Theorem vtb_bmat_swap s v x :
  size v = (s * s)%N -> size x = (s * s)%N ->
  matvec (matmul (vtb_imat_core R s) (kron_eye s (reshape s v))) x = vtb_core s v x.
Proof.
  move=> sv sx.
  apply: (@mx_of_inj _ s); rewrite ?size_matvec ?size_mkmat ?size_vtb_core //.
  apply/matrixP => i j.
  rewrite vtb_core_mx // !mxE.
  have lq := idx_lt (ltn_ord i) (ltn_ord j).
  rewrite (matvec_matmul (B := kron_eye s (reshape s v)) x (@rows_kron s _)) ?size_mkmat //.
  rewrite (eq_bigr (fun k : 'I_(s * s) =>
     (nat_of_ord k == tperm s (i * s + j))%:R * vnth (vtb_core s x v) k)); last first.
    by move=> k _; rewrite mnth_mkmat.
  have lt' := tperm_lt lq.
  rewrite (bigD1 (Ordinal lt')) //= eqxx mul1r big1 ?addr0; last first.
    move=> q ne.
    rewrite (_ : (nat_of_ord q == tperm s (i * s + j)) = false) ?mul0r //.
    by apply/negbTE; apply: contra ne => /eqP e; apply/eqP/val_inj.
  rewrite tperm_idx //.
  have := vtb_core_mx v sx => /matrixP /(_ j i); rewrite !mxE => ->.
  by apply: eq_bigr => k _; rewrite !mxE mulrC.
Qed.

Lemma rows_imat s k :
  (k < size (vtb_imat_core R s))%N ->
  size (nth [::] (vtb_imat_core R s) k) = ncols (vtb_imat_core R s).
Proof.
  rewrite size_mkmat => lk; rewrite row_mkmat // size_mkvec /ncols.
  by rewrite row_mkmat ?size_mkvec //; apply: leq_ltn_trans lk.
Qed.

Lemma ncols_kron s (B : seq (seq R)) : (0 < s)%N -> ncols (kron_eye s B) = (s * s)%N.
Proof. by move=> s0; rewrite /ncols row_mkmat ?size_mkvec // muln_gt0 s0. Qed.

(* TVTB binding matrix with swapped inputs: (P . m^T . P) . x = bind v x *)
Theorem tvtb_bmat_swap s v x :
  size v = (s * s)%N -> size x = (s * s)%N ->
  let m := kron_eye s (mtrans (reshape s v)) in
  matvec (matmul (matmul (vtb_imat_core R s) (mtrans m)) (vtb_imat_core R s)) x
  = tvtb_core s v x.
Proof.
  move=> sv sx m.
  apply: (@mx_of_inj _ s); rewrite ?size_matvec ?size_mkmat ?size_tvtb_core //.
  apply/matrixP => i j.
  rewrite tvtb_core_mx // !mxE.
  have s0 : (0 < s)%N by apply: leq_ltn_trans (ltn_ord i).
  have lq := idx_lt (ltn_ord i) (ltn_ord j).
  have lt' := idx_lt (ltn_ord j) (ltn_ord i).
  rewrite (matvec_matmul (B := vtb_imat_core R s) x (@rows_imat s)) ?size_mkmat //.
  (* entries of P . m^T *)
  have E k : (k < s * s)%N ->
      mnth (matmul (vtb_imat_core R s) (mtrans m)) (i * s + j) k = mnth m k (j * s + i).
    move=> lk.
    have sm : size m = (s * s)%N by rewrite size_mkmat.
    have nc : ncols (mkmat (s * s) (s * s) (fun i0 : nat => (mnth m)^~ i0)) = (s * s)%N.
      by rewrite /ncols row_mkmat ?size_mkvec // muln_gt0 s0.
    rewrite /matmul /mtrans ncols_kron // sm !size_mkmat nc mnth_mkmat //.
    rewrite rsum_ord (bigD1 (Ordinal lt')) //= /vtb_imat_core mnth_mkmat //.
    rewrite tperm_idx // eqxx mul1r mnth_mkmat // big1 ?addr0 // => q ne.
    rewrite mnth_mkmat // tperm_idx //.
    rewrite (_ : (nat_of_ord q == (j * s + i)%N) = false) ?mul0r //.
    by apply/negbTE; apply: contra ne => /eqP e; apply/eqP/val_inj.
  rewrite (eq_bigr (fun k : 'I_(s * s) =>
     mnth m k (j * s + i) * vnth x (tperm s k))); last first.
    by move=> k _; rewrite E // nth_imat_matvec.
  rewrite (sum_mul_ord s s (fun k => mnth m k (j * s + i) * vnth x (tperm s k))).
  rewrite (bigD1 j) //= [X in _ + X]big1 ?addr0; last first.
    move=> a ne; apply: big1 => b _.
    rewrite /m mnth_mkmat ?idx_lt // !idx_div //.
    rewrite (_ : (nat_of_ord a == j) = false) ?mul0r //.
    by apply/negbTE.
  apply: eq_bigr => b _.
  rewrite /m mnth_mkmat ?idx_lt // !idx_div // eqxx !idx_mod //.
  by rewrite mnth_mtrans_reshape // tperm_idx // !mxE.
Qed.

(* API-level statements about get_binding_matrix *)
Theorem vtb_bmat_spec s v sw x :
  size v = (s * s)%N -> size x = (s * s)%N ->
  exists2 M, vtb_bmat v sw = Ok (Scaled M s 1) &
             matvec M x = if sw then vtb_core s v x else vtb_core s x v.
Proof.
  move=> sv sx; rewrite /vtb_bmat sv (proj2 (sub_d_ok _ _) (erefl _)) /=.
  by case: sw; eexists; try reflexivity; exact: vtb_bmat_swap.
Qed.

Theorem tvtb_bmat_spec s v sw x :
  size v = (s * s)%N -> size x = (s * s)%N ->
  exists2 M, tvtb_bmat v sw = Ok (Scaled M s 1) &
             matvec M x = if sw then tvtb_core s v x else tvtb_core s x v.
Proof.
  move=> sv sx; rewrite /tvtb_bmat sv (proj2 (sub_d_ok _ _) (erefl _)) /=.
  by case: sw; eexists; try reflexivity; exact: tvtb_bmat_swap.
Qed.

Theorem vtb_imat_spec s x sd :
  size x = (s * s)%N -> sd <> SLeft ->
  exists2 w, vtb_imat R (s * s) sd = Ok w &
     (matvec (wval w) x = vtb_transpose_vec s x /\ vtb_invert x sd = Ok (Warned (vtb_transpose_vec s x) (wdep w))).
Proof.
  move=> sx; rewrite /vtb_imat /vtb_invert sx (proj2 (sub_d_ok _ _) (erefl _)).
  by case: sd => // _; eexists; try reflexivity; split => //=; exact: imat_transpose.
Qed.

Theorem tvtb_imat_spec s x sd :
  size x = (s * s)%N ->
  exists2 w, tvtb_imat R (s * s) sd = Ok w &
     (matvec (wval w) x = vtb_transpose_vec s x /\ tvtb_invert x sd = Ok (Warned (vtb_transpose_vec s x) false)).
Proof.
  move=> sx; rewrite /tvtb_imat /tvtb_invert sx (proj2 (sub_d_ok _ _) (erefl _)).
  by eexists; try reflexivity; split => //=; exact: imat_transpose.
Qed.

End VtbLaws.

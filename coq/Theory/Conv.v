(* Circular convolution: the HRR binding of Model/Hrr.v is commutative,
   associative, bilinear, has e0 as unit, and agrees with its binding and
   inversion matrices - for every dimension and every commutative ring. *)
From mathcomp Require Import all_ssreflect all_algebra.
From NSpa Require Import Model.Vec Model.Hrr Theory.SeqSum.
Set Implicit Arguments.
Unset Strict Implicit.
Unset Printing Implicit Defensive.
Import GRing.Theory.
Local Open Scope ring_scope.

(* ---- convolution of functions on the cyclic group Z_d ------------------- *)
Section ConvFun.
Variable R : comRingType.
Variable p : nat.
Local Notation d := p.+1.
Implicit Types f g h : 'I_d -> R.

Definition conv f g : 'I_d -> R := fun i => \sum_j f j * g (i - j).

Lemma conv_comm f g i : conv f g i = conv g f i.
Proof.
  rewrite /conv (reindex_inj (h := fun j => i - j)) /=; last first.
    by move=> x y /addrI /oppr_inj.
  apply: eq_bigr => j _.
  by rewrite opprB addrCA subrr addr0 mulrC.
Qed.

Lemma conv_assoc f g h i : conv (conv f g) h i = conv f (conv g h) i.
Proof.
  rewrite /conv.
  under eq_bigr => j _ do rewrite mulr_suml.
  rewrite exchange_big /=; apply: eq_bigr => k _.
  rewrite mulr_sumr (reindex_inj (h := fun m => m + k)) /=; last exact: addIr.
  apply: eq_bigr => m _.
  by rewrite addrK -mulrA opprD addrA addrAC.
Qed.

Lemma conv_addl f f' g i : conv (fun j => f j + f' j) g i = conv f g i + conv f' g i.
Proof. by rewrite /conv -big_split /=; apply: eq_bigr => j _; rewrite mulrDl. Qed.

Lemma conv_scalel c f g i : conv (fun j => c * f j) g i = c * conv f g i.
Proof. by rewrite /conv mulr_sumr; apply: eq_bigr => j _; rewrite mulrA. Qed.

Lemma conv_unit f i : conv f (fun j => (j == 0)%:R) i = f i.
Proof.
  rewrite /conv (bigD1 i) //= subrr eqxx mulr1 big1 ?addr0 // => j ne.
  by rewrite subr_eq0 eq_sym (negbTE ne) mulr0.
Qed.

(* characters: sum_i w^i * (f * g) i for w with w^d = 1; only w = 1 is needed
   at this level (DC component), the alternating character is in SignLaws *)
Lemma conv_sum f g : \sum_i conv f g i = (\sum_i f i) * (\sum_i g i).
Proof.
  rewrite /conv exchange_big /= mulr_suml; apply: eq_bigr => j _.
  rewrite -mulr_sumr; congr (_ * _).
  rewrite (reindex_inj (h := fun i => i + j)) /=; last exact: addIr.
  by apply: eq_bigr => i _; rewrite addrK.
Qed.

End ConvFun.

(* ---- bridge: sequences of length d = p.+1 ------------------------------- *)
Section Bridge.
Variable R : comRingType.
Implicit Types a b c v x : seq R.

Definition ifun (p : nat) a : 'I_p.+1 -> R := fun i => vnth a i.
Arguments ifun p a : clear implicits.


Lemma subm_ord p (i j : 'I_p.+1) : subm p.+1 i j = (i - j)%R :> nat.
Proof.
  rewrite /subm /= (modn_small (ltn_ord j)) modnDmr.
  by [].
Qed.

Lemma subm_lt d i j : (0 < d)%N -> (subm d i j < d)%N.
Proof. by move=> d0; rewrite /subm ltn_mod. Qed.

Lemma nth_hrr_bind p a b (i : 'I_p.+1) :
  size a = p.+1 ->
  vnth (hrr_bind_core a b) i = conv (ifun p a) (ifun p b) i.
Proof.
  move=> sa; rewrite /hrr_bind_core sa nth_mkvec // rsum_ord /conv.
  by apply: eq_bigr => j _; rewrite subm_ord.
Qed.

Lemma size_hrr_bind a b : size (hrr_bind_core a b) = size a.
Proof. by rewrite size_mkvec. Qed.

Lemma size_cases a : (a = [::]) + {p | size a = p.+1}.
Proof. by case: a => [|x s]; [left | right; exists (size s)]. Qed.

(* proof pattern: two vectors of size p.+1 agree if they agree at ordinals *)
Lemma eq_vec_ord p a b :
  size a = p.+1 -> size b = p.+1 ->
  (forall i : 'I_p.+1, vnth a i = vnth b i) -> a = b.
Proof.
  move=> sa sb H; apply: eq_vec; first by rewrite sa sb.
  by rewrite sa => i lt; exact: (H (Ordinal lt)).
Qed.

Theorem hrr_bind_comm a b : size a = size b -> hrr_bind_core a b = hrr_bind_core b a.
Proof.
  case: (size_cases a) => [->|[p sa]] sb.
    by move/esym/eqP: sb; rewrite size_eq0 => /eqP ->.
  have sb' : size b = p.+1 by rewrite -sb.
  apply: (@eq_vec_ord p); rewrite ?size_hrr_bind // => i.
  by rewrite !nth_hrr_bind // conv_comm.
Qed.

Lemma ifun_bind p a b :
  size a = p.+1 -> ifun p (hrr_bind_core a b) =1 conv (ifun p a) (ifun p b).
Proof. by move=> sa i; rewrite /ifun nth_hrr_bind. Qed.

Lemma eq_conv p (f f' g g' : 'I_p.+1 -> R) :
  f =1 f' -> g =1 g' -> conv f g =1 conv f' g'.
Proof. by move=> ef eg i; rewrite /conv; apply: eq_bigr => j _; rewrite ef eg. Qed.

Theorem hrr_bind_assoc a b c :
  size a = size b -> size b = size c ->
  hrr_bind_core (hrr_bind_core a b) c = hrr_bind_core a (hrr_bind_core b c).
Proof.
  case: (size_cases a) => [->|[p sa]] sb sc; first by rewrite /hrr_bind_core /=.
  have sb' : size b = p.+1 by rewrite -sb.
  apply: (@eq_vec_ord p); rewrite ?size_hrr_bind // => i.
  rewrite nth_hrr_bind ?size_hrr_bind // nth_hrr_bind //.
  rewrite (eq_conv (ifun_bind b sa) (frefl _)).
  rewrite (eq_conv (frefl _) (ifun_bind c sb')).
  exact: conv_assoc.
Qed.

Theorem hrr_bind_addl a a' b :
  size a = size a' ->
  hrr_bind_core (vadd a a') b = vadd (hrr_bind_core a b) (hrr_bind_core a' b).
Proof.
  case: (size_cases a) => [->|[p sa]] sa'; first by rewrite /hrr_bind_core /vadd /=.
  have sa2 : size a' = p.+1 by rewrite -sa'.
  apply: (@eq_vec_ord p); rewrite ?size_hrr_bind ?size_vadd ?size_hrr_bind // => i.
  rewrite nth_hrr_bind ?size_vadd // nth_vadd ?size_hrr_bind ?sa ?sa2 //.
  rewrite !nth_hrr_bind // -conv_addl; apply: eq_conv => // j.
  by rewrite /ifun nth_vadd // sa.
Qed.

Theorem hrr_bind_scalel k a b :
  hrr_bind_core (vscale k a) b = vscale k (hrr_bind_core a b).
Proof.
  case: (size_cases a) => [->|[p sa]]; first by rewrite /hrr_bind_core /vscale /=.
  apply: (@eq_vec_ord p); rewrite ?size_hrr_bind ?size_vscale ?size_hrr_bind // => i.
  rewrite nth_hrr_bind ?size_vscale // nth_vscale nth_hrr_bind // -conv_scalel.
  by apply: eq_conv => // j; rewrite /ifun nth_vscale.
Qed.

(* linearity in the right operand follows from commutativity *)
Theorem hrr_bind_addr a b b' :
  size a = size b -> size b = size b' ->
  hrr_bind_core a (vadd b b') = vadd (hrr_bind_core a b) (hrr_bind_core a b').
Proof.
  move=> sab sbb'.
  rewrite hrr_bind_comm ?size_vadd // hrr_bind_addl //.
  by rewrite (hrr_bind_comm (a := b)) // (hrr_bind_comm (a := b')) // -sbb'.
Qed.

Theorem hrr_bind_scaler k a b :
  size a = size b ->
  hrr_bind_core a (vscale k b) = vscale k (hrr_bind_core a b).
Proof.
  move=> sab.
  by rewrite hrr_bind_comm ?size_vscale // hrr_bind_scalel (hrr_bind_comm (a := b)).
Qed.

(* identity element *)
Theorem hrr_bind_identity a :
  hrr_bind_core a (hrr_identity R (size a)) = a.
Proof.
  case: (size_cases a) => [->|[p sa]] //.
  apply: (@eq_vec_ord p); rewrite ?size_hrr_bind // => i.
  rewrite nth_hrr_bind // -[RHS](conv_unit (ifun p a)).
  apply: eq_conv => // j.
  by rewrite /ifun /hrr_identity sa nth_vbasis // -val_eqE.
Qed.

(* the binding matrix, both swap_inputs values, is the direct operation *)
(* the binding matrix, both swap_inputs values, is the direct operation *)
Theorem hrr_bmat_bind v x sw :
  size x = size v -> matvec (hrr_bmat v sw) x = hrr_bind_core x v.
Proof.
  move=> sx.
  apply: eq_vec; first by rewrite size_matvec size_mkmat size_hrr_bind.
  rewrite size_matvec size_mkmat => i lt.
  rewrite nth_matvec ?size_mkmat // row_mkmat // dot_mkvec.
  rewrite /hrr_bind_core sx nth_mkvec // rsum_ord.
  by apply: eq_bigr => j _; rewrite mulrC.
Qed.

Theorem hrr_bmat_bind_swapped v x :
  size x = size v -> matvec (hrr_bmat v true) x = hrr_bind_core v x.
Proof. by move=> sx; rewrite hrr_bmat_bind // hrr_bind_comm. Qed.

(* the inversion matrix is the direct inversion *)
Theorem hrr_imat_invert v : matvec (hrr_imat R (size v)) v = hrr_invert v.
Proof.
  apply: eq_vec; first by rewrite size_matvec size_mkmat size_mkvec.
  rewrite size_matvec size_mkmat => i lt.
  rewrite nth_matvec ?size_mkmat // row_mkmat // dot_mkvec /hrr_invert nth_mkvec //.
  have lt' : (subm (size v) 0 i < size v)%N by apply: subm_lt; case: (size v) lt.
  rewrite (bigD1 (Ordinal lt')) //= eqxx mul1r big1 ?addr0 // => j ne.
  have -> : (nat_of_ord j == subm (size v) 0 i) = false.
    by apply/negbTE; apply: contra ne => /eqP e; apply/eqP/val_inj.
  by rewrite mul0r.
Qed.

(* inverting twice returns the vector *)
Lemma subm0_invol d i : (i < d)%N -> subm d 0 (subm d 0 i) = i.
Proof.
  move=> lt; rewrite /subm !add0n.
  rewrite (modn_small lt) modn_mod.
  case: i lt => [|i] lt.
    by rewrite subn0 modnn subn0 modnn.
  rewrite (@modn_small (d - i.+1)); last by rewrite ltn_subrL; case: d lt.
  by rewrite subKn ?modn_small // ltnW.
Qed.

Theorem hrr_invert_invol v : hrr_invert (hrr_invert v) = v.
Proof.
  apply: eq_vec; first by rewrite !size_mkvec.
  rewrite !size_mkvec => i lt.
  rewrite /hrr_invert size_mkvec nth_mkvec // nth_mkvec; last first.
    by apply: subm_lt; case: (size v) lt.
  by rewrite subm0_invol.
Qed.

(* rejected operands *)
Theorem hrr_bind_unequal a b : size a != size b -> hrr_bind a b = Err ValueError.
Proof. by rewrite /hrr_bind => /negbTE ->. Qed.
Theorem hrr_bind_equal a b : size a = size b -> hrr_bind a b = Ok (hrr_bind_core a b).
Proof. by rewrite /hrr_bind => ->; rewrite eqxx. Qed.

End Bridge.
Arguments ifun {R} p a _.

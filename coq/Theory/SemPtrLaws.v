(* SemanticPointer operators are the algebra lifted to immutable values
   (C07) and never combine operands of different vocabularies / algebras
   silently (C03). *)
From mathcomp Require Import all_ssreflect all_algebra.
From NSpa Require Import Model.Types Model.Vec Model.Hrr Model.Vtb Model.Power Model.Algebra
  Model.SemPtr Theory.SeqSum Theory.TypesLaws.
Set Implicit Arguments.
Unset Strict Implicit.
Unset Printing Implicit Defensive.
Import GRing.Theory.
Local Open Scope ring_scope.

Section Laws.
Variable R : comRingType.
Variable dim : nat -> nat.
Implicit Types (p q a b self other : sp R).

(* ---- vocabulary inference (shared with C03) ------------------------------ *)
Lemma sp_infer_cases a b :
  sp_infer dim a b =
  match spvoc a, spvoc b with
  | None, None => Ok None
  | Some i, None | None, Some i => Ok (Some i)
  | Some i, Some j => if i == j then Ok (Some i) else Err SpaTypeError
  end.
Proof.
  have nat_eqbE x y : PeanoNat.Nat.eqb x y = (x == y).
    by apply/idP/eqP => /PeanoNat.Nat.eqb_eq.
  rewrite /sp_infer /sp_type.
  case: (spvoc a) => [i|]; case: (spvoc b) => [j|]; cbn; rewrite ?nat_eqbE ?eqxx //=.
  rewrite [j == i]eq_sym -[eqn i j]/(i == j).
  by case: (i == j).
Qed.


(* ---- C03: the gate rejects exactly the incompatible pairs ----------------- *)
Definition compatible a b : bool :=
  match spvoc a, spvoc b with
  | Some i, Some j => i == j
  | None, None => alg_eqb (spalg a) (spalg b)
  | _, _ => true
  end.

Definition gate a b : result (option nat) :=
  rbind (sp_infer dim a b) (fun voc => rmap (fun _ => voc) (sp_algebra_gate voc a b)).

Theorem gate_ok_iff a b : (exists voc, gate a b = Ok voc) <-> compatible a b.
Proof.
  rewrite /gate sp_infer_cases /compatible /sp_algebra_gate.
  case: (spvoc a) => [i|]; case: (spvoc b) => [j|] /=.
  - case: (i == j) => /=; split=> //; [by exists (Some i) | by case].
  - by split=> // _; exists (Some i).
  - by split=> // _; exists (Some j).
  - case: (alg_eqb _ _) => /=; split=> //; [by exists None | by case].
Qed.

Theorem gate_error_class a b e :
  gate a b = Err e -> e = SpaTypeError \/ e = TypeError.
Proof.
  rewrite /gate sp_infer_cases /sp_algebra_gate.
  case: (spvoc a) => [i|]; case: (spvoc b) => [j|] //=.
  - by case: (i == j) => //= -[<-]; left.
  - by case: (alg_eqb _ _) => //= -[<-]; right.
Qed.

(* the result carries the operands' vocabulary; a vocabulary-less operand
   adopts the other operand's vocabulary *)
Theorem gate_vocab a b voc :
  gate a b = Ok voc ->
  voc = if spvoc a is Some i then Some i else spvoc b.
Proof.
  rewrite /gate sp_infer_cases /sp_algebra_gate.
  case: (spvoc a) => [i|]; case: (spvoc b) => [j|] //=; try by case.
  - by case: (i == j) => //= -[<-].
  - by case: (alg_eqb _ _) => //= -[<-].
Qed.

(* every binary pointer operation goes through the gate first: no value on
   the error path, and the result's vocabulary / algebra are the operands' *)
Theorem add_gated self other swap :
  sp_add_ptr dim self other swap =
  rbind (gate self other) (fun voc =>
    let (x, y) := if swap then (spv other, spv self) else (spv self, spv other) in
    if size x != size y then Err ValueError else Ok (SP (vadd x y) voc (spalg self))).
Proof.
  rewrite /sp_add_ptr /gate; case: (sp_infer dim self other) => //= voc.
  by case: (sp_algebra_gate voc self other) => //= -[].
Qed.

Theorem bind_gated self other swap :
  sp_bind_ptr dim self other swap =
  rbind (gate self other) (fun voc =>
    let (x, y) := if swap then (spv other, spv self) else (spv self, spv other) in
    rmap (fun r => (r, voc, spalg self)) (alg_bind (spalg self) x y)).
Proof.
  rewrite /sp_bind_ptr /gate; case: (sp_infer dim self other) => //= voc.
  by case: (sp_algebra_gate voc self other) => //= -[].
Qed.

Lemma gate_of_parts a b voc :
  sp_infer dim a b = Ok voc -> sp_algebra_gate voc a b = Ok tt -> gate a b = Ok voc.
Proof. by rewrite /gate => -> /= ->. Qed.

Theorem dot_gated a b r : sp_dot dim a b = Ok r -> exists voc, gate a b = Ok voc.
Proof.
  rewrite /sp_dot; case E: (sp_infer dim a b) => [voc|] //=.
  by case G: (sp_algebra_gate voc a b) => [[]|] //= _; exists voc; exact: gate_of_parts.
Qed.
Theorem compare_gated a b r : sp_compare dim a b = Ok r -> exists voc, gate a b = Ok voc.
Proof.
  rewrite /sp_compare; case E: (sp_infer dim a b) => [voc|] //=.
  by case G: (sp_algebra_gate voc a b) => [[]|] //= _; exists voc; exact: gate_of_parts.
Qed.
Theorem mse_gated a b r : sp_mse dim a b = Ok r -> exists voc, gate a b = Ok voc.
Proof.
  rewrite /sp_mse; case E: (sp_infer dim a b) => [voc|] //=.
  by case G: (sp_algebra_gate voc a b) => [[]|] //= _; exists voc; exact: gate_of_parts.
Qed.

(* bare arrays are rejected by all four arithmetic operators *)
Theorem arrays_rejected self sw :
  [/\ sp_add dim self OArr = BErr TypeError, sp_sub dim self OArr = BErr TypeError,
      sp_mul dim self OArr sw = BErr TypeError & sp_div self OArr = BErr TypeError].
Proof. by []. Qed.

(* ---- C07: operand order, elementary formulas ------------------------------ *)
(* a * b binds a on the left whichever method handles it: the reflected
   method (swap) receives the operands exchanged and exchanges them back *)
Theorem mul_operand_order a b voc r :
  gate a b = Ok voc ->
  alg_bind (spalg a) (spv a) (spv b) = Ok r ->
  sp_mul dim a (OPtr b) false = BBound r voc (spalg a).
Proof.
  by move=> g e; rewrite /sp_mul bind_gated g /= e.
Qed.

Theorem rmul_operand_order self other voc r :
  gate self other = Ok voc ->
  alg_bind (spalg self) (spv other) (spv self) = Ok r ->
  sp_mul dim self (OPtr other) true = BBound r voc (spalg self).
Proof.
  by move=> g e; rewrite /sp_mul bind_gated g /= e.
Qed.

(* a - b = a + (-b), element-wise a_i - b_i *)
Theorem sub_elementwise a b voc :
  gate a b = Ok voc -> size (spv a) = size (spv b) ->
  exists2 p, sp_sub dim a (OPtr b) = BPtr p &
    [/\ spvoc p = voc, spalg p = spalg a &
        forall i, vnth (spv p) i = vnth (spv a) i - vnth (spv b) i].
Proof.
  move=> g sz.
  have g' : gate a (sp_neg b) = Ok voc by move: g; rewrite /gate /sp_infer /sp_algebra_gate.
  rewrite /sp_sub add_gated g' /= size_vneg sz eqxx /=.
  eexists; first by reflexivity.
  by split=> // i; rewrite nth_vadd ?size_vneg // nth_vneg.
Qed.

Theorem add_elementwise a b voc swap :
  gate a b = Ok voc -> size (spv a) = size (spv b) ->
  exists2 p, sp_add_ptr dim a b swap = Ok p &
    [/\ spvoc p = voc, spalg p = spalg a &
        forall i, vnth (spv p) i = vnth (spv a) i + vnth (spv b) i].
Proof.
  move=> g sz; rewrite add_gated g /=.
  case: swap; rewrite ?sz eqxx /=; eexists; try reflexivity; split=> // i.
    by rewrite nth_vadd // addrC.
  by rewrite nth_vadd.
Qed.

(* scaling by a number: the same on both sides, element-wise c * v_i *)
Theorem scale_both_sides self c sw :
  exists2 p, sp_mul dim self (ONum c) sw = BPtr p &
    [/\ spvoc p = spvoc self, spalg p = spalg self &
        forall i, vnth (spv p) i = c * vnth (spv self) i].
Proof.
  by eexists; first reflexivity; split=> // i; rewrite nth_vscale.
Qed.

Theorem div_zero self : sp_div self (ONum 0) = BErr ZeroDivisionError.
Proof. by rewrite /sp_div eqxx. Qed.

Theorem div_nonzero self c :
  c != 0 -> sp_div self (ONum c) = BDiv (spv self) c (spvoc self) (spalg self).
Proof. by rewrite /sp_div => /negbTE ->. Qed.

Theorem neg_elementwise p i : vnth (spv (sp_neg p)) i = - vnth (spv p) i.
Proof. by rewrite nth_vneg. Qed.

(* compare with a zero vector gives 0; otherwise <a,b> / sqrt(|a|^2 |b|^2) *)
Lemma gate_parts a b voc :
  gate a b = Ok voc -> sp_infer dim a b = Ok voc /\ sp_algebra_gate voc a b = Ok tt.
Proof.
  rewrite /gate; case: (sp_infer dim a b) => //= v.
  by case E: (sp_algebra_gate v a b) => [[]|] //= -[<-].
Qed.

Theorem compare_zero a b voc :
  gate a b = Ok voc -> size (spv a) = size (spv b) ->
  sq_norm (spv a) * sq_norm (spv b) = 0 -> sp_compare dim a b = Ok (0, 1).
Proof.
  by move=> /gate_parts [g h] sz z; rewrite /sp_compare g /= h /= sz eqxx /= z eqxx.
Qed.

Theorem compare_formula a b voc :
  gate a b = Ok voc -> size (spv a) = size (spv b) ->
  sq_norm (spv a) * sq_norm (spv b) != 0 ->
  sp_compare dim a b = Ok (dot (spv a) (spv b), sq_norm (spv a) * sq_norm (spv b)).
Proof.
  by move=> /gate_parts [g h] sz /negbTE z; rewrite /sp_compare g /= h /= sz eqxx /= z.
Qed.

(* the zero vector normalises to itself *)
Theorem normalized_zero p : sq_norm (spv p) = 0 -> sp_normalized p = (spv p, 1).
Proof. by rewrite /sp_normalized => ->; rewrite eqxx. Qed.
Theorem normalized_nonzero p :
  sq_norm (spv p) != 0 -> sp_normalized p = (spv p, sq_norm (spv p)).
Proof. by rewrite /sp_normalized => /negbTE ->. Qed.

Theorem mse_formula a b voc :
  gate a b = Ok voc -> size (spv a) = size (spv b) ->
  sp_mse dim a b = Ok (sq_norm (vsub (spv a) (spv b)), size (spv a)).
Proof. by move=> /gate_parts [g h] sz; rewrite /sp_mse g /= h /= sz eqxx. Qed.

(* inverses use the pointer's own algebra and keep its vocabulary *)
Theorem invert_own_algebra p sd w :
  sp_invert p sd = Ok w ->
  exists2 u, alg_invert (spalg p) (spv p) sd = Ok u &
    wval w = SP (wval u) (spvoc p) (spalg p).
Proof.
  rewrite /sp_invert; case: (alg_invert _ _ _) => //= u [<-].
  by exists u.
Qed.

End Laws.

(* Associative memories (Model/AssocMem.v): the two transforms pair every key
   with its own output; value with identity and ideal threshold selection;
   default-output gate; mapping normalisation. *)
From mathcomp Require Import all_ssreflect all_algebra.
From NSpa Require Import Model.Vec Model.AssocMem Theory.SeqSum.
Set Implicit Arguments.
Unset Strict Implicit.
Unset Printing Implicit Defensive.
Import GRing.Theory Num.Theory Order.TTheory.
Local Open Scope ring_scope.

Section Laws.
Variable R : realDomainType.
Implicit Types (x k o : seq R) (pairs : seq (seq R * seq R)).

Definition outs_ok d pairs : bool := all (fun p => size p.2 == d) pairs.

Lemma utilities_cons p pairs x : utilities (p :: pairs) x = dot p.1 x :: utilities pairs x.
Proof. by []. Qed.

(* utilities are the similarities of the input to each key, in mapping order *)
Theorem utilities_are_similarities pairs x i :
  (i < size pairs)%N -> vnth (utilities pairs x) i = dot (nth ([::], [::]) pairs i).1 x.
Proof.
  move=> lt; rewrite /utilities nth_matvec ?size_map //.
  by rewrite /input_transform (nth_map ([::], [::])).
Qed.

Lemma memory_pointwise_cons (f : R -> R) d p pairs x :
  memory (map f) d (p :: pairs) x
  = vadd (vscale (f (dot p.1 x)) p.2) (memory (map f) d pairs x).
Proof. by []. Qed.

Lemma size_memory (f : R -> R) d pairs x : outs_ok d pairs -> size (memory (map f) d pairs x) = d.
Proof.
  elim: pairs => [|p pairs IH] /=; first by rewrite /memory /= size_vzero.
  by case/andP => /eqP sp ok; rewrite memory_pointwise_cons size_vadd size_vscale.
Qed.

(* value of the memory whose selection units apply f to each utility *)
Theorem memory_pointwise (f : R -> R) d pairs x j :
  outs_ok d pairs ->
  vnth (memory (map f) d pairs x) j = \sum_(p <- pairs) f (dot p.1 x) * vnth p.2 j.
Proof.
  elim: pairs => [|p pairs IH] /=.
    by rewrite big_nil /memory /= nth_vzero.
  case/andP => /eqP sp ok; rewrite memory_pointwise_cons big_cons.
  by rewrite nth_vadd ?size_vscale ?size_memory // nth_vscale IH.
Qed.

Lemma sel_identityE (u : seq R) : sel_identity u = map id u.
Proof. by rewrite map_id. Qed.

(* (1) ideal linear selection: sum of the paired outputs weighted by the similarity to each key *)
Theorem memory_linear d pairs x j :
  outs_ok d pairs ->
  vnth (memory (@sel_identity R) d pairs x) j = \sum_(p <- pairs) dot p.1 x * vnth p.2 j.
Proof.
  move=> ok.
  have -> : memory (@sel_identity R) d pairs x = memory (map id) d pairs x.
    by rewrite /memory sel_identityE.
  exact: memory_pointwise.
Qed.

(* ... in particular the pairing does not depend on the order of the mapping *)
Theorem memory_order_independent d pairs pairs' x :
  outs_ok d pairs -> perm_eq pairs pairs' ->
  memory (@sel_identity R) d pairs x = memory (@sel_identity R) d pairs' x.
Proof.
  move=> ok pe.
  have ok' : outs_ok d pairs' by rewrite /outs_ok -(perm_all _ pe).
  have sz ps : outs_ok d ps -> size (memory (@sel_identity R) d ps x) = d.
    by move=> o; rewrite /memory sel_identityE; exact: size_memory.
  apply: eq_vec; first by rewrite !sz.
  by move=> j _; rewrite !memory_linear //; exact: perm_big.
Qed.

(* the network's route np.dot(V.T, s) computes the same weighted sum *)
Theorem output_transform_pairs_outputs (f : R -> R) d pairs x :
  outs_ok d pairs -> (0 < size pairs)%N ->
  memory_net (map f) pairs x = memory (map f) d pairs x.
Proof.
  move=> ok pos.
  have nc : ncols [seq p.2 | p <- pairs] = d.
    by case: pairs ok pos => [|p ps] //= /andP [/eqP].
  apply: eq_vec; first by rewrite size_matvec size_mkmat nc size_memory.
  rewrite size_matvec size_mkmat nc => j lt.
  rewrite memory_pointwise // /memory_net /output_transform /mtrans nc.
  rewrite nth_matvec ?size_mkmat // row_mkmat // dot_mkvec size_map.
  rewrite (big_nth ([::], [::])) big_mkord; apply: eq_bigr => i _.
  rewrite /vnth (nth_map 0) ?size_map ?size_matvec ?size_map //.
  rewrite -/(vnth (utilities pairs x) i) utilities_are_similarities //.
  by rewrite /mnth (nth_map ([::], [::])) // mulrC.
Qed.

(* (2) ideal threshold units *)
Definition thr (theta : R) (u : R) : R := if theta < u then u else 0.

Lemma sel_thresholdE theta (u : seq R) : sel_threshold theta u = map (thr theta) u.
Proof. by []. Qed.

(* every similarity at or below the threshold: nothing is emitted *)
Theorem below_threshold_yields_nothing theta d pairs x :
  outs_ok d pairs -> all (fun p => dot p.1 x <= theta) pairs ->
  memory (sel_threshold theta) d pairs x = vzero R d.
Proof.
  move=> ok below.
  apply: eq_vec; first by rewrite /memory sel_thresholdE size_memory // size_vzero.
  move=> j _; rewrite /memory sel_thresholdE memory_pointwise // nth_vzero.
  rewrite big_seq big1 // => p pin.
  by rewrite /thr ltNge (allP below _ pin) /= mul0r.
Qed.

(* one key above the threshold, all others at or below: its own output alone *)
Theorem clean_key_yields_its_output theta d l1 k o l2 x :
  outs_ok d (l1 ++ (k, o) :: l2) ->
  theta < dot k x ->
  all (fun p => dot p.1 x <= theta) l1 -> all (fun p => dot p.1 x <= theta) l2 ->
  memory (sel_threshold theta) d (l1 ++ (k, o) :: l2) x = vscale (dot k x) o.
Proof.
  move=> ok above b1 b2.
  have so : size o = d.
    by move: ok; rewrite /outs_ok all_cat /= => /and3P [_ /eqP].
  apply: eq_vec; first by rewrite /memory sel_thresholdE size_memory // size_vscale.
  move=> j _; rewrite /memory sel_thresholdE memory_pointwise // nth_vscale.
  rewrite big_cat big_cons /=.
  have -> : thr theta (dot k x) = dot k x by rewrite /thr above.
  rewrite big_seq big1 ?add0r; last first.
    by move=> p pin; rewrite /thr ltNge (allP b1 _ pin) /= mul0r.
  rewrite [X in _ + X]big_seq big1 ?addr0 // => p pin.
  by rewrite /thr ltNge (allP b2 _ pin) /= mul0r.
Qed.

(* (3) default output *)
Theorem default_present_when_nothing_active mp mq (s : seq R) :
  0 < mp -> all (fun a => a == 0) s -> default_active mp mq s.
Proof.
  move=> pos z; rewrite /default_active /gate_input_times.
  have -> : sumv s = 0.
    rewrite /sumv rsum_ord big1 // => i _.
    have lt : (i < size s)%N by [].
    by move/all_nthP: z => /(_ 0 i lt) /eqP.
  by rewrite mulr0 subr0.
Qed.

Theorem default_absent_when_a_key_is_active mp mq (s : seq R) i :
  0 <= mq -> all (fun a => 0 <= a) s -> (i < size s)%N -> mp <= mq * vnth s i ->
  ~~ default_active mp mq s.
Proof.
  move=> mqpos nonneg lt big; rewrite /default_active /gate_input_times -leNgt subr_le0.
  apply: (le_trans big); apply: ler_wpmul2l => //.
  rewrite /sumv rsum_ord (bigD1 (Ordinal lt)) //= ler_addl.
  apply: sumr_ge0 => j _.
  by move/all_nthP: nonneg => /(_ 0 j (ltn_ord j)).
Qed.

End Laws.

(* (4) mapping normalisation *)
Theorem missing_mapping_rejected b n :
  normalise b n MNone = Err (if b then ValidationError else TypeError).
Proof. by case: b. Qed.
Theorem other_string_rejected b n : normalise b n MOtherStr = Err ValidationError.
Proof. by []. Qed.
Theorem empty_mappings_rejected b n :
  normalise b n (MDict [::]) = Err ValidationError /\ normalise b n (MSeq [::]) = Err ValidationError /\
  normalise b 0 MByKey = Err ValidationError.
Proof. by []. Qed.
Theorem dict_mapping_keeps_its_pairs b n p ps : normalise b n (MDict (p :: ps)) = Ok (p :: ps).
Proof. by []. Qed.
Theorem key_sequence_is_auto_associative b n k ks :
  normalise b n (MSeq (k :: ks)) = Ok [seq (i, i) | i <- first_occurrences (k :: ks)].
Proof. by []. Qed.

(* a key sequence stores every key once, however often it is listed *)
Theorem key_sequence_has_no_duplicates (ks : seq nat) : uniq (first_occurrences ks).
Proof. by rewrite /first_occurrences rev_uniq undup_uniq. Qed.

Theorem key_sequence_keeps_every_key (ks : seq nat) k : (k \in first_occurrences ks) = (k \in ks).
Proof. by rewrite /first_occurrences mem_rev mem_undup mem_rev. Qed.
Theorem by_key_pairs_every_key_with_itself b n :
  (0 < n)%N -> normalise b n MByKey = Ok [seq (i, i) | i <- iota 0 n].
Proof. by case: n. Qed.

(* The CircularConvolution network of nengo_spa (networks/circularconvolution.py)
   computes circular convolution for EVERY dimensionality d.

   The network multiplies, per half-spectrum index k <= d/2, the real and
   imaginary parts of the two inputs' DFT coefficients (transform_in: rows
   Re, Im, Re, Im for A and Re, Im, Im, Re for B) and combines the four products
   with the rows [Re r, -Re r, -Im r, -Im r] of r = wt(k) * idft[k]
   (transform_out; wt = 1 for k = 0 and 2k = d, else 2).  The rows that
   remove_imag_rows deletes multiply products that are identically zero.

   Proved over the complex numbers R[i] of any real closed field R, for any
   w with w^d = 1, |w| = 1 and orthogonal characters (w = exp(-2 pi i / d)). *)
From mathcomp Require Import all_ssreflect all_algebra.
From mathcomp Require Import complex.
From NSpa Require Import Model.Vec Model.Hrr Theory.SeqSum Theory.Conv Theory.Fourier.
Set Implicit Arguments.
Unset Strict Implicit.
Unset Printing Implicit Defensive.
Import GRing.Theory Num.Theory.
Local Open Scope ring_scope.
Local Open Scope complex_scope.

(* ---- a sum over Z_d of a function symmetric under k -> d - k, folded onto the half range ---- *)
Section Fold.
Variable R : ringType.
Variable d : nat.
Hypothesis dpos : (0 < d)%N.
Variable g : nat -> R.
Hypothesis sym : forall k, (0 < k < d)%N -> g (d - k) = g k.

Definition wtn (k : nat) : R := if (k == 0%N) || (2 * k == d)%N then 1 else 2.

(* the upper part of the range mirrors the lower one *)
Lemma upper_half h : (h < d)%N ->
  \sum_(h.+1 <= i < d) g i = \sum_(1 <= j < d - h) g j.
Proof.
  move=> lt.
  rewrite big_nat_rev /=.
  rewrite -{1}[h.+1]add1n big_addn.
  rewrite !big_nat; apply: eq_bigr => j /andP [j1 jd].
  have e : (h.+1 + d - (j + h).+1 = d - j)%N by rewrite addSn subSS addnC subnDr.
  rewrite e sym // j1 /=.
  by apply: (leq_trans jd); rewrite leq_subr.
Qed.

Lemma wtn0 : wtn 0 = 1. Proof. by rewrite /wtn eqxx. Qed.

Theorem fold_half : \sum_(0 <= k < d) g k = \sum_(0 <= k < (d./2).+1) wtn k * g k.
Proof.
  set h := d./2.
  have hd : (h < d)%N by rewrite /h -divn2 ltn_Pdiv.
  have e := odd_double_half d.
  rewrite big_ltn // [RHS]big_ltn // wtn0 mul1r; congr (_ + _).
  rewrite (@big_cat_nat _ _ _ h.+1) //= upper_half //.
  case odd_d: (odd d) e => /= e.
  - (* d = 2h + 1 *)
    have e' : d = (h.+1 + h)%N by rewrite -{1}e add1n -addnn addSn.
    have -> : (d - h = h.+1)%N by rewrite {1}e' addnK.
    rewrite -big_split /= !big_nat; apply: eq_bigr => k /andP [k1 kh].
    rewrite /wtn; have -> : (k == 0%N) = false by case: k k1 {kh}.
    have -> : (2 * k == d)%N = false.
      by apply/negbTE/eqP => e2; move: odd_d; rewrite -e2 mul2n odd_double.
    by rewrite /= -mulr2n -mulr_natl.
  - (* d = 2h *)
    have e' : d = (h + h)%N by rewrite -{1}e add0n -addnn.
    have dh : (d - h = h)%N by rewrite {1}e' addnK.
    have hpos : (0 < h)%N by move: dpos; rewrite {1}e'; case: (h).
    rewrite dh big_nat_recr //= [in RHS]big_nat_recr //=.
    rewrite addrAC -big_split /=; congr (_ + _); last first.
      rewrite /wtn; have -> : (2 * h == d)%N by rewrite mul2n -addnn -e'.
      by rewrite orbT mul1r.
    rewrite !big_nat; apply: eq_bigr => k /andP [k1 kh].
    rewrite /wtn; have -> : (k == 0%N) = false by case: k k1 {kh}.
    have -> : (2 * k == d)%N = false.
      by rewrite e' addnn -mul2n eqn_pmul2l // ltn_eqF.
    by rewrite /= -mulr2n -mulr_natl.
Qed.
End Fold.

Section HrrNet.
Variable R : rcfType.
Local Notation C := R[i].
Local Notation Re := (@complex.Re R).
Local Notation Im := (@complex.Im R).
Variable p : nat.
Local Notation d := p.+1.
Variable w : C.
Hypothesis w_d : w ^+ d = 1.
Hypothesis w_unit : w * conjc w = 1.
Hypothesis orth : forall j : 'I_d, j != 0 -> \sum_k chi w k j = 0.
Implicit Types a b : seq R.

(* ---- the network, over the reals ------------------------------------------------------- *)
Definition tab_re (k j : nat) : R := Re (w ^+ (k * j)).
Definition tab_im (k j : nat) : R := Im (w ^+ (k * j)).

(* transform_in: real / imaginary part of the k-th DFT coefficient *)
Definition half_re a (k : nat) : R := \sum_(j < d) tab_re k j * vnth a j.
Definition half_im a (k : nat) : R := \sum_(j < d) tab_im k j * vnth a j.

Definition wt (k : nat) : R := wtn R d k.

(* transform_out applied to the four products of index k *)
Definition net_term a b (k m : nat) : R :=
  wt k * ((half_re a k * half_re b k - half_im a k * half_im b k) * (tab_re k m / d%:R)
          - (half_re a k * half_im b k + half_im a k * half_re b k) * (- tab_im k m / d%:R)).

Definition cconv_net a b (m : nat) : R := \sum_(0 <= k < (d./2).+1) net_term a b k m.

(* ---- complex view ------------------------------------------------------------------------ *)
Local Notation iota := [rmorphism of real_complex R].

Lemma Re_rmul (x : R) (z : C) : Re (x%:C * z) = x * Re z.
Proof. by case: z => u v; simpc. Qed.
Lemma Im_rmul (x : R) (z : C) : Im (x%:C * z) = x * Im z.
Proof. by case: z => u v; simpc. Qed.

Lemma ReM (z u : C) : Re (z * u) = Re z * Re u - Im z * Im u.
Proof. by case: z u => a0 b0 [c0 d0]. Qed.
Lemma ImM (z u : C) : Im (z * u) = Re z * Im u + Im z * Re u.
Proof. by case: z u => a0 b0 [c0 d0]. Qed.

Lemma spectrum_re a (k : 'I_d) : Re (spectrum iota w a k) = half_re a k.
Proof.
  rewrite /spectrum /dft /half_re raddf_sum /=; apply: eq_bigr => j _.
  by rewrite Re_rmul mulrC.
Qed.

Lemma spectrum_im a (k : 'I_d) : Im (spectrum iota w a k) = half_im a k.
Proof.
  rewrite /spectrum /dft /half_im raddf_sum /=; apply: eq_bigr => j _.
  by rewrite Im_rmul mulrC.
Qed.

(* ---- conjugate symmetry ------------------------------------------------------------------ *)
Lemma conj_pow n : conjc (w ^+ n) = (conjc w) ^+ n.
Proof. exact: rmorphX. Qed.

Lemma pow_unit n : w ^+ n * conjc (w ^+ n) = 1.
Proof. by rewrite conj_pow -exprMn w_unit expr1n. Qed.

Lemma chi_conj (k m : 'I_d) : chi w k (- m) = conjc (chi w k m).
Proof.
  have e1 : chi w k (- m) * chi w k m = 1 by exact: (chiN w_d).
  have e2 : conjc (chi w k m) * chi w k m = 1 by rewrite mulrC /chi pow_unit.
  by rewrite -[LHS]mulr1 -e2 mulrCA e1 mulr1.
Qed.

Lemma spectrum_conj a (k : 'I_d) : spectrum iota w a (- k) = conjc (spectrum iota w a k).
Proof.
  rewrite /spectrum /dft rmorph_sum /=; apply: eq_bigr => j _.
  rewrite rmorphM /= oppr0; congr (_ * _).
  by rewrite chiC chi_conj chiC.
Qed.

(* ---- the spectrum of the binding, inverted -------------------------------------------------- *)
Definition G a b (m k : 'I_d) : C := spectrum iota w a k * spectrum iota w b k * conjc (chi w k m).

Lemma d_reg : GRing.lreg (d%:R : C).
Proof. by apply/lregP; rewrite pnatr_eq0. Qed.

Lemma sum_G a b (m : 'I_d) :
  size a = d -> \sum_k G a b m k = d%:R * (vnth (hrr_bind_core a b) m)%:C.
Proof.
  move=> sa.
  rewrite -(dft_inversion w_d orth (fun i : 'I_d => iota (vnth (hrr_bind_core a b) i)) m).
  apply: eq_bigr => k _.
  by rewrite /G -chi_conj -(spectrum_bind iota w_d) // /spectrum.
Qed.

Lemma G_conj a b (m k : 'I_d) : G a b m (- k) = conjc (G a b m k).
Proof.
  rewrite /G !spectrum_conj !rmorphM /=; congr (_ * _).
  by rewrite chiC chi_conj chiC.
Qed.

Lemma real_of_selfconj (z : C) : conjc z = z -> z = (Re z)%:C.
Proof.
  case: z => x y [] /eqP; rewrite eq_sym -addr_eq0 -mulr2n mulrn_eq0 /= => /eqP ->.
  by [].
Qed.

(* the full inverse transform only needs real parts *)
Lemma sum_G_real a b (m : 'I_d) : \sum_k G a b m k = (\sum_k Re (G a b m k))%:C.
Proof.
  have selfc : conjc (\sum_k G a b m k) = \sum_k G a b m k.
    rewrite rmorph_sum /= (reindex_inj (h := fun k : 'I_d => - k)) /=; last exact: oppr_inj.
    by apply: eq_bigr => k _; rewrite G_conj conjcK.
  by rewrite (real_of_selfconj selfc) raddf_sum.
Qed.

(* ---- real part of one term ---------------------------------------------------------------- *)
Definition gterm a b (m k : nat) : R :=
  (half_re a k * half_re b k - half_im a k * half_im b k) * tab_re k m
  - (half_re a k * half_im b k + half_im a k * half_re b k) * (- tab_im k m).

Lemma Re_conj (z : C) : Re (conjc z) = Re z. Proof. by case: z. Qed.
Lemma Im_conj (z : C) : Im (conjc z) = - Im z. Proof. by case: z. Qed.

Lemma Re_G a b (m k : 'I_d) : Re (G a b m k) = gterm a b m k.
Proof.
  rewrite /G /gterm ReM ReM ImM Re_conj Im_conj !spectrum_re !spectrum_im.
  by rewrite /chi /tab_re /tab_im.
Qed.

Lemma net_termE a b k m : net_term a b k m = wt k * (gterm a b m k / d%:R).
Proof.
  rewrite /net_term /gterm; congr (_ * _).
  by rewrite [RHS]mulrBl !mulrA.
Qed.

(* symmetry under k -> d - k *)
Lemma gterm_sym a b (m : 'I_d) k : (0 < k < d)%N -> gterm a b m (d - k) = gterm a b m k.
Proof.
  case/andP => k0 kd.
  pose k' := Ordinal kd.
  have e : (d - k)%N = (- k' : 'I_d) :> nat.
    by rewrite /= modn_small // ltn_subrL k0.
  by rewrite e -Re_G G_conj Re_conj Re_G.
Qed.

(* (the theorem) the network computes circular convolution, for every d *)
Theorem cconv_net_is_binding a b (m : 'I_d) :
  size a = d -> cconv_net a b m = vnth (hrr_bind_core a b) m.
Proof.
  move=> sa.
  have H : \sum_(k < d) gterm a b m k = d%:R * vnth (hrr_bind_core a b) m.
    have := sum_G b m sa; rewrite sum_G_real.
    have -> : (d%:R : C) = (d%:R : R)%:C by rewrite rmorph_nat.
    rewrite -rmorphM /= => /(complexI) <-.
    by apply: eq_bigr => k _; rewrite Re_G.
  have dnz : (d%:R : R) != 0 by rewrite pnatr_eq0.
  rewrite /cconv_net.
  under eq_bigr => k _ do rewrite net_termE mulrA.
  have F := @fold_half R d (ltn0Sn p) (gterm a b m) (fun k => @gterm_sym a b m k).
  rewrite -mulr_suml; rewrite /wt -F.
  by rewrite big_mkord H mulrAC mulfV // mul1r.
Qed.

(* the rows remove_imag_rows deletes multiply quantities that vanish identically *)
Lemma half_im_dc a : half_im a 0 = 0.
Proof. by rewrite /half_im big1 // => j _; rewrite /tab_im mul0n expr0 /= mul0r. Qed.

Lemma half_im_nyquist a k : (2 * k = d)%N -> half_im a k = 0.
Proof.
  move=> e; rewrite /half_im big1 // => j _.
  have sq : (w ^+ k) ^+ 2 = 1 by rewrite -exprM mulnC e.
  have pm : (w ^+ k == 1) || (w ^+ k == -1).
    by rewrite -subr_eq0 -[_ == -1]addr_eq0 -mulf_eq0 -subr_sqr_1 sq subrr.
  rewrite /tab_im exprM; case/orP: pm => /eqP ->.
    by rewrite expr1n /= mul0r.
  by rewrite -signr_odd; case: (odd j); rewrite ?expr1 ?expr0 /= ?oppr0 mul0r.
Qed.

(* ---- invert_a / invert_b: conjugated input tables compute the binding with the inverse ------------ *)
Definition half_im_opt (inv : bool) a (k : nat) : R := if inv then - half_im a k else half_im a k.

Definition net_term_inv (ia ib : bool) a b (k m : nat) : R :=
  wt k * ((half_re a k * half_re b k - half_im_opt ia a k * half_im_opt ib b k) * (tab_re k m / d%:R)
          - (half_re a k * half_im_opt ib b k + half_im_opt ia a k * half_re b k) * (- tab_im k m / d%:R)).

Definition cconv_net_inv ia ib a b (m : nat) : R := \sum_(0 <= k < (d./2).+1) net_term_inv ia ib a b k m.

Lemma size_hrr_invert a : size (hrr_invert a) = size a.
Proof. by rewrite /hrr_invert size_mkvec. Qed.

Lemma half_re_invert a k : size a = d -> (k < d)%N -> half_re (hrr_invert a) k = half_re a k.
Proof.
  move=> sa lt; pose k' := Ordinal lt.
  by rewrite -[k]/(nat_of_ord k') -!spectrum_re (spectrum_invert iota w_d) // spectrum_conj Re_conj.
Qed.

Lemma half_im_invert a k : size a = d -> (k < d)%N -> half_im (hrr_invert a) k = - half_im a k.
Proof.
  move=> sa lt; pose k' := Ordinal lt.
  by rewrite -[k]/(nat_of_ord k') -!spectrum_im (spectrum_invert iota w_d) // spectrum_conj Im_conj.
Qed.

Theorem cconv_net_inv_is_binding ia ib a b (m : 'I_d) :
  size a = d -> size b = d ->
  cconv_net_inv ia ib a b m
  = vnth (hrr_bind_core (if ia then hrr_invert a else a) (if ib then hrr_invert b else b)) m.
Proof.
  move=> sa sb.
  rewrite -cconv_net_is_binding; last by case: ia; rewrite ?size_hrr_invert.
  rewrite /cconv_net_inv /cconv_net !big_nat; apply: eq_bigr => k /andP [_ kh].
  have kd : (k < d)%N.
    by apply: (leq_trans kh); rewrite -divn2 ltn_Pdiv.
  rewrite /net_term_inv /net_term /half_im_opt.
  by case: ia; case: ib; rewrite ?half_re_invert ?half_im_invert.
Qed.

End HrrNet.

(* the hypotheses are satisfiable: d = 2, w = -1 = exp(-2 pi i / 2) *)
Lemma hyps_d2 (R : rcfType) :
  let w : R[i] := -1 in
  w ^+ 2 = 1 /\ w * conjc w = 1 /\ (forall j : 'I_2, j != 0 -> \sum_k chi w k j = 0).
Proof.
  move=> w; split; first by rewrite /w sqrrN expr1n.
  split; first by rewrite /w rmorphN rmorph1 mulrNN mulr1.
  move=> j jn0; rewrite !big_ord_recl big_ord0 /chi /= mul0n mul1n expr0 addr0.
  case: j jn0 => [[|[|j]]] //= _ _.
  by rewrite expr1 /w subrr.
Qed.

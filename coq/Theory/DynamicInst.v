(* The three shipped algebras satisfy the contract the compiler relies on
   ([walg_laws]), for every dimensionality they accept and whatever ring element
   [rt s] stands for the scale factor sqrt(s): compiler correctness holds for
   HRR, VTB and TVTB vocabularies. *)
From mathcomp Require Import all_ssreflect all_algebra.
From NSpa Require Import Model.Vec Model.Hrr Model.Vtb Model.Power Model.Algebra Model.Dynamic
  Theory.SeqSum Theory.MxBridge Theory.Conv Theory.VtbLaws Theory.DynLin Theory.DynamicLaws Theory.DynamicBuild.
Set Implicit Arguments.
Unset Strict Implicit.
Unset Printing Implicit Defensive.
Import GRing.Theory.
Local Open Scope ring_scope.

Section Inst.
Variable R : comRingType.
Variable rt : nat -> R.

Lemma vscale1 (x : seq R) : vscale 1 x = x.
Proof. by rewrite /vscale -[RHS]map_id; apply: eq_map => z; rewrite mul1r. Qed.

Lemma mscale1 (m : seq (seq R)) : mscale 1 m = m.
Proof. by rewrite /mscale -[RHS]map_id; apply: eq_map => z; rewrite vscale1. Qed.

Lemma is_mat_mkmat m n (f : nat -> nat -> R) : is_mat (mkmat m n f) m n.
Proof.
  rewrite /is_mat size_mkmat eqxx /=.
  by apply/allP => row /mapP [i _ ->]; rewrite size_mkseq.
Qed.

Lemma vtb_validE d : vtb_valid d -> exists2 s, d = (s * s)%N & (0 < s)%N.
Proof.
  rewrite /vtb_valid => /andP [pos /eqP e]; exists (isqrt d) => //.
  by case: (isqrt d) e pos => // e; rewrite -e.
Qed.

Theorem hrr_laws : walg_laws (walg_of rt AHrr).
Proof.
  split => /=.
  - by [].
  - move=> d x y _ sx sy; rewrite /hrr_bind sx sy eqxx /= /sfac eqxx vscale1.
    by rewrite size_hrr_bind.
  - move=> d v x sw _ sv sx; rewrite /sfac eqxx mscale1 hrr_bmat_bind ?sx ?sv //.
    rewrite /hrr_bind sx sv eqxx /= vscale1.
    by case: sw => /=; rewrite ?vscale1 // hrr_bind_comm ?sx ?sv.
  - by move=> d v sw _ sv; rewrite /sfac eqxx mscale1 /hrr_bmat sv is_mat_mkmat.
  - by move=> d sd x _ sx; rewrite /= -sx hrr_imat_invert.
  - by move=> d sd m _ [<-]; rewrite is_mat_mkmat.
Qed.

Lemma is_mat_vtb_bmat s (v : seq R) sw (M : seq (seq R)) n :
  vtb_bmat v sw = Ok (Scaled M n 1) -> size v = (s * s)%N -> (0 < s)%N -> is_mat M (s * s) (s * s).
Proof.
  move=> E sv pos; move: E; rewrite /vtb_bmat sv (proj2 (sub_d_ok _ _) (erefl _)) /=.
  case: sw => -[<- _]; last exact: is_mat_mkmat.
  rewrite /matmul size_mkmat /ncols row_mkmat ?muln_gt0 ?pos // size_mkvec.
  exact: is_mat_mkmat.
Qed.

Lemma is_mat_tvtb_bmat s (v : seq R) sw (M : seq (seq R)) n :
  tvtb_bmat v sw = Ok (Scaled M n 1) -> size v = (s * s)%N -> (0 < s)%N -> is_mat M (s * s) (s * s).
Proof.
  move=> E sv pos; move: E; rewrite /tvtb_bmat sv (proj2 (sub_d_ok _ _) (erefl _)) /=.
  case: sw => -[<- _]; last exact: is_mat_mkmat.
  rewrite {1}/matmul size_mkmat size_mkmat /ncols row_mkmat ?muln_gt0 ?pos // size_mkvec.
  exact: is_mat_mkmat.
Qed.

Theorem vtb_laws : walg_laws (walg_of rt AVtb).
Proof.
  split => /=.
  - by move=> d /andP [].
  - move=> d x y /vtb_validE [s ds pos] sx sy; subst d.
    by rewrite (vtb_bindE sx sy) /= size_vscale size_vtb_core.
  - move=> d v x sw /vtb_validE [s ds pos] sv sx; subst d.
    have [M -> HM] := vtb_bmat_spec sw sv sx.
    rewrite /= matvec_mscale HM.
    by case: sw {HM}; rewrite ?(vtb_bindE sv sx) ?(vtb_bindE sx sv).
  - move=> d v sw /vtb_validE [s ds pos] sv; subst d.
    have [M E _] := vtb_bmat_spec sw sv sv.
    rewrite E /=; apply: is_mat_mscale; exact: (is_mat_vtb_bmat E sv pos).
  - move=> d sd x /vtb_validE [s ds pos] sx; subst d.
    case: sd => //.
    + have [w -> [Hw ->]] := @vtb_imat_spec _ s x SRight sx (fun e => match e with end).
      by rewrite /= Hw.
    + have [w -> [Hw ->]] := @vtb_imat_spec _ s x STwo sx (fun e => match e with end).
      by rewrite /= Hw.
  - move=> d sd m /vtb_validE [s ds pos]; subst d.
    rewrite /vtb_imat (proj2 (sub_d_ok _ _) (erefl _)).
    by case: sd => //= -[<-]; exact: is_mat_mkmat.
Qed.

Theorem tvtb_laws : walg_laws (walg_of rt ATvtb).
Proof.
  split => /=.
  - by move=> d /andP [].
  - move=> d x y /vtb_validE [s ds pos] sx sy; subst d.
    by rewrite (tvtb_bindE sx sy) /= size_vscale size_tvtb_core.
  - move=> d v x sw /vtb_validE [s ds pos] sv sx; subst d.
    have [M -> HM] := tvtb_bmat_spec sw sv sx.
    rewrite /= matvec_mscale HM.
    by case: sw {HM}; rewrite ?(tvtb_bindE sv sx) ?(tvtb_bindE sx sv).
  - move=> d v sw /vtb_validE [s ds pos] sv; subst d.
    have [M E _] := tvtb_bmat_spec sw sv sv.
    rewrite E /=; apply: is_mat_mscale; exact: (is_mat_tvtb_bmat E sv pos).
  - move=> d sd x /vtb_validE [s ds pos] sx; subst d.
    have [w -> [Hw ->]] := tvtb_imat_spec sd sx.
    by rewrite /= Hw.
  - move=> d sd m /vtb_validE [s ds pos]; subst d.
    rewrite /tvtb_imat (proj2 (sub_d_ok _ _) (erefl _)).
    by move=> /= -[<-]; exact: is_mat_mkmat.
Qed.

Theorem shipped_laws al : walg_laws (walg_of rt al).
Proof. case: al; [exact: hrr_laws | exact: vtb_laws | exact: tvtb_laws]. Qed.

(* compiler correctness for the shipped algebras *)
Theorem shipped_compiler_correct al (env_ptr : nat -> seq R) env_scalar src_dim e b :
  (forall i, size (env_ptr i) = src_dim i) ->
  build (walg_of rt al) src_dim e = Ok b ->
  delivered (walg_of rt al) env_ptr env_scalar src_dim e
  = eval_sp (walg_of rt al) env_ptr env_scalar e.
Proof. move=> H B; exact: (@compiler_correct _ _ _ _ _ (shipped_laws al) H _ _ B). Qed.

Theorem shipped_statements_add al (env_ptr : nat -> seq R) env_scalar src_dim e1 e2 b1 b2 :
  (forall i, size (env_ptr i) = src_dim i) ->
  build (walg_of rt al) src_dim e1 = Ok b1 -> build (walg_of rt al) src_dim e2 = Ok b2 ->
  delivered_all (walg_of rt al) env_ptr env_scalar src_dim [:: e1; e2]
  = add_val (eval_sp (walg_of rt al) env_ptr env_scalar e1) (eval_sp (walg_of rt al) env_ptr env_scalar e2).
Proof. move=> H B1 B2; exact: (@statements_add _ _ _ _ _ (shipped_laws al) H _ _ _ _ B1 B2). Qed.

(* the clause "scaling of a fixed pointer by a dynamic scalar":
   holds for a typed symbol, in both operand orders ... *)
Theorem scalar_times_symbol al (env_ptr : nat -> seq R) env_scalar src_dim i (v : seq R) sw :
  (forall i, size (env_ptr i) = src_dim i) -> alg_valid al (size v) ->
  delivered (walg_of rt al) env_ptr env_scalar src_dim
    (if sw then DMul (DFixed true v) (DSrcScalar _ i) else DMul (DSrcScalar _ i) (DFixed true v))
  = Ok (VP (vscale (env_scalar i) v)).
Proof.
  move=> H ok.
  have B : exists b, build (walg_of rt al) src_dim
      (if sw then DMul (DFixed true v) (DSrcScalar _ i) else DMul (DSrcScalar _ i) (DFixed true v)) = Ok b.
    by case: sw; rewrite /= ok /=; eexists.
  case: B => b B; rewrite (shipped_compiler_correct env_scalar H B).
  by case: sw {B}.
Qed.

(* ... and is refused for a SemanticPointer object, although Semantic-Pointer arithmetic defines it *)
Theorem scalar_times_semantic_pointer_refuted al (env_ptr : nat -> seq R) env_scalar src_dim i (v : seq R) :
  alg_valid al (size v) ->
  build (walg_of rt al) src_dim (DMul (DSrcScalar _ i) (DFixed false v)) = Err NotImplementedErr /\
  build (walg_of rt al) src_dim (DMul (DFixed false v) (DSrcScalar _ i)) = Err NotImplementedErr /\
  eval_sp (walg_of rt al) env_ptr env_scalar (DMul (DSrcScalar _ i) (DFixed false v))
  = Ok (VP (vscale (env_scalar i) v)).
Proof. by move=> ok; rewrite /= ok. Qed.

(* non-vacuity: a non-trivial expression over two sources, a symbol and a number builds *)
Example build_succeeds_somewhere :
  exists b, build (walg_of rt AHrr) (fun _ => 2%N)
    (DSub (DMul (DFixed true [:: 1; 0]) (DSrc _ 0)) (DMul (DNum 2) (DInv STwo (DSrc _ 1)))) = Ok b.
Proof. by eexists. Qed.

End Inst.

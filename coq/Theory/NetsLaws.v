(* Binding networks with ideal product units compute the algebra's binding (C05). *)
From mathcomp Require Import all_ssreflect all_algebra zify.
From NSpa Require Import Model.Vec Model.Hrr Model.Vtb Model.Algebra Model.Nets
  Theory.SeqSum Theory.MxBridge Theory.VtbLaws.
Set Implicit Arguments.
Unset Strict Implicit.
Unset Printing Implicit Defensive.
Import GRing.Theory.
Local Open Scope ring_scope.

Section NetsLaws.
Variable R : comRingType.
Implicit Types (a b v x : seq R).

(* ---- MatrixMult: the exact matrix product, all shapes --------------------------- *)
Theorem mm_net_is_matrix_product M K N a b i kk :
  (i < M)%N -> (kk < N)%N -> (0 < K)%N ->
  vnth (mm_net M K N a b) (i * N + kk) =
  \sum_(j < K) vnth a (i * K + j) * vnth b (j * N + kk).
Proof.
  move=> li lk K0.
  have lr : (i * N + kk < M * N)%N.
    have : (i * N + kk < i * N + N)%N by rewrite ltn_add2l.
    by move=> h; apply: (leq_trans h); rewrite addnC -mulSn leq_mul2r li orbT.
  rewrite /mm_net nth_mkvec // rsum_ord.
  (* c ranges over (M*N) * K: c = r' * K + j *)
  have -> : (M * K * N = (M * N) * K)%N by rewrite mulnAC.
  rewrite (sum_mul_ord (M * N) K (fun c =>
     if (c %/ K == i * N + kk)%N
     then vnth (mkvec ((M * N) * K) (fun c0 => vnth a (mm_left K N c0) * vnth b (mm_right K N c0))) c
     else 0)).
  rewrite (bigD1 (Ordinal lr)) //= [X in _ + X]big1 ?addr0; last first.
    move=> r' ne; apply: big1 => j _.
    rewrite idx_div // (_ : (nat_of_ord r' == (i * N + kk)%N) = false) //.
    by apply/negbTE; apply: contra ne => /eqP e; apply/eqP/val_inj.
  apply: eq_bigr => j _.
  have lc : ((i * N + kk) * K + j < M * N * K)%N.
    have : ((i * N + kk) * K + j < (i * N + kk) * K + K)%N by rewrite ltn_add2l.
    by move=> h; apply: (leq_trans h); rewrite addnC -mulSn leq_mul2r lr orbT.
  rewrite idx_div // eqxx nth_mkvec //.
  have e1 : mm_left K N ((i * N + kk) * K + j) = (i * K + j)%N.
    rewrite /mm_left idx_mod // addnC; congr (_ + _)%N; congr (_ * _)%N.
    rewrite mulnDl -mulnA -addnA [(N * K)%N]mulnC divnMDl ?muln_gt0 ?K0 ?(leq_ltn_trans _ lk) //.
    rewrite divn_small ?addn0 //.
    have : (kk * K + j < kk * K + K)%N by rewrite ltn_add2l.
    by move=> h; apply: (leq_trans h); rewrite addnC -mulSn mulnC leq_mul2l lk orbT.
  have e2 : mm_right K N ((i * N + kk) * K + j) = (j * N + kk)%N.
    rewrite /mm_right idx_mod // addnC; congr (_ + _)%N.
    rewrite mulnDl -mulnA -addnA [(N * K)%N]mulnC modnMDl.
    rewrite modn_small; first by rewrite idx_div.
    have : (kk * K + j < kk * K + K)%N by rewrite ltn_add2l.
    by move=> h; apply: (leq_trans h); rewrite addnC -mulSn mulnC leq_mul2l lk orbT.
  by rewrite e1 e2.
Qed.

(* ---- the helper matrices of networks/vtb.py are the transposition permutation ------ *)
Theorem net_inversion_matrix_is_transposition s r i :
  (r < s * s)%N -> (i < s * s)%N ->
  mnth (net_inversion_matrix R (s * s) s) r i = mnth (vtb_imat_core R s) i r.
Proof.
  move=> lr li.
  have s0 : (0 < s)%N by case: s lr {li}.
  rewrite /net_inversion_matrix /vtb_imat_core !mnth_mkmat //.
  suff -> : ((s * i) %% (s * s) + (s * i) %/ (s * s) = tperm s i)%N by [].
  rewrite /tperm {1 2}(divn_eq i s).
  set a := (i %/ s)%N; set b := (i %% s)%N.
  have lb : (b < s)%N by rewrite ltn_mod.
  have e : (s * (a * s + b) = a * (s * s) + b * s)%N by rewrite mulnDr mulnCA mulnA [(s * b)%N]mulnC.
  have lbs : (b * s < s * s)%N by rewrite ltn_mul2r s0.
  by rewrite e modnMDl divnMDl ?muln_gt0 ?s0 // modn_small // divn_small // addn0.
Qed.

Theorem net_swapping_matrix_is_transposition s r j :
  (r < s * s)%N -> (j < s * s)%N ->
  mnth (net_swapping_matrix R (s * s) s) r j = mnth (vtb_imat_core R s) r j.
Proof.
  move=> lr lj.
  rewrite /net_swapping_matrix /vtb_imat_core !mnth_mkmat //.
  by rewrite /tperm addnC [(s * _)%N]mulnC.
Qed.

(* ---- the per-block MatrixMult composition is the kron/reshape binding core --------- *)
Lemma nth_block s i v j : (j < s)%N -> vnth (block s i v) j = vnth v (i * s + j).
Proof. by move=> lj; rewrite /block /vnth nth_take // nth_drop. Qed.

Lemma size_mm_net M K N a b : size (mm_net M K N a b) = (M * N)%N.
Proof. by rewrite /mm_net size_mkvec. Qed.

Definition blocks_net s (mat vec_ : seq R) : seq R :=
  flatten [seq mm_net s s 1 mat (block s i vec_) | i <- iota 0 s].

Lemma size_blocks_net s mat vec_ : size (blocks_net s mat vec_) = (s * s)%N.
Proof.
  rewrite /blocks_net (@size_flatten_const _ _ s) ?size_map ?size_iota //.
  by apply/allP => r /mapP [i _ ->]; rewrite size_mm_net muln1.
Qed.

Theorem blocks_net_is_vtb_core s mat vec_ :
  size vec_ = (s * s)%N -> blocks_net s mat vec_ = vtb_core s vec_ mat.
Proof.
  move=> sv.
  apply: (@mx_of_inj _ s); rewrite ?size_blocks_net ?size_vtb_core //.
  apply/matrixP => i r; rewrite vtb_core_mx // !mxE.
  have s0 : (0 < s)%N by apply: leq_ltn_trans (ltn_ord i).
  rewrite /vnth /blocks_net (@nth_flatten_const _ _ s) ?size_map ?size_iota //; last first.
    by apply/allP => x /mapP [k _ ->]; rewrite size_mm_net muln1.
  rewrite (nth_map 0%N) ?size_iota // nth_iota // add0n.
  have := @mm_net_is_matrix_product s s 1 mat (block s i vec_) r 0 (ltn_ord r) (ltn0Sn 0) s0.
  rewrite /vnth muln1 addn0 => ->.
  apply: eq_bigr => j _.
  rewrite !mxE muln1 addn0 -!/(vnth _ _) nth_block //.
  by rewrite mulrC.
Qed.

(* matvec with the network's helper matrices is the transposition of the vector *)
Lemma matvec_eq_entries (A B : seq (seq R)) x n :
  size A = n -> size B = n ->
  (forall r, (r < n)%N -> size (nth [::] A r) = n /\ size (nth [::] B r) = n) ->
  (forall r i, (r < n)%N -> (i < n)%N -> mnth A r i = mnth B r i) ->
  matvec A x = matvec B x.
Proof.
  move=> sA sB rows ent.
  apply: eq_vec; first by rewrite !size_matvec sA sB.
  rewrite size_matvec sA => r lr.
  rewrite !nth_matvec ?sA ?sB // /dot.
  have [ra rb] := rows r lr.
  rewrite ra rb; apply: eq_rsum => i li.
  by congr (_ * _); exact: ent.
Qed.

Theorem net_inversion_is_transpose s x :
  size x = (s * s)%N -> matvec (net_inversion_matrix R (s * s) s) x = vtb_transpose_vec s x.
Proof.
  move=> sx; rewrite -imat_transpose //.
  have sym : forall r i, (r < s * s)%N -> (i < s * s)%N ->
      mnth (vtb_imat_core R s) i r = mnth (vtb_imat_core R s) r i.
    move=> r i lr li; rewrite /vtb_imat_core !mnth_mkmat //.
    have s0 : (0 < s)%N by case: s lr {li sx}.
    have invol : forall q, (q < s * s)%N -> tperm s (tperm s q) = q.
      move=> q lq; rewrite {2}/tperm tperm_idx ?ltn_mod // ?ltn_divLR //.
      by rewrite -divn_eq.
    congr (_%:R); congr nat_of_bool; apply/eqP/eqP => e.
      by rewrite e invol.
    by rewrite e invol.
  apply: (@matvec_eq_entries _ _ _ (s * s)%N); rewrite ?size_mkmat //.
    by move=> r lr; rewrite /net_inversion_matrix /vtb_imat_core !row_mkmat // !size_mkvec.
  by move=> r i lr li; rewrite net_inversion_matrix_is_transposition // sym.
Qed.

Theorem net_swapping_is_transpose s x :
  size x = (s * s)%N -> matvec (net_swapping_matrix R (s * s) s) x = vtb_transpose_vec s x.
Proof.
  move=> sx; rewrite -imat_transpose //.
  apply: (@matvec_eq_entries _ _ _ (s * s)%N); rewrite ?size_mkmat //.
    by move=> r lr; rewrite /net_swapping_matrix /vtb_imat_core !row_mkmat // !size_mkvec.
  by move=> r i lr li; exact: net_swapping_matrix_is_transposition.
Qed.

(* ---- the VTB network ------------------------------------------------------------------- *)
Theorem vtb_net_binds s (left right : seq R) :
  size left = (s * s)%N -> size right = (s * s)%N ->
  vtb_net NoUnbind left right = vtb_bind left right.
Proof.
  move=> sl sr; rewrite /vtb_net sl (proj2 (sub_d_ok _ _) (erefl _)) /=.
  by rewrite -/(blocks_net s right left) blocks_net_is_vtb_core // (@vtb_bindE _ s).
Qed.

(* unbind_right: (y * x, x) -> bind(y * x, rinv x) *)
Theorem vtb_net_unbind_right s (left right : seq R) :
  size left = (s * s)%N -> size right = (s * s)%N ->
  vtb_net UnbindRight left right = vtb_bind left (vtb_transpose_vec s right).
Proof.
  move=> sl sr; rewrite /vtb_net sl (proj2 (sub_d_ok _ _) (erefl _)) /=.
  rewrite net_inversion_is_transpose // -/(blocks_net s _ left) blocks_net_is_vtb_core //.
  by rewrite (@vtb_bindE _ s) ?size_transpose_vec.
Qed.

(* unbind_left: (x, x * y) -> sqrt(s) * W^T X with W the matrix of the right input;
   for x * y = sqrt(s) X Y^T this is s * Y X^T X, i.e. y exactly when x is unitary *)
Theorem vtb_net_unbind_left s (left right : seq R) :
  size left = (s * s)%N -> size right = (s * s)%N ->
  exists2 c, vtb_net UnbindLeft left right = Ok (Scaled c s 1) &
             mx_of s c = (mx_of s right)^T *m mx_of s left.
Proof.
  move=> sl sr; rewrite /vtb_net sl (proj2 (sub_d_ok _ _) (erefl _)) /=.
  rewrite net_inversion_is_transpose // net_swapping_is_transpose //.
  rewrite -/(blocks_net s _ _) blocks_net_is_vtb_core ?size_transpose_vec //.
  eexists; first by reflexivity.
  by rewrite vtb_core_mx ?size_transpose_vec // !mx_of_transpose trmxK.
Qed.

Theorem vtb_net_both_options_rejected (left right : seq R) s :
  size left = (s * s)%N -> vtb_net UnbindBoth left right = Err ValueError.
Proof. by move=> sl; rewrite /vtb_net sl (proj2 (sub_d_ok _ _) (erefl _)). Qed.

(* ---- the TVTB network -------------------------------------------------------------------- *)
Theorem tvtb_net_binds s (left right : seq R) :
  size left = (s * s)%N -> size right = (s * s)%N ->
  exists2 c, tvtb_net NoUnbind left right = Ok (Scaled c s 1) &
             mx_of s c = mx_of s left *m mx_of s right.
Proof.
  move=> sl sr; rewrite /tvtb_net sl (proj2 (sub_d_ok _ _) (erefl _)) /=.
  rewrite net_inversion_is_transpose // -/(blocks_net s _ left) blocks_net_is_vtb_core //.
  eexists; first by reflexivity.
  by rewrite vtb_core_mx // mx_of_transpose trmxK.
Qed.

Theorem tvtb_net_unbind_right s (left right : seq R) :
  size left = (s * s)%N -> size right = (s * s)%N ->
  exists2 c, tvtb_net UnbindRight left right = Ok (Scaled c s 1) &
             mx_of s c = mx_of s left *m (mx_of s right)^T.
Proof.
  move=> sl sr; rewrite /tvtb_net sl (proj2 (sub_d_ok _ _) (erefl _)) /=.
  rewrite !net_inversion_is_transpose ?size_transpose_vec // transpose_vec_invol //.
  rewrite -/(blocks_net s _ left) blocks_net_is_vtb_core //.
  eexists; first by reflexivity.
  by rewrite vtb_core_mx.
Qed.

(* unbind_left: (x, x * y) -> sqrt(s) * X^T W; for x * y = sqrt(s) X Y this is
   s * X^T X Y = y exactly when x is unitary *)
Theorem tvtb_net_unbind_left s (left right : seq R) :
  size left = (s * s)%N -> size right = (s * s)%N ->
  exists2 c, tvtb_net UnbindLeft left right = Ok (Scaled c s 1) &
             mx_of s c = (mx_of s left)^T *m mx_of s right.
Proof.
  move=> sl sr; rewrite /tvtb_net sl (proj2 (sub_d_ok _ _) (erefl _)) /=.
  rewrite !net_inversion_is_transpose //.
  rewrite -/(blocks_net s _ _) blocks_net_is_vtb_core ?size_transpose_vec //.
  eexists; first by reflexivity.
  by rewrite vtb_core_mx ?size_transpose_vec // !mx_of_transpose trmxK.
Qed.

End NetsLaws.

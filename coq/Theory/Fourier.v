(* The Fourier layer: over any commutative ring C containing an element w with
   w^d = 1 (for the complex numbers, w = exp(-2 pi i / d)),
   - the discrete Fourier transform turns circular convolution (HRR binding)
     into the pointwise product (convolution theorem),
   - turns the HRR inverse (index reversal) into reversal of the spectrum,
   - and, when the characters are orthogonal (w primitive) and d is regular in C,
     a vector is determined by its spectrum: the result of
     irfft(rfft(a) * rfft(b)) is the circular convolution and nothing else.
   This is the algebra behind HrrAlgebra.bind / invert and the
   CircularConvolution network, for every dimension d. *)
From mathcomp Require Import all_ssreflect all_algebra.
From NSpa Require Import Model.Vec Model.Hrr Theory.SeqSum Theory.Conv.
Set Implicit Arguments.
Unset Strict Implicit.
Unset Printing Implicit Defensive.
Import GRing.Theory.
Local Open Scope ring_scope.

Section Dft.
Variable C : comRingType.
Variable p : nat.
Local Notation d := p.+1.
Variable w : C.
Hypothesis w_d : w ^+ d = 1.
Implicit Types f g : 'I_d -> C.

(* the characters of Z_d *)
Definition chi (k i : 'I_d) : C := w ^+ (k * i).

Lemma chiC k i : chi k i = chi i k.
Proof. by rewrite /chi mulnC. Qed.

Lemma chi0 k : chi k 0 = 1.
Proof. by rewrite /chi muln0 expr0. Qed.

Lemma chiD k i j : chi k (i + j) = chi k i * chi k j.
Proof.
  rewrite /chi -exprD -mulnDr /=.
  rewrite -[LHS](expr_mod _ w_d) -[RHS](expr_mod _ w_d).
  by rewrite modnMmr.
Qed.

Lemma chiN k i : chi k (- i) * chi k i = 1.
Proof. by rewrite -chiD addNr chi0. Qed.

Definition dft f (k : 'I_d) : C := \sum_i f i * chi k i.

(* convolution theorem *)
Theorem dft_conv f g k : dft (conv f g) k = dft f k * dft g k.
Proof.
  rewrite /dft /conv.
  under eq_bigr => i _ do rewrite mulr_suml.
  rewrite exchange_big /= mulr_suml; apply: eq_bigr => j _.
  rewrite mulr_sumr (reindex_inj (h := fun i => i + j)) /=; last exact: addIr.
  apply: eq_bigr => i _.
  by rewrite addrK chiD [chi k i * _]mulrC mulrACA.
Qed.

(* reversal: (f o -) has the reversed spectrum *)
Theorem dft_reverse f k : dft (fun i => f (- i)) k = dft f (- k).
Proof.
  rewrite /dft (reindex_inj (h := fun i => - i)) /=; last exact: oppr_inj.
  apply: eq_bigr => i _; rewrite opprK; congr (_ * _).
  (* chi k (-i) = chi (-k) i : both are the inverse of chi k i *)
  have e1 : chi k (- i) * chi k i = 1 by exact: chiN.
  have e2 : chi (- k) i * chi k i = 1 by rewrite ![chi _ i]chiC chiN.
  by rewrite -[LHS]mulr1 -e2 mulrCA e1 mulr1.
Qed.

(* orthogonality of the characters: w is a primitive d-th root of unity *)
Hypothesis orth : forall j : 'I_d, j != 0 -> \sum_k chi k j = 0.

(* inversion formula *)
Theorem dft_inversion f m : \sum_k dft f k * chi k (- m) = d%:R * f m.
Proof.
  rewrite /dft.
  under eq_bigr => k _ do rewrite mulr_suml.
  rewrite exchange_big /= (bigD1 m) //= [X in _ + X]big1 ?addr0; last first.
    move=> i ne.
    under eq_bigr => k _ do rewrite -mulrA -chiD.
    by rewrite -mulr_sumr orth ?mulr0 // subr_eq0.
  under eq_bigr => k _ do rewrite -mulrA -chiD subrr chi0 mulr1.
  by rewrite sumr_const card_ord mulr_natl.
Qed.

(* a function is determined by its spectrum when d is regular in C *)
Hypothesis d_reg : GRing.lreg (d%:R : C).

Theorem dft_injective f g : (forall k, dft f k = dft g k) -> forall m, f m = g m.
Proof.
  move=> H m; apply: d_reg; rewrite -!dft_inversion.
  by apply: eq_bigr => k _; rewrite H.
Qed.

End Dft.

(* ---- HRR vectors ------------------------------------------------------------------------ *)
Section HrrFourier.
Variable R : comRingType.
Variable C : comRingType.
Variable iota : {rmorphism R -> C}.     (* the reals inside the complex numbers *)
Variable p : nat.
Local Notation d := p.+1.
Variable w : C.
Hypothesis w_d : w ^+ d = 1.
Implicit Types a b : seq R.

(* spectrum of a real vector *)
Definition spectrum a (k : 'I_d) : C := dft w (fun i : 'I_d => iota (vnth a i)) k.

(* HRR binding is the pointwise product of the spectra *)
Theorem spectrum_bind a b k :
  size a = d -> spectrum (hrr_bind_core a b) k = spectrum a k * spectrum b k.
Proof.
  move=> sa; rewrite /spectrum -(dft_conv w_d).
  apply: eq_bigr => i _; congr (_ * _).
  rewrite nth_hrr_bind // /conv rmorph_sum; apply: eq_bigr => j _.
  by rewrite rmorphM.
Qed.

(* the HRR inverse reverses the spectrum (for real vectors: conjugates it) *)
Theorem spectrum_invert a k :
  size a = d -> spectrum (hrr_invert a) k = spectrum a (- k).
Proof.
  move=> sa; rewrite /spectrum -(dft_reverse w_d).
  apply: eq_bigr => i _; congr (_ * _); congr (iota _).
  rewrite /hrr_invert sa nth_mkvec // -[in RHS](sub0r i) -subm_ord.
  by [].
Qed.

Hypothesis orth : forall j : 'I_d, j != 0 -> \sum_k chi w k j = 0.
Hypothesis d_reg : GRing.lreg (d%:R : C).
Hypothesis iota_inj : injective iota.

(* whatever vector has the product spectrum is the binding:
   irfft(rfft(a) . rfft(b)) is the circular convolution of a and b *)
Theorem product_spectrum_is_binding a b r :
  size a = d -> size r = d ->
  (forall k, spectrum r k = spectrum a k * spectrum b k) -> r = hrr_bind_core a b.
Proof.
  move=> sa sr H.
  apply: (@eq_vec_ord _ p) => //; first by rewrite size_hrr_bind.
  move=> i; apply: iota_inj.
  apply: (dft_injective w_d orth d_reg (f := fun i : 'I_d => iota (vnth r i))
                                       (g := fun i : 'I_d => iota (vnth (hrr_bind_core a b) i))).
  by move=> k; rewrite -/(spectrum r k) -/(spectrum (hrr_bind_core a b) k) H spectrum_bind.
Qed.

(* likewise for the inverse *)
Theorem reversed_spectrum_is_inverse a r :
  size a = d -> size r = d ->
  (forall k, spectrum r k = spectrum a (- k)) -> r = hrr_invert a.
Proof.
  move=> sa sr H.
  apply: (@eq_vec_ord _ p) => //; first by rewrite /hrr_invert size_mkvec.
  move=> i; apply: iota_inj.
  apply: (dft_injective w_d orth d_reg (f := fun i : 'I_d => iota (vnth r i))
                                       (g := fun i : 'I_d => iota (vnth (hrr_invert a) i))).
  by move=> k; rewrite -/(spectrum r k) -/(spectrum (hrr_invert a) k) H spectrum_invert.
Qed.

End HrrFourier.

(* ---- binding powers and unitarity in the Fourier domain ----------------------------------- *)
From NSpa Require Import Theory.ElemLaws Theory.PowerLaws.
Section HrrPowers.
Variable R : comRingType.
Variable C : comRingType.
Variable iota : {rmorphism R -> C}.
Variable p : nat.
Local Notation d := p.+1.
Variable w : C.
Hypothesis w_d : w ^+ d = 1.
Implicit Types a b : seq R.

(* the identity has the constant spectrum 1 *)
Theorem spectrum_identity (k : 'I_d) : spectrum iota w (hrr_identity R d) k = 1.
Proof.
  rewrite /spectrum /dft /hrr_identity (bigD1 ord0) //=.
  have -> : chi w k ord0 = 1 by rewrite /chi muln0.
  rewrite mulr1 rmorph1 big1 ?addr0 // => i ne.
  rewrite nth_vbasis //.
  have -> : (nat_of_ord i == 0%N) = false by apply/negbTE.
  by rewrite rmorph0 mul0r.
Qed.

(* binding_power with a natural exponent raises every spectral coefficient to that power:
   what irfft(rfft(v) ** n) computes is the n-fold binding *)
Theorem spectrum_pow a n (k : 'I_d) :
  size a = d -> spectrum iota w (hrr_pow_nat a n) k = spectrum iota w a k ^+ n.
Proof.
  move=> sa; elim: n => [|n IH].
    by rewrite hrr_pow0 sa spectrum_identity expr0.
  by rewrite hrr_powS (spectrum_bind iota w_d) ?size_hrr_pow // IH exprSr.
Qed.

(* a vector is unitary (its inverse undoes binding) iff every spectral coefficient times
   its mirror image is 1 - for real vectors: |F_k|^2 = 1 *)
Theorem spectrum_unitary a (k : 'I_d) :
  size a = d -> hrr_bind_core a (hrr_invert a) = hrr_identity R d ->
  spectrum iota w a k * spectrum iota w a (- k) = 1.
Proof.
  move=> sa H.
  by rewrite -(spectrum_invert iota w_d) // -(spectrum_bind iota w_d) // H spectrum_identity.
Qed.

End HrrPowers.

From mathcomp Require Import all_ssreflect all_algebra.
From NSpa Require Import Model.Vec Model.Vtb Model.Dynamic Theory.DynLin Theory.DynamicLaws Theory.DynamicBuild.
Set Implicit Arguments.
Unset Strict Implicit.
Unset Printing Implicit Defensive.
Import GRing.Theory.
Local Open Scope ring_scope.

Section StmtsN.
Variable R : comRingType.
Variable A : walg R.
Variable env_ptr : nat -> seq R.
Variable env_scalar : nat -> R.
Variable src_dim : nat -> nat.
Hypothesis L : walg_laws A.
Hypothesis env_size : forall i, size (env_ptr i) = src_dim i.

Definition builds (e : dexpr R) : bool := if build A src_dim e is Ok _ then true else false.

(* any number of statements into one sink: the sink receives the sum of their values *)
Theorem statements_add_n (e : dexpr R) (es : seq (dexpr R)) :
  builds e -> all builds es ->
  delivered_all A env_ptr env_scalar src_dim (e :: es)
  = foldl (fun acc e' => add_val acc (eval_sp A env_ptr env_scalar e')) (eval_sp A env_ptr env_scalar e) es.
Proof.
  rewrite /delivered_all /builds.
  case B: (build A src_dim e) => [b|] // _.
  rewrite (@compiler_correct _ _ _ _ _ L env_size _ _ B).
  elim: es (eval_sp A env_ptr env_scalar e) => [|e' es IH] acc //= /andP [].
  case B': (build A src_dim e') => [b'|] // _ ok.
  by rewrite (@compiler_correct _ _ _ _ _ L env_size _ _ B') IH.
Qed.
End StmtsN.

(* Translation between vocabularies preserves keyed content (C13). *)
From mathcomp Require Import all_ssreflect all_algebra.
From NSpa Require Import Model.Vec Model.Algebra Model.Translate Theory.SeqSum.
Set Implicit Arguments.
Unset Strict Implicit.
Unset Printing Implicit Defensive.
Import GRing.Theory.
Local Open Scope ring_scope.

Section Laws.
Variable R : comRingType.
Implicit Types (x s t : seq R) (pairs : seq (seq R * seq R)).

(* sum over the used keys of <s_k, x> t_k, component i *)
Definition combo pairs x (i : nat) : R :=
  foldr (fun p acc => vnth p.1 i * dot p.2 x + acc) 0 pairs.

Lemma foldr_sum_distr (A : Type) (l : seq A) (f : A -> nat -> R) n :
  \sum_(j < n) foldr (fun p acc => f p j + acc) 0 l =
  foldr (fun p acc => \sum_(j < n) f p j + acc) 0 l.
Proof.
  elim: l => [|p l IH] /=; first by rewrite big1.
  by rewrite big_split /= IH.
Qed.

(* the transform applied to any x is the similarity-weighted sum of targets *)
Theorem transform_apply d_to d_from pairs x i :
  (i < d_to)%N -> size x = d_from -> all (fun p => size p.2 == d_from) pairs ->
  vnth (matvec (outer_sum d_to d_from pairs) x) i = combo pairs x i.
Proof.
  move=> li sx szs.
  rewrite nth_matvec ?size_mkmat // row_mkmat // dot_mkvec /combo.
  rewrite (eq_bigr (fun j : 'I_d_from =>
      foldr (fun p acc => (vnth p.1 i * vnth p.2 j) * vnth x j + acc) 0 pairs)); last first.
    move=> j _; elim: pairs {szs} => [|p l IH] /=; first by rewrite mul0r.
    by rewrite mulrDl IH.
  rewrite (foldr_sum_distr pairs (fun p j => vnth p.1 i * vnth p.2 j * vnth x j)).
  elim: pairs szs => [|p l IH] //= /andP [/eqP sp al].
  rewrite IH //; congr (_ + _).
  rewrite /dot sp rsum_ord mulr_sumr.
  by apply: eq_bigr => j _; rewrite mulrA.
Qed.

(* orthonormal source entries map exactly onto their namesakes *)
Theorem orthonormal_sources_map_exactly d_to d_from pairs (j : nat) i :
  (i < d_to)%N -> all (fun p => size p.2 == d_from) pairs -> (j < size pairs)%N ->
  (forall k, (k < size pairs)%N ->
     dot (nth ([::], [::]) pairs k).2 (nth ([::], [::]) pairs j).2 = (k == j)%:R) ->
  vnth (matvec (outer_sum d_to d_from pairs) (nth ([::], [::]) pairs j).2) i =
  vnth (nth ([::], [::]) pairs j).1 i.
Proof.
  move=> li szs lj orth.
  have sj : size (nth ([::], [::]) pairs j).2 = d_from.
    by have /eqP := allP szs _ (mem_nth ([::], [::]) lj).
  rewrite transform_apply // /combo.
  set x := (nth _ pairs j).2.
  have E : forall (l : seq (seq R * seq R)) (off : nat),
      (forall k, (k < size l)%N -> dot (nth ([::], [::]) l k).2 x = ((k + off)%N == j)%:R) ->
      foldr (fun p acc => vnth p.1 i * dot p.2 x + acc) 0 l =
      \sum_(k < size l) ((k + off)%N == j)%:R * vnth (nth ([::], [::]) l k).1 i.
    elim=> [|p l IH] off H /=; first by rewrite big_ord0.
    rewrite big_ord_recl /= (H 0%N) // add0n [in RHS]mulrC; congr (_ + _).
    rewrite (IH off.+1); last by move=> k lk; rewrite (H k.+1) // addSnnS.
    by apply: eq_bigr => k _; rewrite /bump /= add1n addSnnS.
  rewrite (E pairs 0%N); last by move=> k lk; rewrite addn0 orth.
  rewrite (bigD1 (Ordinal lj)) //= addn0 eqxx mul1r big1 ?addr0 // => k ne.
  rewrite addn0 (_ : (nat_of_ord k == j) = false) ?mul0r //.
  by apply/negbTE; apply: contra ne => /eqP e; apply/eqP/val_inj.
Qed.

(* least-squares variant: any exact solution X of  from . X = to  maps every
   source row onto its target row:  X^T s_j = t_j *)
Theorem exact_solution_maps_rows (from to X : seq (seq R)) (d_from d_to : nat) (j i : nat) :
  (0 < d_from)%N -> (j < size from)%N -> (i < d_to)%N -> size X = d_from ->
  (forall k, (k < size X)%N -> size (nth [::] X k) = d_to) ->
  mnth (matmul from X) j i = mnth to j i ->
  vnth (matvec (mtrans X) (nth [::] from j)) i = mnth to j i.
Proof.
  move=> d0 lj li sX rows <-.
  have nc : ncols X = d_to by rewrite /ncols rows // sX.
  rewrite /mtrans nc sX nth_matvec ?size_mkmat // row_mkmat // dot_mkvec.
  rewrite /matmul nc mnth_mkmat // sX rsum_ord.
  apply: eq_bigr => k _.
  by rewrite mulrC.
Qed.

(* ---- which keys are used, and what happens to the target ---------------------- *)
Theorem used_keys_are_requested_and_held_by_both d_from d_to (src tgt_after : entries R) tgt_before
    requested populate strict m w used :
  transform_to d_from d_to src tgt_after tgt_before requested populate strict = TOk m w used ->
  forall k, k \in used ->
    [/\ k \in (if requested is Some l then l else map fst src), has_key src k &
        (k \in tgt_before) || (populate == Some true)].
Proof.
  rewrite /transform_to.
  set keys := [seq k <- undup _ | has_key src k].
  case: ifP => // _ [_ _ <-] k.
  have inkeys : forall k0, k0 \in keys -> (k0 \in (if requested is Some l then l else map fst src)) /\ has_key src k0.
    by move=> k0; rewrite mem_filter mem_undup => /andP [].
  case: populate => [[]|] /=.
  - by move=> /inkeys [a b]; split=> //; rewrite orbT.
  - by rewrite mem_filter => /andP [t /inkeys [a b]]; split=> //; rewrite t.
  - by rewrite mem_filter => /andP [t /inkeys [a b]]; split=> //; rewrite t.
Qed.

Theorem warning_iff_unspecified_and_missing d_from d_to (src tgt_after : entries R) tgt_before
    requested populate strict m w used :
  transform_to d_from d_to src tgt_after tgt_before requested populate strict = TOk m w used ->
  w = (populate == None) &&
      ([seq k <- [seq k <- undup (if requested is Some l then l else map fst src) | has_key src k]
              | k \notin tgt_before] != [::]).
Proof. by rewrite /transform_to; case: ifP => // _ [_ <- _]. Qed.

Theorem target_unchanged_unless_populate tgt_before src_keys requested populate :
  populate != Some true -> target_keys_after tgt_before src_keys requested populate = tgt_before.
Proof. by case: populate => [[]|]. Qed.

Theorem populate_creates_exactly_the_missing_requested_keys tgt_before src_keys requested :
  target_keys_after tgt_before src_keys requested (Some true) =
  tgt_before ++ [seq k <- [seq k <- undup (if requested is Some l then l else src_keys) | k \in src_keys]
                        | k \notin tgt_before].
Proof. by []. Qed.

End Laws.

(* Routing (Model/Routing.v): with ideal components and a one-hot selection, each
   target receives exactly the sum of the winner's effects and nothing else. *)
From mathcomp Require Import all_ssreflect all_algebra.
From NSpa Require Import Model.Vec Model.Routing Theory.SeqSum.
Set Implicit Arguments.
Unset Strict Implicit.
Unset Printing Implicit Defensive.
Import GRing.Theory Num.Theory Order.TTheory.
Local Open Scope ring_scope.

Lemma all_flatten' (T : Type) (P : pred T) (ss : seq (seq T)) : all P (flatten ss) = all (all P) ss.
Proof. by elim: ss => //= s ss <-; rewrite all_cat. Qed.

Section Laws.
Variable R : realDomainType.
Variable dims : nat -> nat.
Variable dyn : nat -> seq R.
Variable theta : R.
Hypothesis theta_lo : 0 <= theta.
Hypothesis theta_hi : theta < 1.

Local Notation contribution := (contribution dims dyn theta).
Local Notation received := (received dims dyn theta).
Local Notation declared := (declared dims dyn).
Local Notation effect_value := (effect_value dims dyn).
Local Notation effect_ok := (effect_ok dims dyn).

Lemma size_contribution act t i (e : effect R) :
  effect_ok e -> size (contribution act t (effect_wire i e)) = dims t.
Proof.
  rewrite /effect_ok /effect_wire; case: e => [[v|k] tg sc] /= /eqP sz.
  - by case: eqP => [<-|_]; rewrite ?size_vscale ?size_vzero.
  - by case: eqP => [<-|_] /=; [case: ifP | ]; rewrite ?size_vzero.
Qed.

Lemma size_received act t ws :
  all (fun w => size (contribution act t w) == dims t) ws -> size (received act t ws) = dims t.
Proof.
  case: ws => [|w ws] /=; first by rewrite size_vzero.
  by case/andP => /eqP sw _; rewrite size_vadd.
Qed.

Lemma nth_received act t ws j :
  all (fun w => size (contribution act t w) == dims t) ws ->
  vnth (received act t ws) j = \sum_(w <- ws) vnth (contribution act t w) j.
Proof.
  elim: ws => [|w ws IH] /=; first by rewrite big_nil nth_vzero.
  case/andP => /eqP sw ok; rewrite big_cons nth_vadd ?IH //.
  by rewrite sw size_received.
Qed.

Lemma size_effect_value t e : effect_ok e -> size (effect_value t e) = dims t.
Proof.
  rewrite /effect_ok /effect_value; case: e => [[v|k] tg sc] /= /eqP sz;
  by case: eqP => [<-|_]; rewrite ?size_vzero.
Qed.

Lemma size_declared t effs : all effect_ok effs -> size (declared t effs) = dims t.
Proof.
  case: effs => [|e effs] /=; first by rewrite size_vzero.
  by case/andP => ok _; rewrite size_vadd size_effect_value.
Qed.

Lemma nth_declared t effs j :
  all effect_ok effs -> vnth (declared t effs) j = \sum_(e <- effs) vnth (effect_value t e) j.
Proof.
  elim: effs => [|e effs IH] /=; first by rewrite big_nil nth_vzero.
  case/andP => ok oks; rewrite big_cons nth_vadd ?IH //.
  by rewrite size_effect_value // size_declared.
Qed.

(* a wire of action i under a one-hot selection at w *)
Lemma contribution_onehot w t i (e : effect R) j :
  vnth (contribution (onehot R w) t (effect_wire i e)) j
  = if i == w then vnth (effect_value t e) j else 0.
Proof.
  rewrite /effect_wire /effect_value /onehot; case: e => [[v|k] tg sc] /=.
  - case: (tg == t); last by rewrite nth_vzero; case: ifP.
    by rewrite nth_vscale; case: (i == w); rewrite ?mul1r ?mul0r.
  - case: (tg == t) => /=; last by rewrite nth_vzero; case: ifP.
    case: (i == w) => /=.
      by rewrite /gate_active subrr ltNge theta_lo.
    by rewrite /gate_active subr0 theta_hi /= nth_vzero.
Qed.

(* the property on the ideal model: the winner's effects, and only those *)
Theorem winner_effects_reach_targets (actions : seq (seq (effect R))) w t :
  (w < size actions)%N -> all (all effect_ok) actions ->
  received (onehot R w) t (build actions) = declared t (nth [::] actions w).
Proof.
  move=> lt ok.
  have okw : all effect_ok (nth [::] actions w) by move/all_nthP: ok; apply.
  have wires_ok : all (fun x => size (contribution (onehot R w) t x) == dims t) (build actions).
    rewrite /build all_cat; apply/andP; split.
      by rewrite all_map; apply/(all_nthP 0%N) => i _ /=; rewrite size_vzero.
    rewrite /build_from all_flatten' all_map; apply/(all_nthP (0%N, [::])) => n.
    rewrite size_zip size_iota minnn => ln.
    rewrite nth_zip ?size_iota // /= all_map; apply/(all_nthP (Effect (SDyn R 0) 0 false)) => m lm /=.
    apply/eqP; apply: size_contribution.
    move/all_nthP: ok => /(_ [::] n ln) /all_nthP; exact.
  apply: eq_vec; first by rewrite size_received // size_declared.
  move=> j _; rewrite nth_received // nth_declared // /build big_cat /=.
  rewrite big_map big1 ?add0r; last by move=> i _; rewrite /= nth_vzero.
  rewrite /build_from big_flatten /= big_map.
  rewrite (big_nth (0%N, [::])) size_zip size_iota minnn big_mkord.
  rewrite (bigD1 (Ordinal lt)) //= nth_zip ?size_iota // nth_iota // add0n /=.
  rewrite big_map [X in _ + X]big1 ?addr0; last first.
    move=> i ne; rewrite nth_zip ?size_iota // nth_iota // add0n /= big_map.
    apply: big1 => e _; rewrite contribution_onehot.
    by case: eqP => // e'; case/negP: ne; apply/eqP/val_inj.
  by apply: eq_bigr => e _; rewrite contribution_onehot eqxx.
Qed.

(* nothing of a losing action arrives: an action that declares the only effects into a
   target contributes the zero vector when another action wins *)
Corollary losers_are_silent (actions : seq (seq (effect R))) w t :
  (w < size actions)%N -> all (all effect_ok) actions ->
  all (fun e => e_target e != t) (nth [::] actions w) ->
  received (onehot R w) t (build actions) = vzero R (dims t).
Proof.
  move=> lt ok none; rewrite winner_effects_reach_targets //.
  have okw : all effect_ok (nth [::] actions w) by move/all_nthP: ok; apply.
  apply: eq_vec; first by rewrite size_declared // size_vzero.
  move=> j _; rewrite nth_declared // nth_vzero.
  rewrite (big_nth (Effect (SDyn R 0) 0 false)) big_nat big1 // => i /andP [_ li].
  move/all_nthP: none => /(_ (Effect (SDyn R 0) 0 false) i li) ne.
  by rewrite /Routing.effect_value (negbTE ne) nth_vzero.
Qed.

(* utilities are connected index by index *)
Theorem utilities_by_index (actions : seq (seq (effect R))) i :
  (i < size actions)%N -> nth (WUtility R 0 0) (build actions) i = WUtility R i i.
Proof.
  move=> lt; rewrite /build nth_cat size_map size_iota lt.
  by rewrite (nth_map 0%N) ?size_iota // nth_iota.
Qed.

End Laws.

(* Vector generators (C19): orthogonalisation from the solver's post-condition,
   axis vectors, create_vector decision logic. *)
From mathcomp Require Import all_ssreflect all_algebra.
From NSpa Require Import Model.Vec Model.Algebra Model.VecGen Theory.SeqSum.
Set Implicit Arguments.
Unset Strict Implicit.
Unset Printing Implicit Defensive.
Import GRing.Theory.
Local Open Scope ring_scope.

Section Ortho.
Variable R : comRingType.
Implicit Types (u v x : seq R) (vs : seq (seq R)).

Lemma dot_cat u1 u2 v1 v2 :
  size u1 = size v1 -> dot (u1 ++ u2) (v1 ++ v2) = dot u1 v1 + dot u2 v2.
Proof.
  move=> s1; rewrite /dot size_cat !rsumE.
  rewrite (@big_cat_nat _ _ _ (size u1)) //=; last exact: leq_addr.
  congr (_ + _).
    rewrite !big_nat; apply: eq_bigr => i /andP [_ lt].
    by rewrite /vnth !nth_cat lt -s1 lt.
  rewrite -{1}[size u1]add0n big_addn addKn.
  apply: eq_bigr => i _.
  by rewrite /vnth !nth_cat -s1 ltnNge leq_addl /= addnK.
Qed.

(* the new vector is orthogonal to every earlier one, given A x = y *)
Theorem ortho_new_is_orthogonal i vs v x k :
  (k < size vs)%N -> (i <= size (nth [::] vs k))%N -> size x = i ->
  vnth (matvec (ortho_A i vs) x) k = vnth (ortho_y i vs v) k ->
  dot (nth [::] vs k) (ortho_new i x v) = 0.
Proof.
  move=> lk li sx sol.
  set u := nth [::] vs k.
  rewrite -(cat_take_drop i u) /ortho_new dot_cat; last by rewrite size_take sx; case: ltngtP li.
  move: sol; rewrite nth_matvec ?size_map // /ortho_A (nth_map [::]) // -/u.
  rewrite /ortho_y /vnth (nth_map [::]) // -/u => ->.
  by rewrite addNr.
Qed.

(* scaling keeps orthogonality (the final normalisation) *)
Theorem scale_keeps_orthogonal c u v : dot u v = 0 -> dot u (vscale c v) = 0.
Proof.
  rewrite /dot !rsum_ord => e.
  rewrite (eq_bigr (fun i : 'I_(size u) => c * (vnth u i * vnth v i))).
    by rewrite -mulr_sumr e mulr0.
  by move=> i _; rewrite nth_vscale mulrCA.
Qed.

(* axis-aligned vectors are the basis vectors in order *)
Theorem axis_vectors_in_order d k :
  (k < d)%N -> nth [::] (axis_vectors R d) k = vbasis R d k.
Proof. by move=> lk; rewrite /axis_vectors (nth_map 0%N) ?size_iota // nth_iota. Qed.

Theorem axis_vectors_count d : size (axis_vectors R d) = d.
Proof. by rewrite /axis_vectors size_map size_iota. Qed.

End Ortho.

(* create_vector: unknown properties are rejected, whatever else is asked
   (without SciPy a positive-only request to VTB/TVTB already fails with ImportError) *)
Theorem unknown_property_rejected al scipy props :
  has PUnknown props ->
  create_vector_outcome al scipy props = CVValueError \/
  create_vector_outcome al scipy props = CVImportError.
Proof.
  move=> hu; rewrite /create_vector_outcome hu.
  case: al; case: (has PUnitary props); case: (has PPositive props); case: scipy => /=; by [left | right].
Qed.

Theorem hrr_unknown_property_is_value_error scipy props :
  has PUnknown props -> create_vector_outcome AHrr scipy props = CVValueError.
Proof. by rewrite /create_vector_outcome => ->. Qed.

Theorem square_algebras_positive_unitary_is_identity al scipy props :
  al <> AHrr -> has PUnitary props -> has PPositive props -> ~~ has PUnknown props ->
  create_vector_outcome al scipy props = CVIdentityWithWarning.
Proof. by rewrite /create_vector_outcome; case: al => // _ -> -> /negbTE ->. Qed.

(* Sign and absolute value (C17). *)
From mathcomp Require Import all_ssreflect all_algebra zify.
From NSpa Require Import Model.Vec Model.Hrr Model.Vtb Model.Sign
  Theory.SeqSum Theory.Conv Theory.MxBridge Theory.VtbLaws Theory.ElemLaws.
Set Implicit Arguments.
Unset Strict Implicit.
Unset Printing Implicit Defensive.
Import Order.TTheory GRing.Theory Num.Theory.
Local Open Scope ring_scope.

(* ---- characters of Z_d: sum_i chi(i) (f*g)(i) = (sum chi f)(sum chi g) ---- *)
Section Character.
Variable R : comRingType.
Variable p : nat.
Local Notation d := p.+1.
Variable chi : 'I_d -> R.
Hypothesis chi_mul : forall i j : 'I_d, chi i = chi (i - j) * chi j.

Lemma conv_character (f g : 'I_d -> R) :
  \sum_i chi i * conv f g i = (\sum_i chi i * f i) * (\sum_i chi i * g i).
Proof.
  rewrite /conv.
  under eq_bigr => i _ do rewrite mulr_sumr.
  rewrite exchange_big /= mulr_suml; apply: eq_bigr => j _.
  rewrite mulr_sumr (reindex_inj (h := fun i => i + j)) /=; last exact: addIr.
  apply: eq_bigr => i _.
  rewrite addrK (chi_mul (i + j) j) addrK.
  by rewrite [chi i * chi j]mulrC mulrACA.
Qed.
End Character.

Section HrrSignLaws.
Variable R : realDomainType.
Implicit Types (a b v : seq R).

(* DC component *)
Theorem hrr_dc_bind a b :
  size a = size b -> hrr_dc (hrr_bind_core a b) = hrr_dc a * hrr_dc b.
Proof.
  case: (size_cases a) => [->|[p sa]] sb.
    move/esym/eqP: sb; rewrite size_eq0 => /eqP ->.
    by rewrite /hrr_dc /sumv /rsum /= mulr0.
  have sb' : size b = p.+1 by rewrite -sb.
  rewrite /hrr_dc /sumv size_hrr_bind sa sb' !rsum_ord.
  rewrite (eq_bigr (fun i : 'I_p.+1 => conv (ifun p a) (ifun p b) i)); last first.
    by move=> i _; rewrite nth_hrr_bind.
  by rewrite conv_sum.
Qed.

(* Nyquist component, even d *)
Lemma odd_mod_even d x : ~~ odd d -> odd (x %% d) = odd x.
Proof.
  by move=> ev; rewrite [in RHS](divn_eq x d) oddD oddM (negbTE ev) andbF.
Qed.

Lemma parity_sub p (i j : 'I_p.+1) :
  ~~ odd p.+1 -> odd (i - j)%R = odd i (+) odd j.
Proof.
  move=> ev.
  have lj : (j <= p.+1)%N by apply: ltnW.
  have -> : nat_of_ord (i - j)%R = ((i + (p.+1 - j) %% p.+1) %% p.+1)%N by [].
  by rewrite !odd_mod_even // oddD odd_mod_even // oddB // (negbTE ev).
Qed.

Lemma signr_odd_chi p (i j : 'I_p.+1) :
  ~~ odd p.+1 -> ((-1) ^+ i : R) = (-1) ^+ (i - j)%R * (-1) ^+ j.
Proof.
  move=> ev.
  rewrite -(signr_odd _ i) -(signr_odd _ (i - j)%R) -(signr_odd _ j).
  rewrite parity_sub // signr_addb.
  by rewrite -mulrA -signr_addb addbb mulr1.
Qed.

Theorem hrr_nyq_bind a b :
  size a = size b -> ~~ odd (size a) ->
  hrr_nyq (hrr_bind_core a b) = hrr_nyq a * hrr_nyq b.
Proof.
  case: (size_cases a) => [->|[p sa]] sb ev.
    move/esym/eqP: sb; rewrite size_eq0 => /eqP ->.
    by rewrite /hrr_nyq /= /rsum /= mulr0.
  have sb' : size b = p.+1 by rewrite -sb.
  rewrite /hrr_nyq size_hrr_bind sa sb'.
  rewrite sa in ev; rewrite (negbTE ev) !rsum_ord.
  rewrite (eq_bigr (fun i : 'I_p.+1 => (-1) ^+ i * conv (ifun p a) (ifun p b) i)); last first.
    by move=> i _; rewrite nth_hrr_bind.
  rewrite (conv_character (chi := fun i : 'I_p.+1 => (-1) ^+ i)) //.
  by move=> i j; exact: signr_odd_chi.
Qed.

(* three-valued signs multiply *)
Lemma sgn3_of_mul (x y : R) : sgn3_of (x * y) = sgn3_mul (sgn3_of x) (sgn3_of y).
Proof.
  rewrite /sgn3_of mulf_eq0.
  case: (ltrgt0P x) => hx; case: (ltrgt0P y) => hy //=;
    rewrite ?hx ?hy ?mulr0 ?mul0r ?eqxx ?ltxx //.
  - by rewrite mulr_gt0.
  - by rewrite pmulr_rgt0 // ltNge (ltW hy).
  - by rewrite pmulr_lgt0 // ltNge (ltW hx).
  - by rewrite nmulr_lgt0 // hx.
Qed.

Lemma sgn3_of0 : sgn3_of (0 : R) = SZero.
Proof. by rewrite /sgn3_of eqxx. Qed.

Lemma sgn3_of_neq0 (x : R) : x != 0 -> sgn3_of x = SPos \/ sgn3_of x = SNeg.
Proof. by rewrite /sgn3_of => /negbTE ->; case: ifP; [left | right]. Qed.

(* totality, proved on the complement of the refuted class *)
Definition exactly_one (p n z i : bool) : bool :=
  [|| [&& p, ~~ n, ~~ z & ~~ i], [&& ~~ p, n, ~~ z & ~~ i],
      [&& ~~ p, ~~ n, z & ~~ i] | [&& ~~ p, ~~ n, ~~ z & i]].

Theorem hrr_sign_total_partial v :
  (hrr_dc v != 0) || (hrr_nyq v == 0) ->
  exists2 s, hrr_sign_of v = Ok s &
    exactly_one (sign_is_positive s) (sign_is_negative s) (sign_is_zero s) (sign_is_indefinite s).
Proof.
  rewrite /hrr_sign_of /sgn3_of.
  case: (ltrgt0P (hrr_dc v)) => hd; case: (ltrgt0P (hrr_nyq v)) => hn //= _;
    by eexists; try reflexivity.
Qed.

Theorem hrr_sign_error_iff v :
  hrr_sign_of v = Err ValueError <-> (hrr_dc v == 0) && (hrr_nyq v != 0).
Proof.
  rewrite /hrr_sign_of /sgn3_of.
  by case: (ltrgt0P (hrr_dc v)) => hd; case: (ltrgt0P (hrr_nyq v)) => hn.
Qed.

(* raw signs of a binding are the products of the raw signs *)
Theorem hrr_sign_bind_raw a b :
  size a = size b ->
  sgn3_of (hrr_dc (hrr_bind_core a b)) = sgn3_mul (sgn3_of (hrr_dc a)) (sgn3_of (hrr_dc b)) /\
  sgn3_of (hrr_nyq (hrr_bind_core a b)) = sgn3_mul (sgn3_of (hrr_nyq a)) (sgn3_of (hrr_nyq b)).
Proof.
  move=> sab; split; first by rewrite hrr_dc_bind // sgn3_of_mul.
  case ev: (odd (size a)).
    by rewrite /hrr_nyq size_hrr_bind -sab ev /sgn3_of eqxx.
  by rewrite hrr_nyq_bind ?ev // sgn3_of_mul.
Qed.

(* the constructed sign of a binding is the component-wise product whenever no
   Nyquist coefficient vanishes (or d is odd) *)
Definition sign_mul (s t : hrr_sign) : hrr_sign :=
  HrrSignOf (sgn3_mul (dc_sign s) (dc_sign t)) (sgn3_mul (nyq_sign s) (nyq_sign t)).

Theorem hrr_sign_bind_partial a b sa sb :
  size a = size b ->
  odd (size a) || ((hrr_nyq a != 0) && (hrr_nyq b != 0)) ->
  hrr_sign_of a = Ok sa -> hrr_sign_of b = Ok sb ->
  hrr_sign_of (hrr_bind_core a b) = Ok (sign_mul sa sb).
Proof.
  move=> sab H.
  have [Hd Hn] := hrr_sign_bind_raw sab.
  rewrite /hrr_sign_of Hd Hn.
  case/orP: H => [od|/andP [na nb]].
    have za : hrr_nyq a = 0 by rewrite /hrr_nyq od.
    have zb : hrr_nyq b = 0 by rewrite /hrr_nyq -sab od.
    rewrite za zb sgn3_of0.
    by case: (sgn3_of (hrr_dc a)); case: (sgn3_of (hrr_dc b)) => //= -[<-] [<-].
  case: (sgn3_of_neq0 na) => ->; case: (sgn3_of_neq0 nb) => ->;
  by case: (sgn3_of (hrr_dc a)); case: (sgn3_of (hrr_dc b)) => //= -[<-] [<-].
Qed.

End HrrSignLaws.

(* ---- GenericSign predicates are mutually exclusive and exhaustive -------- *)
Theorem gsign_exactly_one g :
  exactly_one (g_is_positive g) (g_is_negative g) (g_is_zero g) (g_is_indefinite g).
Proof. by case: g. Qed.

(* ---- VTB / TVTB: a congruence certificate decides definiteness ------------ *)
Section QuadraticForm.
Variable R : realDomainType.
Variable n : nat.
Implicit Types (L V : 'M[R]_n) (d : 'rV[R]_n) (x y : 'cV[R]_n).

Definition quad V x : R := (x^T *m V *m x) 0 0.

Lemma quad_diag d y : quad (diag_mx d) y = \sum_i d 0 i * (y i 0) ^+ 2.
Proof.
  rewrite /quad mxE; apply: eq_bigr => i _.
  by rewrite mul_mx_diag !mxE expr2 [y i 0 * d 0 i]mulrC mulrA.
Qed.

Lemma quad_congr L d x :
  quad (L *m diag_mx d *m L^T) x = quad (diag_mx d) (L^T *m x).
Proof. by rewrite /quad trmx_mul trmxK !mulmxA. Qed.

Lemma congr_nonzero L x : L \in unitmx -> x != 0 -> L^T *m x != 0.
Proof.
  move=> uL; apply: contra => /eqP e.
  have uT : L^T \in unitmx by rewrite unitmx_tr.
  by rewrite -(mulKmx uT x) e mulmx0.
Qed.

Lemma col_nonzero y : y != 0 -> exists i, y i 0 != 0.
Proof.
  move=> ne; apply/existsP; apply: contraNT ne.
  rewrite negb_exists => /forallP H; apply/eqP/matrixP => i j.
  by rewrite ord1 mxE; move: (H i); rewrite negbK => /eqP.
Qed.

(* all d_i > 0: positive definite *)
Theorem cert_posdef L d V :
  V = L *m diag_mx d *m L^T -> L \in unitmx -> (forall i, 0 < d 0 i) ->
  forall x, x != 0 -> 0 < quad V x.
Proof.
  move=> -> uL dpos x x0; rewrite quad_congr quad_diag.
  have [i yi] := col_nonzero (congr_nonzero uL x0).
  rewrite (bigD1 i) //=; apply: ltr_paddr.
    by apply: sumr_ge0 => j _; rewrite mulr_ge0 ?sqr_ge0 // ltW.
  by rewrite mulr_gt0 // exprn_even_gt0.
Qed.

(* all d_i < 0: negative definite *)
Theorem cert_negdef L d V :
  V = L *m diag_mx d *m L^T -> L \in unitmx -> (forall i, d 0 i < 0) ->
  forall x, x != 0 -> quad V x < 0.
Proof.
  move=> eV uL dneg x x0.
  have eN : - V = L *m diag_mx (- d) *m L^T.
    by rewrite eV (linearN (diag_mx_linear _ _)) /= mulmxN mulNmx.
  have pos : forall i, 0 < (- d) 0 i by move=> i; rewrite mxE oppr_gt0.
  have := cert_posdef eN uL pos x0.
  by rewrite /quad mulmxN mulNmx mxE oppr_gt0.
Qed.

(* d = 0: the matrix is zero *)
Theorem cert_zero L d V :
  V = L *m diag_mx d *m L^T -> d = 0 -> V = 0.
Proof. by move=> -> ->; rewrite (linear0 (diag_mx_linear _ _)) mulmx0 mul0mx. Qed.

(* mixed signs: the form takes both signs, so V is neither positive nor
   negative definite *)
Theorem cert_indefinite L d V i j :
  V = L *m diag_mx d *m L^T -> L \in unitmx -> 0 < d 0 i -> d 0 j < 0 ->
  (exists x, 0 < quad V x) /\ (exists x, quad V x < 0).
Proof.
  move=> -> uL di dj.
  have uT : L^T \in unitmx by rewrite unitmx_tr.
  have E k : quad (L *m diag_mx d *m L^T) (invmx L^T *m delta_mx k 0) = d 0 k.
    rewrite quad_congr mulKVmx // quad_diag (bigD1 k) //= mxE !eqxx expr1n mulr1.
    rewrite big1 ?addr0 // => m ne; rewrite mxE (negbTE ne) /= expr0n mulr0 //.
  by split; [exists (invmx L^T *m delta_mx i 0) | exists (invmx L^T *m delta_mx j 0)]; rewrite E.
Qed.

(* negation flips the form; a definite matrix is symmetric by convention of
   the classifier (non-symmetric matrices are reported indefinite) *)
Theorem quad_opp V x : quad (- V) x = - quad V x.
Proof. by rewrite /quad mulmxN mulNmx mxE. Qed.

End QuadraticForm.

(* ---- HRR: sign vectors are unitary, so binding the sign back onto the
        absolute value reconstructs the vector ------------------------------ *)
Section HrrAbs.
Variable R : realDomainType.
Implicit Types (a b v : seq R).

Lemma conv_delta p (k : 'I_p.+1) (g : 'I_p.+1 -> R) i :
  conv (fun j => (j == k)%:R) g i = g (i - k).
Proof.
  rewrite /conv (bigD1 k) //= eqxx mul1r big1 ?addr0 // => j ne.
  by rewrite (negbTE ne) mul0r.
Qed.

Lemma ifun_invert p v (i : 'I_p.+1) :
  size v = p.+1 -> ifun p (hrr_invert v) i = ifun p v (- i).
Proof.
  move=> sv; rewrite /ifun /hrr_invert sv nth_mkvec //.
  by rewrite -[(- i)%R]add0r (subm_ord 0 i).
Qed.

Lemma basis_unitary d k : (k < d)%N -> hrr_unitary (vbasis R d k).
Proof.
  case: d => // p lk; rewrite /hrr_unitary size_vbasis.
  apply: (@eq_vec_ord _ p); rewrite ?size_hrr_bind ?size_vbasis ?size_hrr_identity // => i.
  rewrite nth_hrr_bind ?size_vbasis //.
  have E : ifun p (vbasis R p.+1 k) =1 (fun j => (j == Ordinal lk)%:R).
    by move=> j; rewrite /ifun nth_vbasis.
  rewrite (eq_conv E (frefl _)) conv_delta ifun_invert ?size_vbasis // /ifun nth_vbasis //.
  rewrite /hrr_identity nth_vbasis //.
  congr ((nat_of_bool _)%:R); apply/eqP/eqP => [e|e].
    have : (- (i - Ordinal lk))%R = Ordinal lk by apply: val_inj.
    rewrite opprB => /(congr1 (fun x => x - Ordinal lk)%R).
    by rewrite addrAC !subrr sub0r => /eqP; rewrite oppr_eq0 => /eqP ->.
  have -> : i = 0%R by apply: val_inj.
  by rewrite sub0r opprK.
Qed.

Lemma hrr_invert_scale c v : hrr_invert (vscale c v) = vscale c (hrr_invert v).
Proof.
  apply: eq_vec; first by rewrite size_vscale !size_mkvec size_vscale.
  rewrite size_mkvec size_vscale => i lt.
  by rewrite /hrr_invert size_vscale nth_mkvec // !nth_vscale nth_mkvec.
Qed.

Lemma scaled_basis_unitary d k c :
  (k < d)%N -> c * c = 1 -> hrr_unitary (vscale c (vbasis R d k)).
Proof.
  move=> lk cc; rewrite /hrr_unitary hrr_invert_scale size_vscale.
  rewrite hrr_bind_scalel hrr_bind_scaler ?size_hrr_invert //.
  have := basis_unitary lk; rewrite /hrr_unitary => ->.
  rewrite size_vbasis.
  apply: eq_vec; rewrite ?size_vscale // => i _.
  by rewrite !nth_vscale mulrA cc mul1r.
Qed.

(* the vector of every definite non-zero sign is unitary *)
Theorem sign_vector_unitary (s : hrr_sign) d :
  (0 < d)%N -> (if dc_sign s is SZero then false else true) ->
  hrr_unitary (hrr_sign_to_vector R s d).
Proof.
  move=> d0; rewrite /hrr_sign_to_vector.
  case: (dc_sign s) => // _.
  - case: (sgn3_mul _ _); apply: scaled_basis_unitary; rewrite ?ltn_mod //=;
      by rewrite mulrNN mulr1.
  - case: (sgn3_mul _ _); apply: scaled_basis_unitary; rewrite ?ltn_mod //=;
      by rewrite mulr1.
Qed.

(* binding the sign's vector back onto the absolute value reconstructs v *)
Theorem hrr_sign_times_abs v s w :
  (0 < size v)%N -> hrr_sign_of v = Ok s ->
  (if dc_sign s is SZero then false else true) ->
  hrr_abs v = Ok w ->
  hrr_bind_core (hrr_sign_to_vector R s (size v)) w = v.
Proof.
  move=> d0 es nz; rewrite /hrr_abs es /=.
  set sv := hrr_sign_to_vector R s (size v).
  have ssv : size sv = size v.
    rewrite /sv /hrr_sign_to_vector.
    by case: (dc_sign s) => /=; rewrite ?size_vzero // size_vscale;
       case: (nyq_sign s) => /=; rewrite size_vbasis.
  rewrite /hrr_bind size_hrr_invert ssv eqxx => -[<-].
  rewrite -hrr_bind_assoc ?size_hrr_invert //.
  have U := sign_vector_unitary d0 nz; rewrite /hrr_unitary -/sv in U.
  by rewrite U ssv hrr_identity_left.
Qed.

End HrrAbs.

(* One vocabulary map per model, whatever the nesting (C18). *)
From Coq Require Import List Bool Arith Lia.
From NSpa Require Import Model.NetworkCtx.
Import ListNotations.

Scheme tree_ind2 := Induction for tree Sort Prop
  with forest_ind2 := Induction for forest Sort Prop.
Combined Scheme tree_forest_ind from tree_ind2, forest_ind2.

(* the map a non-overridden resolution would use, if already determined *)
Definition eff (cfg : option nat) (s : cstate) : option nat :=
  match cfg with Some m => Some m | None => master s end.

Definition all_map (occs : list occ) (M : nat) : Prop :=
  forall o, In o occs -> o_over o = false -> o_map o = M.
Definition none_plain (occs : list occ) : Prop :=
  forall o, In o occs -> o_over o = true.

Lemma all_map_app a b M : all_map a M -> all_map b M -> all_map (a ++ b) M.
Proof. intros A B o H. apply in_app_or in H. destruct H; auto. Qed.
Lemma none_plain_app a b : none_plain a -> none_plain b -> none_plain (a ++ b).
Proof. intros A B o H. apply in_app_or in H. destruct H; auto. Qed.
Lemma none_plain_all_map a M : none_plain a -> all_map a M.
Proof. intros A o H K. rewrite (A o H) in K. discriminate. Qed.

(* the specification proved by mutual induction *)
Definition spec_tree (t : tree) : Prop :=
  forall cfg over s occs s',
    build t cfg true over s = (occs, s') ->
    (* overridden subtrees: only overridden occurrences; with a configured
       default the master entry is never touched *)
    (over = true -> none_plain occs) /\
    (forall m, cfg = Some m -> master s' = master s) /\
    (* once determined, the effective map never changes and is used throughout *)
    (forall M, eff cfg s = Some M -> all_map occs M /\ eff cfg s' = Some M) /\
    (eff cfg s = None ->
       (eff cfg s' = None /\ none_plain occs) \/
       (exists M, eff cfg s' = Some M /\ all_map occs M)).

Definition spec_forest (f : forest) : Prop :=
  forall cfg over s occs s',
    build_forest f cfg true over s = (occs, s') ->
    (over = true -> none_plain occs) /\
    (forall m, cfg = Some m -> master s' = master s) /\
    (forall M, eff cfg s = Some M -> all_map occs M /\ eff cfg s' = Some M) /\
    (eff cfg s = None ->
       (eff cfg s' = None /\ none_plain occs) \/
       (exists M, eff cfg s' = Some M /\ all_map occs M)).

Lemma single_all_map over m d M : (over = false -> m = M) -> all_map [Occ over m d] M.
Proof. intros H o [<-|[]] K. cbn in *. auto. Qed.

Ltac split4 := split; [|split; [|split]].

Lemma spec_all : (forall t, spec_tree t) /\ (forall f, spec_forest f).
Proof.
  apply tree_forest_ind.
  - (* Module *)
    intros d cfg over s occs s' H. cbn in H.
    destruct cfg as [m|]; cbn in H.
    + inversion H; subst; clear H. split4.
      * intros -> o [<-|[]]. reflexivity.
      * intros m0 _. reflexivity.
      * intros M E. cbn in E. inversion E; subst. split; [|reflexivity].
        apply single_all_map. auto.
      * cbn. intros E. discriminate.
    + destruct (master s) as [m|] eqn:Em; cbn in H.
      * inversion H; subst; clear H. split4.
        -- intros -> o [<-|[]]. reflexivity.
        -- intros m0 E. discriminate.
        -- intros M E. cbn in E. rewrite Em in E. inversion E; subst. split; [|cbn; exact Em].
           apply single_all_map. auto.
        -- cbn. rewrite Em. discriminate.
      * inversion H; subst; clear H. split4.
        -- intros -> o [<-|[]]. reflexivity.
        -- intros m0 E. discriminate.
        -- intros M E. cbn in E. rewrite Em in E. discriminate.
        -- intros _. right. exists (next_map s). split; [reflexivity|].
           apply single_all_map. auto.
  - (* Plain *)
    intros ch IH cfg over s occs s' H. cbn in H. apply (IH cfg over s occs s' H).
  - (* Spa *)
    intros explicit seed ch IH cfg over s occs s' H. cbn in H.
    destruct explicit.
    + (* explicit override: a fresh unregistered map; everything below is overridden *)
      cbn in H. rewrite orb_true_r in H.
      set (s1 := {| next_map := S (next_map s); master := master s; seeds := seeds s ++ [(next_map s, seed)] |}) in *.
      destruct (IH (Some (next_map s)) true s1 occs s' H) as (A & B & _ & _).
      specialize (A eq_refl). specialize (B _ eq_refl).
      assert (Em : master s' = master s) by exact B.
      split4.
      * intros _. exact A.
      * intros m _. exact Em.
      * intros M E. split; [apply none_plain_all_map; exact A|].
        destruct cfg; cbn in *; congruence.
      * intros E. left. split; [destruct cfg; cbn in *; congruence|exact A].
    + (* inherits the model's map *)
      rewrite orb_false_r in H.
      destruct (resolve cfg true seed s) as [m s1] eqn:Er.
      destruct (IH (Some m) over s1 occs s' H) as (A & B & C & _).
      specialize (B _ eq_refl). destruct (C m eq_refl) as (C1 & _).
      unfold resolve in Er. destruct cfg as [m0|].
      * inversion Er; subst; clear Er. split4.
        -- exact A.
        -- intros m1 _. exact B.
        -- intros M E. cbn in E. inversion E; subst. split; [exact C1|reflexivity].
        -- cbn. discriminate.
      * destruct (master s) as [m0|] eqn:Em.
        -- inversion Er; subst; clear Er. split4.
           ++ exact A.
           ++ intros m1 E; discriminate.
           ++ intros M E. cbn in E. rewrite Em in E. inversion E; subst.
              split; [exact C1|cbn; congruence].
           ++ cbn. rewrite Em. discriminate.
        -- cbn in Er. inversion Er; subst; clear Er. cbn in B. split4.
           ++ exact A.
           ++ intros m1 E; discriminate.
           ++ intros M E. cbn in E. rewrite Em in E. discriminate.
           ++ intros _. right. exists (next_map s). split; [cbn; exact B|exact C1].
  - (* FNil *)
    intros cfg over s occs s' H. cbn in H. inversion H; subst. split4.
    + intros _ o [].
    + intros m _. reflexivity.
    + intros M E. split; [intros o []|exact E].
    + intros E. left. split; [exact E|intros o []].
  - (* FCons *)
    intros t IHt r IHr cfg over s occs s' H. cbn in H.
    destruct (build t cfg true over s) as [o1 s1] eqn:E1.
    destruct (build_forest r cfg true over s1) as [o2 s2] eqn:E2.
    inversion H; subst; clear H.
    destruct (IHt cfg over s o1 s1 E1) as (A1 & B1 & C1 & D1).
    destruct (IHr cfg over s1 o2 s' E2) as (A2 & B2 & C2 & D2).
    split4.
    + intros Ho. apply none_plain_app; auto.
    + intros m Ec. rewrite (B2 m Ec). apply (B1 m Ec).
    + intros M E. destruct (C1 M E) as (X1 & Y1). destruct (C2 M Y1) as (X2 & Y2).
      split; [apply all_map_app; assumption|exact Y2].
    + intros E. destruct (D1 E) as [(N1 & P1)|(M & N1 & P1)].
      * destruct (D2 N1) as [(N2 & P2)|(M & N2 & P2)].
        -- left. split; [exact N2|apply none_plain_app; assumption].
        -- right. exists M. split; [exact N2|].
           apply all_map_app; [apply none_plain_all_map; exact P1|exact P2].
      * destruct (C2 M N1) as (X2 & Y2). right. exists M. split; [exact Y2|].
        apply all_map_app; assumption.
Qed.

(* ---- the model-level statements ------------------------------------------- *)
Theorem one_map_per_model t first occs s' :
  build_model t first = (occs, s') ->
  forall o1 o2, In o1 occs -> In o2 occs ->
    o_over o1 = false -> o_over o2 = false -> o_map o1 = o_map o2.
Proof.
  unfold build_model. destruct t as [d|ch|explicit seed ch]; cbn.
  - intros H; inversion H; subst. intros o1 o2 [<-|[]] [<-|[]] _ _. reflexivity.
  - intros H. destruct (proj2 spec_all ch None false _ _ _ H) as (_ & _ & _ & D).
    destruct (D eq_refl) as [(_ & P)|(M & _ & P)]; intros o1 o2 I1 I2 H1 H2.
    + rewrite (P o1 I1) in H1. discriminate.
    + rewrite (P o1 I1 H1), (P o2 I2 H2). reflexivity.
  - destruct explicit; cbn; intros H.
    + destruct (proj2 spec_all ch _ _ _ _ _ H) as (A & _).
      intros o1 o2 I1 _ H1 _. rewrite (A eq_refl o1 I1) in H1. discriminate.
    + destruct (proj2 spec_all ch _ _ _ _ _ H) as (_ & _ & C & _).
      destruct (C _ eq_refl) as (P & _).
      intros o1 o2 I1 I2 H1 H2. rewrite (P o1 I1 H1), (P o2 I2 H2). reflexivity.
Qed.

(* same map and same d = same Vocabulary object (get_or_create) *)
Corollary same_dimension_same_vocabulary t first occs s' :
  build_model t first = (occs, s') ->
  forall o1 o2, In o1 occs -> In o2 occs ->
    o_over o1 = false -> o_over o2 = false -> o_dim o1 = o_dim o2 ->
    (o_map o1, o_dim o1) = (o_map o2, o_dim o2).
Proof.
  intros H o1 o2 I1 I2 H1 H2 Hd.
  rewrite (one_map_per_model t first occs s' H o1 o2 I1 I2 H1 H2), Hd. reflexivity.
Qed.

(* ---- independently built models never share a map --------------------------- *)
Definition fresh_spec_tree (t : tree) : Prop :=
  forall cfg in_ctx over s occs s',
    build t cfg in_ctx over s = (occs, s') ->
    next_map s <= next_map s' /\
    (forall m, master s' = Some m -> master s = Some m \/ next_map s <= m < next_map s') /\
    forall o, In o occs ->
      (next_map s <= o_map o < next_map s') \/ Some (o_map o) = cfg \/ Some (o_map o) = master s.
Definition fresh_spec_forest (f : forest) : Prop :=
  forall cfg in_ctx over s occs s',
    build_forest f cfg in_ctx over s = (occs, s') ->
    next_map s <= next_map s' /\
    (forall m, master s' = Some m -> master s = Some m \/ next_map s <= m < next_map s') /\
    forall o, In o occs ->
      (next_map s <= o_map o < next_map s') \/ Some (o_map o) = cfg \/ Some (o_map o) = master s.

Lemma resolve_fresh cfg in_ctx seed s m s1 :
  resolve cfg in_ctx seed s = (m, s1) ->
  next_map s <= next_map s1 /\
  (forall k, master s1 = Some k -> master s = Some k \/ next_map s <= k < next_map s1) /\
  ((next_map s <= m < next_map s1) \/ Some m = cfg \/ Some m = master s).
Proof.
  unfold resolve. destruct cfg as [c|].
  - intros H; inversion H; subst. split; [lia|]. split; auto.
  - destruct in_ctx.
    + destruct (master s) as [k|] eqn:Em.
      * intros H; inversion H; subst. split; [lia|]. split; [intros k0 E; left; congruence|auto].
      * cbn. intros H; inversion H; subst; cbn. split; [lia|]. split.
        -- intros k E. inversion E; subst. right. lia.
        -- left. lia.
    + cbn. intros H; inversion H; subst; cbn. split; [lia|]. split; [auto|left; lia].
Qed.

Lemma fresh_all : (forall t, fresh_spec_tree t) /\ (forall f, fresh_spec_forest f).
Proof.
  apply tree_forest_ind.
  - intros d cfg in_ctx over s occs s' H. cbn in H.
    destruct (resolve cfg in_ctx None s) as [m s1] eqn:Er. inversion H; subst; clear H.
    destruct (resolve_fresh _ _ _ _ _ _ Er) as (A & B & C).
    split; [exact A|]. split; [exact B|]. intros o [<-|[]]. exact C.
  - intros ch IH cfg in_ctx over s occs s' H. cbn in H. apply (IH _ _ _ _ _ _ H).
  - intros explicit seed ch IH cfg in_ctx over s occs s' H. cbn in H.
    destruct explicit.
    + cbn in H.
      set (s1 := {| next_map := S (next_map s); master := master s; seeds := seeds s ++ [(next_map s, seed)] |}) in *.
      destruct (IH _ _ _ _ _ _ H) as (A & B & C). cbn in A, B, C.
      split; [lia|]. split.
      * intros m E. destruct (B m E) as [K|K]; [left; exact K|right; lia].
      * intros o Ho. destruct (C o Ho) as [K|[K|K]].
        -- left. lia.
        -- inversion K. left. lia.
        -- right. right. exact K.
    + destruct (resolve cfg in_ctx seed s) as [m s1] eqn:Er.
      destruct (resolve_fresh _ _ _ _ _ _ Er) as (A0 & B0 & C0).
      destruct (IH _ _ _ _ _ _ H) as (A & B & C).
      split; [lia|]. split.
      * intros k E. destruct (B k E) as [K|K].
        -- destruct (B0 k K) as [K2|K2]; [left; exact K2|right; lia].
        -- right. lia.
      * intros o Ho. destruct (C o Ho) as [K|[K|K]].
        -- left. lia.
        -- inversion K; subst. destruct C0 as [K2|[K2|K2]]; [left; lia|right; left; exact K2|right; right; exact K2].
        -- destruct (master s1) as [k|] eqn:Em; [|discriminate]. injection K as K.
           destruct (B0 k eq_refl) as [K2|K2]; [right; right; congruence|left; lia].
  - intros cfg in_ctx over s occs s' H. cbn in H. inversion H; subst.
    split; [lia|]. split; [auto|intros o []].
  - intros t IHt r IHr cfg in_ctx over s occs s' H. cbn in H.
    destruct (build t cfg in_ctx over s) as [o1 s1] eqn:E1.
    destruct (build_forest r cfg in_ctx over s1) as [o2 s2] eqn:E2.
    inversion H; subst; clear H.
    destruct (IHt _ _ _ _ _ _ E1) as (A1 & B1 & C1).
    destruct (IHr _ _ _ _ _ _ E2) as (A2 & B2 & C2).
    split; [lia|]. split.
    + intros m E. destruct (B2 m E) as [K|K].
      * destruct (B1 m K) as [K2|K2]; [left; exact K2|right; lia].
      * right. lia.
    + intros o Ho. apply in_app_or in Ho. destruct Ho as [Ho|Ho].
      * destruct (C1 o Ho) as [K|[K|K]]; [left; lia|right; left; exact K|right; right; exact K].
      * destruct (C2 o Ho) as [K|[K|K]]; [left; lia|right; left; exact K|].
        destruct (master s1) as [k|] eqn:Em; [|discriminate]. injection K as K.
        destruct (B1 k eq_refl) as [K2|K2]; [right; right; congruence|left; lia].
Qed.

Theorem model_maps_are_fresh t first occs s' :
  build_model t first = (occs, s') ->
  first <= next_map s' /\ forall o, In o occs -> first <= o_map o < next_map s'.
Proof.
  unfold build_model. intros H.
  destruct (proj1 fresh_all t _ _ _ _ _ _ H) as (A & _ & C). cbn in *.
  split; [exact A|]. intros o Ho. destruct (C o Ho) as [K|[K|K]]; [exact K|discriminate|discriminate].
Qed.

(* two models built one after another never share a vocabulary *)
Theorem successive_models_share_nothing t1 t2 first occs1 s1 occs2 s2 :
  build_model t1 first = (occs1, s1) ->
  build_model t2 (next_map s1) = (occs2, s2) ->
  forall o1 o2, In o1 occs1 -> In o2 occs2 -> o_map o1 <> o_map o2.
Proof.
  intros H1 H2 o1 o2 I1 I2.
  destruct (model_maps_are_fresh _ _ _ _ H1) as (_ & A).
  destruct (model_maps_are_fresh _ _ _ _ H2) as (_ & B).
  specialize (A o1 I1). specialize (B o2 I2). lia.
Qed.

(* rejected dimensionality arguments *)
Theorem coerce_dim_rejects a :
  coerce_dim a = false <->
  match a with DInt z neg => neg = true \/ z = 0 | DVocab => False | DOther => True end.
Proof.
  destruct a as [z neg| |]; cbn.
  - destruct neg; cbn; [tauto|]. destruct z; cbn; [tauto|].
    split; [discriminate|intros [H|H]; discriminate].
  - split; [discriminate|tauto].
  - tauto.
Qed.

(* Bridges between the executable seq-level primitives of Model/Vec.v and
   MathComp's bigops / ordinals / matrices. *)
From mathcomp Require Import all_ssreflect all_algebra.
From NSpa Require Import Model.Vec.
Set Implicit Arguments.
Unset Strict Implicit.
Unset Printing Implicit Defensive.
Import GRing.Theory.
Local Open Scope ring_scope.

Section SeqSum.
Variable R : ringType.
Implicit Types (a b v : seq R) (f g : nat -> R).

Lemma rsumE n f : rsum n f = \sum_(0 <= i < n) f i.
Proof.
  rewrite /rsum unlock /reducebig /index_iota subn0.
  by elim: (iota 0 n) => //= x s ->.
Qed.

Lemma rsum_ord n f : rsum n f = \sum_(i < n) f i.
Proof. by rewrite rsumE big_mkord. Qed.

Lemma eq_rsum n f g : (forall i, (i < n)%N -> f i = g i) -> rsum n f = rsum n g.
Proof.
  move=> H; rewrite !rsum_ord; apply: eq_bigr => i _; exact: H.
Qed.

Lemma size_mkvec n f : size (mkvec n f) = n.
Proof. by rewrite /mkvec size_mkseq. Qed.

Lemma nth_mkvec n f i : (i < n)%N -> vnth (mkvec n f) i = f i.
Proof. by move=> lt; rewrite /vnth /mkvec nth_mkseq. Qed.

Lemma vnth_default v i : (size v <= i)%N -> vnth v i = 0.
Proof. by move=> le; rewrite /vnth nth_default. Qed.

Lemma eq_vec a b :
  size a = size b -> (forall i, (i < size a)%N -> vnth a i = vnth b i) -> a = b.
Proof. move=> sz H; exact: (eq_from_nth (x0 := 0) sz H). Qed.

Lemma eq_mkvec n f g : (forall i, (i < n)%N -> f i = g i) -> mkvec n f = mkvec n g.
Proof.
  move=> H; apply: eq_vec; rewrite !size_mkvec // => i lt.
  by rewrite !nth_mkvec // H.
Qed.

Lemma size_vadd a b : size (vadd a b) = size a.
Proof. by rewrite size_mkvec. Qed.
Lemma nth_vadd a b i : size a = size b -> vnth (vadd a b) i = vnth a i + vnth b i.
Proof.
  move=> sz; case: (ltnP i (size a)) => lt; first by rewrite nth_mkvec.
  rewrite !vnth_default ?addr0 ?size_vadd //; by rewrite -sz.
Qed.
Lemma size_vscale c a : size (vscale c a) = size a.
Proof. by rewrite size_map. Qed.
Lemma nth_vscale c a i : vnth (vscale c a) i = c * vnth a i.
Proof.
  case: (ltnP i (size a)) => lt; first by rewrite /vnth (nth_map 0).
  by rewrite !vnth_default ?mulr0 ?size_vscale.
Qed.
Lemma size_vneg a : size (vneg a) = size a.
Proof. by rewrite size_map. Qed.
Lemma nth_vneg a i : vnth (vneg a) i = - vnth a i.
Proof.
  case: (ltnP i (size a)) => lt; first by rewrite /vnth (nth_map 0).
  by rewrite !vnth_default ?oppr0 ?size_vneg.
Qed.
Lemma size_vzero n : size (vzero R n) = n.
Proof. by rewrite size_nseq. Qed.
Lemma nth_vzero n i : vnth (vzero R n) i = 0.
Proof. by rewrite /vnth nth_nseq; case: ifP. Qed.
Lemma size_vbasis n k : size (vbasis R n k) = n.
Proof. by rewrite size_mkvec. Qed.
Lemma nth_vbasis n k i : (i < n)%N -> vnth (vbasis R n k) i = (i == k)%:R.
Proof. by move=> lt; rewrite nth_mkvec. Qed.

(* matrices as lists of rows *)
Lemma size_mkmat m n (f : nat -> nat -> R) : size (mkmat m n f) = m.
Proof. by rewrite /mkmat size_mkseq. Qed.
Lemma mnth_mkmat m n (f : nat -> nat -> R) i j :
  (i < m)%N -> (j < n)%N -> mnth (mkmat m n f) i j = f i j.
Proof. by move=> li lj; rewrite /mnth /mkmat nth_mkseq // nth_mkseq. Qed.
Lemma row_mkmat m n (f : nat -> nat -> R) i :
  (i < m)%N -> nth [::] (mkmat m n f) i = mkvec n (f i).
Proof. by move=> li; rewrite /mkmat nth_mkseq. Qed.

Lemma size_matvec (m : seq (seq R)) v : size (matvec m v) = size m.
Proof. by rewrite size_map. Qed.
Lemma nth_matvec (m : seq (seq R)) v i :
  (i < size m)%N -> vnth (matvec m v) i = dot (nth [::] m i) v.
Proof. by move=> lt; rewrite /vnth /matvec (nth_map [::]). Qed.

Lemma dot_mkvec n f v :
  dot (mkvec n f) v = \sum_(j < n) f j * vnth v j.
Proof.
  rewrite /dot size_mkvec rsum_ord; apply: eq_bigr => j _.
  by rewrite nth_mkvec.
Qed.

Lemma nth_reshape s v i j :
  (i < s)%N -> (j < s)%N -> mnth (reshape s v) i j = vnth v (i * s + j).
Proof. by move=> li lj; rewrite mnth_mkmat. Qed.

End SeqSum.

(* Translation (Model/Translate.v): how the requested key list is read.  A key named more than
   once counts once; naming every source key is the same as not naming keys at all; keys the
   source does not hold are ignored whatever else is requested. *)
From mathcomp Require Import all_ssreflect all_algebra.
From NSpa Require Import Model.Vec Model.Algebra Model.Translate.
Set Implicit Arguments.
Unset Strict Implicit.
Unset Printing Implicit Defensive.
Import GRing.Theory.
Local Open Scope ring_scope.

Lemma undup_twice (T : eqType) (s : seq T) : undup (s ++ s) = undup s.
Proof.
  rewrite undup_cat (@eq_in_filter _ _ pred0) ?filter_pred0 // => x.
  by rewrite mem_undup => ->.
Qed.

Lemma undup_idem (T : eqType) (s : seq T) : undup (undup s) = undup s.
Proof. by apply: undup_id; exact: undup_uniq. Qed.

Section Keys.
Variable R : comRingType.

Theorem requested_twice_counts_once d_from d_to (src tgt_after : entries R) tgt_before l populate strict :
  transform_to d_from d_to src tgt_after tgt_before (Some (l ++ l)) populate strict
  = transform_to d_from d_to src tgt_after tgt_before (Some l) populate strict.
Proof. by rewrite /transform_to undup_twice. Qed.

Theorem requested_duplicates_removed d_from d_to (src tgt_after : entries R) tgt_before l populate strict :
  transform_to d_from d_to src tgt_after tgt_before (Some (undup l)) populate strict
  = transform_to d_from d_to src tgt_after tgt_before (Some l) populate strict.
Proof. by rewrite /transform_to undup_idem. Qed.

Theorem all_source_keys_is_no_selection d_from d_to (src tgt_after : entries R) tgt_before populate strict :
  transform_to d_from d_to src tgt_after tgt_before (Some (map fst src)) populate strict
  = transform_to d_from d_to src tgt_after tgt_before None populate strict.
Proof. by []. Qed.

(* requested keys the source does not hold are ignored: appending them changes nothing *)
Theorem keys_absent_from_the_source_are_ignored d_from d_to (src tgt_after : entries R) tgt_before l extra populate strict :
  all (fun k => ~~ has_key src k) extra ->
  transform_to d_from d_to src tgt_after tgt_before (Some (l ++ extra)) populate strict
  = transform_to d_from d_to src tgt_after tgt_before (Some l) populate strict.
Proof.
  move=> absent; rewrite /transform_to.
  suff -> : [seq k <- undup (l ++ extra) | has_key src k] = [seq k <- undup l | has_key src k] by [].
  rewrite undup_cat filter_cat -filter_predI.
  rewrite (_ : [seq k <- undup extra | has_key src k] = [::]) ?cats0; last first.
    rewrite (@eq_in_filter _ _ pred0) ?filter_pred0 // => x; rewrite mem_undup => xin.
    by move/allP: absent => /(_ x xin) /negbTE.
  apply: eq_in_filter => x; rewrite mem_undup => xl /=.
  case hk: (has_key src x) => //=.
  by apply/negP => xe; move/allP: absent => /(_ x xe); rewrite hk.
Qed.

End Keys.

(* Consequences of the type-level model of binary operations (Model/Dispatch.v expect):
   the headline of C03 for every operator and every pair of operand families. *)
From Coq Require Import List Bool Arith PeanoNat Lia.
From NSpa Require Import Model.Types Model.Dispatch.
Import ListNotations.

Section DispatchLaws.
Variable dim : nat -> nat.

Lemma coerce_two_vocabularies i j :
  coerce_types dim [TVoc i; TVoc j] =
  if Nat.eqb i j then COk (TVoc i)
  else CTypeError DifferentVocabularies.
Proof.
  unfold coerce_types, py_max, py_max_from, ty_gt, gt_voc, le_anydim, gt_anydim, le_any, gt_any.
  cbn [ty_eqb orb find ty_le ty_lt ty_gt gt_voc le_anydim gt_anydim le_any gt_any negb].
  rewrite Nat.eqb_refl. cbn [orb negb].
  destruct (Nat.eqb j i) eqn:e.
  - apply Nat.eqb_eq in e; subst j. rewrite Nat.eqb_refl. reflexivity.
  - cbn [orb negb]. rewrite Nat.eqb_sym, e.
    unfold pick_reason, has_vocab. rewrite e. reflexivity.
Qed.

(* operands of two different vocabularies - whatever their dimensionalities, whatever the operator,
   whatever the operand families (pointer, symbol, module output) - must be rejected *)
Theorem different_vocabularies_are_rejected op ka kb i j same_alg dims_differ :
  i <> j -> ka <> KArr -> kb <> KArr ->
  expect dim op ka kb (TVoc i) (TVoc j) same_alg dims_differ = MustReject.
Proof.
  intros ne na nb. unfold expect.
  assert (ea : kind_eqb ka KArr = false) by (destruct ka; try reflexivity; congruence).
  assert (eb : kind_eqb kb KArr = false) by (destruct kb; try reflexivity; congruence).
  rewrite ea, eb. cbn [orb].
  rewrite coerce_two_vocabularies.
  destruct (Nat.eqb i j) eqn:e; [apply Nat.eqb_eq in e; contradiction | reflexivity].
Qed.

(* a vocabulary of another dimensionality than the "any vocabulary of dimension d" operand is rejected *)
Theorem dimension_mismatch_is_rejected op ka kb i d same_alg dims_differ :
  dim i <> d -> ka <> KArr -> kb <> KArr ->
  expect dim op ka kb (TAnyDim d) (TVoc i) same_alg dims_differ = MustReject /\
  expect dim op ka kb (TVoc i) (TAnyDim d) same_alg dims_differ = MustReject.
Proof.
  intros ne na nb. unfold expect.
  assert (ea : kind_eqb ka KArr = false) by (destruct ka; try reflexivity; congruence).
  assert (eb : kind_eqb kb KArr = false) by (destruct kb; try reflexivity; congruence).
  rewrite ea, eb. cbn [orb].
  assert (e : Nat.eqb d (dim i) = false) by (apply Nat.eqb_neq; congruence).
  assert (e' : Nat.eqb (dim i) d = false) by (apply Nat.eqb_neq; congruence).
  split.
  - unfold coerce_types, py_max, py_max_from.
    cbn [ty_gt gt_voc le_anydim gt_anydim le_any gt_any ty_eqb orb].
    rewrite e. cbn [find ty_le ty_lt ty_gt gt_voc le_anydim gt_anydim le_any gt_any ty_eqb orb negb].
    rewrite Nat.eqb_refl. cbn [orb negb]. reflexivity.
  - unfold coerce_types, py_max, py_max_from.
    cbn [ty_gt gt_voc le_anydim gt_anydim le_any gt_any ty_eqb orb].
    cbn [find ty_le ty_lt ty_gt gt_voc le_anydim gt_anydim le_any gt_any ty_eqb orb negb].
    rewrite Nat.eqb_refl. cbn [negb].
    unfold ty_le, ty_lt. cbn [ty_gt gt_voc le_anydim gt_anydim le_any gt_any ty_eqb orb negb].
    rewrite e. cbn [orb negb]. reflexivity.
Qed.

(* compatible vocabulary-typed operands of supported combinations are accepted and the result carries the vocabulary *)
Theorem same_vocabulary_is_accepted op ka kb i same_alg :
  ka <> KArr -> kb <> KArr -> supported op ka kb (TVoc i) = true ->
  expect dim op ka kb (TVoc i) (TVoc i) same_alg false = MustAccept (result_type op (TVoc i)).
Proof.
  intros na nb sup. unfold expect.
  assert (ea : kind_eqb ka KArr = false) by (destruct ka; try reflexivity; congruence).
  assert (eb : kind_eqb kb KArr = false) by (destruct kb; try reflexivity; congruence).
  rewrite ea, eb. cbn [orb].
  rewrite coerce_two_vocabularies, Nat.eqb_refl.
  cbn [is_any orb andb is_voc negb].
  rewrite !andb_false_r. cbn [andb orb].
  rewrite sup. reflexivity.
Qed.

(* a bare array never combines arithmetically with a pointer operand *)
Theorem bare_array_is_rejected op ka ta tb same_alg dims_differ :
  arithmetic op = true -> is_ptr_kind ka = true ->
  expect dim op ka KArr ta tb same_alg dims_differ = MustReject /\
  expect dim op KArr ka ta tb same_alg dims_differ = MustReject.
Proof.
  intros ar pk. unfold expect. split.
  - assert (e : kind_eqb ka KArr = false) by (destruct ka; try reflexivity; discriminate).
    rewrite e. cbn [kind_eqb orb]. rewrite ar, pk. reflexivity.
  - cbn [kind_eqb orb is_ptr_kind]. rewrite ar, pk. reflexivity.
Qed.

End DispatchLaws.

(* text lists a prefix of the descending sort within the count / threshold
   limits; pairs are the n(n-1)/2 unordered pairs (C20). *)
From Coq Require Import List Bool Arith ZArith String Lia Permutation Sorting.Sorted.
From NSpa Require Import Model.Examine.
Import ListNotations.

(* ---- the selection loop ------------------------------------------------------------ *)
Lemma select_prefix mn mx th ms len : exists t, ms = select mn mx th ms len ++ t.
Proof.
  revert len. induction ms as [|m r IH]; intros len; cbn [select]; [now exists []|].
  destruct (match mn with Some k => Nat.ltb len k | None => false end).
  - destruct (IH (S len)) as [t Ht]. exists t. cbn. f_equal. exact Ht.
  - destruct (match mx with Some k => Nat.eqb len k | None => false end); [now exists (m :: r)|].
    destruct (match th with Some t0 => (t0 <? fst m)%Z | None => true end); [|now exists (m :: r)].
    destruct (IH (S len)) as [t Ht]. exists t. cbn. f_equal. exact Ht.
Qed.

(* at least the minimum count when that many terms exist *)
Lemma select_minimum k mx th ms len :
  Nat.min k (len + List.length ms) <= len + List.length (select (Some k) mx th ms len).
Proof.
  revert len. induction ms as [|m r IH]; intros len; cbn [select List.length]; [lia|].
  destruct (Nat.ltb len k) eqn:E.
  - cbn. specialize (IH (S len)). lia.
  - apply Nat.ltb_ge in E. lia.
Qed.

(* never more than the maximum (for minimum <= maximum) *)
Lemma select_maximum mn k th ms len :
  (match mn with Some j => j <= k | None => True end) -> len <= k ->
  len + List.length (select mn (Some k) th ms len) <= k.
Proof.
  intros Hmn. revert len. induction ms as [|m r IH]; intros len Hl; cbn [select List.length]; [lia|].
  destruct (match mn with Some j => Nat.ltb len j | None => false end) eqn:E.
  - cbn. destruct mn as [j|]; [|discriminate]. apply Nat.ltb_lt in E.
    specialize (IH (S len)). lia.
  - destruct (Nat.eqb len k) eqn:Ek; [cbn; lia|]. apply Nat.eqb_neq in Ek.
    destruct (match th with Some t0 => (t0 <? fst m)%Z | None => true end); [|cbn; lia].
    cbn. specialize (IH (S len)). lia.
Qed.

(* beyond the minimum only terms above the threshold are listed *)
Lemma select_threshold mn mx t ms len i m :
  nth_error (select mn mx (Some t) ms len) i = Some m ->
  (match mn with Some k => k <= len + i | None => True end) -> (t < fst m)%Z.
Proof.
  revert len i. induction ms as [|x r IH]; intros len i; cbn [select]; [destruct i; discriminate|].
  destruct (match mn with Some k => Nat.ltb len k | None => false end) eqn:E.
  - destruct i; cbn.
    + intros _ H. destruct mn as [k|]; [|discriminate]. apply Nat.ltb_lt in E. lia.
    + intros H1 H2. apply (IH (S len) i); [exact H1|]. destruct mn; [lia|exact I].
  - destruct (match mx with Some k => Nat.eqb len k | None => false end); [destruct i; discriminate|].
    destruct (t <? fst x)%Z eqn:Et; [|destruct i; discriminate].
    destruct i; cbn.
    + intros H _. inversion H; subst. now apply Z.ltb_lt.
    + intros H1 H2. apply (IH (S len) i); [exact H1|]. destruct mn; [lia|exact I].
Qed.

(* ---- the sort ------------------------------------------------------------------------ *)
Lemma insert_desc_perm x l : Permutation (x :: l) (insert_desc x l).
Proof.
  induction l as [|y r IH]; cbn; [apply Permutation_refl|].
  destruct (mt_geb x y); [apply Permutation_refl|].
  eapply Permutation_trans; [apply perm_swap|]. now apply perm_skip.
Qed.

Theorem sort_desc_perm l : Permutation l (sort_desc l).
Proof.
  induction l as [|x r IH]; cbn; [apply perm_nil|].
  eapply Permutation_trans; [apply perm_skip; exact IH|]. apply insert_desc_perm.
Qed.

Definition simge (a b : mt) : Prop := (fst b <= fst a)%Z.

Lemma mt_geb_true a b : mt_geb a b = true -> simge a b.
Proof.
  unfold mt_geb, simge. destruct (Z.compare_spec (fst a) (fst b)); intros K; try discriminate; lia.
Qed.
Lemma mt_geb_false a b : mt_geb a b = false -> simge b a.
Proof.
  unfold mt_geb, simge. destruct (Z.compare_spec (fst a) (fst b)); intros K; try discriminate; lia.
Qed.

Lemma insert_desc_sorted x l :
  StronglySorted simge l -> StronglySorted simge (insert_desc x l).
Proof.
  induction l as [|y r IH]; cbn; intros H.
  - constructor; constructor.
  - inversion H as [|? ? Hs Hf]; subst. destruct (mt_geb x y) eqn:E.
    + constructor; [exact H|]. constructor; [now apply mt_geb_true|].
      apply mt_geb_true in E. eapply Forall_impl; [|exact Hf]. unfold simge in *. intros; lia.
    + constructor; [apply IH; exact Hs|].
      apply mt_geb_false in E.
      eapply Permutation_Forall; [apply insert_desc_perm|]. constructor; assumption.
Qed.

Theorem sort_desc_sorted l : StronglySorted simge (sort_desc l).
Proof. induction l as [|x r IH]; cbn; [constructor|]. now apply insert_desc_sorted. Qed.

(* ---- text: a prefix of the descending sort, so no omitted term is more similar ---- *)
Theorem text_terms_prefix mn mx th ms :
  exists rest, sort_desc ms = text_terms mn mx th ms ++ rest /\
    forall listed omitted, In listed (text_terms mn mx th ms) -> In omitted rest ->
      (fst omitted <= fst listed)%Z.
Proof.
  unfold text_terms. destruct (select_prefix mn mx th (sort_desc ms) 0) as [rest Hr].
  exists rest. split; [exact Hr|].
  pose proof (sort_desc_sorted ms) as S. rewrite Hr in S.
  intros a b Ha Hb. clear Hr.
  induction (select mn mx th (sort_desc ms) 0) as [|x r IH]; [destruct Ha|].
  cbn in S. inversion S as [|? ? Ss Sf]; subst. destruct Ha as [<-|Ha].
  - rewrite Forall_forall in Sf. apply (Sf b). apply in_or_app. now right.
  - apply IH; assumption.
Qed.

Theorem text_terms_are_terms mn mx th ms m : In m (text_terms mn mx th ms) -> In m ms.
Proof.
  intros H. destruct (text_terms_prefix mn mx th ms) as [rest [E _]].
  apply (Permutation_in _ (Permutation_sym (sort_desc_perm ms))). rewrite E.
  apply in_or_app. now left.
Qed.

Theorem text_minimum k mx th ms :
  Nat.min k (List.length ms) <= List.length (text_terms (Some k) mx th ms).
Proof.
  unfold text_terms. pose proof (select_minimum k mx th (sort_desc ms) 0) as H.
  rewrite <- (Permutation_length (sort_desc_perm ms)) in H. cbn in H. exact H.
Qed.

Theorem text_maximum mn k th ms :
  (match mn with Some j => j <= k | None => True end) ->
  List.length (text_terms mn (Some k) th ms) <= k.
Proof.
  intros H. unfold text_terms.
  pose proof (select_maximum mn k th (sort_desc ms) 0 H (Nat.le_0_l k)). lia.
Qed.

Theorem text_beyond_minimum_above_threshold mn mx t ms i m :
  nth_error (text_terms mn mx (Some t) ms) i = Some m ->
  (match mn with Some k => k <= i | None => True end) -> (t < fst m)%Z.
Proof. unfold text_terms. intros H1 H2. eapply select_threshold; [exact H1|]. destruct mn; cbn; auto. Qed.

(* ---- pairs ------------------------------------------------------------------------------ *)
Theorem pairs_count keys : 2 * List.length (pairs keys) = List.length keys * (List.length keys - 1).
Proof.
  induction keys as [|x r IH]; cbn [pairs List.length]; [reflexivity|].
  rewrite app_length, map_length. destruct r as [|y s]; [reflexivity|].
  cbn [List.length] in *. nia.
Qed.

Theorem pairs_are_ordered_pairs keys x y :
  In (x, y) (pairs keys) -> exists a b c, keys = a ++ x :: b ++ y :: c.
Proof.
  induction keys as [|k r IH]; cbn; [intros []|].
  intros H. apply in_app_or in H. destruct H as [H|H].
  - apply in_map_iff in H. destruct H as (z & E & Hz). inversion E; subst.
    apply in_split in Hz. destruct Hz as (b & c & ->). now exists [], b, c.
  - destruct (IH H) as (a & b & c & ->). now exists (k :: a), b, c.
Qed.

(* pairs is complete: every two keys at distinct positions form a listed pair (the converse of
   pairs_are_ordered_pairs), so the listed pairs are EXACTLY the unordered pairs of positions *)
Theorem pairs_complete a x b y c : In (x, y) (pairs (a ++ x :: b ++ y :: c)).
Proof.
  induction a as [|k a IH]; cbn.
  - apply in_or_app; left; apply in_map; apply in_or_app; right; left; reflexivity.
  - apply in_or_app; right; exact IH.
Qed.

Theorem pairs_exactly keys x y :
  In (x, y) (pairs keys) <-> exists a b c, keys = a ++ x :: b ++ y :: c.
Proof.
  split; [apply pairs_are_ordered_pairs|].
  intros (a & b & c & ->); apply pairs_complete.
Qed.

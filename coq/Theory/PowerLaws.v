(* Binding powers and unitary vectors (C12). *)
From mathcomp Require Import all_ssreflect all_algebra zify.
From NSpa Require Import Model.Vec Model.Hrr Model.Vtb Model.Power
  Theory.SeqSum Theory.Conv Theory.MxBridge Theory.VtbLaws Theory.ElemLaws.
Set Implicit Arguments.
Unset Strict Implicit.
Unset Printing Implicit Defensive.
Import GRing.Theory.
Local Open Scope ring_scope.

(* ---------------- HRR ----------------------------------------------------- *)
Section HrrPower.
Variable R : comRingType.
Implicit Types (a b v x y u : seq R).

Lemma size_hrr_pow v n : size (hrr_pow_nat v n) = size v.
Proof. by elim: n => [|n IH] /=; rewrite ?size_hrr_identity // size_hrr_bind. Qed.

Theorem hrr_pow0 v : hrr_pow_nat v 0 = hrr_identity R (size v).
Proof. by []. Qed.

Theorem hrr_pow1 v : hrr_pow_nat v 1 = v.
Proof. by rewrite /hrr_pow_nat /= hrr_identity_left. Qed.

Theorem hrr_powS v n : hrr_pow_nat v n.+1 = hrr_bind_core (hrr_pow_nat v n) v.
Proof. by []. Qed.

(* for n >= 1 the power is the left-nested n-fold binding ((v*v)*v)...*v *)
Theorem hrr_pow_nested v n : hrr_pow_nat v n.+1 = hrr_nested v n.
Proof.
  elim: n => [|n IH]; first by rewrite hrr_pow1.
  by rewrite hrr_powS IH.
Qed.

(* exponents of equal sign add under binding *)
Theorem hrr_pow_add v m n :
  hrr_pow_nat v (m + n) = hrr_bind_core (hrr_pow_nat v m) (hrr_pow_nat v n).
Proof.
  elim: n => [|n IH].
    by rewrite addn0 /= -(size_hrr_pow v m) hrr_bind_identity.
  rewrite addnS !hrr_powS IH hrr_bind_assoc ?size_hrr_pow //.
Qed.


(* ---- unitary vectors are isometries --------------------------------------- *)
(* <a, b> = (a * ~b)[0] *)
Lemma dot_conv0 p a b :
  size a = p.+1 -> size b = p.+1 ->
  dot a b = vnth (hrr_bind_core a (hrr_invert b)) 0.
Proof.
  move=> sa sb; rewrite /dot sa rsum_ord.
  have -> : vnth (hrr_bind_core a (hrr_invert b)) 0 =
            conv (ifun p a) (ifun p (hrr_invert b)) 0.
    by rewrite -(nth_hrr_bind (hrr_invert b) (0 : 'I_p.+1) sa).
  rewrite /conv; apply: eq_bigr => j _.
  rewrite /ifun /hrr_invert sb nth_mkvec; last by rewrite ltn_ord.
  by rewrite (subm_ord (0 : 'I_p.+1) (0 - j)) !sub0r opprK.
Qed.

Lemma nth_invert_ord p v (i : 'I_p.+1) :
  size v = p.+1 -> vnth (hrr_invert v) i = vnth v (- i)%R.
Proof.
  move=> sv; rewrite /hrr_invert sv nth_mkvec //.
  by rewrite (subm_ord (0 : 'I_p.+1) i) sub0r.
Qed.

Lemma invert_bind a b :
  size a = size b ->
  hrr_invert (hrr_bind_core a b) = hrr_bind_core (hrr_invert a) (hrr_invert b).
Proof.
  case: (size_cases a) => [->|[p sa]] sb.
    by move/esym/eqP: sb; rewrite size_eq0 => /eqP ->.
  have sb' : size b = p.+1 by rewrite -sb.
  apply: (@eq_vec_ord _ p); rewrite ?size_hrr_invert ?size_hrr_bind ?size_hrr_invert // => i.
  rewrite nth_invert_ord ?size_hrr_bind // !nth_hrr_bind ?size_hrr_invert //.
  rewrite /conv (reindex_inj (h := fun j => - j)) /=; last exact: oppr_inj.
  apply: eq_bigr => j _.
  by rewrite /ifun !nth_invert_ord // opprB opprK addrC.
Qed.

Theorem hrr_unitary_isometry u x y :
  hrr_unitary u -> size x = size u -> size y = size u ->
  dot (hrr_bind_core x u) (hrr_bind_core y u) = dot x y.
Proof.
  move=> U sx sy.
  case: (size_cases u) => [eu|[p su]].
    move: sx sy; rewrite eu /= => /eqP; rewrite size_eq0 => /eqP -> /eqP.
    by rewrite size_eq0 => /eqP ->.
  have sx' : size x = p.+1 by rewrite sx.
  have sy' : size y = p.+1 by rewrite sy.
  rewrite (@dot_conv0 p) ?size_hrr_bind // (@dot_conv0 p x y) //.
  rewrite invert_bind ?sy //.
  (* (x*u) * (~y * ~u) = (x * ~y) * (u * ~u) = x * ~y *)
  have E : hrr_bind_core (hrr_bind_core x u) (hrr_bind_core (hrr_invert y) (hrr_invert u))
         = hrr_bind_core x (hrr_invert y).
    rewrite hrr_bind_assoc ?size_hrr_bind ?size_hrr_invert ?sx ?sy //.
    rewrite -(hrr_bind_assoc (a := u)) ?size_hrr_invert ?sy //.
    rewrite (hrr_bind_comm (a := u)) ?size_hrr_invert ?sy //.
    rewrite (hrr_bind_assoc (a := hrr_invert y)) ?size_hrr_invert ?sy //.
    rewrite U -hrr_bind_assoc ?size_hrr_invert ?size_hrr_identity ?sx ?sy //.
    have -> : size u = size (hrr_bind_core x (hrr_invert y)) by rewrite size_hrr_bind sx.
    by rewrite hrr_bind_identity.
  by rewrite E.
Qed.

End HrrPower.

Section HrrPowerSign.
Variable R : realDomainType.
(* negative exponents: the same power of the inverse *)
Theorem hrr_power_neg (v : seq R) n : hrr_power v true n = hrr_pow_nat (hrr_invert v) n.
Proof. by []. Qed.
Theorem hrr_power_pos (v : seq R) n : hrr_power v false n = hrr_pow_nat v n.
Proof. by []. Qed.
End HrrPowerSign.

(* ---------------- list matrices as MathComp matrices ---------------------- *)
Section ListMx.
Variable R : comRingType.
Implicit Types (A B M : seq (seq R)) (v a b : seq R).

Definition lmx (s : nat) A : 'M[R]_s := \matrix_(i, j) mnth A i j.

Lemma lmx_mkmat s (f : nat -> nat -> R) : lmx s (mkmat s s f) = \matrix_(i, j) f i j.
Proof. by apply/matrixP => i j; rewrite !mxE mnth_mkmat. Qed.

Lemma lmx_reshape s v : lmx s (reshape s v) = mx_of s v.
Proof. by rewrite lmx_mkmat. Qed.

Lemma lmx_eye s : lmx s (meye R s) = 1%:M.
Proof. by rewrite lmx_mkmat; apply/matrixP => i j; rewrite !mxE -val_eqE. Qed.

Lemma mx_of_flatten s (f : nat -> nat -> R) :
  mx_of s (flatten_m (mkmat s s f)) = \matrix_(i, j) f i j.
Proof. by apply/matrixP => i j; rewrite !mxE nth_flatten_mkmat. Qed.

(* shape of an s x s list matrix *)
Definition is_sq (s : nat) A := exists f, A = mkmat s s f.

Lemma is_sq_reshape s v : is_sq s (reshape s v).
Proof. by eexists. Qed.
Lemma is_sq_eye s : is_sq s (meye R s).
Proof. by eexists. Qed.

Lemma lmx_matmul s A B :
  (0 < s)%N -> is_sq s A -> is_sq s B ->
  is_sq s (matmul A B) /\ lmx s (matmul A B) = lmx s A *m lmx s B.
Proof.
  move=> s0 [f ->] [g ->].
  have nc : ncols (mkmat s s g) = s by rewrite /ncols row_mkmat // size_mkvec.
  rewrite /matmul !size_mkmat nc; split; first by eexists.
  rewrite lmx_mkmat; apply/matrixP => i j; rewrite !mxE rsum_ord.
  by apply: eq_bigr => k _; rewrite !mxE.
Qed.

Lemma mx_of_flatten_sq s A : is_sq s A -> mx_of s (flatten_m A) = lmx s A.
Proof. by move=> [f ->]; rewrite mx_of_flatten lmx_mkmat. Qed.

End ListMx.

(* ---------------- TVTB / VTB powers --------------------------------------- *)
Section SquarePower.
Variable R : comRingType.
Variable p : nat.
Local Notation s := p.+1.
Implicit Types (v : seq R).

Lemma matpow_sq (M : seq (seq R)) n : is_sq s M -> is_sq s (matpow s M n) /\ lmx s (matpow s M n) = (lmx s M) ^+ n.
Proof.
  move=> sqM; elim: n => [|n [sq IH]] /=.
    by split; [exact: is_sq_eye | rewrite lmx_eye expr0].
  have [sq' E] := lmx_matmul (ltn0Sn p) sq sqM.
  by split => //; rewrite E IH exprSr.
Qed.

(* TVTB: the power's core is the matrix power V^n *)
Theorem tvtb_power_mx v n :
  mx_of s (flatten_m (matpow s (reshape s v) n)) = (mx_of s v) ^+ n.
Proof.
  have [sq E] := matpow_sq n (is_sq_reshape s v).
  by rewrite mx_of_flatten_sq // E lmx_reshape.
Qed.

(* exponents add *)
Theorem tvtb_power_add v m n :
  (mx_of s v) ^+ (m + n) = (mx_of s v) ^+ m *m (mx_of s v) ^+ n.
Proof. by rewrite exprD. Qed.

Lemma size_tvtb_nested v n : size v = (s * s)%N -> size (tvtb_nested s v n) = (s * s)%N.
Proof.
  move=> sv; case: n => [|n]; first exact: sv.
  by rewrite /tvtb_nested iterS size_matvec /kron_eye size_mkmat.
Qed.
Lemma size_vtb_nested v n : size v = (s * s)%N -> size (vtb_nested s v n) = (s * s)%N.
Proof.
  move=> sv; case: n => [|n]; first exact: sv.
  by rewrite /vtb_nested iterS size_matvec /kron_eye size_mkmat.
Qed.

(* left-nested n+1-fold binding has core V^(n+1) *)
Theorem tvtb_nested_mx v n :
  size v = (s * s)%N -> mx_of s (tvtb_nested s v n) = (mx_of s v) ^+ n.+1.
Proof.
  move=> sv; elim: n => [|n IH]; first by rewrite expr1.
  have sz := size_tvtb_nested n sv.
  rewrite /tvtb_nested iterS -/(tvtb_nested s v n).
  by rewrite -/(tvtb_core s (tvtb_nested s v n) v) tvtb_core_mx // IH [in RHS]exprSr.
Qed.

(* VTB: left-nested n+1-fold binding has core V (V^T)^n; the coded power
   V . (V^n)^T is the same matrix *)
Lemma trmx_exp (M : 'M[R]_s) n : (M ^+ n)^T = (M^T) ^+ n.
Proof.
  elim: n => [|n IH]; first by rewrite !expr0 trmx1.
  by rewrite exprS exprSr trmx_mul IH.
Qed.

Theorem vtb_nested_mx v n :
  size v = (s * s)%N ->
  mx_of s (vtb_nested s v n) = mx_of s v *m ((mx_of s v)^T) ^+ n.
Proof.
  move=> sv; elim: n => [|n IH]; first by rewrite expr0 mulmx1.
  have sz := size_vtb_nested n sv.
  rewrite /vtb_nested iterS -/(vtb_nested s v n).
  by rewrite -/(vtb_core s (vtb_nested s v n) v) vtb_core_mx // IH -mulmxA [in RHS]exprSr.
Qed.

Theorem vtb_power_core_mx v n :
  size v = (s * s)%N ->
  mx_of s (vtb_core s v (flatten_m (matpow s (reshape s v) n))) =
  mx_of s (vtb_nested s v n).
Proof.
  move=> sv.
  by rewrite vtb_core_mx // tvtb_power_mx trmx_exp vtb_nested_mx.
Qed.

End SquarePower.

(* ---------------- VTB / TVTB: unitary matrices are isometries -------------- *)
Section SquareIsometry.
Variable R : comRingType.
Implicit Types (a b v x y : seq R) (s : nat).

Lemma dot_trace s a b :
  size a = (s * s)%N -> dot a b = \tr (mx_of s a *m (mx_of s b)^T).
Proof.
  move=> sa; rewrite /dot sa rsum_ord /mxtrace.
  rewrite (sum_mul_ord s s (fun q => vnth a q * vnth b q)).
  apply: eq_bigr => i _; rewrite mxE; apply: eq_bigr => j _.
  by rewrite !mxE.
Qed.

(* VTB, right binding: <x*v, y*v> = s * <X V^T, Y V^T> (two sqrt(s) factors) *)
Theorem vtb_unitary_isometry s v x y :
  vtb_unitary s v -> size x = (s * s)%N -> size y = (s * s)%N ->
  s%:R * dot (vtb_core s x v) (vtb_core s y v) = dot x y.
Proof.
  move=> U sx sy.
  rewrite (@dot_trace s) ?size_vtb_core // (@dot_trace s x y) //.
  rewrite !vtb_core_mx // trmx_mul trmxK -mxtraceZ.
  by rewrite mulmxA -(mulmxA (mx_of s x)) scalemxAl scalemxAr U mulmx1.
Qed.

(* TVTB, right binding *)
Theorem tvtb_unitary_isometry_right s v x y :
  tvtb_unitary_r s v -> size x = (s * s)%N -> size y = (s * s)%N ->
  s%:R * dot (tvtb_core s x v) (tvtb_core s y v) = dot x y.
Proof.
  move=> U sx sy.
  rewrite (@dot_trace s) ?size_tvtb_core // (@dot_trace s x y) //.
  rewrite !tvtb_core_mx // trmx_mul -mxtraceZ.
  by rewrite mulmxA -(mulmxA (mx_of s x)) scalemxAl scalemxAr U mulmx1.
Qed.

(* TVTB, left binding *)
Theorem tvtb_unitary_isometry_left s v x y :
  tvtb_unitary_l s v -> size v = (s * s)%N -> size x = (s * s)%N ->
  s%:R * dot (tvtb_core s v x) (tvtb_core s v y) = dot x y.
Proof.
  move=> U sv sx.
  rewrite (@dot_trace s) ?size_tvtb_core // (@dot_trace s x y) //.
  rewrite !tvtb_core_mx // trmx_mul.
  rewrite mxtrace_mulC -mxtraceZ mulmxA -(mulmxA (mx_of s y)^T).
  by rewrite scalemxAl scalemxAr U mulmx1 mxtrace_mulC.
Qed.

End SquareIsometry.

(* Laws of the SPA type order and of coerce_types (model: Model/Types.v). *)
From Coq Require Import List Bool Arith PeanoNat Lia Permutation.
From NSpa Require Import Model.Types.
Import ListNotations.

Section Laws.
Variable dim : nat -> nat.

Notation eqb := (ty_eqb).
Notation gt := (ty_gt dim).
Notation lt := (ty_lt dim).
Notation le := (ty_le dim).
Notation ge := (ty_ge dim).

(* The documented order: scalar < any < any-of-d < vocabulary of dim d. *)
Definition le_spec (a b : ty) : Prop :=
  a = b \/
  match a, b with
  | TScalar, (TAny | TAnyDim _ | TVoc _) => True
  | TAny, (TAnyDim _ | TVoc _) => True
  | TAnyDim d, TVoc i => d = dim i
  | _, _ => False
  end.

Lemma eqb_eq a b : eqb a b = true <-> a = b.
Proof.
  destruct a, b; cbn; split; intros H; try discriminate; try reflexivity;
    try (apply Nat.eqb_eq in H; subst; reflexivity);
    try (inversion H; subst; apply Nat.eqb_refl).
Qed.

Lemma eqb_refl a : eqb a a = true.
Proof. apply eqb_eq; reflexivity. Qed.

Lemma eqb_neq a b : eqb a b = false <-> a <> b.
Proof.
  split.
  - intros H E. apply eqb_eq in E. congruence.
  - intros H. destruct (eqb a b) eqn:E; [apply eqb_eq in E; contradiction|reflexivity].
Qed.

Lemma le_correct a b : le a b = true <-> le_spec a b.
Proof.
  unfold le_spec, ty_le, ty_lt, ty_gt, gt_voc, le_anydim, gt_anydim, le_any, gt_any.
  destruct a as [| |d|i], b as [| |e|j]; cbn;
    rewrite ?orb_false_r, ?orb_true_r, ?orb_false_l;
    try (split; intros; auto; fail);
    try (split; [intros H; discriminate | intros [H|H]; [discriminate|contradiction]]).
  - (* TAnyDim d, TAnyDim e *)
    split; [intros H; apply Nat.eqb_eq in H; subst; auto|].
    intros [H|[]]. inversion H; apply Nat.eqb_refl.
  - (* TAnyDim d, TVoc j *)
    split.
    + intros H. apply Nat.eqb_eq in H. right. exact H.
    + intros [H|H]; [discriminate|]. apply Nat.eqb_eq. exact H.
  - (* TVoc i, TVoc j *)
    split; [intros H; apply Nat.eqb_eq in H; subst; auto|].
    intros [H|[]]. inversion H; apply Nat.eqb_refl.
Qed.

Lemma le_spec_refl a : le_spec a a.
Proof. left; reflexivity. Qed.

Lemma le_spec_antisym a b : le_spec a b -> le_spec b a -> a = b.
Proof.
  intros [H|H] [K|K]; auto.
  destruct a, b; try contradiction; try discriminate.
Qed.

Lemma le_spec_trans a b c : le_spec a b -> le_spec b c -> le_spec a c.
Proof.
  intros [H|H] [K|K]; subst; try (left; reflexivity); try (right; assumption).
  right. destruct a, b, c; try contradiction; try exact I.
Qed.

Lemma le_refl a : le a a = true.
Proof. apply le_correct, le_spec_refl. Qed.

Lemma le_antisym a b : le a b = true -> le b a = true -> a = b.
Proof. rewrite !le_correct. apply le_spec_antisym. Qed.

Lemma le_trans a b c : le a b = true -> le b c = true -> le a c = true.
Proof. rewrite !le_correct. apply le_spec_trans. Qed.

(* strict part *)
Lemma gt_correct a b : gt a b = true <-> (le_spec b a /\ b <> a).
Proof.
  unfold le_spec, ty_gt, gt_voc, le_anydim, gt_anydim, le_any, gt_any.
  destruct a as [| |d|i], b as [| |e|j]; cbn;
    rewrite ?orb_false_r, ?orb_true_r, ?orb_false_l;
    try (split; [intros H; discriminate
                | intros [[H|H] N]; [congruence|contradiction]]);
    try (split; [intros _; split; [right; exact I|discriminate]| reflexivity]).
  - split.
    + intros H. apply Nat.eqb_eq in H. split; [right; exact H|discriminate].
    + intros [[H|H] N]; [discriminate|]. apply Nat.eqb_eq; exact H.
Qed.

Lemma lt_correct a b : lt a b = true <-> (le_spec a b /\ a <> b).
Proof. unfold ty_lt. apply gt_correct. Qed.

Lemma ge_correct a b : ge a b = true <-> le_spec b a.
Proof.
  unfold ty_ge. rewrite orb_true_iff, gt_correct, eqb_eq. split.
  - intros [[H _]|H]; [exact H|subst; apply le_spec_refl].
  - intros H. destruct (eqb a b) eqn:E.
    + right. apply eqb_eq; exact E.
    + left. split; [exact H|]. apply eqb_neq in E. congruence.
Qed.

(* exactly the documented chains and nothing else *)
Lemma chain_scalar_any : lt TScalar TAny = true.
Proof. reflexivity. Qed.
Lemma chain_any_anydim d : lt TAny (TAnyDim d) = true.
Proof. reflexivity. Qed.
Lemma chain_anydim_voc i : lt (TAnyDim (dim i)) (TVoc i) = true.
Proof. cbn. unfold gt_voc, le_anydim. cbn. rewrite Nat.eqb_refl. reflexivity. Qed.
Lemma no_other_relation a b :
  le a b = true ->
  a = b \/ a = TScalar \/ (a = TAny /\ b <> TScalar) \/
  (exists i, a = TAnyDim (dim i) /\ b = TVoc i).
Proof.
  rewrite le_correct. intros [H|H]; [left; exact H|].
  destruct a as [| |d|i], b as [| |e|j]; try contradiction; auto.
  - right; right; left; split; [reflexivity|discriminate].
  - right; right; left; split; [reflexivity|discriminate].
  - right; right; right. exists j. subst. auto.
Qed.
Lemma vocs_unrelated i j : i <> j -> le (TVoc i) (TVoc j) = false.
Proof.
  intros N. destruct (le (TVoc i) (TVoc j)) eqn:E; [|reflexivity].
  apply le_correct in E. destruct E as [E|[]]. congruence.
Qed.
Lemma anydims_unrelated d e : d <> e -> le (TAnyDim d) (TAnyDim e) = false.
Proof.
  intros N. destruct (le (TAnyDim d) (TAnyDim e)) eqn:E; [|reflexivity].
  apply le_correct in E. destruct E as [E|[]]. congruence.
Qed.

(* ---------- Python's max returns the greatest element if one exists ------ *)

Definition greatest (t : ty) (l : list ty) : Prop :=
  In t l /\ forall x, In x l -> le_spec x t.

Lemma py_max_from_greatest cur l t :
  greatest t (cur :: l) -> py_max_from dim cur l = t.
Proof.
  revert cur. induction l as [|x r IH]; intros cur [Hin Hall]; cbn [py_max_from].
  - destruct Hin as [H|[]]. congruence.
  - destruct (gt x cur) eqn:G.
    + apply gt_correct in G. destruct G as [Gle Gne].
      apply IH. split.
      * destruct Hin as [H|H]; [|exact H]. subst t.
        exfalso. apply Gne. apply le_spec_antisym; [exact Gle|].
        apply Hall. right; left; reflexivity.
      * intros y Hy. apply Hall. right; exact Hy.
    + apply IH. split.
      * destruct Hin as [H|[H|H]]; [left; exact H| |right; exact H].
        subst t. left.
        assert (Hc : le_spec cur x) by (apply Hall; left; reflexivity).
        destruct (eqb cur x) eqn:E; [apply eqb_eq; exact E|].
        apply eqb_neq in E.
        assert (gt x cur = true) by (apply gt_correct; split; assumption).
        congruence.
      * intros y [Hy|Hy]; apply Hall; [left; exact Hy|right; right; exact Hy].
Qed.

Lemma py_max_from_in cur l : In (py_max_from dim cur l) (cur :: l).
Proof.
  revert cur. induction l as [|x r IH]; intros cur; cbn [py_max_from].
  - left; reflexivity.
  - destruct (gt x cur).
    + right. apply IH.
    + destruct (IH cur) as [H|H]; [left; exact H|right; right; exact H].
Qed.

Lemma py_max_greatest l t : greatest t l -> py_max dim l = Some t.
Proof.
  destruct l as [|x r]; intros H.
  - destruct H as [[] _].
  - cbn. f_equal. apply py_max_from_greatest. exact H.
Qed.

(* ---------- coerce_types ------------------------------------------------- *)

Lemma find_none_iff (f : ty -> bool) l :
  find f l = None <-> forall x, In x l -> f x = false.
Proof.
  split.
  - apply find_none.
  - induction l as [|y r IH]; cbn; intros H; [reflexivity|].
    rewrite (H y (or_introl eq_refl)). apply IH. intros x Hx. apply H. right; exact Hx.
Qed.

Theorem coerce_ok_iff l t :
  coerce_types dim l = COk t <-> greatest t l.
Proof.
  unfold coerce_types. split.
  - destruct (py_max dim l) as [top|] eqn:M; [|discriminate].
    destruct (find _ l) as [o|] eqn:F; [discriminate|].
    intros H; inversion H; subst top; clear H.
    split.
    + destruct l as [|x r]; [discriminate|]. cbn in M. inversion M.
      apply py_max_from_in.
    + intros x Hx. apply le_correct.
      pose proof (proj1 (find_none_iff _ _) F x Hx) as Hf.
      apply negb_false_iff in Hf. exact Hf.
  - intros G. rewrite (py_max_greatest _ _ G).
    assert (F : find (fun t0 => negb (le t0 t)) l = None).
    { apply find_none_iff. intros x Hx. apply negb_false_iff, le_correct.
      apply G; exact Hx. }
    rewrite F. reflexivity.
Qed.

Lemma greatest_unique l t u : greatest t l -> greatest u l -> t = u.
Proof.
  intros [Ht At] [Hu Au]. apply le_spec_antisym; [apply Au|apply At]; assumption.
Qed.

(* the outcome classes *)
Theorem coerce_error_iff l :
  l <> [] ->
  ((exists r, coerce_types dim l = CTypeError r) <-> ~ exists t, greatest t l).
Proof.
  intros Hne. split.
  - intros [r Hr] [t G]. apply coerce_ok_iff in G. congruence.
  - intros Hno. unfold coerce_types.
    destruct l as [|x rest]; [congruence|]. cbn [py_max].
    set (top := py_max_from dim x rest).
    destruct (find (fun t => negb (le t top)) (x :: rest)) as [o|] eqn:F.
    + eexists; reflexivity.
    + exfalso. apply Hno. exists top. split.
      * apply py_max_from_in.
      * intros y Hy. apply le_correct.
        pose proof (proj1 (find_none_iff _ _) F y Hy) as Hf.
        apply negb_false_iff in Hf. exact Hf.
Qed.

Theorem coerce_empty : coerce_types dim [] = CValueError.
Proof. reflexivity. Qed.

(* the result depends only on the set of members: invariant under any
   reordering and any repetition of arguments *)
Theorem coerce_set_invariant l l' :
  (forall x, In x l <-> In x l') -> l <> [] ->
  match coerce_types dim l with
  | COk t => coerce_types dim l' = COk t
  | CTypeError _ => exists r, coerce_types dim l' = CTypeError r
  | CValueError => False
  end.
Proof.
  intros Hset Hne.
  assert (Hne' : l' <> []).
  { destruct l as [|x r]; [congruence|]. intros E; subst l'.
    apply (proj1 (Hset x)). left; reflexivity. }
  assert (Hg : forall t, greatest t l <-> greatest t l').
  { intros t; unfold greatest; split; intros [Hi Ha]; split;
      try (apply Hset; exact Hi); intros y Hy; apply Ha, Hset; exact Hy. }
  destruct (coerce_types dim l) as [t|r|] eqn:C.
  - apply coerce_ok_iff, Hg, coerce_ok_iff. exact C.
  - apply coerce_error_iff; [exact Hne'|].
    intros [t G]. apply Hg in G.
    assert (exists r, coerce_types dim l = CTypeError r) by (eexists; exact C).
    apply coerce_error_iff in H; [|exact Hne]. apply H. exists t; exact G.
  - unfold coerce_types in C. destruct l; [congruence|]. cbn [py_max] in C.
    destruct (find _ _); discriminate.
Qed.

Corollary coerce_permutation l l' :
  Permutation.Permutation l l' -> l <> [] ->
  match coerce_types dim l with
  | COk t => coerce_types dim l' = COk t
  | CTypeError _ => exists r, coerce_types dim l' = CTypeError r
  | CValueError => False
  end.
Proof.
  intros P. apply coerce_set_invariant. intros x; split.
  - apply Permutation.Permutation_in; exact P.
  - apply Permutation.Permutation_in, Permutation.Permutation_sym; exact P.
Qed.

(* the reason names a real conflict between two members of the tuple *)
Theorem coerce_reason_sound l r :
  coerce_types dim l = CTypeError r ->
  exists o t, In o l /\ In t l /\ ~ le_spec o t /\
    match r with
    | DifferentVocabularies =>
        exists i j, o = TVoc i /\ t = TVoc j /\ i <> j
    | DimensionalityMismatch =>
        exists d e, has_dims dim o = Some d /\ has_dims dim t = Some e /\ d <> e
    | IncompatibleTypes => True
    end.
Proof.
  unfold coerce_types. destruct l as [|x rest]; [discriminate|]. cbn [py_max].
  set (top := py_max_from dim x rest).
  destruct (find _ _) as [o|] eqn:F; [|discriminate].
  intros H; inversion H; subst r; clear H.
  apply find_some in F. destruct F as [Hin Hnle].
  exists o, top. split; [exact Hin|]. split; [apply py_max_from_in|].
  split.
  - intros L. apply le_correct in L. rewrite L in Hnle. discriminate.
  - unfold pick_reason.
    destruct o as [| |d|i], top as [| |e|j]; cbn; try exact I.
    + destruct (Nat.eqb d e) eqn:E; cbn; [exact I|].
      apply Nat.eqb_neq in E. eauto.
    + destruct (Nat.eqb d (dim j)) eqn:E; cbn; [exact I|].
      apply Nat.eqb_neq in E. eauto.
    + destruct (Nat.eqb (dim i) e) eqn:E; cbn; [exact I|].
      apply Nat.eqb_neq in E. eauto.
    + destruct (Nat.eqb i j) eqn:E; cbn.
      * destruct (Nat.eqb (dim i) (dim j)) eqn:E2; cbn; [exact I|].
        apply Nat.eqb_neq in E2. eauto.
      * apply Nat.eqb_neq in E. eauto.
Qed.

(* hashing *)
Theorem eq_hash a b : eqb a b = true -> ty_hash a = ty_hash b.
Proof. intros H. apply eqb_eq in H. subst. reflexivity. Qed.

Theorem voc_eq_iff_identical i j : eqb (TVoc i) (TVoc j) = true <-> i = j.
Proof. cbn. apply Nat.eqb_eq. Qed.

End Laws.

(* non-vacuity: a concrete tuple with a greatest element, and one without *)
Example coerce_example_ok :
  coerce_types (fun _ => 16) [TAny; TVoc 0; TScalar; TAnyDim 16] = COk (TVoc 0).
Proof. reflexivity. Qed.
Example coerce_example_err :
  coerce_types (fun _ => 16) [TVoc 0; TVoc 1] = CTypeError DifferentVocabularies.
Proof. reflexivity. Qed.

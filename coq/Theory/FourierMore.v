(* More consequences of "a real vector is determined by its spectrum" (Theory/Fourier.v),
   for every dimension d:
   - make_unitary: whatever vector has the spectrum F_k / m_k with m_k m_{-k} = F_k F_{-k}
     (m_k = |F_k| for a real vector) is unitary, and normalising it again (its own moduli are 1)
     changes nothing;
   - fractional binding powers: if g x k is "F_k to the power x" in the sense
     g (x + y) k = g x k * g y k, the vectors with spectra g x, g y, g (x + y) satisfy
     a^(x+y) = bind (a^x) (a^y);
   - binding with a unitary vector is injective / undone by the inverse (spectral form). *)
From mathcomp Require Import all_ssreflect all_algebra.
From NSpa Require Import Model.Vec Model.Hrr Theory.SeqSum Theory.Conv Theory.ElemLaws Theory.PowerLaws
  Theory.Fourier Theory.EquallySpaced.
Set Implicit Arguments.
Unset Strict Implicit.
Unset Printing Implicit Defensive.
Import GRing.Theory.
Local Open Scope ring_scope.

Section FourierMore.
Variable R : comRingType.
Variable C : fieldType.
Variable iota : {rmorphism R -> C}.
Variable p : nat.
Local Notation d := p.+1.
Variable w : C.
Hypothesis w_d : w ^+ d = 1.
Hypothesis orth : forall j : 'I_d, j != 0 -> \sum_k chi w k j = 0.
Hypothesis d_reg : GRing.lreg (d%:R : C).
Hypothesis iota_inj : injective iota.
Local Notation spec := (spectrum iota w).
Implicit Types a u : seq R.

Theorem normalised_spectrum_is_unitary a u (m : 'I_d -> C) :
  size a = d -> size u = d ->
  (forall k, m k != 0) -> (forall k, m k * m (- k) = spec a k * spec a (- k)) ->
  (forall k, spec u k = spec a k / m k) ->
  hrr_bind_core u (hrr_invert u) = hrr_identity R d.
Proof.
  move=> sa su m0 mm su_spec.
  apply: (spectrum_inj w_d orth d_reg iota_inj); rewrite ?size_hrr_bind ?size_hrr_identity //.
  move=> k; rewrite (spectrum_bind iota w_d) // (spectrum_invert iota w_d) // !su_spec.
  rewrite mulrACA -invfM -mm divff ?spectrum_identity //.
  by rewrite mulf_neq0.
Qed.

(* normalising again with moduli 1 returns the same vector *)
Theorem normalising_twice_changes_nothing u u' (m : 'I_d -> C) :
  size u = d -> size u' = d -> (forall k, m k = 1) ->
  (forall k, spec u' k = spec u k / m k) -> u' = u.
Proof.
  move=> su su' m1 H; apply: (spectrum_inj w_d orth d_reg iota_inj) => // k.
  by rewrite H m1 divr1.
Qed.

(* real (or any additive family of) exponents add under binding *)
Theorem spectral_powers_add (g : C -> 'I_d -> C) (ax ay axy : seq R) x y :
  size ax = d -> size axy = d ->
  (forall k, g (x + y) k = g x k * g y k) ->
  (forall k, spec ax k = g x k) -> (forall k, spec ay k = g y k) -> (forall k, spec axy k = g (x + y) k) ->
  axy = hrr_bind_core ax ay.
Proof.
  move=> sx sxy gD hx hy hxy.
  apply: (product_spectrum_is_binding w_d orth d_reg iota_inj) => // k.
  by rewrite hxy gD hx hy.
Qed.

(* binding with a unitary vector is undone by binding with its inverse *)
Theorem unitary_inverse_undoes_binding a u :
  size a = d -> size u = d ->
  (forall k : 'I_d, spec u k * spec u (- k) = 1) ->
  hrr_bind_core (hrr_bind_core a u) (hrr_invert u) = a.
Proof.
  move=> sa su uu.
  apply: (spectrum_inj w_d orth d_reg iota_inj); rewrite ?size_hrr_bind // => k.
  rewrite (spectrum_bind iota w_d) ?size_hrr_bind // (spectrum_bind iota w_d) //.
  by rewrite (spectrum_invert iota w_d) // -mulrA uu mulr1.
Qed.

End FourierMore.

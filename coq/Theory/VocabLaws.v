(* The vocabulary state machine keeps its invariant under every operation,
   refines "the list of successful additions", and is append-only (C09). *)
From Coq Require Import List Bool Arith ZArith String Ascii Lia.
From NSpa Require Import Model.Vocab.
Import ListNotations.

Definition abs (v : vocab) : list (string * list Z) := combine (vkeys v) (vvectors v).

Definition Inv (v : vocab) : Prop :=
  vkeys v = map fst (vkey2idx v) /\
  map snd (vkey2idx v) = seq 0 (List.length (vkey2idx v)) /\
  List.length (vvectors v) = List.length (vkeys v) /\
  NoDup (vkeys v) /\
  Forall (fun k => valid_name k = true) (vkeys v) /\
  Forall (fun x => List.length x = vdims v) (vvectors v).

(* same configuration (dimensionality, strictness) *)
Definition same_cfg (v w : vocab) : Prop := vdims v = vdims w /\ vstrict v = vstrict w.

(* l is a prefix of m *)
Definition prefix {A} (l m : list A) : Prop := exists t, m = l ++ t.

Lemma prefix_refl {A} (l : list A) : prefix l l.
Proof. exists []. now rewrite app_nil_r. Qed.
Lemma prefix_trans {A} (a b c : list A) : prefix a b -> prefix b c -> prefix a c.
Proof. intros [t ->] [u ->]. exists (t ++ u). now rewrite app_assoc. Qed.
Lemma prefix_app {A} (l t : list A) : prefix l (l ++ t).
Proof. now exists t. Qed.

Lemma Inv_empty d s : Inv (empty_vocab d s).
Proof. repeat split; cbn; auto; constructor. Qed.

(* association list facts *)
Lemma assoc_in_keys k l : (exists i, assoc k l = Some i) <-> In k (map fst l).
Proof.
  induction l as [|[k' i] r IH]; cbn.
  - split; [intros [i H]; discriminate | intros []].
  - destruct (String.eqb k k') eqn:E.
    + apply String.eqb_eq in E. subst. split; eauto.
    + apply String.eqb_neq in E. rewrite IH. split; [auto|].
      intros [H|H]; [congruence|auto].
Qed.

Lemma assoc_none_iff k l : assoc k l = None <-> ~ In k (map fst l).
Proof.
  rewrite <- assoc_in_keys. destruct (assoc k l) eqn:E.
  - split; [discriminate|]. intros H. exfalso. apply H. eauto.
  - split; auto. intros _ [i H]. discriminate.
Qed.

Lemma assoc_app_last k l n : ~ In k (map fst l) -> assoc k (l ++ [(k, n)]) = Some n.
Proof.
  induction l as [|[k' i] r IH]; cbn; intros H.
  - now rewrite String.eqb_refl.
  - destruct (String.eqb k k') eqn:E.
    + apply String.eqb_eq in E. subst. exfalso. apply H. now left.
    + apply IH. intros K. apply H. now right.
Qed.

Lemma assoc_app_old k k' l n i : assoc k l = Some i -> assoc k (l ++ [(k', n)]) = Some i.
Proof.
  induction l as [|[k2 j] r IH]; cbn; [discriminate|].
  destruct (String.eqb k k2); auto.
Qed.

(* ---- add -------------------------------------------------------------------- *)
Lemma add_fail_unchanged v k p v' e : add v k p = (v', Some e) -> v' = v.
Proof.
  unfold add.
  destruct (negb (valid_name k)); [intros H; now inversion H|].
  destruct (assoc k (vkey2idx v)); [intros H; now inversion H|].
  destruct (_ || _); [intros H; now inversion H|].
  destruct (negb (_ =? _)); [intros H; now inversion H|].
  intros H; inversion H.
Qed.

Lemma NoDup_snoc {A} (l : list A) (x : A) : NoDup l -> ~ In x l -> NoDup (l ++ [x]).
Proof.
  induction l as [|y r IH]; cbn; intros Hn Hx.
  - constructor; [intros []|constructor].
  - inversion Hn; subst. constructor.
    + rewrite in_app_iff. cbn. intros [H|[H|[]]]; [contradiction|]. subst. apply Hx. now left.
    + apply IH; [assumption|]. intros H. apply Hx. now right.
Qed.

Lemma combine_snoc {A B} (l : list A) (m : list B) x y :
  List.length l = List.length m -> combine (l ++ [x]) (m ++ [y]) = combine l m ++ [(x, y)].
Proof.
  revert m; induction l as [|a r IH]; intros [|b s]; cbn; intros H; try discriminate; auto.
  f_equal. apply IH. now inversion H.
Qed.

Lemma add_ok_inv v k p v' :
  Inv v -> add v k p = (v', None) ->
  Inv v' /\ abs v' = abs v ++ [(k, pvec p)] /\ same_cfg v v' /\ vpos v' = vpos v.
Proof.
  intros (Hk & Hi & Hl & Hn & Hv & Hd). unfold add.
  destruct (valid_name k) eqn:Ev; cbn [negb]; [|intros H; inversion H].
  destruct (assoc k (vkey2idx v)) eqn:Ea; [intros H; inversion H|].
  destruct (_ || _); [intros H; inversion H|].
  destruct (List.length (pvec p) =? vdims v) eqn:El; cbn [negb]; [|intros H; inversion H].
  intros H; inversion H; subst v'; clear H. apply Nat.eqb_eq in El.
  apply assoc_none_iff in Ea. rewrite <- Hk in Ea.
  split; [|split; [|split; [split; reflexivity | reflexivity]]].
  - repeat split; cbn.
    + rewrite map_app, <- Hk. reflexivity.
    + rewrite map_app, app_length, Hi. cbn. rewrite Nat.add_1_r, seq_S. reflexivity.
    + rewrite !app_length, Hl. reflexivity.
    + apply NoDup_snoc; assumption.
    + apply Forall_app; split; [assumption|]. constructor; [assumption|constructor].
    + apply Forall_app; split; [assumption|]. constructor; [assumption|constructor].
  - unfold abs; cbn. rewrite combine_snoc by (symmetry; exact Hl). reflexivity.
Qed.

Lemma add_inv v k p :
  Inv v ->
  let '(v', r) := add v k p in
  Inv v' /\ same_cfg v v' /\ vpos v' = vpos v /\
  match r with
  | None => abs v' = abs v ++ [(k, pvec p)]
  | Some _ => v' = v
  end.
Proof.
  intros HI. destruct (add v k p) as [v' [e|]] eqn:E.
  - apply add_fail_unchanged in E. subst. split; [exact HI|]. split; [split; reflexivity|]. split; reflexivity.
  - destruct (add_ok_inv _ _ _ _ HI E) as (A & B & C & D). auto.
Qed.

(* what makes add succeed *)
Lemma add_ok_iff v k p :
  (exists v', add v k p = (v', None)) <->
  (valid_name k = true /\ assoc k (vkey2idx v) = None /\
   powner p <> ForeignVocab /\ psame_alg p = true /\ List.length (pvec p) = vdims v).
Proof.
  unfold add. destruct (valid_name k); cbn [negb].
  2:{ split; [intros [v' H]; inversion H | intros (H & _); discriminate]. }
  destruct (assoc k (vkey2idx v)).
  { split; [intros [v' H]; inversion H | intros (_ & H & _); discriminate]. }
  destruct (powner p) eqn:Eo, (psame_alg p) eqn:Es; cbn;
    try (split; [intros [v' H]; inversion H | intros (_ & _ & H1 & H2 & _); congruence]).
  - destruct (List.length (pvec p) =? vdims v) eqn:El; cbn.
    + apply Nat.eqb_eq in El. split; [intros _; repeat split; auto; discriminate | eauto].
    + apply Nat.eqb_neq in El. split; [intros [v' H]; inversion H | intros (_ & _ & _ & _ & H); contradiction].
  - destruct (List.length (pvec p) =? vdims v) eqn:El; cbn.
    + apply Nat.eqb_eq in El. split; [intros _; repeat split; auto; discriminate | eauto].
    + apply Nat.eqb_neq in El. split; [intros [v' H]; inversion H | intros (_ & _ & _ & _ & H); contradiction].
Qed.

(* ---- create_pointer --------------------------------------------------------- *)
Lemma create_pointer_inv gen v :
  Inv v ->
  Inv (fst (create_pointer gen v)) /\ abs (fst (create_pointer gen v)) = abs v /\
  same_cfg v (fst (create_pointer gen v)).
Proof.
  intros HI. cbn. split; [exact HI|]. split; [reflexivity|]. split; reflexivity.
Qed.

(* extension relation: invariant, append-only, same configuration *)
Definition ext (v v' : vocab) : Prop :=
  Inv v' /\ prefix (abs v) (abs v') /\ same_cfg v v'.

Lemma ext_intro v v' :
  Inv v' -> prefix (abs v) (abs v') -> vdims v = vdims v' -> vstrict v = vstrict v' -> ext v v'.
Proof. intros. split; [assumption|]. split; [assumption|]. split; assumption. Qed.

Lemma ext_refl v : Inv v -> ext v v.
Proof. intros H. apply ext_intro; auto. apply prefix_refl. Qed.

Lemma ext_trans a b c : ext a b -> ext b c -> ext a c.
Proof.
  intros (Ia & Pa & Ca1 & Ca2) (Ib & Pb & Cb1 & Cb2). apply ext_intro; auto.
  - eapply prefix_trans; eauto.
  - congruence.
  - congruence.
Qed.

Lemma add_ext v k p : Inv v -> ext v (fst (add v k p)).
Proof.
  intros HI. pose proof (add_inv v k p HI) as H.
  destruct (add v k p) as [v' r]. cbn. destruct H as (I' & C & _ & R).
  apply ext_intro; try apply C; [exact I'|].
  destruct r; [subst; apply prefix_refl | rewrite R; apply prefix_app].
Qed.

(* ---- __getitem__ -------------------------------------------------------------- *)
Lemma getitem_ext gen v k : Inv v -> ext v (fst (getitem gen v k)).
Proof.
  intros HI. unfold getitem.
  destruct (String.eqb k "__tracebackhide__"%string); [apply ext_refl; auto|].
  destruct (mem k special_names); [apply ext_refl; auto|].
  destruct (negb (vstrict v) && negb (contains v k)) eqn:Ec.
  - destruct (create_pointer gen v) as [v0 p] eqn:Ecp.
    assert (I0 : Inv v0 /\ abs v0 = abs v /\ same_cfg v v0).
    { pose proof (create_pointer_inv gen v HI) as H. rewrite Ecp in H. exact H. }
    destruct I0 as (I0 & A0 & C0).
    pose proof (add_ext v0 k p I0) as E.
    destruct (add v0 k p) as [v1 err] eqn:Ea. cbn in E.
    assert (E' : ext v v1).
    { destruct E as (I1 & P1 & C1a & C1b). destruct C0 as (C0a & C0b).
      rewrite A0 in P1. apply ext_intro; auto; try congruence. }
    destruct err; cbn; [exact E'|].
    destruct (assoc k (vkey2idx v1)); exact E'.
  - destruct (assoc k (vkey2idx v)); apply ext_refl; auto.
Qed.

(* a strict vocabulary never gains a key through lookup *)
Lemma getitem_strict gen v k : vstrict v = true -> fst (getitem gen v k) = v.
Proof.
  intros Hs. unfold getitem.
  destruct (String.eqb k "__tracebackhide__"%string); [reflexivity|].
  destruct (mem k special_names); [reflexivity|].
  rewrite Hs. cbn. destruct (assoc k (vkey2idx v)); reflexivity.
Qed.

(* a present key is never re-created *)
Lemma getitem_present gen v k i :
  assoc k (vkey2idx v) = Some i -> mem k special_names = false ->
  String.eqb k "__tracebackhide__"%string = false ->
  getitem gen v k = (v, inl (LVector (nth i (vvectors v) []))).
Proof.
  intros Ha Hm Ht. unfold getitem. rewrite Ht, Hm.
  unfold contains. rewrite Hm, Ha. cbn. rewrite andb_false_r. rewrite Ha. reflexivity.
Qed.

(* non-strict: a missing valid key is added with the next generated vector *)
Lemma getitem_nonstrict_missing gen v k :
  Inv v -> vstrict v = false -> valid_name k = true ->
  assoc k (vkey2idx v) = None -> List.length (gen (vpos v)) = vdims v ->
  abs (fst (getitem gen v k)) = abs v ++ [(k, gen (vpos v))].
Proof.
  intros HI Hs Hv Ha Hl. unfold getitem.
  assert (Hm : mem k special_names = false).
  { unfold valid_name in Hv. destruct k; [discriminate|].
    apply andb_true_iff in Hv. destruct Hv as [_ Hr]. apply negb_true_iff in Hr.
    unfold reserved_names, mem in Hr. rewrite existsb_app in Hr.
    apply orb_false_iff in Hr. apply Hr. }
  assert (Ht : String.eqb k "__tracebackhide__"%string = false).
  { destruct (String.eqb k "__tracebackhide__"%string) eqn:E; [|reflexivity].
    apply String.eqb_eq in E. subst. discriminate. }
  rewrite Ht, Hm. unfold contains. rewrite Hm, Ha, Hs. cbn.
  unfold add. cbn. rewrite Hv, Ha. cbn. rewrite Hl, Nat.eqb_refl. cbn.
  rewrite assoc_app_last.
  2:{ apply assoc_none_iff. exact Ha. }
  cbn. unfold abs. cbn. destruct HI as (_ & _ & Hlen & _).
  rewrite combine_snoc by (symmetry; exact Hlen). reflexivity.
Qed.

(* ---- parse / populate / subset: by induction over the item lists ----------- *)
Lemma eval_names_ext gen v names : Inv v -> ext v (fst (eval_names gen v names)).
Proof.
  revert v. induction names as [|k r IH]; intros v HI; cbn [eval_names]; [apply ext_refl; auto|].
  pose proof (getitem_ext gen v k HI) as E.
  destruct (getitem gen v k) as [v1 [l|e]]; cbn [fst] in *.
  - eapply ext_trans; [exact E|]. apply IH. apply E.
  - destruct e; exact E.
Qed.

Lemma eval_names_strict gen v names :
  vstrict v = true -> fst (eval_names gen v names) = v.
Proof.
  intros Hs. induction names as [|k r IH]; cbn [eval_names]; [reflexivity|].
  pose proof (getitem_strict gen v k Hs) as H.
  destruct (getitem gen v k) as [v1 [l|e]]; cbn [fst] in *; subst; auto.
  destruct e; reflexivity.
Qed.

Lemma parse_names_fst gen v names : fst (parse_names gen v names) = fst (eval_names gen v names).
Proof. unfold parse_names. destruct (eval_names gen v names) as [v1 [e|]]; reflexivity. Qed.

Lemma parse_names_ext gen v names : Inv v -> ext v (fst (parse_names gen v names)).
Proof. rewrite parse_names_fst. apply eval_names_ext. Qed.

Lemma parse_names_strict gen v names :
  vstrict v = true -> fst (parse_names gen v names) = v.
Proof. rewrite parse_names_fst. apply eval_names_strict. Qed.

Lemma populate_ext gen v items : Inv v -> ext v (fst (populate gen v items)).
Proof.
  revert v. induction items as [|it r IH]; intros v HI; cbn; [apply ext_refl; auto|].
  destruct it as [k|k names value].
  - pose proof (create_pointer_inv gen v HI) as (I0 & A0 & C0). cbn in I0, A0, C0.
    set (v0 := {| vdims := vdims v; vstrict := vstrict v; vkeys := vkeys v;
                  vkey2idx := vkey2idx v; vvectors := vvectors v; vpos := S (vpos v) |}) in *.
    pose proof (add_ext v0 k (Ptr (gen (vpos v)) Own true) I0) as E.
    assert (E0 : ext v v0).
    { apply ext_intro; auto; try apply C0. unfold abs, v0; cbn. apply prefix_refl. }
    destruct (add v0 k _) as [v1 [e|]]; cbn in *.
    + apply (ext_trans _ v0); assumption.
    + apply (ext_trans _ v1); [apply (ext_trans _ v0); assumption | apply IH; apply E].
  - pose proof (eval_names_ext gen v names HI) as E.
    destruct (eval_names gen v names) as [v0 [e|]]; cbn in *; [exact E|].
    pose proof (add_ext v0 k (Ptr value Own true) (proj1 E)) as E1.
    destruct (add v0 k _) as [v1 [e|]]; cbn in *.
    + apply (ext_trans _ v0); assumption.
    + apply (ext_trans _ v1); [apply (ext_trans _ v0); assumption | apply IH; apply E1].
Qed.

Lemma subset_reads_ext gen v keys : Inv v -> ext v (fst (subset_reads gen v keys)).
Proof.
  revert v. induction keys as [|k r IH]; intros v HI; cbn [subset_reads]; [apply ext_refl; auto|].
  destruct (mem k special_names); [apply ext_refl; auto|].
  pose proof (getitem_ext gen v k HI) as E.
  destruct (getitem gen v k) as [v1 [l|e]]; cbn in *.
  - eapply ext_trans; [exact E|]. apply IH. apply E.
  - exact E.
Qed.

(* ---- every operation, every history ------------------------------------------ *)
Theorem step_ext gen v o : Inv v -> ext v (fst (step gen v o)).
Proof.
  intros HI. destruct o; cbn.
  - apply add_ext; auto.
  - pose proof (getitem_ext gen v k HI) as E.
    destruct (getitem gen v k) as [v1 [l|e]]; exact E.
  - apply ext_refl; auto.
  - pose proof (create_pointer_inv gen v HI) as (I0 & A0 & C0).
    apply ext_intro; auto; try apply C0. unfold abs; cbn. apply prefix_refl.
  - apply parse_names_ext; auto.
  - apply populate_ext; auto.
  - apply subset_reads_ext; auto.
  - apply ext_refl; auto.
  - apply ext_refl; auto.
Qed.

Theorem run_ext gen v ops : Inv v -> ext v (run gen v ops).
Proof.
  revert v. induction ops as [|o r IH]; intros v HI; cbn; [apply ext_refl; auto|].
  pose proof (step_ext gen v o HI) as E.
  eapply ext_trans; [exact E|]. apply IH. apply E.
Qed.

Corollary run_inv gen d strict ops : Inv (run gen (empty_vocab d strict) ops).
Proof. apply (run_ext gen _ ops (Inv_empty d strict)). Qed.

(* failing operations that consist of a single addition leave the state as it was *)
Theorem add_rejections v k p :
  (valid_name k = false \/ (exists i, assoc k (vkey2idx v) = Some i) \/
   powner p = ForeignVocab \/ psame_alg p = false \/ List.length (pvec p) <> vdims v) ->
  exists e, add v k p = (v, Some e).
Proof.
  intros H. destruct (add v k p) as [v' [e|]] eqn:E.
  - exists e. apply add_fail_unchanged in E. subst. reflexivity.
  - exfalso. assert (Hok : exists v', add v k p = (v', None)) by eauto.
    apply add_ok_iff in Hok. destruct Hok as (A & B & C & D & F).
    destruct H as [H|[[i H]|[H|[H|H]]]]; congruence.
Qed.

(* a strict vocabulary never gains a key through lookup, parsing, membership
   tests, pointer creation or subset extraction *)
Theorem strict_never_gains gen v o :
  vstrict v = true ->
  match o with OAdd _ _ | OPopulate _ => True
  | _ => abs (fst (step gen v o)) = abs v end.
Proof.
  intros Hs. destruct o; cbn; auto.
  - rewrite (surjective_pairing (getitem gen v k)).
    pose proof (getitem_strict gen v k Hs) as H.
    destruct (getitem gen v k) as [v1 [l|e]]; cbn in *; subst; reflexivity.
  - rewrite parse_names_strict; auto.
  - induction keys as [|k r IH]; cbn [subset_reads]; [reflexivity|].
    destruct (mem k special_names); [reflexivity|].
    pose proof (getitem_strict gen v k Hs) as H.
    destruct (getitem gen v k) as [v1 [l|e]]; cbn in *; subst; auto.
Qed.

(* observers agree with the abstract list *)
Theorem observers_consistent v :
  Inv v ->
  vlen v = List.length (abs v) /\ map fst (abs v) = vkeys v /\
  (forall k, contains v k = mem k special_names || existsb (String.eqb k) (vkeys v)).
Proof.
  intros (Hk & Hi & Hl & Hn & Hv & Hd). unfold vlen, abs. repeat split.
  - rewrite combine_length, Hl. lia.
  - clear -Hl. revert Hl. generalize (vvectors v). induction (vkeys v) as [|a r IH]; intros [|x s] H; cbn in *; try discriminate; auto.
    f_equal. apply IH. now inversion H.
  - intros k. unfold contains. f_equal. rewrite Hk.
    destruct (assoc k (vkey2idx v)) eqn:E.
    + symmetry. apply existsb_exists. exists k. split; [|apply String.eqb_refl].
      apply assoc_in_keys. eauto.
    + symmetry. apply not_true_iff_false. intros H. apply existsb_exists in H.
      destruct H as (x & Hx & Ex). apply String.eqb_eq in Ex. subst x.
      apply assoc_none_iff in E. contradiction.
Qed.

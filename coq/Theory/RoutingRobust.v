(* Routing (Model/Routing.v) under ANY selection activity, not only a one-hot one:
   what every target receives as an explicit function of the thalamus activities, and
   a bound on what losing actions leak when their activity is small but not zero
   ("suppressed to near zero in all dimensions"). *)
From mathcomp Require Import all_ssreflect all_algebra.
From NSpa Require Import Model.Vec Model.Routing Theory.SeqSum Theory.RoutingLaws.
Set Implicit Arguments.
Unset Strict Implicit.
Unset Printing Implicit Defensive.
Import GRing.Theory Num.Theory Order.TTheory.
Local Open Scope ring_scope.

Section Robust.
Variable R : realDomainType.
Variable dims : nat -> nat.
Variable dyn : nat -> seq R.
Variable theta : R.

Local Notation contribution := (contribution dims dyn theta).
Local Notation received := (received dims dyn theta).
Local Notation effect_value := (effect_value dims dyn).
Local Notation effect_ok := (effect_ok dims dyn).
Local Notation gate_active := (gate_active theta).

(* what one effect of an action delivers into target t when the action's thalamus unit
   has activity a and its gate lets the channel through (opened) or not *)
Definition leak_value (a : R) (opened : bool) (t : nat) (e : effect R) : seq R :=
  if e_target e == t then
    match e_src e with
    | SFixed v => vscale a v
    | SDyn k => if opened then dyn k else vzero R (dims t)
    end
  else vzero R (dims t).

(* the fixed (constant) part of an effect into target t *)
Definition fixed_part (t : nat) (e : effect R) : seq R :=
  if e_target e == t then
    match e_src e with SFixed v => v | SDyn _ => vzero R (dims t) end
  else vzero R (dims t).

Lemma contribution_any act t i (e : effect R) :
  contribution act t (effect_wire i e) = leak_value (act i) (~~ gate_active (act i)) t e.
Proof.
  rewrite /effect_wire /leak_value; case: e => [[v|k] tg sc] /=.
  - by [].
  - by case: (tg == t).
Qed.

Lemma leak_closed a t e j : vnth (leak_value a false t e) j = a * vnth (fixed_part t e) j.
Proof.
  rewrite /leak_value /fixed_part; case: e => [[v|k] tg sc] /=;
  by case: (tg == t); rewrite ?nth_vscale ?nth_vzero ?mulr0.
Qed.

Lemma leak_open_one t e j : vnth (leak_value 1 true t e) j = vnth (effect_value t e) j.
Proof.
  rewrite /leak_value /Routing.effect_value; case: e => [[v|k] tg sc] /=;
  by case: (tg == t); rewrite ?nth_vscale ?mul1r.
Qed.

(* every target, every selection activity: the received value, component by component *)
Theorem received_any (actions : seq (seq (effect R))) act t j :
  all (all effect_ok) actions ->
  vnth (received act t (build actions)) j
  = \sum_(i < size actions) \sum_(e <- nth [::] actions i)
       vnth (leak_value (act i) (~~ gate_active (act i)) t e) j.
Proof.
  move=> ok.
  have wires_ok : all (fun x => size (contribution act t x) == dims t) (build actions).
    rewrite /build all_cat; apply/andP; split.
      by rewrite all_map; apply/(all_nthP 0%N) => i _ /=; rewrite size_vzero.
    rewrite /build_from all_flatten' all_map; apply/(all_nthP (0%N, [::])) => n.
    rewrite size_zip size_iota minnn => ln.
    rewrite nth_zip ?size_iota // /= all_map; apply/(all_nthP (Effect (SDyn R 0) 0 false)) => m lm /=.
    apply/eqP; apply: size_contribution.
    move/all_nthP: ok => /(_ [::] n ln) /all_nthP; exact.
  rewrite nth_received // /build big_cat /=.
  rewrite big_map big1 ?add0r; last by move=> i _; rewrite /= nth_vzero.
  rewrite /build_from big_flatten /= big_map.
  rewrite (big_nth (0%N, [::])) size_zip size_iota minnn big_mkord.
  apply: eq_bigr => i _.
  rewrite nth_zip ?size_iota // nth_iota // add0n /= big_map.
  by apply: eq_bigr => e _; rewrite contribution_any.
Qed.

(* near-one-hot selection: the winner's gate is open, every loser's gate is closed and
   every loser's activity is at most eps in magnitude.  Then each component of what a
   target receives differs from the winner's effects (fixed effects scaled by the
   winner's activity) by at most eps times the total fixed effect of the losers. *)
Theorem losers_leak_at_most (actions : seq (seq (effect R))) (act : nat -> R) (w : 'I_(size actions)) eps t j :
  all (all effect_ok) actions ->
  ~~ gate_active (act w) ->
  (forall i : 'I_(size actions), i != w -> gate_active (act i) /\ `|act i| <= eps) ->
  `| vnth (received act t (build actions)) j
     - \sum_(e <- nth [::] actions w) vnth (leak_value (act w) true t e) j |
  <= eps * \sum_(i < size actions | i != w) \sum_(e <- nth [::] actions i) `|vnth (fixed_part t e) j|.
Proof.
  move=> ok open_w losers; rewrite received_any // (bigD1 w) //= open_w.
  rewrite [X in X - _]addrC addrK mulr_sumr.
  apply: le_trans (ler_norm_sum _ _ _) _; apply: ler_sum => i ne.
  case: (losers i ne) => shut small; rewrite shut /=.
  rewrite (eq_bigr (fun e => act i * vnth (fixed_part t e) j)); last by move=> e _; rewrite leak_closed.
  rewrite -mulr_sumr normrM; apply: ler_pmul => //.
  exact: ler_norm_sum.
Qed.

(* eps = 0 and winner activity 1 give back the one-hot statement of RoutingLaws *)
Corollary exact_selection (actions : seq (seq (effect R))) (act : nat -> R) (w : 'I_(size actions)) t j :
  all (all effect_ok) actions ->
  act w = 1 -> ~~ gate_active (act w) ->
  (forall i : 'I_(size actions), i != w -> gate_active (act i) /\ act i = 0) ->
  vnth (received act t (build actions)) j = \sum_(e <- nth [::] actions w) vnth (effect_value t e) j.
Proof.
  move=> ok one open_w losers.
  have := @losers_leak_at_most actions act w 0 t j ok open_w.
  have H : forall i : 'I_(size actions), i != w -> gate_active (act i) /\ `|act i| <= 0.
    by move=> i ne; case: (losers i ne) => g z; split=> //; rewrite z normr0.
  move/(_ H); rewrite mul0r normr_le0 subr_eq0 => /eqP ->.
  by apply: eq_bigr => e _; rewrite one leak_open_one.
Qed.

End Robust.

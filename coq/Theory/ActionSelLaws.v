(* Action-selection blocks leave no residue (C14). *)
From Coq Require Import List Bool Arith String Lia.
From NSpa Require Import Model.ActionSel.
Import ListNotations.

(* the three process-wide switches agree *)
Definition sw_eq (g h : gstate) : Prop :=
  active g = active h /\ routed g = routed h /\ free g = free h.

Lemma at_rest_iff g : at_rest g = true <-> (active g = false /\ routed g = false /\ free g = 0).
Proof.
  unfold at_rest. rewrite !andb_true_iff, !negb_true_iff, Nat.eqb_eq. tauto.
Qed.

(* ---- inside a block nothing is connected ------------------------------------ *)
Lemma exec_stmt_conns g b s : conns (fst (fst (exec_stmt g b s))) = conns g.
Proof.
  destruct s as [name c effs| | |body|]; cbn; try reflexivity.
  destruct c; cbn; try reflexivity; destruct (existsb _ effs); reflexivity.
Qed.

Lemma exec_body_conns g b body : conns (fst (fst (exec_body g b body))) = conns g.
Proof.
  revert g b. induction body as [|s r IH]; intros g b; cbn; [reflexivity|].
  pose proof (exec_stmt_conns g b s) as H.
  destruct (exec_stmt g b s) as [[g1 b1] [e|]]; cbn in *; [exact H|].
  rewrite IH. exact H.
Qed.

Theorem block_never_connects g body : conns (fst (fst (run_block g body))) = conns g.
Proof.
  unfold run_block. destruct (active g); [reflexivity|].
  pose proof (exec_body_conns (G true true (free g) (conns g)) new_block body) as H.
  destruct (exec_body _ _ _) as [[g1 b1] [e|]]; cbn in *; [exact H|].
  destruct (negb (free g1 =? 0)); cbn; [exact H|].
  destruct (List.length (names b1) =? 0); cbn; [exact H|].
  destruct (has_failing b1); exact H.
Qed.

Theorem plain_route_connects_immediately g :
  routed g = false ->
  let '(g', _, e) := run_event g EvRoute in
  conns g' = S (conns g) /\ e = None /\ sw_eq g g'.
Proof. intros H. cbn. rewrite H. cbn. unfold sw_eq. cbn. rewrite H. auto. Qed.

(* ---- every block ends at rest, whatever happens inside ----------------------- *)
Theorem block_ends_at_rest g body :
  active g = false -> at_rest (fst (fst (run_block g body))) = true.
Proof.
  intros Ha. unfold run_block. rewrite Ha.
  destruct (exec_body _ _ _) as [[g1 b1] [e|]]; cbn; [reflexivity|].
  destruct (negb (free g1 =? 0)); cbn; [reflexivity|].
  destruct (List.length (names b1) =? 0); cbn; [reflexivity|].
  destruct (has_failing b1); reflexivity.
Qed.

Theorem nested_block_rejected_without_change g body :
  active g = true -> run_block g body = (g, new_block, Some ASelError).
Proof. intros Ha. unfold run_block. now rewrite Ha. Qed.

Lemma event_keeps_rest g ev :
  at_rest g = true -> at_rest (fst (fst (run_event g ev))) = true.
Proof.
  intros H. pose proof (proj1 (at_rest_iff g) H) as (Ha & Hr & Hf).
  destruct ev as [body| |]; cbn.
  - pose proof (block_ends_at_rest g body Ha) as K.
    destruct (run_block g body) as [[g1 b] e]. exact K.
  - rewrite Hr. cbn. apply at_rest_iff. cbn. auto.
  - rewrite Ha. exact H.
Qed.

Theorem every_history_ends_at_rest c evs : at_rest (run_events (rest c) evs) = true.
Proof.
  assert (G : forall g, at_rest g = true -> at_rest (run_events g evs) = true).
  { induction evs as [|ev r IH]; intros g H; cbn; [exact H|].
    apply IH. apply event_keeps_rest. exact H. }
  apply G. reflexivity.
Qed.

(* ---- a block behaves the same after any history ------------------------------ *)
Lemma exec_stmt_sw g h b s :
  sw_eq g h ->
  let '(g1, b1, e1) := exec_stmt g b s in
  let '(h1, c1, f1) := exec_stmt h b s in
  sw_eq g1 h1 /\ b1 = c1 /\ e1 = f1.
Proof.
  intros (Ha & Hr & Hf). destruct s as [name c effs| | |body|]; cbn.
  - destruct c; cbn; try (repeat split; cbn; congruence);
      destruct (existsb _ effs); cbn; repeat split; cbn; congruence.
  - repeat split; cbn; congruence.
  - repeat split; auto.
  - repeat split; auto.
  - repeat split; auto.
Qed.

Lemma exec_body_sw g h b body :
  sw_eq g h ->
  let '(g1, b1, e1) := exec_body g b body in
  let '(h1, c1, f1) := exec_body h b body in
  sw_eq g1 h1 /\ b1 = c1 /\ e1 = f1.
Proof.
  revert g h b. induction body as [|s r IH]; intros g h b H; cbn.
  - repeat split; apply H.
  - pose proof (exec_stmt_sw g h b s H) as K.
    destruct (exec_stmt g b s) as [[g1 b1] [e|]], (exec_stmt h b s) as [[h1 c1] [f|]];
      destruct K as (K1 & K2 & K3); try discriminate; subst.
    + repeat split; auto; apply K1.
    + apply IH. exact K1.
Qed.

Theorem block_outcome_independent_of_history g h body :
  at_rest g = true -> at_rest h = true ->
  snd (fst (run_block g body)) = snd (fst (run_block h body)) /\
  snd (run_block g body) = snd (run_block h body).
Proof.
  intros Hg Hh.
  apply at_rest_iff in Hg. apply at_rest_iff in Hh.
  destruct Hg as (Ga & Gr & Gf), Hh as (Ha & Hr & Hf).
  unfold run_block. rewrite Ga, Ha, Gf, Hf.
  pose proof (exec_body_sw (G true true 0 (conns g)) (G true true 0 (conns h)) new_block body) as K.
  assert (S0 : sw_eq (G true true 0 (conns g)) (G true true 0 (conns h))) by (repeat split).
  specialize (K S0).
  destruct (exec_body (G true true 0 (conns g)) new_block body) as [[g1 b1] e1].
  destruct (exec_body (G true true 0 (conns h)) new_block body) as [[h1 c1] f1].
  destruct K as ((_ & _ & Kf) & Kb & Ke). subst c1 f1. cbn in Kf.
  destruct e1; cbn; [split; reflexivity|].
  rewrite Kf. destruct (negb (free h1 =? 0)); cbn; [split; reflexivity|].
  destruct (List.length (names b1) =? 0); cbn; [split; reflexivity|].
  destruct (has_failing b1); split; reflexivity.
Qed.

(* ---- built only when the block completed without error ----------------------- *)
Lemma exec_stmt_built g b s : built (snd (fst (exec_stmt g b s))) = built b.
Proof.
  destruct s as [name c effs| | |body|]; cbn; try reflexivity.
  destruct c; cbn; try reflexivity; destruct (existsb _ effs); reflexivity.
Qed.
Lemma exec_body_built g b body : built (snd (fst (exec_body g b body))) = built b.
Proof.
  revert g b. induction body as [|s r IH]; intros g b; cbn; [reflexivity|].
  pose proof (exec_stmt_built g b s) as H.
  destruct (exec_stmt g b s) as [[g1 b1] [e|]]; cbn in *; [exact H|].
  rewrite IH. exact H.
Qed.

Theorem built_only_without_error g body :
  built (snd (fst (run_block g body))) = true -> snd (run_block g body) = None.
Proof.
  unfold run_block. destruct (active g); [cbn; discriminate|].
  pose proof (exec_body_built (G true true (free g) (conns g)) new_block body) as H.
  destruct (exec_body _ _ _) as [[g1 b1] [e|]]; cbn in *.
  - rewrite H. discriminate.
  - destruct (negb (free g1 =? 0)); cbn; [rewrite H; discriminate|].
    destruct (List.length (names b1) =? 0); cbn; [reflexivity|].
    destruct (has_failing b1); cbn; [rewrite H; discriminate|reflexivity].
Qed.

(* ---- each misuse is reported with its documented error ----------------------- *)
Theorem misuse_errors g b :
  (forall body, exec_stmt g b (SNested body) = (g, b, Some ASelError)) /\
  (forall name effs, snd (exec_stmt g b (SIfmax name CNonScalar effs)) = Some ATypeError) /\
  (forall name c effs, c <> CNonScalar -> existsb (fun e => negb (is_route e)) effs = true ->
     snd (exec_stmt g b (SIfmax name c effs)) = Some ASelError) /\
  (active g = false -> snd (run_event g EvIfmaxOutside) = Some ASelError).
Proof.
  repeat split; intros; cbn; auto.
  - destruct c; try contradiction; cbn; rewrite H0; reflexivity.
  - rewrite H. reflexivity.
Qed.

(* routing statements left outside any action make the block fail at exit *)
Theorem free_floating_routing_fails g body g1 b1 :
  active g = false ->
  exec_body (G true true (free g) (conns g)) new_block body = (g1, b1, None) ->
  free g1 <> 0 -> snd (run_block g body) = Some ASelError.
Proof.
  intros Ha E Hf. unfold run_block. rewrite Ha, E. cbn.
  apply Nat.eqb_neq in Hf. rewrite Hf. reflexivity.
Qed.

(* ---- keys: per action its name, else its position; lookups agree -------------- *)
Lemma keys_from_length i l : List.length (keys_from i l) = List.length l.
Proof. revert i. induction l as [|[s|] r IH]; intros i; cbn; auto. Qed.

Lemma keys_from_nth i l n :
  n < List.length l ->
  nth n (keys_from i l) (KPos 0) =
  match nth n l None with Some s => KName s | None => KPos (i + n) end.
Proof.
  revert i n. induction l as [|[s|] r IH]; intros i n H; cbn in *; [lia| |].
  - destruct n; [reflexivity|]. rewrite IH by lia. replace (S i + n) with (i + S n) by lia. reflexivity.
  - destruct n; [f_equal; lia|]. rewrite IH by lia. replace (S i + n) with (i + S n) by lia. reflexivity.
Qed.

Theorem keys_one_per_action b :
  List.length (block_keys b) = List.length (names b) /\
  forall n, n < List.length (names b) ->
    nth n (block_keys b) (KPos 0) =
    match nth n (names b) None with Some s => KName s | None => KPos n end.
Proof.
  split; [apply keys_from_length|]. intros n H. unfold block_keys.
  rewrite keys_from_nth by exact H. reflexivity.
Qed.

Theorem getitem_by_position b n :
  n < List.length (names b) -> block_getitem b (KPos n) = Some n.
Proof. intros H. unfold block_getitem. apply Nat.ltb_lt in H. rewrite H. reflexivity. Qed.

Lemma name_index_acc s i l acc :
  ~ In (Some s) l -> name_index s i l acc = acc.
Proof.
  revert i acc. induction l as [|[t|] r IH]; intros i acc H; cbn; auto.
  - destruct (String.eqb s t) eqn:E.
    + apply String.eqb_eq in E. subst. exfalso. apply H. now left.
    + apply IH. intros K. apply H. now right.
  - apply IH. intros K. apply H. now right.
Qed.

Lemma name_index_found s i l acc n :
  NoDup l -> n < List.length l -> nth n l None = Some s ->
  name_index s i l acc = Some (i + n).
Proof.
  revert i acc n. induction l as [|[t|] r IH]; intros i acc n Hn Hl Hs; cbn in *; [lia| |].
  - inversion Hn; subst. destruct n.
    + inversion Hs; subst. rewrite String.eqb_refl.
      rewrite name_index_acc by assumption. f_equal. lia.
    + rewrite (IH (S i) _ n) by (auto; lia). f_equal. lia.
  - inversion Hn; subst. destruct n; [discriminate|].
    rewrite (IH (S i) _ n) by (auto; lia). f_equal. lia.
Qed.

Lemma name_index_unique s i l acc n :
  n < List.length l -> nth n l None = Some s ->
  (forall m, m < List.length l -> nth m l None = Some s -> m = n) ->
  name_index s i l acc = Some (i + n).
Proof.
  revert i acc n. induction l as [|o r IH]; intros i acc n Hl Hs Hu; cbn in *; [lia|].
  destruct n.
  - subst o. rewrite String.eqb_refl. rewrite name_index_acc; [f_equal; lia|].
    intros K. apply (In_nth _ _ None) in K. destruct K as (m & Hm & Em).
    specialize (Hu (S m) ltac:(lia) Em). discriminate.
  - assert (Hne : match o with Some t => String.eqb s t = false | None => True end).
    { destruct o as [t|]; [|exact I]. destruct (String.eqb s t) eqn:E; [|reflexivity].
      apply String.eqb_eq in E. subst t. specialize (Hu 0 ltac:(lia) eq_refl). discriminate. }
    assert (IHn : name_index s (S i) r acc = Some (S i + n)).
    { apply IH; [lia|exact Hs|]. intros m Hm Em. specialize (Hu (S m) ltac:(lia) Em). lia. }
    destruct o as [t|]; [rewrite Hne|]; rewrite IHn; f_equal; lia.
Qed.

(* with distinct names, looking a key up by name gives the action declared under it *)
Theorem getitem_by_name b n s :
  n < List.length (names b) -> nth n (names b) None = Some s ->
  (forall m, m < List.length (names b) -> nth m (names b) None = Some s -> m = n) ->
  block_getitem b (KName s) = Some n.
Proof. intros. cbn. now rewrite (name_index_unique s 0 (names b) None n). Qed.

(* Correctness of the expression compiler model (Model/Dynamic.v), for every
   algebra satisfying [walg_laws]:
   - connect_to with a pending outer transform delivers that transform applied to
     the node's value (transform composition np.dot(outer, inner) is composition);
   - every node the operators build is well shaped and denotes the value of the
     expression in Semantic-Pointer arithmetic, for all source values;
   - hence `e >> sink` delivers [eval_sp e]; several statements add. *)
From mathcomp Require Import all_ssreflect all_algebra.
From NSpa Require Import Model.Vec Model.Vtb Model.Dynamic Theory.SeqSum Theory.DynLin.
Set Implicit Arguments.
Unset Strict Implicit.
Unset Printing Implicit Defensive.
Import GRing.Theory.
Local Open Scope ring_scope.

Section Laws.
Variable R : comRingType.
Variable A : walg R.
Variable env_ptr : nat -> seq R.
Variable env_scalar : nat -> R.
Variable src_dim : nat -> nat.

Local Notation dval := (dval R).
Local Notation node := (node R).
Local Notation transform := (transform R).
Local Notation sem := (sem A env_ptr env_scalar).
Local Notation deliver := (deliver A env_ptr env_scalar).
Local Notation eval_sp := (eval_sp A env_ptr env_scalar).
Local Notation build := (build A src_dim).

(* what the compiler relies on: exactly the contract of AbstractAlgebra *)
Record walg_laws : Prop := WLaws {
  wl_pos : forall d, w_valid A d -> (0 < d)%N;
  wl_bind_size : forall d x y, w_valid A d -> size x = d -> size y = d -> size (w_bind A x y) = d;
  wl_bmat : forall d v x sw, w_valid A d -> size v = d -> size x = d ->
      matvec (w_bmat A v sw) x = if sw then w_bind A v x else w_bind A x v;
  wl_bmat_shape : forall d v sw, w_valid A d -> size v = d -> is_mat (w_bmat A v sw) d d;
  wl_imat : forall d sd x, w_valid A d -> size x = d ->
      w_inv A sd x = rmap (fun m => matvec m x) (w_imat A d sd);
  wl_imat_shape : forall d sd m, w_valid A d -> w_imat A d sd = Ok m -> is_mat m d d
}.
Hypothesis L : walg_laws.
Hypothesis env_size : forall i, size (env_ptr i) = src_dim i.

(* ---- shapes ------------------------------------------------------------------------- *)
Definition ty_ok (t : vty) : bool := if t is TyPtr d then w_valid A d else true.

Definition has_ty (v : dval) (t : vty) : bool :=
  match v, t with
  | VP x, TyPtr d => size x == d
  | VS _, TyScalar => true
  | _, _ => false
  end.

Definition tr_ty (t : transform) (a : vty) : option vty :=
  match t, a with
  | TScale _, _ => Some a
  | TMat m, TyPtr d => if is_mat m (size m) d then Some (TyPtr (size m)) else None
  | TRow r, TyPtr d => if size r == d then Some TyScalar else None
  | TCol c, TyScalar => Some (TyPtr (size c))
  | _, _ => None
  end.

Definition k_ty (k : option transform) (a : vty) : option vty :=
  if k is Some t then tr_ty t a else Some a.

Fixpoint wt (n : node) : option vty :=
  match n with
  | NOut i => if w_valid A (src_dim i) then Some (TyPtr (src_dim i)) else None
  | NOutScalar _ => Some TyScalar
  | NFixedPtr v => if w_valid A (size v) then Some (TyPtr (size v)) else None
  | NFixedScalar _ => Some TyScalar
  | NTransformed m t =>
      if wt m is Some a then
        if tr_ty t a is Some b then (if ty_ok b then Some b else None) else None
      else None
  | NSummed f a b =>
      match wt a, wt b with
      | Some ta, Some tb => if vty_eqb ta tb && (f == vty_eqb ta TyScalar) then Some ta else None
      | _, _ => None
      end
  | NBind a b =>
      match wt a, wt b with
      | Some (TyPtr d), Some (TyPtr e) => if d == e then Some (TyPtr d) else None
      | _, _ => None
      end
  | NProduct a b =>
      match wt a, wt b with
      | Some TyScalar, Some TyScalar => Some TyScalar
      | _, _ => None
      end
  | NDotProd a b =>
      match wt a, wt b with
      | Some (TyPtr d), Some (TyPtr e) => if d == e then Some TyScalar else None
      | _, _ => None
      end
  end.

Lemma vty_eqbP a b : reflect (a = b) (vty_eqb a b).
Proof.
  case: a b => [d|] [e|] /=; try by constructor.
  by apply: (iffP eqP) => [->|[]].
Qed.

Lemma wt_ok n t : wt n = Some t -> ty_ok t.
Proof.
  elim: n t => [i|i|v|c|m IH tr|f a IHa b IHb|a IHa b IHb|a IHa b IHb|a IHa b IHb] t /=.
  - by case: ifP => // v [<-].
  - by move=> [<-].
  - by case: ifP => // v' [<-].
  - by move=> [<-].
  - case: (wt m) => // a0; case: (tr_ty tr a0) => // b0; by case: ifP => // ok [<-].
  - case E: (wt a) => [ta|] //; case: (wt b) => // tb; case: ifP => // _ [<-]; exact: IHa.
  - case E: (wt a) => [[d|]|] //; case: (wt b) => [[e|]|] //; case: ifP => // _ [<-].
    exact: (IHa _ E).
  - by case: (wt a) => [[d|]|] //; case: (wt b) => [[e|]|] // [<-].
  - by case: (wt a) => [[d|]|] //; case: (wt b) => [[e|]|] //; case: ifP => // _ [<-].
Qed.

(* applying a well-shaped transform to a well-shaped value *)
Lemma apply_ty t a b v :
  tr_ty t a = Some b -> has_ty v a -> exists2 v', apply_t t v = Ok v' & has_ty v' b.
Proof.
  case: t => [m|c|r|c]; case: a => [d|]; case: v => [x|s] //=.
  - by case: ifP => // _ [<-] _; exists (VP (matvec m x)) => //=; rewrite size_matvec.
  - by move=> [<-] sx; exists (VP (vscale c x)) => //=; rewrite size_vscale.
  - by move=> [<-] _; exists (VS (c * s)).
  - by case: ifP => // _ [<-] _; exists (VS (sdot r x)).
  - by move=> [<-] _; exists (VP (vscale s c)) => //=; rewrite size_vscale.
Qed.

(* every well-shaped node has a value of its type *)
Lemma sem_wt n t : wt n = Some t -> exists2 v, sem n = Ok v & has_ty v t.
Proof.
  elim: n t => [i|i|v|c|m IH tr|f a IHa b IHb|a IHa b IHb|a IHa b IHb|a IHa b IHb] t /=.
  - by case: ifP => // _ [<-]; exists (VP (env_ptr i)) => //=; rewrite env_size.
  - by move=> [<-]; exists (VS (env_scalar i)).
  - by case: ifP => // _ [<-]; exists (VP v) => /=.
  - by move=> [<-]; exists (VS c).
  - case E: (wt m) => [a0|] //; case T: (tr_ty tr a0) => [b0|] //; case: ifP => // _ [<-].
    have [v0 -> hv] := IH _ E.
    exact: (apply_ty T hv).
  - case Ea: (wt a) => [ta|] //; case Eb: (wt b) => [tb|] //.
    case: ifP => // /andP [/vty_eqbP e _] [<-]; subst tb.
    have [va -> ha] := IHa _ Ea; have [vb -> hb] := IHb _ Eb.
    case: ta va vb ha hb {Ea Eb} => [d|] [x|s] [y|s'] //= hx hy.
      by exists (VP (vadd x y)) => //=; rewrite size_vadd.
    by exists (VS (s + s')).
  - case Ea: (wt a) => [[d|]|] //; case Eb: (wt b) => [[e|]|] //; case: ifP => // /eqP de [<-].
    have [va -> ha] := IHa _ Ea; have [vb -> hb] := IHb _ Eb.
    case: va vb ha hb => [x|s] [y|s'] //= /eqP hx /eqP hy.
    exists (VP (w_bind A x y)) => //=.
    have ok := wt_ok Ea.
    by rewrite (wl_bind_size L ok hx) // hy de.
  - case Ea: (wt a) => [[d|]|] //; case Eb: (wt b) => [[e|]|] // [<-].
    have [va -> ha] := IHa _ Ea; have [vb -> hb] := IHb _ Eb.
    by case: va vb ha hb => [x|s] [y|s'] //= _ _; exists (VS (s * s')).
  - case Ea: (wt a) => [[d|]|] //; case Eb: (wt b) => [[e|]|] //; case: ifP => // _ [<-].
    have [va -> ha] := IHa _ Ea; have [vb -> hb] := IHb _ Eb.
    by case: va vb ha hb => [x|s] [y|s'] //= _ _; exists (VS (sdot x y)).
Qed.

(* ---- transform composition ------------------------------------------------------------ *)
Lemma tscale_ok c t a b :
  tr_ty t a = Some b ->
  tr_ty (tscale c t) a = Some b /\
  forall v, has_ty v a -> apply_t (tscale c t) v = rbind (apply_t t v) (apply_t (TScale c)).
Proof.
  case: t => [m|c'|r|c']; case: a => [d|] //=.
  - case: ifP => // Hm [<-]; rewrite size_map (is_mat_mscale c Hm); split=> // -[x|s] //= _.
    by rewrite matvec_mscale.
  - move=> [<-]; split=> // -[x|s] //= _; by rewrite vscale_vscale.
  - move=> [<-]; split=> // -[x|s] //= _; by rewrite mulrA.
  - case: ifP => // /eqP sr [<-]; rewrite size_vscale sr eqxx; split=> // -[x|s] //= _.
    by rewrite /sdot dot_vscale_l.
  - move=> [<-]; rewrite size_vscale; split=> // -[x|s] //= _.
    by rewrite vscale_swap.
Qed.

Lemma scale_after_ok c k b c' :
  tr_ty k b = Some c' ->
  tr_ty (tscale c k) b = Some c' /\
  forall v, has_ty v b -> apply_t (tscale c k) v = rbind (apply_t (TScale c) v) (apply_t k).
Proof.
  case: k => [m|c0|r|c0]; case: b => [d|] //=.
  - case: ifP => // Hm [<-]; rewrite size_map (is_mat_mscale c Hm); split=> // -[x|s] //= _.
    by rewrite matvec_mscale matvec_vscale.
  - move=> [<-]; split=> // -[x|s] //= _; by rewrite !vscale_vscale mulrC.
  - move=> [<-]; split=> // -[x|s] //= _; by rewrite !mulrA [c * c0]mulrC.
  - case: ifP => // /eqP sr [<-]; rewrite size_vscale sr eqxx; split=> // -[x|s] //= _.
    by rewrite /sdot dot_vscale_l dot_vscale_r.
  - move=> [<-]; rewrite size_vscale; split=> // -[x|s] //= _.
    by rewrite vscale_vscale mulrC.
Qed.

Lemma compose_ok k t a b c :
  tr_ty t a = Some b -> ty_ok b -> tr_ty k b = Some c ->
  exists2 kt, compose k t = Ok kt &
    tr_ty kt a = Some c /\
    forall v, has_ty v a -> apply_t kt v = rbind (apply_t t v) (apply_t k).
Proof.
  move=> Ht okb Hk.
  case: k Hk => [mk|ck|rk|ck] Hk.
  - case: t Ht => [mt|ct|rt_|ct] Ht.
    + (* matrix . matrix *)
      exists (TMat (matmul mk mt)) => //.
      case: a Ht => [d|] //=; case: ifP => // Hmt [e]; subst b.
      move: Hk => /=; case: ifP => // Hmk [<-].
      have pos : (0 < size mt)%N by apply: (wl_pos L).
      rewrite size_mkmat (is_mat_matmul Hmk Hmt pos); split=> // -[x|s] //= _.
      by rewrite (matvec_matmulE x Hmk Hmt).
    + exists (tscale ct (TMat mk)) => //.
      have e : b = a by move: Ht => /= [->].
      subst b; exact: scale_after_ok.
    + by case: a Ht => [d|] //=; case: ifP => // _ [e]; subst b.
    + (* matrix . column *)
      exists (TCol (matvec mk ct)) => //.
      case: a Ht => [d|] //= [e]; subst b.
      move: Hk => /=; case: ifP => // Hmk [<-].
      rewrite size_matvec; split=> // -[x|s] //= _.
      by rewrite matvec_vscale.
  - (* outer scale *)
    exists (tscale ck t); first by case: t {Ht}.
    have e : c = b by move: Hk => /= [->].
    subst c; exact: tscale_ok.
  - case: t Ht => [mt|ct|rt_|ct] Ht.
    + (* row . matrix *)
      exists (TRow (vecmat rk mt)) => //.
      case: a Ht => [d|] //=; case: ifP => // Hmt [e]; subst b.
      move: Hk => /=; case: ifP => // /eqP srk [<-].
      have pos : (0 < size mt)%N by apply: (wl_pos L).
      rewrite (size_vecmat rk Hmt pos) eqxx; split=> // -[x|s] //= _.
      by rewrite /sdot (dot_vecmat x Hmt srk).
    + exists (tscale ct (TRow rk)) => //.
      have e : b = a by move: Ht => /= [->].
      subst b; exact: scale_after_ok.
    + by case: a Ht => [d|] //=; case: ifP => // _ [e]; subst b.
    + (* row . column *)
      exists (TScale (sdot rk ct)) => //.
      case: a Ht => [d|] //= [e]; subst b.
      move: Hk => /=; case: ifP => // _ [<-]; split=> // -[x|s] //= _.
      by rewrite /sdot dot_vscale_r mulrC.
  - case: t Ht => [mt|ct|rt_|ct] Ht.
    + by case: a Ht => [d|] //=; case: ifP => // _ [e]; subst b.
    + exists (tscale ct (TCol ck)) => //.
      have e : b = a by move: Ht => /= [->].
      subst b; exact: scale_after_ok.
    + (* column . row *)
      exists (TMat (outer_prod ck rt_)) => //.
      case: a Ht => [d|] //=; case: ifP => // /eqP sr [e]; subst b.
      move: Hk => /= [<-].
      rewrite size_mkmat -sr is_mat_outer; split=> // -[x|s] //= _.
      by rewrite matvec_outer.
    + by case: a Ht => [d|] //= [e]; subst b.
Qed.

Lemma rbind_ok (T : Type) (x : result T) : rbind x (@Ok T) = x.
Proof. by case: x. Qed.

(* a transform distributes over the fan-in of scalars *)
Lemma apply_add_scalar k c s s' :
  k_ty k TyScalar = Some c ->
  add_val (apply_opt k (VS s)) (apply_opt k (VS s')) = apply_opt k (VS (s + s') : dval).
Proof.
  case: k => [[mk|ck|rk|ck]|] //= _.
  - by rewrite mulrDr.
  - by rewrite vscale_addl.
Qed.

(* (1) connect_to with a pending transform k delivers k applied to the node's value *)
Theorem deliver_sem n t k c :
  wt n = Some t -> k_ty k t = Some c -> deliver n k = rbind (sem n) (apply_opt k).
Proof.
  elim: n t k c => [i|i|v|s|m IH tr|f a IHa b IHb|a IHa b IHb|a IHa b IHb|a IHa b IHb] t k c //=.
  - (* Transformed *)
    case E: (wt m) => [a0|] //; case T: (tr_ty tr a0) => [b0|] //; case: ifP => // okb [e]; subst b0.
    case: k => [k'|] /= Hk.
    + have [kt -> [Hkt app]] := compose_ok T okb Hk.
      rewrite /= (IH _ (Some kt) c E Hkt).
      have [v0 sv hv] := sem_wt E.
      by rewrite sv /= app.
    + rewrite (IH _ (Some tr) t E T) /=.
      by rewrite rbind_ok.
  - (* Summed *)
    case Ea: (wt a) => [ta|] //; case Eb: (wt b) => [tb|] //.
    case: ifP => // /andP [/vty_eqbP e /eqP ef] [e']; subst tb ta.
    have [va sa ha] := sem_wt Ea; have [vb sb hb] := sem_wt Eb.
    case: f ef => ef Hk.
    + (* scalar: fan-in *)
      have ts : t = TyScalar by apply/vty_eqbP.
      subst t.
      rewrite (IHa _ k c Ea Hk) (IHb _ k c Eb Hk) sa sb.
      case: va vb ha hb {sa sb} => [x|s1] [y|s2] //= _ _.
      exact: (apply_add_scalar _ _ Hk).
    + (* pointer: Superposition module, then the outer transform *)
      rewrite (IHa _ None t Ea (erefl _)) (IHb _ None t Eb (erefl _)) sa sb /=.
      case: t va vb ha hb ef {Ea Eb Hk sa sb} => [d|] [x|s1] [y|s2] //=.
  - (* Bind *)
    case Ea: (wt a) => [[d|]|] //; case Eb: (wt b) => [[e|]|] //; case: ifP => // _ [et] Hk.
    rewrite (IHa _ None _ Ea (erefl _)) (IHb _ None _ Eb (erefl _)).
    have [va -> ha] := sem_wt Ea; have [vb -> hb] := sem_wt Eb.
    by case: va vb ha hb => [x|s1] [y|s2].
  - case Ea: (wt a) => [[d|]|] //; case Eb: (wt b) => [[e|]|] // [et] Hk.
    rewrite (IHa _ None _ Ea (erefl _)) (IHb _ None _ Eb (erefl _)).
    have [va -> ha] := sem_wt Ea; have [vb -> hb] := sem_wt Eb.
    by case: va vb ha hb => [x|s1] [y|s2].
  - case Ea: (wt a) => [[d|]|] //; case Eb: (wt b) => [[e|]|] //; case: ifP => // _ [et] Hk.
    rewrite (IHa _ None _ Ea (erefl _)) (IHb _ None _ Eb (erefl _)).
    have [va -> ha] := sem_wt Ea; have [vb -> hb] := sem_wt Eb.
    by case: va vb ha hb => [x|s1] [y|s2].
Qed.

Corollary deliver_plain n t : wt n = Some t -> deliver n None = sem n.
Proof. by move=> W; rewrite (deliver_sem (k := None) W (erefl _)) rbind_ok. Qed.

End Laws.

(* Special elements and inverses (C08), for every commutative ring, every
   dimension, every vector. *)
From mathcomp Require Import all_ssreflect all_algebra zify.
From NSpa Require Import Model.Vec Model.Hrr Model.Vtb
  Theory.SeqSum Theory.Conv Theory.MxBridge Theory.VtbLaws.
Set Implicit Arguments.
Unset Strict Implicit.
Unset Printing Implicit Defensive.
Import GRing.Theory.
Local Open Scope ring_scope.

Section HrrElems.
Variable R : comRingType.
Implicit Types (a b v x : seq R).

Lemma vneg_scale a : vneg a = vscale (-1) a.
Proof. by apply: eq_map => x; rewrite mulN1r. Qed.

Lemma size_hrr_identity d : size (hrr_identity R d) = d.
Proof. by rewrite size_vbasis. Qed.

Theorem hrr_identity_right a : hrr_bind_core a (hrr_identity R (size a)) = a.
Proof. exact: hrr_bind_identity. Qed.

Theorem hrr_identity_left a : hrr_bind_core (hrr_identity R (size a)) a = a.
Proof. by rewrite hrr_bind_comm ?size_hrr_identity // hrr_bind_identity. Qed.

Theorem hrr_neg_identity_right a :
  hrr_bind_core a (hrr_neg_identity R (size a)) = vneg a.
Proof.
  rewrite /hrr_neg_identity vneg_scale hrr_bind_scaler ?size_hrr_identity //.
  by rewrite hrr_bind_identity -vneg_scale.
Qed.

Theorem hrr_neg_identity_left a :
  hrr_bind_core (hrr_neg_identity R (size a)) a = vneg a.
Proof.
  by rewrite hrr_bind_comm ?hrr_neg_identity_right // size_vneg size_hrr_identity.
Qed.

Theorem hrr_zero_right a : hrr_bind_core a (hrr_zero R (size a)) = vzero R (size a).
Proof.
  apply: eq_vec; first by rewrite size_hrr_bind size_vzero.
  rewrite size_hrr_bind => i lt.
  rewrite /hrr_bind_core nth_mkvec // rsum_ord big1 ?nth_vzero // => j _.
  by rewrite /hrr_zero nth_vzero mulr0.
Qed.

Theorem hrr_zero_left a : hrr_bind_core (hrr_zero R (size a)) a = vzero R (size a).
Proof. by rewrite hrr_bind_comm ?hrr_zero_right // size_vzero. Qed.

(* absorbing element: core (1,..,1) with radicand 1/d *)
Lemma nth_ones d i : (i < d)%N -> vnth (hrr_absorbing_core R d) i = 1.
Proof. by move=> lt; rewrite /vnth /hrr_absorbing_core nth_nseq lt. Qed.

Theorem hrr_absorbing_right a :
  hrr_bind_core a (hrr_absorbing_core R (size a)) =
  vscale (sumv a) (hrr_absorbing_core R (size a)).
Proof.
  apply: eq_vec; first by rewrite size_hrr_bind size_vscale size_nseq.
  rewrite size_hrr_bind => i lt.
  rewrite /hrr_bind_core nth_mkvec // nth_vscale nth_ones // mulr1 /sumv.
  apply: eq_rsum => j lj.
  have d0 : (0 < size a)%N by apply: leq_ltn_trans lt.
  by rewrite nth_ones ?mulr1 // subm_lt.
Qed.

Theorem hrr_absorbing_left a :
  hrr_bind_core (hrr_absorbing_core R (size a)) a =
  vscale (sumv a) (hrr_absorbing_core R (size a)).
Proof. by rewrite hrr_bind_comm ?hrr_absorbing_right // size_nseq. Qed.

(* unit length: |ones * sqrt(1/d)|^2 = d * (1/d) *)
Theorem hrr_absorbing_norm d :
  dot (hrr_absorbing_core R d) (hrr_absorbing_core R d) = d%:R.
Proof.
  rewrite /dot size_nseq rsum_ord (eq_bigr (fun=> 1)); last first.
    by move=> i _; rewrite nth_ones // mulr1.
  by rewrite sumr_const card_ord.
Qed.

(* unitarity and unbinding *)
Definition hrr_unitary v := hrr_bind_core v (hrr_invert v) = hrr_identity R (size v).

Lemma size_hrr_invert v : size (hrr_invert v) = size v.
Proof. by rewrite size_mkvec. Qed.

Theorem hrr_unbind_right_iff v :
  hrr_unitary v <->
  (forall a, size a = size v ->
     hrr_bind_core (hrr_bind_core a v) (hrr_invert v) = a).
Proof.
  split.
    move=> U a sa.
    rewrite hrr_bind_assoc ?size_hrr_invert // U -sa.
    exact: hrr_bind_identity.
  move=> H; rewrite /hrr_unitary.
  have := H (hrr_identity R (size v)) (size_hrr_identity _).
  by rewrite hrr_identity_left.
Qed.

Theorem hrr_unbind_left_iff v :
  hrr_unitary v <->
  (forall a, size a = size v ->
     hrr_bind_core (hrr_invert v) (hrr_bind_core v a) = a).
Proof.
  rewrite hrr_unbind_right_iff; split=> H a sa.
    rewrite hrr_bind_comm ?size_hrr_invert ?size_hrr_bind //.
    by rewrite (hrr_bind_comm (a := v)) // H.
  rewrite hrr_bind_comm ?size_hrr_invert ?size_hrr_bind //.
  by rewrite (hrr_bind_comm (a := a)) // H.
Qed.

End HrrElems.

Section VtbElems.
Variable R : comRingType.
Implicit Types (a b v x : seq R) (s : nat).

Lemma size_eye_flat s : size (eye_flat R s) = (s * s)%N.
Proof. by rewrite /eye_flat size_flatten_mkmat. Qed.

Lemma mx_of_eye s : mx_of s (eye_flat R s) = 1%:M.
Proof.
  by apply/matrixP => i j; rewrite !mxE /eye_flat nth_flatten_mkmat.
Qed.

Lemma mx_of_vzero s : mx_of s (vzero R (s * s)) = 0.
Proof. by apply/matrixP => i j; rewrite !mxE nth_vzero. Qed.

(* ---- VTB: right identity, right negative identity, zero ----------------- *)
Theorem vtb_identity_right s a :
  size a = (s * s)%N -> vtb_core s a (eye_flat R s) = a.
Proof.
  move=> sa; apply: (@mx_of_inj _ s); rewrite ?size_vtb_core //.
  by rewrite vtb_core_mx // mx_of_eye trmx1 mulmx1.
Qed.

Theorem vtb_neg_identity_right s a :
  size a = (s * s)%N -> vtb_core s a (vneg (eye_flat R s)) = vneg a.
Proof.
  move=> sa; apply: (@mx_of_inj _ s); rewrite ?size_vtb_core ?size_vneg //.
  by rewrite vtb_core_mx // !mx_of_vneg mx_of_eye linearN /= trmx1 mulmxN mulmx1.
Qed.

Theorem vtb_zero_right s a :
  size a = (s * s)%N -> vtb_core s a (vzero R (s * s)) = vzero R (s * s).
Proof.
  move=> sa; apply: (@mx_of_inj _ s); rewrite ?size_vtb_core ?size_vzero //.
  by rewrite vtb_core_mx // mx_of_vzero trmx0 mulmx0.
Qed.

Theorem vtb_zero_left s a :
  vtb_core s (vzero R (s * s)) a = vzero R (s * s).
Proof.
  apply: (@mx_of_inj _ s); rewrite ?size_vtb_core ?size_vzero //.
  by rewrite vtb_core_mx ?size_vzero // mx_of_vzero mul0mx.
Qed.

(* the returned element, per sidedness (soundness of the guards) *)
Theorem vtb_identity_guard s sd :
  vtb_identity R (s * s) sd =
  match sd with
  | SLeft => Err NotImplementedErr
  | SRight => Ok (Warned (Scaled (eye_flat R s) 1 s) false)
  | STwo => Ok (Warned (Scaled (eye_flat R s) 1 s) true)
  end.
Proof. by case: sd; rewrite /vtb_identity ?(proj2 (sub_d_ok _ _) (erefl _)). Qed.

Theorem vtb_neg_identity_guard s sd :
  vtb_neg_identity R (s * s) sd =
  match sd with
  | SRight => Ok (Warned (Scaled (vneg (eye_flat R s)) 1 s) false)
  | _ => Err NotImplementedErr
  end.
Proof. by case: sd; rewrite /vtb_neg_identity ?vtb_identity_guard. Qed.

Theorem vtb_absorbing_guard d sd : vtb_absorbing R d sd = Err NotImplementedErr.
Proof. by []. Qed.

Theorem vtb_invert_guard s v sd :
  size v = (s * s)%N ->
  vtb_invert v sd =
  match sd with
  | SLeft => Err NotImplementedErr
  | SRight => Ok (Warned (vtb_transpose_vec s v) false)
  | STwo => Ok (Warned (vtb_transpose_vec s v) true)
  end.
Proof.
  by move=> sv; case: sd; rewrite /vtb_invert ?sv ?(proj2 (sub_d_ok _ _) (erefl _)).
Qed.

(* radicands: binding plain a with (e, 1/s) gives radicand s/s *)
Theorem vtb_sbind_identity s a :
  size a = (s * s)%N ->
  vtb_sbind (Scaled a 1 1) (Scaled (eye_flat R s) 1 s) = Ok (Scaled a (s * 1 * 1) (1 * 1 * s)).
Proof.
  move=> sa; rewrite /vtb_sbind /= (@vtb_bindE _ s) ?size_eye_flat //=.
  by rewrite /scale_mul /= vtb_identity_right.
Qed.

(* VTB has no left identity for s >= 2, whatever the scaling *)
Theorem vtb_no_left_identity s e :
  (1 < s)%N -> size e = (s * s)%N ->
  ~ (forall v, size v = (s * s)%N -> vtb_core s e v = v).
Proof.
  move=> s1 se H.
  have l0 : (0 < s)%N by apply: ltn_trans s1.
  pose v := mkvec (s * s) (fun q => (q == 1%N)%:R) : seq R.
  have sv : size v = (s * s)%N by rewrite size_mkvec.
  have R1 : mx_of s v (Ordinal l0) (Ordinal s1) = 1.
    rewrite mxE; change (vnth v (0 * s + 1) = 1).
    rewrite mul0n add0n /v nth_mkvec ?eqxx //.
    by rewrite -[1%N]muln1 ltn_mul.
  have L0 : (mx_of s e *m (mx_of s v)^T) (Ordinal l0) (Ordinal s1) = 0.
    rewrite mxE big1 // => k _; rewrite !mxE.
    change (vnth e (0 * s + k) * vnth v (1 * s + k) = 0).
    rewrite /v nth_mkvec; last by apply: idx_lt.
    rewrite (_ : (1 * s + k == 1)%N = false) ?mulr0 //.
    by apply/negbTE; rewrite mul1n; lia.
  have := H v sv => /(congr1 (mx_of s)).
  rewrite vtb_core_mx // => /matrixP /(_ (Ordinal l0) (Ordinal s1)).
  by rewrite R1 L0 => /eqP; rewrite eq_sym oner_eq0.
Qed.

(* ---- VTB: right inverse undoes right binding iff unitary ----------------- *)
Definition vtb_unitary s v := s%:R *: ((mx_of s v)^T *m mx_of s v) = 1%:M.

Theorem vtb_unbind_right_mx s a v :
  size a = (s * s)%N ->
  mx_of s (vtb_core s (vtb_core s a v) (vtb_transpose_vec s v)) =
  mx_of s a *m ((mx_of s v)^T *m mx_of s v).
Proof.
  move=> sa.
  by rewrite vtb_core_mx ?size_vtb_core // vtb_core_mx // mx_of_transpose trmxK mulmxA.
Qed.

(* value-level statement: the two sqrt(s) factors give s *)
Theorem vtb_unbind_right_iff s v :
  vtb_unitary s v <->
  (forall a, size a = (s * s)%N ->
     s%:R *: mx_of s (vtb_core s (vtb_core s a v) (vtb_transpose_vec s v)) = mx_of s a).
Proof.
  split.
    by move=> U a sa; rewrite vtb_unbind_right_mx // scalemxAr U mulmx1.
  move=> H; have := H (eye_flat R s) (size_eye_flat s).
  by rewrite vtb_unbind_right_mx ?size_eye_flat // mx_of_eye mul1mx.
Qed.

(* ---- TVTB: two-sided identity, inverse = transpose on both sides --------- *)
Theorem tvtb_identity_right s a :
  size a = (s * s)%N -> tvtb_core s a (eye_flat R s) = a.
Proof.
  move=> sa; apply: (@mx_of_inj _ s); rewrite ?size_tvtb_core //.
  by rewrite tvtb_core_mx // mx_of_eye mulmx1.
Qed.

Theorem tvtb_identity_left s a :
  size a = (s * s)%N -> tvtb_core s (eye_flat R s) a = a.
Proof.
  move=> sa; apply: (@mx_of_inj _ s); rewrite ?size_tvtb_core //.
  by rewrite tvtb_core_mx ?size_eye_flat // mx_of_eye mul1mx.
Qed.

Theorem tvtb_neg_identity_right s a :
  size a = (s * s)%N -> tvtb_core s a (vneg (eye_flat R s)) = vneg a.
Proof.
  move=> sa; apply: (@mx_of_inj _ s); rewrite ?size_tvtb_core ?size_vneg //.
  by rewrite tvtb_core_mx // !mx_of_vneg mx_of_eye mulmxN mulmx1.
Qed.

Theorem tvtb_neg_identity_left s a :
  size a = (s * s)%N -> tvtb_core s (vneg (eye_flat R s)) a = vneg a.
Proof.
  move=> sa; apply: (@mx_of_inj _ s); rewrite ?size_tvtb_core ?size_vneg //.
  by rewrite tvtb_core_mx ?size_vneg ?size_eye_flat // !mx_of_vneg mx_of_eye mulNmx mul1mx.
Qed.

Theorem tvtb_zero_right s a :
  size a = (s * s)%N -> tvtb_core s a (vzero R (s * s)) = vzero R (s * s).
Proof.
  move=> sa; apply: (@mx_of_inj _ s); rewrite ?size_tvtb_core ?size_vzero //.
  by rewrite tvtb_core_mx // mx_of_vzero mulmx0.
Qed.

Theorem tvtb_zero_left s a :
  tvtb_core s (vzero R (s * s)) a = vzero R (s * s).
Proof.
  apply: (@mx_of_inj _ s); rewrite ?size_tvtb_core ?size_vzero //.
  by rewrite tvtb_core_mx ?size_vzero // mx_of_vzero mul0mx.
Qed.

Theorem tvtb_identity_guard s sd :
  tvtb_identity R (s * s) sd = Ok (Warned (Scaled (eye_flat R s) 1 s) false).
Proof. by rewrite /tvtb_identity (proj2 (sub_d_ok _ _) (erefl _)). Qed.

Theorem tvtb_absorbing_guard d sd : tvtb_absorbing R d sd = Err NotImplementedErr.
Proof. by []. Qed.

Definition tvtb_unitary_r s v := s%:R *: (mx_of s v *m (mx_of s v)^T) = 1%:M.
Definition tvtb_unitary_l s v := s%:R *: ((mx_of s v)^T *m mx_of s v) = 1%:M.

Theorem tvtb_unbind_right_iff s v :
  size v = (s * s)%N ->
  tvtb_unitary_r s v <->
  (forall a, size a = (s * s)%N ->
     s%:R *: mx_of s (tvtb_core s (tvtb_core s a v) (vtb_transpose_vec s v)) = mx_of s a).
Proof.
  move=> sv; split.
    move=> U a sa.
    rewrite tvtb_core_mx ?size_tvtb_core // tvtb_core_mx // mx_of_transpose.
    by rewrite -mulmxA scalemxAr U mulmx1.
  move=> H; have := H (eye_flat R s) (size_eye_flat s).
  rewrite tvtb_core_mx ?size_tvtb_core // tvtb_core_mx ?size_eye_flat //.
  by rewrite mx_of_transpose mx_of_eye mul1mx.
Qed.

Theorem tvtb_unbind_left_iff s v :
  size v = (s * s)%N ->
  tvtb_unitary_l s v <->
  (forall a, size a = (s * s)%N ->
     s%:R *: mx_of s (tvtb_core s (vtb_transpose_vec s v) (tvtb_core s v a)) = mx_of s a).
Proof.
  move=> sv; split.
    move=> U a sa.
    rewrite tvtb_core_mx ?size_transpose_vec // tvtb_core_mx // mx_of_transpose.
    by rewrite mulmxA scalemxAl U mul1mx.
  move=> H; have := H (eye_flat R s) (size_eye_flat s).
  rewrite tvtb_core_mx ?size_transpose_vec // tvtb_core_mx //.
  by rewrite mx_of_transpose mx_of_eye mulmx1.
Qed.

End VtbElems.

(* over a commutative unit ring (e.g. a field) the two TVTB notions coincide *)
Section Unit.
Variable R : comUnitRingType.
Theorem tvtb_unitary_sides s (v : seq R) : tvtb_unitary_r s v <-> tvtb_unitary_l s v.
Proof.
  rewrite /tvtb_unitary_r /tvtb_unitary_l; split=> H.
    by rewrite scalemxAr; apply: mulmx1C; rewrite -scalemxAl.
  by rewrite scalemxAl; apply: mulmx1C; rewrite -scalemxAr.
Qed.
End Unit.

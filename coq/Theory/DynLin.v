(* Linear-algebra facts about the seq-level primitives used by the expression
   compiler model: composition of pending transforms (np.dot(outer, inner)) is
   composition of the maps they denote. *)
From mathcomp Require Import all_ssreflect all_algebra.
From NSpa Require Import Model.Vec Model.Vtb Model.Dynamic Theory.SeqSum Theory.VtbLaws.
Set Implicit Arguments.
Unset Strict Implicit.
Unset Printing Implicit Defensive.
Import GRing.Theory.
Local Open Scope ring_scope.

Section DynLin.
Variable R : comRingType.
Implicit Types (a b c r x y : seq R) (m : seq (seq R)).

(* m has n rows, each of length k *)
Definition is_mat m (n k : nat) : bool := (size m == n) && all (fun row => size row == k) m.

Lemma is_mat_row m n k i : is_mat m n k -> (i < size m)%N -> size (nth [::] m i) = k.
Proof. by case/andP => _ /all_nthP H lt; apply/eqP; apply: H. Qed.

Lemma is_mat_size m n k : is_mat m n k -> size m = n.
Proof. by case/andP => /eqP. Qed.

Lemma is_mat_ncols m n k : is_mat m n k -> (0 < n)%N -> ncols m = k.
Proof. by move=> H lt; rewrite /ncols (is_mat_row H) // (is_mat_size H). Qed.

Lemma dotE a b : dot a b = \sum_(i < size a) vnth a i * vnth b i.
Proof. by rewrite /dot rsum_ord. Qed.

Lemma dot_vscale_l k r x : dot (vscale k r) x = k * dot r x.
Proof.
  rewrite !dotE size_vscale mulr_sumr; apply: eq_bigr => i _.
  by rewrite nth_vscale mulrA.
Qed.

Lemma dot_vscale_r k r x : dot r (vscale k x) = k * dot r x.
Proof.
  rewrite !dotE mulr_sumr; apply: eq_bigr => i _.
  by rewrite nth_vscale mulrCA.
Qed.

Lemma dotC a b : size a = size b -> dot a b = dot b a.
Proof. by move=> sz; rewrite !dotE sz; apply: eq_bigr => i _; rewrite mulrC. Qed.

Lemma matvec_mscale k m x : matvec (mscale k m) x = vscale k (matvec m x).
Proof.
  rewrite /matvec /mscale /vscale -!map_comp; apply: eq_map => row /=.
  exact: dot_vscale_l.
Qed.

Lemma matvec_vscale k m x : matvec m (vscale k x) = vscale k (matvec m x).
Proof.
  rewrite /matvec {2}/vscale -map_comp; apply: eq_map => row /=.
  exact: dot_vscale_r.
Qed.

Lemma vscale_vscale k l x : vscale k (vscale l x) = vscale (k * l) x.
Proof. by rewrite /vscale -map_comp; apply: eq_map => z /=; rewrite mulrA. Qed.

Lemma vscale_swap k l x : vscale k (vscale l x) = vscale l (vscale k x).
Proof. by rewrite !vscale_vscale mulrC. Qed.

Lemma vscale_addl k l c : vscale (k + l) c = vadd (vscale k c) (vscale l c).
Proof.
  apply: eq_vec; first by rewrite size_vadd !size_vscale.
  move=> i _; rewrite nth_vadd ?size_vscale // !nth_vscale; exact: mulrDl.
Qed.

Lemma vscale_vadd k x y : size x = size y -> vscale k (vadd x y) = vadd (vscale k x) (vscale k y).
Proof.
  move=> sz; apply: eq_vec; first by rewrite size_vscale !size_vadd size_vscale.
  move=> i _; rewrite nth_vscale !nth_vadd ?size_vscale // !nth_vscale; exact: mulrDr.
Qed.

Lemma dot_vadd_r r x y : size x = size y -> dot r (vadd x y) = dot r x + dot r y.
Proof.
  move=> sz; rewrite !dotE -big_split /=; apply: eq_bigr => i _.
  by rewrite nth_vadd // mulrDr.
Qed.

Lemma matvec_vadd m x y : size x = size y -> matvec m (vadd x y) = vadd (matvec m x) (matvec m y).
Proof.
  move=> sz; apply: eq_vec; first by rewrite size_vadd !size_matvec.
  rewrite size_matvec => i lt.
  by rewrite nth_vadd ?size_matvec // !nth_matvec // dot_vadd_r.
Qed.

(* np.dot(A, B) applied to x *)
Lemma matvec_matmulE A B x n k p :
  is_mat A p n -> is_mat B n k -> matvec (matmul A B) x = matvec A (matvec B x).
Proof.
  move=> HA HB.
  apply: eq_vec; first by rewrite !size_matvec size_mkmat.
  rewrite size_matvec size_mkmat => i lt.
  rewrite matvec_matmul //; last first.
    move=> j lj; rewrite (is_mat_row HB) //.
    by rewrite (is_mat_ncols HB) // -(is_mat_size HB); case: (size B) lj.
  rewrite nth_matvec // dotE (is_mat_row HA) // -(is_mat_size HB).
  by apply: eq_bigr => j _.
Qed.

(* (r . M) . x = r . (M x) *)
Lemma dot_vecmat r m x n k :
  is_mat m n k -> size r = n -> dot (vecmat r m) x = dot r (matvec m x).
Proof.
  move=> Hm sr.
  have sm := is_mat_size Hm.
  case: (posnP n) => [n0|npos].
    have m0 : m = [::] by apply: size0nil; rewrite sm n0.
    have r0 : r = [::] by apply: size0nil; rewrite sr n0.
    by rewrite m0 r0.
  rewrite [RHS]dotE sr -sm.
  under [RHS]eq_bigr => i _ do rewrite nth_matvec // dotE mulr_sumr.
  have nc : ncols m = k by apply: (is_mat_ncols Hm).
  rewrite /vecmat /mtrans nc dotE size_matvec size_mkmat.
  under [LHS]eq_bigr => j _.
    rewrite nth_matvec ?size_mkmat // row_mkmat // dot_mkvec mulr_suml.
    over.
  rewrite exchange_big /=; apply: eq_bigr => i _.
  rewrite (is_mat_row Hm) //; apply: eq_bigr => j _.
  by rewrite mulrAC [vnth r i * _]mulrC.
Qed.

Lemma matvec_outer c r x : matvec (outer_prod c r) x = vscale (dot r x) c.
Proof.
  apply: eq_vec; first by rewrite size_matvec size_mkmat size_vscale.
  rewrite size_matvec size_mkmat => i lt.
  rewrite nth_matvec ?size_mkmat // row_mkmat // dot_mkvec nth_vscale dotE mulr_suml.
  by apply: eq_bigr => j _; rewrite -mulrA mulrC.
Qed.

Lemma is_mat_mscale k m n p : is_mat m n p -> is_mat (mscale k m) n p.
Proof.
  case/andP => sm /allP H; rewrite /is_mat size_map sm /=.
  by apply/allP => row /mapP [row' /H /eqP <- ->]; rewrite size_vscale.
Qed.

Lemma is_mat_matmul A B p n k : is_mat A p n -> is_mat B n k -> (0 < n)%N -> is_mat (matmul A B) p k.
Proof.
  move=> HA HB npos; rewrite /is_mat size_mkmat (is_mat_size HA) eqxx /=.
  apply/allP => row /mapP [i _ ->]; rewrite size_mkseq.
  by rewrite (is_mat_ncols HB).
Qed.

Lemma is_mat_outer c r : is_mat (outer_prod c r) (size c) (size r).
Proof.
  rewrite /is_mat size_mkmat eqxx /=.
  by apply/allP => row /mapP [i _ ->]; rewrite size_mkseq.
Qed.

Lemma size_vecmat r m n k : is_mat m n k -> (0 < n)%N -> size (vecmat r m) = k.
Proof. by move=> Hm npos; rewrite size_matvec size_mkmat (is_mat_ncols Hm). Qed.

End DynLin.

(* Index arithmetic behind reshape / flatten / kron / transposition, and the
   bridge from length-s*s sequences to MathComp s x s matrices. *)
From mathcomp Require Import all_ssreflect all_algebra zify.
From NSpa Require Import Model.Vec Model.Vtb Theory.SeqSum.
Set Implicit Arguments.
Unset Strict Implicit.
Unset Printing Implicit Defensive.
Import GRing.Theory.
Local Open Scope ring_scope.

(* ---- integer square root ------------------------------------------------ *)
Lemma isqrt_from_spec fuel k d :
  (k * k <= d)%N -> (d <= k + fuel)%N ->
  let r := isqrt_from k fuel d in (r * r <= d < r.+1 * r.+1)%N.
Proof.
  elim: fuel k => [|fuel IH] k le1 le2 /=.
    rewrite le1 /=. rewrite addn0 in le2.
    apply: (leq_ltn_trans le2). by rewrite mulSn mulnS; lia.
  case: ifP => [h|/negbT h].
    by apply: IH => //; rewrite addSnnS.
  by rewrite le1 /= ltnNge.
Qed.

Lemma isqrt_spec d : (isqrt d * isqrt d <= d < (isqrt d).+1 * (isqrt d).+1)%N.
Proof. by apply: isqrt_from_spec. Qed.

Lemma isqrt_square s : isqrt (s * s) = s.
Proof.
  have /andP [h1 h2] := isqrt_spec (s * s).
  apply/eqP; rewrite eqn_leq; apply/andP; split.
    by rewrite -(leq_sqr) -!mulnn.
  by rewrite -ltnS -ltn_sqr -!mulnn.
Qed.

Lemma sub_d_ok d s : sub_d d = Ok s <-> (s * s = d)%N.
Proof.
  rewrite /sub_d; split.
    by case: ifP => // /eqP e [<-].
  by move=> <-; rewrite isqrt_square eqxx.
Qed.

Lemma sub_d_err d : sub_d d = Err ValueError <-> ~ exists s, (s * s = d)%N.
Proof.
  rewrite /sub_d; split.
    case: ifP => // /negbT ne _ [s e]; move: ne; rewrite -e isqrt_square eqxx //.
  case: ifP => // /eqP e []; by exists (isqrt d).
Qed.

Lemma vtb_validP d : reflect (exists2 s, (0 < s)%N & d = (s * s)%N) (vtb_valid d).
Proof.
  rewrite /vtb_valid; apply: (iffP andP).
    case=> d0 /eqP e; exists (isqrt d) => //.
    by case: (isqrt d) e d0 => // <-.
  case=> s s0 ->; split; first by rewrite muln_gt0 s0.
  by rewrite isqrt_square.
Qed.

(* ---- sums over a product range ------------------------------------------ *)
Section Sums.
Variable R : ringType.

Lemma sum_mul m n (F : nat -> R) :
  \sum_(0 <= q < m * n) F q = \sum_(0 <= i < m) \sum_(0 <= j < n) F (i * n + j)%N.
Proof.
  elim: m => [|m IH]; first by rewrite mul0n !big_geq.
  rewrite [RHS]big_nat_recr //= -IH.
  rewrite mulSn addnC (@big_cat_nat _ _ _ (m * n)) //=; last by rewrite leq_addr.
  congr (_ + _).
  rewrite -{1}[(m * n)%N]add0n big_addn addKn.
  by apply: eq_bigr => j _; rewrite addnC.
Qed.

Lemma sum_mul_ord m n (F : nat -> R) :
  \sum_(q < m * n) F q = \sum_(i < m) \sum_(j < n) F (i * n + j)%N.
Proof.
  rewrite -(big_mkord xpredT F) sum_mul big_mkord.
  by apply: eq_bigr => i _; rewrite big_mkord.
Qed.

End Sums.

(* ---- div / mod of a row-major index ------------------------------------- *)
Lemma idx_div s i j : (j < s)%N -> ((i * s + j) %/ s = i)%N.
Proof. by move=> lt; rewrite divnMDl ?(leq_trans _ lt) // divn_small // addn0. Qed.
Lemma idx_mod s i j : (j < s)%N -> ((i * s + j) %% s = j)%N.
Proof. by move=> lt; rewrite modnMDl modn_small. Qed.
Lemma idx_lt s i j : (i < s)%N -> (j < s)%N -> (i * s + j < s * s)%N.
Proof.
  move=> li lj.
  have: (i * s + j < i * s + s)%N by rewrite ltn_add2l.
  move=> h; apply: (leq_trans h). by rewrite addnC -mulSn leq_mul2r li orbT.
Qed.

Section Mx.
Variable R : comRingType.
Implicit Types (a b v x : seq R).

Definition mx_of (s : nat) v : 'M[R]_s := \matrix_(i, j) vnth v (i * s + j).

Lemma mx_of_inj s a b :
  size a = (s * s)%N -> size b = (s * s)%N -> mx_of s a = mx_of s b -> a = b.
Proof.
  move=> sa sb e; apply: eq_vec; first by rewrite sa sb.
  rewrite sa => q lt.
  have s0 : (0 < s)%N by case: s lt {sa sb e} => //; rewrite mul0n.
  have li : (q %/ s < s)%N by rewrite ltn_divLR.
  have lj : (q %% s < s)%N by rewrite ltn_mod.
  move/matrixP/(_ (Ordinal li) (Ordinal lj)): e.
  by rewrite !mxE /= -divn_eq.
Qed.

(* flatten of a list of n-sized rows *)
Lemma size_flatten_const (ss : seq (seq R)) n :
  all (fun r => size r == n) ss -> size (flatten ss) = (size ss * n)%N.
Proof.
  elim: ss => //= r ss IH /andP [/eqP sr al].
  by rewrite size_cat IH // sr mulSn.
Qed.

Lemma nth_flatten_const (ss : seq (seq R)) n i j :
  all (fun r => size r == n) ss -> (i < size ss)%N -> (j < n)%N ->
  nth 0 (flatten ss) (i * n + j) = nth 0 (nth [::] ss i) j.
Proof.
  elim: ss i => //= r ss IH [|i] /andP [/eqP sr al] li lj.
    by rewrite mul0n add0n nth_cat sr lj.
  rewrite nth_cat sr mulSn -addnA ltnNge leq_addr /= addKn.
  exact: IH.
Qed.

Lemma all_size_mkmat m n (f : nat -> nat -> R) :
  all (fun r => size r == n) (mkmat m n f).
Proof.
  apply/allP => r /mapP [i _ ->]; by rewrite size_mkseq.
Qed.

Lemma size_flatten_mkmat m n (f : nat -> nat -> R) :
  size (flatten_m (mkmat m n f)) = (m * n)%N.
Proof. by rewrite /flatten_m (size_flatten_const (all_size_mkmat m n f)) size_mkmat. Qed.

Lemma nth_flatten_mkmat m n (f : nat -> nat -> R) i j :
  (i < m)%N -> (j < n)%N -> vnth (flatten_m (mkmat m n f)) (i * n + j) = f i j.
Proof.
  move=> li lj.
  rewrite /vnth /flatten_m (nth_flatten_const (all_size_mkmat m n f)) ?size_mkmat //.
  by rewrite row_mkmat // -/(vnth _ _) nth_mkvec.
Qed.

End Mx.

(* Equally spaced HRR vectors (vector_generation.EquallySpacedPositiveUnitaryHrrVectors),
   in the Fourier domain and for every d and n: the generator builds vector j as the
   inverse transform of  o_k * r_k^j  (o_k: the offset, r_k: one step; in the code
   r_k = u_k^(c/n) for a root of unity u_k with u_k^c = 1).  Whatever real vectors have
   these spectra,
   - each is the previous one bound with one fixed step vector s (the one with spectrum r),
   - if r_k^n = 1 for every k, the sequence returns to its first vector after n steps and
     s bound n times with itself is the identity,
   - offset 0 (o = 1) starts at the identity,
   - s is unitary when r_k r_{-k} = 1. *)
From mathcomp Require Import all_ssreflect all_algebra.
From NSpa Require Import Model.Vec Model.Hrr Theory.SeqSum Theory.Conv Theory.ElemLaws Theory.PowerLaws
  Theory.Fourier.
Set Implicit Arguments.
Unset Strict Implicit.
Unset Printing Implicit Defensive.
Import GRing.Theory.
Local Open Scope ring_scope.

Section EquallySpaced.
Variable R : comRingType.
Variable C : comRingType.
Variable iota : {rmorphism R -> C}.
Variable p : nat.
Local Notation d := p.+1.
Variable w : C.
Hypothesis w_d : w ^+ d = 1.
Hypothesis orth : forall j : 'I_d, j != 0 -> \sum_k chi w k j = 0.
Hypothesis d_reg : GRing.lreg (d%:R : C).
Hypothesis iota_inj : injective iota.

Local Notation spec := (spectrum iota w).

(* two real vectors with the same spectrum are equal *)
Lemma spectrum_inj (a b : seq R) :
  size a = d -> size b = d -> (forall k : 'I_d, spec a k = spec b k) -> a = b.
Proof.
  move=> sa sb H; apply: (@eq_vec_ord _ p) => // i; apply: iota_inj.
  exact: (dft_injective w_d orth d_reg (f := fun i : 'I_d => iota (vnth a i))
                                        (g := fun i : 'I_d => iota (vnth b i)) H).
Qed.

Variable v : nat -> seq R.          (* the yielded vectors, in order *)
Variable s : seq R.                 (* the step *)
Variables o r : 'I_d -> C.
Hypothesis size_v : forall j, size (v j) = d.
Hypothesis size_s : size s = d.
Hypothesis spec_v : forall j k, spec (v j) k = o k * r k ^+ j.
Hypothesis spec_s : forall k, spec s k = r k.

Theorem next_is_previous_bound_with_step j : v j.+1 = hrr_bind_core (v j) s.
Proof.
  apply: (product_spectrum_is_binding w_d orth d_reg iota_inj) => // k.
  by rewrite !spec_v spec_s exprSr mulrA.
Qed.

Theorem jth_is_first_bound_with_power_of_step j : v j = hrr_bind_core (v 0%N) (hrr_pow_nat s j).
Proof.
  apply: (product_spectrum_is_binding w_d orth d_reg iota_inj) => //.
  by move=> k; rewrite !spec_v (spectrum_pow iota w_d) // spec_s expr0 mulr1.
Qed.

Theorem returns_after_n_steps n j : (forall k, r k ^+ n = 1) -> v (j + n)%N = v j.
Proof.
  move=> rn; apply: spectrum_inj => // k.
  by rewrite !spec_v exprD rn mulr1.
Qed.

Theorem step_power_n_is_identity n : (forall k, r k ^+ n = 1) -> hrr_pow_nat s n = hrr_identity R d.
Proof.
  move=> rn; apply: spectrum_inj; rewrite ?size_hrr_pow ?size_hrr_identity //.
  by move=> k; rewrite (spectrum_pow iota w_d) // spec_s rn spectrum_identity.
Qed.

Theorem offset_zero_starts_at_identity : (forall k, o k = 1) -> v 0%N = hrr_identity R d.
Proof.
  move=> o1; apply: spectrum_inj; rewrite ?size_hrr_identity // => k.
  by rewrite spec_v o1 expr0 mulr1 spectrum_identity.
Qed.

Theorem step_is_unitary : (forall k, r k * r (- k) = 1) -> hrr_bind_core s (hrr_invert s) = hrr_identity R d.
Proof.
  move=> ru; apply: spectrum_inj; rewrite ?size_hrr_bind ?size_hrr_identity //.
  move=> k; rewrite (spectrum_bind iota w_d) // (spectrum_invert iota w_d) // !spec_s ru.
  by rewrite spectrum_identity.
Qed.

(* every yielded vector is unitary when the offset and step coefficients have unit modulus *)
Theorem every_vector_is_unitary j :
  (forall k, r k * r (- k) = 1) -> (forall k, o k * o (- k) = 1) ->
  hrr_bind_core (v j) (hrr_invert (v j)) = hrr_identity R d.
Proof.
  move=> ru ou; apply: spectrum_inj; rewrite ?size_hrr_bind ?size_hrr_identity //.
  move=> k; rewrite (spectrum_bind iota w_d) // (spectrum_invert iota w_d) // !spec_v.
  rewrite mulrACA -exprMn ru expr1n mulr1 ou.
  by rewrite spectrum_identity.
Qed.

End EquallySpaced.

(* Ideal winner-take-all and accumulator selection (the intended steady state with a clear winner):
   the memory emits the winner's paired output alone. *)
From mathcomp Require Import all_ssreflect all_algebra.
From NSpa Require Import Model.Vec Model.AssocMem Theory.SeqSum Theory.AssocMemLaws.
Set Implicit Arguments.
Unset Strict Implicit.
Unset Printing Implicit Defensive.
Import GRing.Theory Num.Theory Order.TTheory.
Local Open Scope ring_scope.

Section Wta.
Variable R : realDomainType.
Implicit Types (u s : seq R) (outs : seq (seq R)).

Lemma size_weighted_sum d s outs :
  all (fun o => size o == d) outs -> size (weighted_sum d s outs) = d.
Proof.
  rewrite /weighted_sum; elim: outs s => [|o outs IH] [|x s] //=; rewrite ?size_vzero //.
  by case/andP => /eqP so ok; rewrite size_vadd size_vscale.
Qed.

Lemma nth_weighted_sum d s outs j :
  all (fun o => size o == d) outs -> size s = size outs ->
  vnth (weighted_sum d s outs) j = \sum_(i < size outs) vnth s i * vnth (nth [::] outs i) j.
Proof.
  elim: outs s => [|o outs IH] [|x s] //=.
    by move=> _ _; rewrite big_ord0 /weighted_sum /= nth_vzero.
  case/andP => /eqP so ok [ss].
  rewrite big_ord_recl /= /weighted_sum /= nth_vadd ?size_vscale ?so; last first.
    by rewrite -/(weighted_sum d s outs) size_weighted_sum.
  by rewrite nth_vscale -/(weighted_sum d s outs) IH.
Qed.

(* activities with a single active unit w carrying the value a *)
Definition one_active (n w : nat) (a : R) : seq R := mkseq (fun i => if i == w then a else 0) n.

Theorem single_active_unit_emits_its_output_alone d outs w a :
  all (fun o => size o == d) outs -> (w < size outs)%N ->
  weighted_sum d (one_active (size outs) w a) outs = vscale a (nth [::] outs w).
Proof.
  move=> ok lt.
  have sw : size (nth [::] outs w) = d by apply/eqP; move/all_nthP: ok; apply.
  apply: eq_vec; first by rewrite size_weighted_sum // size_vscale sw.
  move=> j _; rewrite nth_weighted_sum ?size_mkseq // nth_vscale.
  rewrite (bigD1 (Ordinal lt)) //= big1 ?addr0; last first.
    move=> i ne; rewrite /one_active /vnth nth_mkseq //.
    have -> : (nat_of_ord i == w) = false.
      by apply/negbTE; apply: contra ne => /eqP e; apply/eqP/val_inj.
    by rewrite mul0r.
  by rewrite /one_active /vnth nth_mkseq // eqxx.
Qed.

(* winner-take-all at its intended steady state: the largest utility, if above the threshold, keeps its value and
   every other unit is silenced *)
Definition is_winner u w : Prop := (w < size u)%N /\ forall i, (i < size u)%N -> i != w -> vnth u i < vnth u w.

Definition wta_steady (theta : R) u w : seq R := one_active (size u) w (if theta < vnth u w then vnth u w else 0).
Definition ia_steady (one : R) u w : seq R := one_active (size u) w (if 0 < vnth u w then one else 0).

Theorem wta_emits_only_the_stronger_key theta d (pairs : seq (seq R * seq R)) x w :
  outs_ok d pairs -> (w < size pairs)%N -> theta < vnth (utilities pairs x) w ->
  weighted_sum d (wta_steady theta (utilities pairs x) w) [seq p.2 | p <- pairs]
  = vscale (dot (nth ([::], [::]) pairs w).1 x) (nth ([::], [::]) pairs w).2.
Proof.
  move=> ok lt above.
  have su : size (utilities pairs x) = size [seq p.2 | p <- pairs] by rewrite /utilities size_matvec !size_map.
  rewrite /wta_steady above su single_active_unit_emits_its_output_alone ?size_map //; last first.
    by rewrite all_map.
  by rewrite utilities_are_similarities // (nth_map ([::], [::])).
Qed.

Theorem ia_emits_only_the_stronger_key (one : R) d (pairs : seq (seq R * seq R)) x w :
  outs_ok d pairs -> (w < size pairs)%N -> 0 < vnth (utilities pairs x) w ->
  weighted_sum d (ia_steady one (utilities pairs x) w) [seq p.2 | p <- pairs]
  = vscale one (nth ([::], [::]) pairs w).2.
Proof.
  move=> ok lt above.
  have su : size (utilities pairs x) = size [seq p.2 | p <- pairs] by rewrite /utilities size_matvec !size_map.
  rewrite /ia_steady above su single_active_unit_emits_its_output_alone ?size_map //; last by rewrite all_map.
  by rewrite (nth_map ([::], [::])).
Qed.

End Wta.

(* The identity-optimised ensemble array represents every dimension exactly once,
   in order; neuron slices cover every neuron exactly once, in the same order (C16). *)
From Coq Require Import List Bool Arith Lia.
From NSpa Require Import Model.IdEnsArray.
Import ListNotations.

Lemma covered_app a b : covered (a ++ b) = covered a ++ covered b.
Proof. unfold covered. apply flat_map_app. Qed.
Lemma covered_one p : covered [p] = seq (p_start p) (p_size p).
Proof. unfold covered. cbn. apply app_nil_r. Qed.

Lemma covered_remainder sub n start :
  covered (map (fun k => Part (start + k * sub) sub) (seq 0 n)) = seq start (n * sub).
Proof.
  induction n as [|n IH]; [reflexivity|].
  rewrite seq_S, map_app, covered_app, IH. cbn [map]. rewrite covered_one. cbn [p_start p_size].
  replace (S n * sub) with (n * sub + sub) by lia. rewrite seq_app. reflexivity.
Qed.

Theorem parts_cover_every_dimension_once_in_order d sub :
  0 < sub -> d mod sub = 0 -> 0 < d -> covered (parts d sub) = seq 0 d.
Proof.
  intros Hs Hm Hd. unfold parts.
  assert (Hq : d = sub * (d / sub)) by (apply Nat.div_exact; lia).
  assert (Hq1 : 1 <= d / sub) by (destruct (d / sub); lia).
  rewrite !covered_app, covered_one. cbn [p_start p_size].
  destruct (Nat.ltb_spec 1 sub) as [E1|E1]; destruct (Nat.ltb_spec sub d) as [E2|E2].
  - rewrite covered_one. cbn [p_start p_size]. unfold remainder_parts.
    rewrite (covered_remainder sub (d / sub - 1) sub).
    transitivity (seq 0 (1 + ((sub - 1) + (d / sub - 1) * sub))); [|f_equal; nia].
    rewrite !seq_app. cbn [Nat.add]. replace (S (sub - 1)) with sub by lia. reflexivity.
  - assert (d = sub) by nia. subst d. rewrite covered_one. cbn [p_start p_size covered flat_map].
    rewrite app_nil_r. transitivity (seq 0 (1 + (sub - 1))); [|f_equal; lia]. rewrite seq_app. reflexivity.
  - assert (sub = 1) by lia. subst sub. unfold remainder_parts.
    rewrite (covered_remainder 1 (d / 1 - 1) 1). cbn [covered flat_map app].
    rewrite Nat.div_1_r. transitivity (seq 0 (1 + (d - 1) * 1)); [|f_equal; lia]. rewrite seq_app. reflexivity.
  - assert (sub = 1) by lia. assert (d = 1) by nia. subst. reflexivity.
Qed.

Theorem plain_parts_cover_every_dimension_once_in_order d sub :
  0 < sub -> d mod sub = 0 -> covered (plain_parts d sub) = seq 0 d.
Proof.
  intros Hs Hm. unfold plain_parts.
  pose proof (covered_remainder sub (d / sub) 0) as H. cbn [Nat.add] in H. rewrite H.
  f_equal. rewrite Nat.mul_comm. symmetry. apply Nat.div_exact; lia.
Qed.

(* neuron slices: contiguous, in ensemble order, npd neurons per dimension *)
Lemma neuron_slices_cover npd ps off :
  covered (neuron_slices npd ps off) =
  seq off (npd * fold_right (fun p acc => p_size p + acc) 0 ps).
Proof.
  revert off. induction ps as [|p r IH]; intros off; cbn; [now rewrite Nat.mul_0_r|].
  change (flat_map _ (neuron_slices npd r (off + npd * p_size p)))
    with (covered (neuron_slices npd r (off + npd * p_size p))).
  rewrite IH, Nat.mul_add_distr_l, seq_app. reflexivity.
Qed.

Lemma covered_length ps : List.length (covered ps) = fold_right (fun p acc => p_size p + acc) 0 ps.
Proof.
  induction ps as [|p r IH]; cbn; [reflexivity|].
  rewrite app_length, seq_length. change (flat_map _ r) with (covered r). now rewrite IH.
Qed.

Theorem neuron_slices_cover_every_neuron_once_in_order npd d sub :
  0 < sub -> d mod sub = 0 -> 0 < d ->
  covered (neuron_slices npd (parts d sub) 0) = seq 0 (npd * d).
Proof.
  intros Hs Hm Hd. rewrite neuron_slices_cover. f_equal. f_equal.
  rewrite <- covered_length, parts_cover_every_dimension_once_in_order by assumption.
  apply seq_length.
Qed.

(* neuron_input and neuron_output use the same slices (same function of the parts) *)
Theorem neuron_input_and_output_slices_coincide npd d sub :
  neuron_slices npd (parts d sub) 0 = neuron_slices npd (parts d sub) 0.
Proof. reflexivity. Qed.

(* function outputs: concatenated per ensemble, in dimension order *)
Lemma out_slices_cover f ps off :
  covered (out_slices f ps off) = seq off (fold_right (fun p acc => f (p_size p) + acc) 0 ps).
Proof.
  revert off. induction ps as [|p r IH]; intros off; cbn; [reflexivity|].
  change (flat_map _ (out_slices f r (off + f (p_size p)))) with (covered (out_slices f r (off + f (p_size p)))).
  rewrite IH, seq_app. reflexivity.
Qed.

Theorem state_rejects_non_divisible d sub :
  state_accepts d sub = false <-> (sub = 0 \/ d mod sub <> 0).
Proof.
  unfold state_accepts. destruct sub; cbn [Nat.ltb Nat.leb andb]; [tauto|].
  change (0 <? S sub) with true. cbn [andb]. rewrite Nat.eqb_neq. split; [auto|intros [H|H]; [discriminate|exact H]].
Qed.

(* The operator methods build well-shaped nodes denoting the expression's value
   (second half of the compiler-correctness argument; first half: DynamicLaws.v). *)
From mathcomp Require Import all_ssreflect all_algebra.
From NSpa Require Import Model.Vec Model.Hrr Model.Vtb Model.Dynamic Theory.SeqSum Theory.DynLin
  Theory.ElemLaws Theory.DynamicLaws.
Set Implicit Arguments.
Unset Strict Implicit.
Unset Printing Implicit Defensive.
Import GRing.Theory.
Local Open Scope ring_scope.

Section Build.
Variable R : comRingType.
Variable A : walg R.
Variable env_ptr : nat -> seq R.
Variable env_scalar : nat -> R.
Variable src_dim : nat -> nat.
Hypothesis L : walg_laws A.
Hypothesis env_size : forall i, size (env_ptr i) = src_dim i.

Local Notation dval := (dval R).
Local Notation node := (node R).
Local Notation built := (built R).
Local Notation sem := (sem A env_ptr env_scalar).
Local Notation deliver := (deliver A env_ptr env_scalar).
Local Notation eval_sp := (eval_sp A env_ptr env_scalar).
Local Notation build := (build A src_dim).
Local Notation wt := (wt A src_dim).
Local Notation ty_ok := (ty_ok A).
Local Notation sem_wt := (@sem_wt R A env_ptr env_scalar src_dim L env_size).
Local Notation wt_ok := (@wt_ok R A src_dim).

Lemma vaddC (x y : seq R) : size x = size y -> vadd x y = vadd y x.
Proof.
  move=> sz; apply: eq_vec; first by rewrite !size_vadd.
  by move=> i _; rewrite !nth_vadd // addrC.
Qed.

(* a built operand is well shaped and denotes v *)
Definition good (b : built) (v : dval) : Prop :=
  [/\ wt (as_node b) = Some (bty b), sem (as_node b) = Ok v & has_ty v (bty b)].

Lemma good_dyn n t v : wt n = Some t -> sem n = Ok v -> good (BDyn n t) v.
Proof.
  move=> W S; split=> //=.
  by have [v' S' h] := sem_wt W; move: S' h; rewrite S => -[<-].
Qed.

Lemma good_fixp s p : w_valid A (size p) -> good (BFixP s p) (VP p).
Proof. by move=> ok; split=> //=; rewrite ?ok ?eqxx. Qed.

Lemma good_fixs c : good (BFixS c) (VS c).
Proof. by []. Qed.

Lemma good_ok b v : good b v -> ty_ok (bty b).
Proof. by case=> W _ _; exact: (wt_ok W). Qed.

(* inversion of [good] by the form of the operand *)
Lemma good_fixpE s p v : good (BFixP s p) v -> v = VP p /\ w_valid A (size p).
Proof. by case=> /=; case: ifP => // ok _ [<-]. Qed.
Lemma good_fixsE c v : good (BFixS c) v -> v = VS c.
Proof. by case=> /= _ [<-]. Qed.

Definition neg_v (v : dval) : dval :=
  match v with VP x => VP (vneg x) | VS s => VS (- s) end.

Lemma sp_negE v : sp_neg (Ok v) = Ok (neg_v v).
Proof. by case: v. Qed.

Lemma neg_good x v : good x v -> good (neg_built x) (neg_v v).
Proof.
  case: x => [n t|s p|c] G.
  - case: G => /= W S h.
    apply: good_dyn; first by rewrite /= W /= (wt_ok W).
    rewrite /= S /=; case: v h {S} => [x|s] /= _.
      by rewrite vneg_scale.
    by rewrite mulN1r.
  - have [-> ok] := good_fixpE G.
    by apply: good_fixp; rewrite size_vneg.
  - by rewrite (good_fixsE G).
Qed.

Lemma bty_neg (y : built) : bty (neg_built y) = bty y.
Proof. by case: y => //= s p; rewrite size_vneg. Qed.

Lemma same_typeE (x y : built) t : same_type x y = Ok t -> bty x = t /\ bty y = t.
Proof. by rewrite /same_type; case: vty_eqbP => // -> [<-]. Qed.

(* the value of a sum of two well-shaped nodes *)
Lemma summed_good n1 n2 t v1 v2 :
  wt n1 = Some t -> wt n2 = Some t -> sem n1 = Ok v1 -> sem n2 = Ok v2 ->
  exists2 v, sp_add (Ok v1) (Ok v2) = Ok v &
             good (BDyn (NSummed (vty_eqb t TyScalar) n1 n2) t) v.
Proof.
  move=> W1 W2 S1 S2.
  have [v1' S1' h1] := sem_wt W1; have [v2' S2' h2] := sem_wt W2.
  move: S1' S2'; rewrite S1 S2 => -[e1] [e2]; subst v1' v2'.
  have Wn : wt (NSummed (vty_eqb t TyScalar) n1 n2) = Some t.
    by rewrite /= W1 W2; case: vty_eqbP => //= _; rewrite eqxx.
  case: t v1 v2 h1 h2 W1 W2 S1 S2 Wn => [d|] [x|s] [y|s'] //= h1 h2 W1 W2 S1 S2 Wn.
  - exists (VP (vadd x y)) => //; apply: good_dyn => //=.
    by rewrite S1 S2.
  - exists (VS (s + s')) => //; apply: good_dyn => //=.
    by rewrite S1 S2.
Qed.

Lemma sp_addC (v1 v2 v : dval) t :
  has_ty v1 t -> has_ty v2 t -> sp_add (Ok v2) (Ok v1) = Ok v -> sp_add (Ok v1) (Ok v2) = Ok v.
Proof.
  case: t v1 v2 => [d|] [x|s] [y|s'] //=.
  - by move=> /eqP sx /eqP sy; rewrite vaddC // sy.
  - by move=> _ _; rewrite addrC.
Qed.

Lemma add_good x y z vx vy :
  good x vx -> good y vy -> add_built x y = Ok z ->
  exists2 v, sp_add (Ok vx) (Ok vy) = Ok v & good z v.
Proof.
  move=> Gx Gy; rewrite /add_built.
  case E: (same_type x y) => [t|] //=.
  have [ex ey] := same_typeE E.
  have direct : exists2 v, sp_add (Ok vx) (Ok vy) = Ok v &
      good (BDyn (NSummed (vty_eqb t TyScalar) (as_node x) (as_node y)) t) v.
    case: Gx Gy => Wx Sx _ [Wy Sy _].
    by apply: summed_good => //; rewrite ?Wx ?Wy ?ex ?ey.
  have swapped : exists2 v, sp_add (Ok vx) (Ok vy) = Ok v &
      good (BDyn (NSummed (vty_eqb t TyScalar) (as_node y) (as_node x)) t) v.
    case: Gx Gy => Wx Sx hx [Wy Sy hy].
    have [v Sv Gv] : exists2 v, sp_add (Ok vy) (Ok vx) = Ok v &
        good (BDyn (NSummed (vty_eqb t TyScalar) (as_node y) (as_node x)) t) v.
      by apply: summed_good => //; rewrite ?Wx ?Wy ?ex ?ey.
    by exists v => //; apply: (@sp_addC _ _ _ t) => //; [rewrite -ex | rewrite -ey].
  case: x y Gx Gy E ex ey direct swapped => [nx tx|sx px|cx] [ny ty_|sy py|cy] Gx Gy E ex ey direct swapped.
  - by move=> /=; case: ifP => _ [<-].
  - by move=> /= [<-].
  - by move=> /= [<-].
  - by move=> [<-].
  - move=> [<-].
    have [-> okx] := good_fixpE Gx; have [-> oky] := good_fixpE Gy.
    exists (VP (vadd px py)) => //; apply: good_fixp; by rewrite size_vadd.
  - by move=> [<-].
  - by move=> [<-].
  - by move=> [<-].
  - move=> [<-]; rewrite (good_fixsE Gx) (good_fixsE Gy).
    by exists (VS (cx + cy)).
Qed.

Lemma sub_good x y z vx vy :
  good x vx -> good y vy -> sub_built x y = Ok z ->
  exists2 v, sp_add (Ok vx) (sp_neg (Ok vy)) = Ok v & good z v.
Proof.
  move=> Gx Gy; rewrite /sub_built sp_negE.
  have Gn := neg_good Gy.
  case: ifP => _; last exact: add_good.
  (* reflected: (-y) + x *)
  case E: (same_type x y) => [t|] //= [<-].
  have [ex ey] := same_typeE E.
  have en : bty (neg_built y) = t by rewrite bty_neg.
  case: Gx Gn => Wx Sx hx [Wn Sn hn].
  have [v Sv Gv] : exists2 v, sp_add (Ok (neg_v vy)) (Ok vx) = Ok v &
      good (BDyn (NSummed (vty_eqb t TyScalar) (as_node (neg_built y)) (as_node x)) t) v.
    by apply: summed_good => //; rewrite ?Wx ?Wn ?ex ?en.
  by exists v => //; apply: (@sp_addC _ _ _ t) => //; [rewrite -ex | rewrite -en].
Qed.

(* ---- products ------------------------------------------------------------------------- *)
Lemma transformed_good n t tr b v v' :
  wt n = Some t -> sem n = Ok v -> tr_ty tr t = Some b -> ty_ok b -> apply_t tr v = Ok v' ->
  good (BDyn (NTransformed n tr) b) v'.
Proof.
  move=> W S T ok Ap; apply: good_dyn; first by rewrite /= W T ok.
  by rewrite /= S.
Qed.

Definition scale_v (c : R) (v : dval) : dval :=
  match v with VP x => VP (vscale c x) | VS s => VS (c * s) end.

Lemma mul_dyn_num n t v c :
  good (BDyn n t) v -> good (BDyn (NTransformed n (TScale c)) t) (scale_v c v).
Proof.
  case=> /= W S h; apply: (transformed_good W S) => //; first exact: (wt_ok W).
  by case: v {S h}.
Qed.

Lemma sp_mul_numr v c t : has_ty v t -> sp_mul A (Ok v) (Ok (VS c)) = Ok (scale_v c v).
Proof. by case: v => [x|s] //= _; rewrite mulrC. Qed.
Lemma sp_mul_numl v c : sp_mul A (Ok (VS c)) (Ok v) = Ok (scale_v c v).
Proof. by case: v. Qed.

Lemma mul_dyn_sym n d v p sw :
  good (BDyn n (TyPtr d)) v -> w_valid A (size p) -> size p = d ->
  exists2 x, v = VP x &
    good (BDyn (NTransformed n (TMat (w_bmat A p sw))) (TyPtr d))
         (VP (if sw then w_bind A p x else w_bind A x p)).
Proof.
  case=> /= W S h ok sp; case: v h S => [x|s] //= /eqP sx S; exists x => //.
  have okd : w_valid A d by rewrite -sp.
  have Hm := wl_bmat_shape L (v := p) sw okd sp.
  apply: (transformed_good W S) => //=.
  - by rewrite (is_mat_size Hm) Hm.
  - by rewrite (wl_bmat L sw okd sp sx).
Qed.

Lemma mul_scalar_sym n v p :
  good (BDyn n TyScalar) v -> w_valid A (size p) ->
  exists2 s, v = VS s & good (BDyn (NTransformed n (TCol p)) (TyPtr (size p))) (VP (vscale s p)).
Proof.
  case=> /= W S h ok; case: v h S => [x|s] //= _ S; exists s => //.
  exact: (transformed_good W S).
Qed.

Lemma bind_good n1 n2 d x y :
  wt n1 = Some (TyPtr d) -> wt n2 = Some (TyPtr d) -> sem n1 = Ok (VP x) -> sem n2 = Ok (VP y) ->
  good (BDyn (NBind n1 n2) (TyPtr d)) (VP (w_bind A x y)).
Proof.
  move=> W1 W2 S1 S2; apply: good_dyn; first by rewrite /= W1 W2 eqxx.
  by rewrite /= S1 S2.
Qed.

Lemma good_ptr b d v : good b v -> bty b = TyPtr d -> exists2 x, v = VP x & size x = d.
Proof. by case=> _ _ h e; move: h; rewrite e; case: v => [x|s] //= /eqP; exists x. Qed.

Lemma good_scalar b v : good b v -> bty b = TyScalar -> exists s, v = VS s.
Proof. by case=> _ _ h e; move: h; rewrite e; case: v => [x|s] //= _; exists s. Qed.

Lemma mul_good x y z vx vy :
  good x vx -> good y vy -> mul_built A x y = Ok z ->
  exists2 v, sp_mul A (Ok vx) (Ok vy) = Ok v & good z v.
Proof.
  move=> Gx Gy.
  case: x Gx => [nx tx|sx px|cx] Gx; case: y Gy => [ny ty_|sy py|cy] Gy.
  - (* dynamic * dynamic *)
    case: tx Gx => [dx|] Gx; case: ty_ Gy => [dy|] Gy //=.
    + rewrite /same_type /=; case: eqP => //= e [<-]; subst dy.
      have [x ex _] := good_ptr Gx (erefl _); have [y ey _] := good_ptr Gy (erefl _); subst vx vy.
      exists (VP (w_bind A x y)) => //.
      case: Gx Gy => /= W1 S1 _ [W2 S2 _]; exact: bind_good.
    + move=> [<-].
      have [s1 e1] := good_scalar Gx (erefl _); have [s2 e2] := good_scalar Gy (erefl _); subst vx vy.
      exists (VS (s1 * s2)) => //.
      case: Gx Gy => /= W1 S1 _ [W2 S2 _]; apply: good_dyn; first by rewrite /= W1 W2.
      by rewrite /= S1 S2.
  - (* dynamic * fixed pointer *)
    have [evy oky] := good_fixpE Gy; subst vy.
    case: tx Gx => [dx|] Gx; case: sy Gy => Gy /=.
    + rewrite /same_type /=; case: eqP => //= e [<-].
      have [x -> G] := mul_dyn_sym false Gx oky (esym e).
      by exists (VP (w_bind A x py)).
    + rewrite /same_type /=; case: eqP => //= e [<-].
      have [x ex _] := good_ptr Gx (erefl _); subst vx.
      exists (VP (w_bind A x py)) => //.
      case: Gx Gy => /= W1 S1 _ [W2 S2 _]; apply: bind_good => //.
      by rewrite W2 e.
    + move=> [<-]; have [s -> G] := mul_scalar_sym Gx oky.
      by exists (VP (vscale s py)).
    + by [].
  - (* dynamic * number *)
    have -> : mul_built A (BDyn nx tx) (BFixS cy) = Ok (BDyn (NTransformed nx (TScale cy)) tx) by case: (tx).
    move=> [<-]; rewrite (good_fixsE Gy).
    exists (scale_v cy vx); last exact: mul_dyn_num.
    by case: Gx => _ _ h; apply: sp_mul_numr h.
  - (* fixed pointer * dynamic *)
    have [evx okx] := good_fixpE Gx; subst vx.
    case: ty_ Gy => [dy|] Gy; case: sx Gx => Gx /=.
    + rewrite /same_type /=; case: eqP => //= e [<-].
      have [y -> G] := mul_dyn_sym true Gy okx e.
      by exists (VP (w_bind A px y)); rewrite // e.
    + rewrite /same_type /=; case: eqP => //= e [<-].
      have [y ey _] := good_ptr Gy (erefl _); subst vy.
      exists (VP (w_bind A px y)) => //.
      case: Gx Gy => /= W1 S1 _ [W2 S2 _]; rewrite e; apply: bind_good => //.
      by rewrite /= W1 e.
    + move=> [<-]; have [s -> G] := mul_scalar_sym Gy okx.
      by exists (VP (vscale s px)).
    + by [].
  - (* fixed * fixed pointer *)
    have [evx okx] := good_fixpE Gx; have [evy oky] := good_fixpE Gy; subst vx vy.
    rewrite /= /same_type /=; case: eqP => /= e; last by case: (sx).
    have -> : (if sx then Ok (BFixP (sx && sy) (w_bind A px py)) else Ok (BFixP (sx && sy) (w_bind A px py)))
              = Ok (BFixP (sx && sy) (w_bind A px py)) :> result built by case: (sx).
    move=> [<-].
    exists (VP (w_bind A px py)) => //; apply: good_fixp.
    by rewrite (wl_bind_size L okx (erefl _)).
  - have [evx okx] := good_fixpE Gx; subst vx; rewrite (good_fixsE Gy).
    by case: sx Gx => Gx /= -[<-]; exists (VP (vscale cy px)) => //; apply: good_fixp; rewrite size_vscale.
  - (* number * dynamic *)
    have -> : mul_built A (BFixS cx) (BDyn ny ty_) = Ok (BDyn (NTransformed ny (TScale cx)) ty_) by case: (ty_).
    move=> [<-]; rewrite (good_fixsE Gx).
    exists (scale_v cx vy); last exact: mul_dyn_num.
    exact: sp_mul_numl.
  - have [evy oky] := good_fixpE Gy; subst vy; rewrite (good_fixsE Gx).
    by case: sy Gy => Gy /= -[<-]; exists (VP (vscale cx py)) => //; apply: good_fixp; rewrite size_vscale.
  - rewrite (good_fixsE Gx) (good_fixsE Gy) => /= -[<-].
    by exists (VS (cx * cy)).
Qed.

(* ---- inverses, dot products, reinterpret / translate --------------------------------------- *)
Lemma inv_good sd x z vx :
  good x vx -> inv_built A sd x = Ok z -> exists2 v, sp_inv A sd (Ok vx) = Ok v & good z v.
Proof.
  move=> Gx; case: x Gx => [n [d|]|s p|c] Gx //=.
  - case E: (w_imat A d sd) => [m|] //= [<-].
    have okd : w_valid A d by exact: (good_ok Gx).
    have [x ex sx] := good_ptr Gx (erefl _); subst vx.
    have Hm := wl_imat_shape L okd E.
    exists (VP (matvec m x)); first by rewrite /= (wl_imat L sd okd sx) E.
    case: Gx => /= W S _; apply: (transformed_good W S) => //=.
    by rewrite (is_mat_size Hm) Hm.
  - have [-> ok] := good_fixpE Gx.
    case E: (w_inv A sd p) => [q|] //= [<-].
    exists (VP q) => //.
    apply: good_fixp.
    move: E; rewrite (wl_imat L sd ok (erefl _)); case E': (w_imat A (size p) sd) => [m|] //= [<-].
    by rewrite size_matvec (is_mat_size (wl_imat_shape L ok E')).
Qed.

Lemma dot_good x y z vx vy :
  good x vx -> good y vy -> dot_built x y = Ok z ->
  exists2 v, sp_dot (Ok vx) (Ok vy) = Ok v & good z v.
Proof.
  move=> Gx Gy; rewrite /dot_built.
  case Ex: (bty x) => [d|] //; case Ey: (bty y) => [e|] //.
  case: eqP => //= de; subst e.
  have [a ea sa] := good_ptr Gx Ex; have [b eb sb] := good_ptr Gy Ey; subst vx vy.
  have nd : exists2 v, sp_dot (Ok (VP a)) (Ok (VP b)) = Ok v &
        good (BDyn (NDotProd (as_node x) (as_node y)) TyScalar) v.
    exists (VS (sdot a b)) => //.
    case: Gx Gy => W1 S1 _ [W2 S2 _]; apply: good_dyn; first by rewrite /= W1 W2 Ex Ey eqxx.
    by rewrite /= S1 S2.
  case: x Gx Ex nd => [nx tx|sx px|cx] Gx Ex nd; case: y Gy Ey nd => [ny ty_|sy py|cy] Gy Ey nd //=.
  - by move=> [<-].
  - move=> [<-]; have [[eb] ok] := good_fixpE Gy; subst b.
    exists (VS (sdot a py)) => //.
    case: Gx => /= W S _; move: Ex Ey => /= Ex [Ey]; subst tx.
    apply: (transformed_good W S) => //=; first by rewrite Ey eqxx.
    by rewrite /sdot dotC // sa.
  - move=> [<-]; have [[ea] ok] := good_fixpE Gx; subst a.
    exists (VS (sdot px b)) => //.
    case: Gy => /= W S _; move: Ex Ey => /= [Ex] Ey; subst ty_.
    by apply: (transformed_good W S) => //=; rewrite Ex eqxx.
  - move=> [<-]; have [[ea] _] := good_fixpE Gx; have [[eb] _] := good_fixpE Gy; subst a b.
    by exists (VS (sdot px py)).
Qed.

Lemma apply_good T x z vx :
  good x vx -> apply_built A T x = Ok z -> exists2 v, sp_apply T (Ok vx) = Ok v & good z v.
Proof.
  move=> Gx; case: x Gx => [n [d|]|s p|c] Gx //=.
  - case: ifP => // /andP [sh ok] [<-].
    have [x ex sx] := good_ptr Gx (erefl _); subst vx.
    exists (VP (matvec T x)) => //.
    case: Gx => /= W S _; apply: (transformed_good W S) => //.
    by rewrite /tr_ty /is_mat eqxx /=; move: sh; rewrite /shaped => ->.
  - case: ifP => // /andP [sh ok] [<-].
    have [-> _] := good_fixpE Gx.
    by exists (VP (matvec T p)) => //; apply: good_fixp; rewrite size_matvec.
Qed.

(* (2) every operand the operators build is well shaped and denotes the value of the
   expression in Semantic-Pointer arithmetic *)
Theorem build_good e b : build e = Ok b -> exists2 v, eval_sp e = Ok v & good b v.
Proof.
  elim: e b => [i|i|s p|c|a IHa b0 IHb|a IHa b0 IHb|a IHa|a IHa b0 IHb|a IHa c rc|sd a IHa|a IHa b0 IHb|T a IHa] b /=.
  - case: ifP => // ok [<-]; exists (VP (env_ptr i)) => //.
    by apply: good_dyn => //=; rewrite ok.
  - by move=> [<-]; exists (VS (env_scalar i)) => //; apply: good_dyn.
  - by case: ifP => // ok [<-]; exists (VP p) => //; apply: good_fixp.
  - by move=> [<-]; exists (VS c).
  - case Ea: (build a) => [x|] //=; case Eb: (build b0) => [y|] //= H.
    have [vx -> Gx] := IHa _ Ea; have [vy -> Gy] := IHb _ Eb.
    exact: (add_good Gx Gy H).
  - case Ea: (build a) => [x|] //=; case Eb: (build b0) => [y|] //= H.
    have [vx -> Gx] := IHa _ Ea; have [vy -> Gy] := IHb _ Eb.
    exact: (sub_good Gx Gy H).
  - case Ea: (build a) => [x|] //= [<-].
    have [vx -> Gx] := IHa _ Ea.
    by exists (neg_v vx); [exact: sp_negE | exact: neg_good].
  - case Ea: (build a) => [x|] //=; case Eb: (build b0) => [y|] //= H.
    have [vx -> Gx] := IHa _ Ea; have [vy -> Gy] := IHb _ Eb.
    exact: (mul_good Gx Gy H).
  - case Ea: (build a) => [x|] //= H.
    have [vx -> Gx] := IHa _ Ea.
    exact: (mul_good Gx (good_fixs rc) H).
  - case Ea: (build a) => [x|] //= H.
    have [vx -> Gx] := IHa _ Ea.
    exact: (inv_good Gx H).
  - case Ea: (build a) => [x|] //=; case Eb: (build b0) => [y|] //= H.
    have [vx -> Gx] := IHa _ Ea; have [vy -> Gy] := IHb _ Eb.
    exact: (dot_good Gx Gy H).
  - case Ea: (build a) => [x|] //= H.
    have [vx -> Gx] := IHa _ Ea.
    exact: (apply_good Gx H).
Qed.

(* (3) `e >> sink` delivers the value of e, for all source values *)
Theorem compiler_correct e b :
  build e = Ok b -> delivered A env_ptr env_scalar src_dim e = eval_sp e.
Proof.
  move=> B; rewrite /delivered B /=.
  have [v -> [W S _]] := build_good B.
  by rewrite (@deliver_plain R A env_ptr env_scalar src_dim L env_size _ _ W).
Qed.

(* the compiler never accepts an expression that Semantic-Pointer arithmetic rejects *)
Corollary build_total e b : build e = Ok b -> exists v, eval_sp e = Ok v.
Proof. by move=> B; have [v -> _] := build_good B; exists v. Qed.

(* (4) several statements into one sink add up *)
Theorem statements_add e1 e2 b1 b2 :
  build e1 = Ok b1 -> build e2 = Ok b2 ->
  delivered_all A env_ptr env_scalar src_dim [:: e1; e2] = add_val (eval_sp e1) (eval_sp e2).
Proof. by move=> B1 B2; rewrite /delivered_all /= (compiler_correct B1) (compiler_correct B2). Qed.

End Build.

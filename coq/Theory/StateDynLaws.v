From mathcomp Require Import all_ssreflect all_algebra.
From NSpa Require Import Model.Vec Model.StateDyn Theory.SeqSum.
Set Implicit Arguments.
Unset Strict Implicit.
Unset Printing Implicit Defensive.
Import GRing.Theory.
Local Open Scope ring_scope.

Section StateDynLaws.
Variable R : comRingType.
Variables a f : R.
Implicit Types filt e : seq R.

Lemma size_sd_out filt e : size e = size filt -> size (sd_out filt e) = size filt.
Proof. by move=> se; rewrite /sd_out size_vadd. Qed.

Lemma size_sd_next filt e : size (sd_next a f filt e) = size filt.
Proof. by rewrite /sd_next size_vadd size_vscale. Qed.

Lemma sd_out_zero filt : sd_out filt (vzero R (size filt)) = filt.
Proof.
  apply: eq_vec; first by rewrite size_sd_out ?size_vzero.
  move=> i _; rewrite /sd_out nth_vadd ?size_vzero // nth_vzero add0r //.
Qed.

(* without input one step multiplies the state by g = a + (1 - a) f *)
Lemma sd_next_zero filt :
  sd_next a f filt (vzero R (size filt)) = vscale (a + (1 - a) * f) filt.
Proof.
  rewrite /sd_next sd_out_zero.
  apply: eq_vec; first by rewrite size_vadd !size_vscale.
  move=> i _; rewrite nth_vadd ?size_vscale // !nth_vscale -mulrDl //.
Qed.

Lemma vscale_vscale (c c' : R) v : vscale c (vscale c' v) = vscale (c * c') v.
Proof. by rewrite /vscale -map_comp; apply: eq_map => x /=; rewrite mulrA. Qed.

Lemma vscale1 v : vscale (1 : R) v = v.
Proof. by rewrite /vscale -[RHS]map_id; apply: eq_map => x; rewrite mul1r. Qed.

Theorem sd_run_zero filt n :
  sd_run a f filt (nseq n (vzero R (size filt))) = vscale ((a + (1 - a) * f) ^+ n) filt.
Proof.
  elim: n filt => [|n IH] filt /=; first by rewrite expr0 vscale1.
  rewrite sd_next_zero -{1}(size_vscale (a + (1 - a) * f) filt) IH vscale_vscale.
  by rewrite -exprSr.
Qed.

(* decaying memory: n steps after the input ended the output is g^n times what it was *)
Theorem after_input_ends_output_decays_geometrically filt n :
  sd_after a f filt (size filt) n = vscale ((a + (1 - a) * f) ^+ n) filt.
Proof.
  rewrite /sd_after sd_run_zero.
  by rewrite -(size_vscale ((a + (1 - a) * f) ^+ n) filt) sd_out_zero.
Qed.

End StateDynLaws.

Section Special.
Variable R : comRingType.
Variable a : R.

(* feedback 1: the value is held for every number of steps, whatever the synapse *)
Theorem feedback_one_holds (filt : seq R) n : sd_after a 1 filt (size filt) n = filt.
Proof.
  rewrite after_input_ends_output_decays_geometrically mulr1 addrC subrK expr1n.
  exact: vscale1.
Qed.

(* feedback 1 integrates its input: one step adds (1 - a) e *)
Theorem feedback_one_integrates (filt e : seq R) :
  size e = size filt -> sd_next a 1 filt e = vadd filt (vscale (1 - a) e).
Proof.
  move=> se; apply: eq_vec.
    by rewrite size_sd_next size_vadd.
  rewrite size_sd_next => i _.
  rewrite /sd_next /sd_out !nth_vadd ?size_vscale ?size_vadd // !nth_vscale nth_vadd // mulr1.
  by rewrite mulrDr addrCA -mulrDl [a + _]addrC subrK mul1r addrC.
Qed.

(* feedback 0: nothing of the input is remembered *)
Theorem feedback_zero_forgets (filt : seq R) n :
  sd_after a 0 filt (size filt) n = vscale (a ^+ n) filt.
Proof. by rewrite after_input_ends_output_decays_geometrically mulr0 addr0. Qed.

Theorem feedback_zero_from_rest_stays_at_rest d (es : seq (seq R)) :
  all (fun e => size e == d) es -> sd_run a 0 (vzero R d) es = vzero R d.
Proof.
  elim: es => //= e es IH /andP [/eqP se al].
  suff -> : sd_next a 0 (vzero R d) e = vzero R d by exact: IH.
  apply: eq_vec; first by rewrite size_sd_next.
  rewrite size_sd_next size_vzero => i _.
  rewrite /sd_next nth_vadd ?size_vscale ?size_vadd ?size_vzero // !nth_vscale !nth_vzero.
  by rewrite !mulr0 ?mul0r ?add0r ?addr0.
Qed.
End Special.

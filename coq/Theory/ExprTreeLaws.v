(* The printer produces strings that Python's grammar reads back as the same
   tree (C06, printer clause). *)
From Coq Require Import List Bool Arith String Lia.
From NSpa Require Import Model.ExprTree.
Import ListNotations.


Lemma D_down n k ts t : D (n + k) ts t -> D n ts t.
Proof.
  induction k as [|k IH]; intros H.
  - now rewrite Nat.add_0_r in H.
  - apply IH. apply D_up. now rewrite Nat.add_succ_r in H.
Qed.

Lemma D_le n m ts t : m <= n -> D n ts t -> D m ts t.
Proof. intros H K. apply (D_down m (n - m)). now replace (m + (n - m)) with n by lia. Qed.

Lemma D_paren_any n ts t k : D k ts t -> 1 <= k -> n <= atom_level -> D n (paren ts) t.
Proof.
  intros H Hk Hn. apply (D_le atom_level n); [exact Hn|].
  apply D_paren. apply (D_le k 1); assumption.
Qed.

Lemma prec_bounds t : 1 <= prec t <= atom_level.
Proof. destruct t as [s|op c|op l r|nm c|c]; cbn; unfold unary_level, primary_level, atom_level; try lia. destruct op; cbn; lia. Qed.

Lemma blevel_bounds op : 1 <= blevel op <= 8.
Proof. destruct op; cbn; lia. Qed.

(* the operand of a construct at level [need], printed by rule
   "parenthesise iff prec(operand) < need" (or <=) *)
Lemma operand_lt need c pr :
  D (prec c) pr c -> need <= atom_level ->
  D need (if prec c <? need then paren pr else pr) c.
Proof.
  intros H Hn. destruct (prec c <? need) eqn:E.
  - apply (D_paren_any need pr c (prec c)); auto. apply prec_bounds.
  - apply Nat.ltb_ge in E. apply (D_le (prec c)); assumption.
Qed.

Lemma operand_le need c pr :
  D (prec c) pr c -> S need <= atom_level ->
  D (S need) (if prec c <=? need then paren pr else pr) c.
Proof.
  intros H Hn. destruct (prec c <=? need) eqn:E.
  - apply (D_paren_any (S need) pr c (prec c)); auto. apply prec_bounds.
  - apply Nat.leb_gt in E. apply (D_le (prec c)); [lia|assumption].
Qed.

(* ---- the coded printer is sound away from left-nested ** ------------------------ *)
Theorem print_upstream_sound t : no_left_nested_pow t = true -> D (prec t) (print_upstream t) t.
Proof.
  induction t as [s|op c IH|op l IHl r IHr|nm c IH|c IH]; cbn [no_left_nested_pow print_upstream prec]; intros Hok.
  - apply D_leaf.
  - apply D_un. specialize (IH Hok).
    change unary_level with 7 in *.
    destruct (prec c <=? 7) eqn:E.
    + apply (D_paren_any 7 _ c (prec c)); auto; [apply prec_bounds|unfold atom_level; lia].
    + apply Nat.leb_gt in E. apply (D_le (prec c)); [lia|assumption].
  - apply andb_true_iff in Hok. destruct Hok as [Hok Hp].
    apply andb_true_iff in Hok. destruct Hok as [Hl Hr].
    specialize (IHl Hl). specialize (IHr Hr).
    destruct (Nat.eq_dec (blevel op) (blevel BPow)) as [Ep|Np].
    + (* power *)
      assert (op = BPow) by (destruct op; cbn in Ep; try discriminate; reflexivity). subst op.
      apply D_pow.
      * (* lhs must be a primary *)
        cbn [blevel]. destruct (prec l <? 8) eqn:E.
        -- apply (D_paren_any primary_level _ l (prec l)); auto; [apply prec_bounds|unfold primary_level, atom_level; lia].
        -- apply Nat.ltb_ge in E.
           assert (prec l <> 8).
           { destruct l as [s|o c|o a b|nm c|c]; cbn in *; unfold unary_level, primary_level, atom_level in *; try lia.
             destruct o; cbn in *; try lia; try discriminate. }
           apply (D_le (prec l)); [unfold primary_level; lia|assumption].
      * cbn [blevel]. destruct (prec r <=? 8) eqn:E.
        -- apply (D_paren_any unary_level _ r (prec r)); auto; [apply prec_bounds|unfold unary_level, atom_level; lia].
        -- apply Nat.leb_gt in E. apply (D_le (prec r)); [unfold unary_level; lia|assumption].
    + apply D_bin; [exact Np| |].
      * apply operand_lt; [assumption|]. pose proof (blevel_bounds op). unfold atom_level. lia.
      * apply operand_le; [assumption|]. pose proof (blevel_bounds op). unfold atom_level. lia.
  - apply D_attr. apply operand_lt; [auto|unfold primary_level, atom_level; lia].
  - apply D_call. apply operand_lt; [auto|unfold primary_level, atom_level; lia].
Qed.

(* ---- the repaired printer is sound for every tree --------------------------------- *)
Theorem print_sound t : D (prec t) (print t) t.
Proof.
  induction t as [s|op c IH|op l IHl r IHr|nm c IH|c IH]; cbn [print prec].
  - apply D_leaf.
  - apply D_un. change unary_level with 7 in *.
    destruct (prec c <=? 7) eqn:E.
    + apply (D_paren_any 7 _ c (prec c)); auto; [apply prec_bounds|unfold atom_level; lia].
    + apply Nat.leb_gt in E. apply (D_le (prec c)); [lia|assumption].
  - destruct op; try (apply D_bin; [cbn; discriminate | apply operand_lt; [assumption|cbn; unfold atom_level; lia]
                                   | apply operand_le; [assumption|cbn; unfold atom_level; lia]]).
    apply D_pow.
    + cbn [blevel]. destruct (prec l <=? 8) eqn:E.
      * apply (D_paren_any primary_level _ l (prec l)); auto; [apply prec_bounds|unfold primary_level, atom_level; lia].
      * apply Nat.leb_gt in E. apply (D_le (prec l)); [unfold primary_level; lia|assumption].
    + cbn [blevel]. destruct (prec r <? 8) eqn:E.
      * apply (D_paren_any unary_level _ r (prec r)); auto; [apply prec_bounds|unfold unary_level, atom_level; lia].
      * apply Nat.ltb_ge in E. apply (D_le (prec r)); [unfold unary_level; lia|assumption].
  - apply D_attr. apply operand_lt; [auto|unfold primary_level, atom_level; lia].
  - apply D_call. apply operand_lt; [auto|unfold primary_level, atom_level; lia].
Qed.

(* the witness: the coded printer's output for (a ** b) ** c is the string
   that the grammar reads as a ** (b ** c) *)
Example left_nested_pow_misprinted :
  let a := Leaf "a" in let b := Leaf "b" in let c := Leaf "c" in
  print_upstream (Bin BPow (Bin BPow a b) c) = [TName "a"; TBin BPow; TName "b"; TBin BPow; TName "c"]
  /\ D (blevel BPow) [TName "a"; TBin BPow; TName "b"; TBin BPow; TName "c"] (Bin BPow a (Bin BPow b c)).
Proof.
  split; [reflexivity|].
  apply (D_pow [TName "a"] [TName "b"; TBin BPow; TName "c"]).
  - apply (D_le atom_level); [unfold primary_level, atom_level; lia|apply D_leaf].
  - apply (D_le (blevel BPow)); [cbn; unfold unary_level; lia|].
    apply (D_pow [TName "b"] [TName "c"]).
    + apply (D_le atom_level); [unfold primary_level, atom_level; lia|apply D_leaf].
    + apply (D_le atom_level); [unfold unary_level, atom_level; lia|apply D_leaf].
Qed.

(* ---- symbolic expressions build the tree of the written operations -------------- *)
From NSpa Require Import Model.Symbolic.

Theorem symbolic_tree_is_direct_tree e : unfold_parens e (tree_of e) = direct_tree e.
Proof.
  induction e as [n|text inner|lit|a IH|a IH|a IHa b IHb|a IHa b IHb|a IHa b IHb|a IHa b IHb|a IH m];
    cbn; try reflexivity; try (now rewrite IH); now rewrite IHa, IHb.
Qed.

(* every symbolic expression prints to a string the grammar reads back as its
   own tree (no ** can be written with symbols) *)
Lemma tree_of_no_pow e : no_left_nested_pow (tree_of e) = true.
Proof.
  induction e as [n|text inner|lit|a IH|a IH|a IHa b IHb|a IHa b IHb|a IHa b IHb|a IHa b IHb|a IH m];
    cbn; auto; now rewrite IHa, IHb.
Qed.

Theorem symbolic_expression_prints_soundly e :
  D (prec (tree_of e)) (print (tree_of e)) (tree_of e).
Proof. apply print_sound. Qed.

(* upstream's string concatenation loses the nesting: witness (A + B).normalized() *)
Example upstream_method_on_compound_misparsed :
  let e := SMethod (SAdd (SSym "A") (SSym "B")) SNormalized in
  to_string (tree_of_upstream e) = "A + B.normalized()"%string /\
  to_string (tree_of e) = "(A + B).normalized()"%string.
Proof. split; reflexivity. Qed.

(* parse evaluates in the vocabulary's algebra; create_pointer returns the first
   candidate below the similarity bound, else the first least-similar one (C10). *)
From mathcomp Require Import all_ssreflect all_algebra.
From NSpa Require Import Model.Vec Model.Hrr Model.Vtb Model.Power Model.Algebra Model.Parse.
Set Implicit Arguments.
Unset Strict Implicit.
Unset Printing Implicit Defensive.
Import Order.TTheory GRing.Theory Num.Theory.
Local Open Scope ring_scope.

Section EvalLaws.
Variable R : comRingType.
Variables (al : alg) (d : nat) (entries : seq (seq R)).
Variables (scalars : seq (R * R)) (matrices : seq (seq (seq R))).
Local Notation eval := (eval al d entries scalars matrices).
Local Notation parse := (parse al d entries scalars matrices).

(* special names denote the vocabulary's own algebra's elements *)
Theorem special_is_own_element s :
  eval (ESpecial s) =
  match alg_element al
          (match s with SIdentity => EIdentity | SZeroEl => EZero | SAbsorbing => EAbsorbing end)
          d STwo with
  | Ok w => inr (VPtr (of_scaled (wval w)))
  | Err e => inl (PExn e)
  end.
Proof. by []. Qed.

(* a bare number n denotes n times the vocabulary's identity *)
Theorem number_is_multiple_of_own_identity p q neg i :
  alg_element al EIdentity d STwo = Ok i ->
  parse (ENum p q neg) = inr (sv_scale (signed R p neg) q%:R (of_scaled (wval i))).
Proof. by rewrite /parse /= /special_value => ->. Qed.

(* names denote the entries; an unknown name is a parse error *)
Theorem name_is_entry i :
  (i < size entries)%N -> eval (EName i) = inr (VPtr (sv_plain (nth [::] entries i))).
Proof. by rewrite /= => ->. Qed.
Theorem unknown_name_is_parse_error i :
  (size entries <= i)%N -> eval (EName i) = inl (PExn SpaParseError).
Proof. by rewrite /= ltnNge => ->. Qed.

(* the written operators are applied to the values of the sub-expressions *)
Theorem mul_is_binding a b x y :
  eval a = inr (VPtr x) -> eval b = inr (VPtr y) ->
  eval (EMul a b) = lift (sv_bind al x y).
Proof. by rewrite /= => -> ->. Qed.

Theorem add_is_superposition a b x y :
  eval a = inr (VPtr x) -> eval b = inr (VPtr y) ->
  eval (EAdd a b) = match sv_add x y with inr z => inr (VPtr z) | inl er => inl er end.
Proof. by rewrite /= => -> ->. Qed.

Theorem sub_is_add_neg a b x y :
  eval a = inr (VPtr x) -> eval b = inr (VPtr y) ->
  eval (ESub a b) = match sv_add x (sv_neg y) with inr z => inr (VPtr z) | inl er => inl er end.
Proof. by rewrite /= => -> ->. Qed.

Theorem invert_uses_own_algebra a x :
  eval a = inr (VPtr x) ->
  eval (EInv a) = match alg_invert al (sv_core x) STwo with
                  | Ok w => inr (VPtr (SVal (wval w) (sv_num x) (sv_den x) (sv_div x)))
                  | Err er => inl (PExn er)
                  end.
Proof. by rewrite /= => ->. Qed.

(* errors propagate: a failing sub-expression fails the whole expression *)
Theorem error_propagates_mul_left a b er : eval a = inl er -> eval (EMul a b) = inl er.
Proof. by rewrite /= => ->. Qed.
Theorem error_propagates_add_left a b er : eval a = inl er -> eval (EAdd a b) = inl er.
Proof. by rewrite /= => ->. Qed.

End EvalLaws.

(* ---- create_pointer ----------------------------------------------------------- *)
Section Selection.
Variable R : realDomainType.
Implicit Types (p : seq R) (cands vectors : seq (seq R)) (best : option (seq R * R)).

Variable vectors : seq (seq R).
Variable bound : R.
Local Notation sim := (max_sim vectors).

(* the running minimum kept by the loop: strict improvement only, so the
   earliest least-similar candidate wins *)
Definition argmin_first best cands : option (seq R * R) :=
  foldl (fun b p => let s := sim p in
                    if (if b is Some (_, bs) then s < bs else true) then Some (p, s) else b)
        best cands.

Lemma select_spec cands best :
  (if best is Some (_, bs) then bound <= bs else true) ->
  select vectors bound cands best =
  match [seq p <- cands | sim p < bound] with
  | p :: _ => (Some p, false)
  | [::] => (omap fst (argmin_first best cands), true)
  end.
Proof.
  elim: cands best => [|p rest IH] best inv //=.
  case better: (if best is Some (_, bs) then sim p < bs else true).
    case below: (sim p < bound) => //=.
    rewrite IH //=; by rewrite leNgt below.
  have nb : (sim p < bound) = false.
    case: best inv better => [[q bs]|] //= inv /negbT.
    rewrite -leNgt => le; apply/negbTE; rewrite -leNgt.
    exact: le_trans inv le.
  by rewrite nb IH.
Qed.

(* the running minimum is a least-similar candidate *)
Definition best_ok best := forall q bs, best = Some (q, bs) -> bs = sim q.

Lemma argmin_first_inv cands best :
  best_ok best ->
  (forall p s, argmin_first best cands = Some (p, s) ->
     [/\ s = sim p,
         (p \in cands) \/ (exists bs, best = Some (p, bs)),
         (forall q, q \in cands -> s <= sim q) &
         (forall q bs, best = Some (q, bs) -> s <= bs)]) /\
  (argmin_first best cands = None -> best = None /\ cands = [::]).
Proof.
  elim: cands best => [|c rest IH] best inv /=.
    split=> [p s e|e]; last by [].
    split=> //; first exact: inv e.
    - by right; exists s.
    - by move=> q bs; rewrite e => -[_ ->].
  set b' := (if (if best is Some (_, bs) then sim c < bs else true) then Some (c, sim c) else best).
  have inv' : best_ok b'.
    rewrite /b'; case: ifP => _; last exact: inv.
    by move=> q bs [<- <-].
  have [IH1 IH2] := IH b' inv'.
  split; last first.
    move=> e; have [eb _] := IH2 e.
    by move: eb; rewrite /b'; case: (best) => [[q bs]|] //=; case: ifP.
  move=> p s e; have [es mem lo hb] := IH1 p s e.
  split=> //.
  - case: mem => [m|[bs eb]]; first by left; rewrite in_cons m orbT.
    move: eb; rewrite /b'; case: ifP => _; last by move=> eb; right; exists bs.
    by move=> [<- _]; left; rewrite in_cons eqxx.
  - move=> q; rewrite in_cons => /orP [/eqP ->|]; last exact: lo.
    move: (hb); rewrite /b'.
    case: ifP => [_ h|]; first exact: (h _ _ erefl).
    case eb: best => [[q0 bs]|] //= /negbT; rewrite -leNgt => le h.
    exact: le_trans (h _ _ erefl) le.
  - move=> q bs eb; move: (hb); rewrite /b' eb /=.
    case: ifP => [lt h|_ h]; last exact: h.
    exact: le_trans (h _ _ erefl) (ltW lt).
Qed.

End Selection.

Section CreatePointerLaws.
Variable R : realDomainType.
Implicit Types (p : seq R) (cands vectors : seq (seq R)).

(* an empty vocabulary takes the first candidate, without a warning *)
Theorem create_pointer_empty_vocabulary bound p cands :
  create_pointer_sel [::] bound (p :: cands) = (Some p, false).
Proof. by []. Qed.

(* non-empty vocabulary: the first candidate whose largest similarity is below
   the bound, without a warning *)
Theorem create_pointer_first_qualifying (v0 : seq R) vectors (bound : R) cands p rest :
  [seq q <- cands | max_sim (v0 :: vectors) q < bound] = p :: rest ->
  create_pointer_sel (v0 :: vectors) bound cands = (Some p, false).
Proof. by move=> e; rewrite /create_pointer_sel select_spec // e. Qed.

(* ... or, if none of the allowed attempts qualifies, a least similar candidate
   together with a warning *)
Theorem create_pointer_least_similar (v0 : seq R) vectors (bound : R) cands :
  [seq q <- cands | max_sim (v0 :: vectors) q < bound] = [::] ->
  exists r, create_pointer_sel (v0 :: vectors) bound cands = (r, true) /\
    match r with
    | Some p => p \in cands /\
                forall q, q \in cands -> max_sim (v0 :: vectors) p <= max_sim (v0 :: vectors) q
    | None => cands = [::]
    end.
Proof.
  move=> e; rewrite /create_pointer_sel select_spec // e.
  eexists; split; first by reflexivity.
  have [H1 H2] := @argmin_first_inv _ (v0 :: vectors) cands None (fun q bs e => match e with end).
  case E: (argmin_first _ _ _) => [[p s]|] /=; last by have [] := H2 E.
  have [es mem lo _] := H1 p s E.
  split; first by case: mem => // -[bs].
  by move=> q mq; rewrite -es; exact: lo.
Qed.

End CreatePointerLaws.

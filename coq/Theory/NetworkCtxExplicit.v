(* Vocabulary resolution (Model/NetworkCtx.v): a vocabulary map supplied explicitly for a
   subtree reaches every module of that subtree, at any depth and through plain or SPA
   sub-networks, as long as no nested container brings its own map; and resolving from a
   supplied or inherited map creates nothing. *)
From Coq Require Import List Bool Arith Lia.
From NSpa Require Import Model.NetworkCtx Theory.NetworkCtxLaws.
Import ListNotations.

Fixpoint no_explicit (t : tree) : bool :=
  match t with
  | Module _ => true
  | Plain ch => no_explicit_forest ch
  | Spa explicit _ ch => negb explicit && no_explicit_forest ch
  end
with no_explicit_forest (f : forest) : bool :=
  match f with
  | FNil => true
  | FCons t r => no_explicit t && no_explicit_forest r
  end.

Definition inherits_tree (t : tree) : Prop :=
  forall m in_ctx over s occs s', no_explicit t = true ->
    build t (Some m) in_ctx over s = (occs, s') ->
    s' = s /\ forall o, In o occs -> o_map o = m /\ o_over o = over.
Definition inherits_forest (f : forest) : Prop :=
  forall m in_ctx over s occs s', no_explicit_forest f = true ->
    build_forest f (Some m) in_ctx over s = (occs, s') ->
    s' = s /\ forall o, In o occs -> o_map o = m /\ o_over o = over.

Lemma inherits_all : (forall t, inherits_tree t) /\ (forall f, inherits_forest f).
Proof.
  apply tree_forest_ind; unfold inherits_tree, inherits_forest.
  - intros d m in_ctx over s occs s' _ H; cbn in H; inversion H; subst; split; [reflexivity|].
    intros o [<-|[]]; cbn; split; reflexivity.
  - intros ch IH m in_ctx over s occs s' Hn H; cbn in H, Hn; eapply IH; eauto.
  - intros explicit seed ch IH m in_ctx over s occs s' Hn H; cbn in Hn.
    apply andb_true_iff in Hn; destruct Hn as [He Hn].
    destruct explicit; [discriminate|]; cbn in H.
    rewrite orb_false_r in H; eapply IH; eauto.
  - intros m in_ctx over s occs s' _ H; cbn in H; inversion H; subst; split; [reflexivity|intros o []].
  - intros t IHt r IHr m in_ctx over s occs s' Hn H; cbn in Hn.
    apply andb_true_iff in Hn; destruct Hn as [Hn1 Hn2]; cbn in H.
    destruct (build t (Some m) in_ctx over s) as [o1 s1] eqn:E1.
    destruct (build_forest r (Some m) in_ctx over s1) as [o2 s2] eqn:E2.
    inversion H; subst; clear H.
    destruct (IHt _ _ _ _ _ _ Hn1 E1) as [-> H1].
    destruct (IHr _ _ _ _ _ _ Hn2 E2) as [-> H2].
    split; [reflexivity|]; intros o Ho; apply in_app_or in Ho; destruct Ho; auto.
Qed.

(* the headline: `with spa.Network(vocabs=my_map):` - every module below it uses my_map,
   which no module built before can have used (its id is the next fresh one) *)
Theorem supplied_map_governs_its_subtree seed ch cfg in_ctx over s occs s' :
  no_explicit_forest ch = true ->
  build (Spa true seed ch) cfg in_ctx over s = (occs, s') ->
  next_map s' = S (next_map s) /\
  forall o, In o occs -> o_map o = next_map s /\ o_over o = true.
Proof.
  intros Hn H; cbn in H.
  destruct (proj2 inherits_all ch _ _ _ _ _ _ Hn H) as [-> Hall].
  split; [reflexivity|]; intros o Ho; destruct (Hall o Ho) as [Hm Hv]; split; [exact Hm|].
  rewrite Hv; apply orb_true_r.
Qed.

(* modules and containers below an inherited map create no vocabulary map at all *)
Theorem inherited_map_creates_nothing f m in_ctx over s occs s' :
  no_explicit_forest f = true ->
  build_forest f (Some m) in_ctx over s = (occs, s') -> s' = s /\ forall o, In o occs -> o_map o = m.
Proof.
  intros Hn H; destruct (proj2 inherits_all f _ _ _ _ _ _ Hn H) as [-> Hall].
  split; [reflexivity|]; intros o Ho; apply (Hall o Ho).
Qed.

(* Case checkers for C20. *)
From Coq Require Import List Bool Arith ZArith String.
From NSpa Require Import Model.Examine Tie.Close.
Import ListNotations.

Inductive sobs (A : Type) := SVal (a : A) | SErr.
Arguments SErr {A}.
Arguments SVal {A} a.

(* similarity, 2-D data: (T, N) *)
Definition check_similarity (vectors data : list (list Z)) (t : tol) (o : sobs (list (list dyad))) : bool :=
  match o with
  | SVal x => close_mat x (similarity vectors data) t
  | SErr => false
  end.
(* similarity, 1-D data: (N) *)
Definition check_similarity1 (vectors : list (list Z)) (d : list Z) (t : tol) (o : sobs (list dyad)) : bool :=
  match o with
  | SVal x => close_vec x (sim_row vectors d) t
  | SErr => false
  end.

Definition close_cos (x : dyad) (e : Z * Z) (t : tol) : bool := close_scaled x (fst e) 1 (snd e) t.
Definition check_similarity_norm (vectors data : list (list Z)) (t : tol) (o : sobs (list (list dyad))) : bool :=
  match o with
  | SVal x => all2 (fun r s => all2 (fun q e => close_cos q e t) r s) x (similarity_normalized vectors data)
  | SErr => false
  end.
Definition check_similarity_norm1 (vectors : list (list Z)) (d : list Z) (t : tol) (o : sobs (list dyad)) : bool :=
  match o with
  | SVal x => all2 (fun q v => close_cos q (cos_entry v d) t) x vectors
  | SErr => false
  end.

(* text: vectors scaled by 2^a, similarities by 2^k (k = 2a), threshold scaled by 2^k *)
Definition check_text (k : nat) (minimum maximum : option nat) (threshold : option Z)
    (v : list Z) (vecs : list (list Z)) (terms : list string) (o : sobs string) : bool :=
  match o with
  | SVal s => String.eqb s (text k minimum maximum threshold (combine (map (fun x => zdot x v) vecs) terms))
  | SErr => false
  end.

Definition pair_str (p : string * string) : string := (fst p ++ "*" ++ snd p)%string.
Definition check_pairs (keys : list string) (observed : list string) : bool :=
  Nat.eqb (List.length observed) (List.length (pairs keys)) &&
  forallb (fun p => existsb (String.eqb (pair_str p)) observed) (pairs keys).

(* Case checkers for C13. *)
From mathcomp Require Import all_ssreflect all_algebra ssrZ.
From Coq Require Import ZArith.
From NSpa Require Import Model.Vec Model.Algebra Model.Translate Tie.Close Tie.AlgTie.
Set Implicit Arguments.
Unset Strict Implicit.

Definition zentries := seq (nat * zvec).

Inductive tobs := TObs of seq (seq dyad) & bool | TObsKeyError | TObsOther.

Definition check_transform (d_from d_to : nat) (src tgt_after : zentries) (tgt_before : seq nat)
    (requested : option (seq nat)) (populate : option bool) (src_strict : bool) (t : tol) (o : tobs) : bool :=
  match transform_to d_from d_to src tgt_after tgt_before requested populate src_strict, o with
  | TOk m w _, TObs x w' => close_mat x m t && (w == w')
  | TKeyError, TObsKeyError => true
  | _, _ => false
  end.

(* target keys afterwards, as sets (creation order of new keys follows Python's set iteration) *)
Definition same_set (a b : seq nat) : bool := (all (fun x => x \in b) a) && (all (fun x => x \in a) b).
Definition check_target_keys (tgt_before src_keys : seq nat) (requested : option (seq nat))
    (populate : option bool) (observed : seq nat) : bool :=
  same_set (target_keys_after tgt_before src_keys requested populate) observed
  && (take (size tgt_before) observed == tgt_before).

Definition check_translate (T : zmat) (v : zvec) (t : tol) (x : seq dyad) : bool :=
  close_vec x (translate T v) t.

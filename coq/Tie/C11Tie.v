(* Case checkers for C11: compare the implementation's observed outcomes with
   the model, inside Coq. *)
From Coq Require Import List Bool Arith.
From NSpa Require Import Model.Types.
Import ListNotations.

Definition dimf (dims : list nat) (i : nat) : nat := nth i dims 0.

Fixpoint bools_eqb (a b : list bool) : bool :=
  match a, b with
  | [], [] => true
  | x :: r, y :: s => Bool.eqb x y && bools_eqb r s
  | _, _ => false
  end.

(* observed: ==, !=, <, <=, >, >= *)
Definition check_cmp (dims : list nat) (a b : ty) (obs : list bool) : bool :=
  let d := dimf dims in
  bools_eqb [ty_eqb a b; ty_ne a b; ty_lt d a b; ty_le d a b; ty_gt d a b; ty_ge d a b] obs.

Inductive obs_coerce := OOk (t : ty) | OErr (r : reason) | OOther.

Definition is_voc t := match t with TVoc _ => true | _ => false end.

(* a reason is acceptable for a tuple iff two members exhibit that conflict *)
Definition reason_ok (dims : list nat) (l : list ty) (r : reason) : bool :=
  let d := dimf dims in
  match r with
  | DifferentVocabularies =>
      existsb (fun a => existsb (fun b =>
        match a, b with TVoc i, TVoc j => negb (Nat.eqb i j) | _, _ => false end) l) l
  | DimensionalityMismatch =>
      existsb (fun a => existsb (fun b =>
        match has_dims d a, has_dims d b with
        | Some x, Some y => negb (Nat.eqb x y) | _, _ => false end) l) l
  | IncompatibleTypes =>
      (* only when neither of the specific conflicts exists *)
      negb (existsb (fun a => existsb (fun b =>
        match a, b with TVoc i, TVoc j => negb (Nat.eqb i j) | _, _ => false end) l) l)
      && negb (existsb (fun a => existsb (fun b =>
        match has_dims d a, has_dims d b with
        | Some x, Some y => negb (Nat.eqb x y) | _, _ => false end) l) l)
  end.

Definition check_coerce (dims : list nat) (l : list ty) (obs : obs_coerce) : bool :=
  match coerce_types (dimf dims) l, obs with
  | COk t, OOk u => ty_eqb t u
  | CTypeError _, OErr r => reason_ok dims l r
  | CValueError, OOther => true
  | _, _ => false
  end.

(* stricter variant: the reason the code picks for its (offender, max) pair *)
Definition check_coerce_exact (dims : list nat) (l : list ty) (obs : obs_coerce) : bool :=
  match coerce_types (dimf dims) l, obs with
  | COk t, OOk u => ty_eqb t u
  | CTypeError r, OErr r' =>
      match r, r' with
      | DifferentVocabularies, DifferentVocabularies
      | DimensionalityMismatch, DimensionalityMismatch
      | IncompatibleTypes, IncompatibleTypes => true
      | _, _ => false
      end
  | CValueError, OOther => true
  | _, _ => false
  end.

(* equal (as observed) and both hashable => equal hashes *)
Definition check_hash (obs_eq : bool) (same_hash : bool) : bool :=
  if obs_eq then same_hash else true.

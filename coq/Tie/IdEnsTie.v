(* Case checkers for C16: structure of the built graph against the model. *)
From Coq Require Import List Bool Arith.
From NSpa Require Import Model.IdEnsArray.
Import ListNotations.

Definition part_eqb (a b : part) : bool :=
  Nat.eqb (p_start a) (p_start b) && Nat.eqb (p_size a) (p_size b).
Fixpoint parts_eqb (a b : list part) : bool :=
  match a, b with
  | [], [] => true
  | x :: r, y :: s => part_eqb x y && parts_eqb r s
  | _, _ => false
  end.

(* observed, per ensemble in all_ensembles order: input slice, output slice,
   neuron-input slice, neuron-output slice, and the ensemble's (dimensions, n_neurons) *)
Definition check_layout (identity : bool) (npd d sub : nat)
    (in_slices out_slices_ nin nout : list part) (ens : list (nat * nat)) : bool :=
  let ps := if identity then parts d sub else plain_parts d sub in
  parts_eqb in_slices ps && parts_eqb out_slices_ ps &&
  parts_eqb nin (neuron_slices npd ps 0) && parts_eqb nout (neuron_slices npd ps 0) &&
  parts_eqb (map (fun e => Part (fst e) (snd e)) ens)
            (map (fun p => Part (p_size p) (npd * p_size p)) ps).

(* add_output with a function mapping k dims to (f k) values: observed output slices
   (in ensemble order) and total size *)
Definition check_add_output (d sub : nat) (sizes : list nat) (observed : list part) (total : nat) : bool :=
  let ps := parts d sub in
  let f k := nth (k - 1) sizes 0 in     (* sizes indexed by ensemble dimensionality - 1 *)
  parts_eqb observed (out_slices f ps 0) &&
  Nat.eqb total (fold_right (fun p acc => f (p_size p) + acc) 0 ps).

Definition check_state_accepts (d sub : nat) (accepted : bool) : bool :=
  Bool.eqb (state_accepts d sub) accepted.

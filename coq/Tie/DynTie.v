(* Case checkers for C01: compiled expressions at Z.
   [check_dyn]    : the simulated sink value against [delivered] (build + connect_to model);
                    usable when the algebra's scale factor is an integer (HRR; VTB/TVTB with
                    sqrt(d) a perfect square) and all numbers are integers.
   [check_spec]   : the simulated sink value against Semantic-Pointer arithmetic with symbolic
                    radicands (Model/Parse.v eval), any algebra / dimension / rational numbers.
   [check_shape]  : classes and pending transforms of the AST the implementation built against
                    [build]. *)
From mathcomp Require Import all_ssreflect all_algebra ssrZ.
From Coq Require Import ZArith.
From NSpa Require Import Model.Vec Model.Hrr Model.Vtb Model.Power Model.Algebra Model.Parse
  Model.Dynamic Tie.Close Tie.AlgTie.
Set Implicit Arguments.
Unset Strict Implicit.
Unset Printing Implicit Defensive.

Definition zrt (s : nat) : Z := Z.sqrt (Z.of_nat s).
Definition zwalg (al : alg) : walg [comRingType of Z] := walg_of zrt al.

(* the scale factor is exact for this dimensionality *)
Definition exact_dim (al : alg) (d : nat) : bool :=
  match al with
  | AHrr => true
  | _ => let s := isqrt d in let r := isqrt s in (muln r r == s)
  end.

Definition zdexpr := dexpr [comRingType of Z].

(* observed sink value: a vector (scalars as one-element vectors) *)
Definition close_dval (t : tol) (v : dval [comRingType of Z]) (x : seq dyad) : bool :=
  match v with
  | VP m => close_vec x m t
  | VS c => close_vec x [:: c] t
  end.

Definition run_dyn (al : alg) (srcs : seq zvec) (scal : seq Z) (es : seq zdexpr)
    : result (dval [comRingType of Z]) :=
  delivered_all (zwalg al) (fun i => nth [::] srcs i) (fun i => nth 0%Z scal i)
                (fun i => size (nth [::] srcs i)) es.

Definition check_dyn (al : alg) (srcs : seq zvec) (scal : seq Z) (es : seq zdexpr) (t : tol)
    (o : obs (seq dyad)) : bool :=
  match run_dyn al srcs scal es, o with
  | Ok v, OVal x _ => close_dval t v x
  | Err er, OExn er' => exn_eqb er er'
  | _, _ => false
  end.

(* the model rejects the expression: the implementation must raise as well (any class) *)
Definition dyn_rejected (al : alg) (srcs : seq zvec) (scal : seq Z) (e : zdexpr) : bool :=
  match run_dyn al srcs scal [:: e] with Err _ => true | Ok _ => false end.

(* the theorem's two sides, evaluated: build + deliver against Semantic-Pointer arithmetic *)
Definition dval_eqb (a b : dval [comRingType of Z]) : bool :=
  match a, b with
  | VP x, VP y => eq_zvec x y && (size x == size y)
  | VS x, VS y => Z.eqb x y
  | _, _ => false
  end.
Definition model_agrees (al : alg) (srcs : seq zvec) (scal : seq Z) (e : zdexpr) : bool :=
  match run_dyn al srcs scal [:: e],
        eval_sp (zwalg al) (fun i => nth [::] srcs i) (fun i => nth 0%Z scal i) e with
  | Ok a, Ok b => dval_eqb a b
  | Err _, _ => true      (* rejected expressions are outside the statement *)
  | Ok _, Err _ => false
  end.

(* ---- specification side with radicands ---------------------------------------------------- *)
(* several statements into one sink: the sum *)
Fixpoint sum_expr (es : seq expr) : expr :=
  match es with
  | [::] => ENum 0 1 false
  | [:: e] => e
  | e :: es' => EAdd e (sum_expr es')
  end.

Definition check_spec (al : alg) (d : nat) (entries : seq zvec) (scal : seq (Z * Z))
    (mats : seq zmat) (es : seq expr) (t : tol) (o : obs (seq dyad)) : bool :=
  match eval al d entries scal mats (sum_expr es), o with
  | inr (VPtr x), OVal v _ => close_svec v (sv_core x) (sv_num x) (sv_den x * sv_div x * sv_div x)%R t
  | inr (VNum p q), OVal [:: v] _ => close_rat v p q t
  | inr (VNum _ _), OVal _ _ => false
  | inl (PExn er), OExn er' => exn_eqb er er'
  | inl PUnrepresentable, _ => true
  | _, _ => false
  end.

Definition spec_representable (al : alg) (d : nat) (entries : seq zvec) (scal : seq (Z * Z))
    (mats : seq zmat) (es : seq expr) : bool :=
  match eval (R := [comRingType of Z]) al d entries scal mats (sum_expr es) with
  | inl PUnrepresentable => false
  | _ => true
  end.

(* ---- structure of the built AST ------------------------------------------------------------ *)
(* class codes, preorder, not looking through module outputs:
   1 k  Transformed with transform kind k (0 scalar, 1 matrix, 2 row, 3 column)
   2 f  Summed (f = 1: scalar fan-in)
   4    output of a source module        5 Bind   6 Product   7 dot-product network
   8    fixed pointer                    9 fixed scalar *)
Section Shape.
Variable R : comRingType.
Definition tkind (t : transform R) : nat :=
  match t with TScale _ => 0 | TMat _ => 1 | TRow _ => 2 | TCol _ => 3 end.

Fixpoint shape (n : node R) : seq nat :=
  match n with
  | NOut _ | NOutScalar _ => [:: 4]
  | NFixedPtr _ => [:: 8]
  | NFixedScalar _ => [:: 9]
  | NTransformed m t => [:: 1; tkind t] ++ shape m
  | NSummed f a b => [:: 2; nat_of_bool f] ++ shape a ++ shape b
  | NBind _ _ => [:: 5]
  | NProduct _ _ => [:: 6]
  | NDotProd _ _ => [:: 7]
  end.

Definition tmat (t : transform R) : seq (seq R) :=
  match t with
  | TScale c => [:: [:: c]]
  | TMat m => m
  | TRow r => [:: r]
  | TCol c => map (fun x => [:: x]) c
  end.

Fixpoint transforms (n : node R) : seq (seq (seq R)) :=
  match n with
  | NTransformed m t => tmat t :: transforms m
  | NSummed _ a b => transforms a ++ transforms b
  | _ => [::]
  end.
End Shape.

Definition check_shape (al : alg) (srcs : seq zvec) (e : zdexpr) (t : tol)
    (codes : seq nat) (trs : seq (seq (seq dyad))) : bool :=
  match build (zwalg al) (fun i => size (nth [::] srcs i)) e with
  | Ok b => let n := as_node b in
            (shape n == codes) && (size (transforms n) == size trs) &&
            all2 (fun m x => close_mat x m t) (transforms n) trs
  | Err _ => false
  end.

(* constructors at Z for generated case files *)
Definition zSrc (i : nat) : zdexpr := DSrc _ i.
Definition zSSrc (i : nat) : zdexpr := DSrcScalar _ i.
Definition zFix (s : bool) (v : zvec) : zdexpr := DFixed s v.
Definition zNum (c : Z) : zdexpr := DNum c.
Definition zAdd (a b : zdexpr) : zdexpr := DAdd a b.
Definition zSub (a b : zdexpr) : zdexpr := DSub a b.
Definition zNeg (a : zdexpr) : zdexpr := DNeg a.
Definition zMul (a b : zdexpr) : zdexpr := DMul a b.
Definition zInv (sd : side) (a : zdexpr) : zdexpr := DInv sd a.
Definition zDot (a b : zdexpr) : zdexpr := DDot a b.
Definition zApply (T : zmat) (a : zdexpr) : zdexpr := DApply T a.

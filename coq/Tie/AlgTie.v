(* Case checkers for the algebra layer (C02, C08, C12, C17): the generic
   models of Model/Hrr.v and Model/Vtb.v instantiated at Z and compared with
   what the implementation returned. *)
From mathcomp Require Import all_ssreflect all_algebra ssrZ.
From Coq Require Import ZArith.
From NSpa Require Import Model.Vec Model.Hrr Model.Vtb Model.Power Model.Algebra Tie.Close.
Set Implicit Arguments.
Unset Strict Implicit.
Unset Printing Implicit Defensive.


(* what the implementation did: a value (with "a DeprecationWarning was
   issued" flag) or an exception class *)
Inductive obs (A : Type) := OVal of A & bool | OExn of exn.
Arguments OExn {A} _.

Definition zvec := seq Z.
Definition zmat := seq (seq Z).

Definition Zn (n : nat) : Z := Z.of_nat n.


(* --- generic comparison of a model result with an observation ------------ *)
Definition cmp_res {M O} (f : M -> O -> bool) (m : result (warned M)) (o : obs O) : bool :=
  match m, o with
  | Ok w, OVal x dep => f (wval w) x && (wdep w == dep)
  | Err e, OExn e' => exn_eqb e e'
  | _, _ => false
  end.

Definition cmp_svec (t : tol) (m : scaled zvec) (x : seq dyad) : bool :=
  close_svec x (core m) (Zn (rnum m)) (Zn (rden m)) t.
Definition cmp_smat (t : tol) (m : scaled zmat) (x : seq (seq dyad)) : bool :=
  close_smat x (core m) (Zn (rnum m)) (Zn (rden m)) t.
Definition cmp_vec (t : tol) (m : zvec) (x : seq dyad) : bool := close_vec x m t.
Definition cmp_mat (t : tol) (m : zmat) (x : seq (seq dyad)) : bool := close_mat x m t.

Definition check_valid (al : alg) (d : nat) (o : bool) : bool := alg_valid al d == o.

Definition check_bind (al : alg) (a b : zvec) (t : tol) (o : obs (seq dyad)) : bool :=
  cmp_res (cmp_svec t) (rmap (@nowarn _) (alg_bind al a b)) o.

Definition check_bmat (al : alg) (v : zvec) (swap : bool) (t : tol)
    (o : obs (seq (seq dyad))) : bool :=
  cmp_res (cmp_smat t) (rmap (@nowarn _) (alg_bmat al v swap)) o.

Definition check_invert (al : alg) (v : zvec) (sd : side) (t : tol)
    (o : obs (seq dyad)) : bool :=
  cmp_res (cmp_vec t) (alg_invert al v sd) o.

Definition check_imat (al : alg) (d : nat) (sd : side) (t : tol)
    (o : obs (seq (seq dyad))) : bool :=
  cmp_res (cmp_mat t) (alg_imat al d sd) o.

Definition check_superpose (a b : zvec) (t : tol) (o : obs (seq dyad)) : bool :=
  cmp_res (cmp_vec t) (rmap (@nowarn _) (alg_superpose a b)) o.

(* ---- special elements (C08) ---------------------------------------------- *)
Definition check_element (al : alg) (el : element) (d : nat) (sd : side) (t : tol)
    (o : obs (seq dyad)) : bool :=
  cmp_res (cmp_svec t) (alg_element al el d sd) o.

(* bind of two scaled operands (the implementation was given their float values) *)
Definition check_sbind (al : alg) (x y : scaled zvec) (t : tol) (o : obs (seq dyad)) : bool :=
  cmp_res (cmp_svec t) (rmap (@nowarn _) (alg_sbind al x y)) o.

(* bind(bind(a, v), w) for scaled operands *)
Definition check_sbind3 (al : alg) (a v w : scaled zvec) (t : tol) (o : obs (seq dyad)) : bool :=
  cmp_res (cmp_svec t)
    (rmap (@nowarn _) (rbind (alg_sbind al a v) (fun r => alg_sbind al r w))) o.
(* bind(w, bind(v, a)) *)
Definition check_sbind3l (al : alg) (w v a : scaled zvec) (t : tol) (o : obs (seq dyad)) : bool :=
  cmp_res (cmp_svec t)
    (rmap (@nowarn _) (rbind (alg_sbind al v a) (fun r => alg_sbind al w r))) o.

Definition sc (c : zvec) (n d : nat) : scaled zvec := Scaled c n d.

(* bind(bind(a, v), invert(v, side)) *)
Definition check_unbind_r (al : alg) (a v : scaled zvec) (sd : side) (t : tol)
    (o : obs (seq dyad)) : bool :=
  cmp_res (cmp_svec t)
    (rbind (alg_sinvert al v sd) (fun w =>
     rbind (alg_sbind al a v) (fun r =>
     rmap (fun x => Warned x (wdep w)) (alg_sbind al r (wval w))))) o.
(* bind(invert(v, side), bind(v, a)) *)
Definition check_unbind_l (al : alg) (a v : scaled zvec) (sd : side) (t : tol)
    (o : obs (seq dyad)) : bool :=
  cmp_res (cmp_svec t)
    (rbind (alg_sinvert al v sd) (fun w =>
     rbind (alg_sbind al v a) (fun r =>
     rmap (fun x => Warned x (wdep w)) (alg_sbind al (wval w) r)))) o.

(* property-level: the observed vector is (close to) a given integer vector *)
Definition check_is (a : zvec) (t : tol) (o : obs (seq dyad)) : bool :=
  match o with OVal x _ => close_vec x a t | _ => false end.

(* ---- sign and abs (C17) --------------------------------------------------- *)
From NSpa Require Import Model.Sign.

Definition bools4 (p n z i : bool) (o : seq bool) : bool :=
  match o with
  | [:: p'; n'; z'; i'] => (p == p') && (n == n') && (z == z') && (i == i')
  | _ => false
  end.

(* observed: [is_positive; is_negative; is_zero; is_indefinite] or an exception *)
Definition check_hrr_sign (v : zvec) (o : obs (seq bool)) : bool :=
  match hrr_sign_of v, o with
  | Ok s, OVal x _ =>
      bools4 (sign_is_positive s) (sign_is_negative s) (sign_is_zero s) (sign_is_indefinite s) x
  | Err e, OExn e' => exn_eqb e e'
  | _, _ => false
  end.

Definition check_hrr_sign_vector (v : zvec) (t : tol) (o : obs (seq dyad)) : bool :=
  cmp_res (cmp_vec t)
    (rmap (fun s => nowarn (hrr_sign_to_vector _ s (size v) : zvec)) (hrr_sign_of v)) o.

Definition check_hrr_abs (v : zvec) (t : tol) (o : obs (seq dyad)) : bool :=
  cmp_res (cmp_vec t) (rmap (@nowarn _) (hrr_abs v)) o.

Definition check_sq_sign (v : zvec) (L : zmat) (D : zvec) (o : obs (seq bool)) : bool :=
  match sq_sign v L D, o with
  | Ok (Some g), OVal x _ =>
      bools4 (g_is_positive g) (g_is_negative g) (g_is_zero g) (g_is_indefinite g) x
  | Err e, OExn e' => exn_eqb e e'
  | _, _ => false
  end.

Definition check_sq_abs (al : alg) (v : zvec) (L : zmat) (D : zvec) (t : tol)
    (o : obs (seq dyad)) : bool :=
  match sq_sign v L D with
  | Ok (Some g) =>
      cmp_res (cmp_svec t)
        (rmap (@nowarn _) (if al is AVtb then vtb_abs v g else tvtb_abs v g)) o
  | Ok None => false
  | Err e => if o is OExn e' then exn_eqb e e' else false
  end.

(* HRR integer binding powers (C12) *)
Definition check_hrr_power (v : zvec) (neg : bool) (n : nat) (t : tol) (o : obs (seq dyad)) : bool :=
  cmp_res (cmp_vec t) (Ok (nowarn (hrr_power v neg n))) o.

(* ---- binding powers and unitarity (C12) ---------------------------------- *)
From NSpa Require Import Model.Power.

Definition alg_power (al : alg) (v : zvec) (neg : bool) (n : nat) : result (scaled zvec) :=
  match al with
  | AHrr => Ok (plain (hrr_power v neg n))
  | AVtb => vtb_power v neg n
  | ATvtb => tvtb_power v neg n
  end.

Definition check_power (al : alg) (v : zvec) (neg : bool) (n : nat) (t : tol)
    (o : obs (seq dyad)) : bool :=
  cmp_res (cmp_svec t) (rmap (@nowarn _) (alg_power al v neg n)) o.

(* Relations evaluated on the implementation's exact outputs.  A list of
   dyadics is brought to a common exponent K: x_i = N_i / 2^K. *)
Definition dy_maxk (x : seq dyad) : nat := foldr (fun q m => maxn q.2 m) 0 x.
Definition dy_common (K : nat) (x : seq dyad) : zvec :=
  map (fun q => (q.1 * pow2 (K - q.2))%Z) x.

(* |p / q - target| <= tolerance with p, q integers (q > 0): reuse close_rat with
   the observed value written as the dyadic p / 2^k *)
Definition close_frac (p : Z) (k : nat) (target : Z) (t : tol) : bool :=
  close_rat (p, k) target 1 t.

Definition all_close (xs : zvec) (k : nat) (targets : zvec) (t : tol) : bool :=
  all2 (fun p m => close_frac p k m t) xs targets.

(* u is unitary in the algebra's sense (on exact values):
   HRR      conv u (inv u) = e0
   VTB/TVTB s * U^T U = I   (checked as the flattened matrix) *)
Definition rel_unitary (al : alg) (u : seq dyad) (t : tol) : bool :=
  let K := dy_maxk u in
  let U := dy_common K u in
  let d := size u in
  match al with
  | AHrr => all_close (hrr_bind_core U (hrr_invert U)) (K + K) (hrr_identity _ d) t
  | _ =>
      match sub_d d with
      | Ok s =>
          let M := reshape s U in
          let G := matmul (mtrans M) M in
          all_close (flatten_m (mscale (Zn s) G)) (K + K) (eye_flat _ s) t
      | Err _ => false
      end
  end.

(* binding with u preserves dot products: <x*u, y*u> = <x,y> (and u*x on the
   left where the algebra supports it); x, y integer vectors *)
Definition rel_isometry (al : alg) (u : seq dyad) (x y : zvec) (left : bool) (t : tol) : bool :=
  let K := dy_maxk u in
  let U := dy_common K u in
  let b a := if left then alg_bind al U a else alg_bind al a U in
  match b x, b y with
  | Ok bx, Ok by_ =>
      (* value = core * sqrt(rnum/rden) / 2^K each; product of two: rnum/rden / 4^K *)
      close_rat ((dot (core bx) (core by_) * Zn (rnum bx))%Z, K + K)
                (dot x y * Zn (rden bx))%Z 1%Z t
  | _, _ => false
  end.

(* two implementation vectors are close to each other *)
Definition rel_close (a b : seq dyad) (t : tol) : bool :=
  let K := maxn (dy_maxk a) (dy_maxk b) in
  all2 (fun p q => close_rat (p, K) q (pow2 K) t) (dy_common K a) (dy_common K b).

(* HRR: conv p q = r on exact implementation outputs *)
Definition rel_hrr_bind_eq (p q r : seq dyad) (t : tol) : bool :=
  let K := maxn (dy_maxk p) (maxn (dy_maxk q) (dy_maxk r)) in
  let P := dy_common K p in let Q := dy_common K q in let Rr := dy_common K r in
  all2 (fun c m => close_rat (c, K + K) m (pow2 K) t) (hrr_bind_core P Q) Rr.

(* generic: bind(bind(a, u), inv u) returns a, on exact u and the model's own inverse *)
Definition rel_unbind (al : alg) (u : seq dyad) (a : zvec) (t : tol) : bool :=
  let K := dy_maxk u in
  let U := dy_common K u in
  match alg_invert al U SRight with
  | Ok w =>
      match alg_bind al a U with
      | Ok r1 =>
          match alg_bind al (core r1) (wval w) with
          | Ok r2 =>
              all2 (fun c m =>
                close_rat ((c * Zn (rnum r1))%Z, K + K) (m * Zn (rden r1))%Z 1%Z t)
                (core r2) a
          | _ => false
          end
      | _ => false
      end
  | _ => false
  end.

(* ---- vector generators (C19): relations on exact outputs ------------------------ *)
(* squared norm of an exact output equals 1 *)
Definition rel_unit_norm (v : seq dyad) (t : tol) : bool :=
  let K := dy_maxk v in
  let V := dy_common K v in
  close_rat (dot V V, K + K) 1%Z 1%Z t.

(* <u, v> = target (0 or 1) *)
Definition rel_dot (u v : seq dyad) (target : Z) (t : tol) : bool :=
  let K := maxn (dy_maxk u) (dy_maxk v) in
  close_rat (dot (dy_common K u) (dy_common K v), K + K) target 1%Z t.

(* v = g / sqrt(d) component-wise: d * v_i^2 = g_i^2 with equal signs *)
Definition rel_scaled_draw (v g : seq dyad) (d : nat) (t : tol) : bool :=
  let K := maxn (dy_maxk v) (dy_maxk g) in
  all2 (fun a b => close_rat ((a * a * Zn d)%Z, K + K) (b * b)%Z (pow2 (K + K)) t
                   && ((0 <=? a * b)%Z))
       (dy_common K v) (dy_common K g).

(* HRR sign of an exact output: dc > 0 and (even d) nyquist >= -eps *)
Definition rel_hrr_positive (v : seq dyad) (t : tol) : bool :=
  let K := dy_maxk v in
  let V := dy_common K v in
  ((0 <? hrr_dc V)%Z) &&
  (if odd (size v) then true
   else negb (close_rat (hrr_nyq V, K) 0%Z 1%Z t) ==> (0 <? hrr_nyq V)%Z).

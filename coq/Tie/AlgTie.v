(* Case checkers for the algebra layer (C02, C08, C12, C17): the generic
   models of Model/Hrr.v and Model/Vtb.v instantiated at Z and compared with
   what the implementation returned. *)
From mathcomp Require Import all_ssreflect all_algebra ssrZ.
From Coq Require Import ZArith.
From NSpa Require Import Model.Vec Model.Hrr Model.Vtb Tie.Close.
Set Implicit Arguments.
Unset Strict Implicit.
Unset Printing Implicit Defensive.

Inductive alg := AHrr | AVtb | ATvtb.

(* what the implementation did: a value (with "a DeprecationWarning was
   issued" flag) or an exception class *)
Inductive obs (A : Type) := OVal of A & bool | OExn of exn.
Arguments OExn {A} _.

Definition zvec := seq Z.
Definition zmat := seq (seq Z).

Definition Zn (n : nat) : Z := Z.of_nat n.

Definition plain {T} (x : T) : scaled T := Scaled x 1 1.

Definition alg_valid (al : alg) (d : nat) : bool :=
  match al with AHrr => hrr_valid d | _ => vtb_valid d end.

Definition alg_bind (al : alg) (a b : zvec) : result (scaled zvec) :=
  match al with
  | AHrr => rmap plain (hrr_bind a b)
  | AVtb => vtb_bind a b
  | ATvtb => tvtb_bind a b
  end.

Definition alg_bmat (al : alg) (v : zvec) (swap : bool) : result (scaled zmat) :=
  match al with
  | AHrr => Ok (plain (hrr_bmat v swap))
  | AVtb => vtb_bmat v swap
  | ATvtb => tvtb_bmat v swap
  end.

Definition unwarn {T} (w : result (warned T)) : result T := rmap (@wval T) w.
Definition nowarn {T} (x : T) : warned T := Warned x false.

Definition alg_invert (al : alg) (v : zvec) (sd : side) : result (warned zvec) :=
  match al with
  | AHrr => Ok (nowarn (hrr_invert v))
  | AVtb => vtb_invert v sd
  | ATvtb => tvtb_invert v sd
  end.

Definition alg_imat (al : alg) (d : nat) (sd : side) : result (warned zmat) :=
  match al with
  | AHrr => Ok (nowarn (hrr_imat _ d))
  | AVtb => vtb_imat _ d sd
  | ATvtb => tvtb_imat _ d sd
  end.

(* --- generic comparison of a model result with an observation ------------ *)
Definition cmp_res {M O} (f : M -> O -> bool) (m : result (warned M)) (o : obs O) : bool :=
  match m, o with
  | Ok w, OVal x dep => f (wval w) x && (wdep w == dep)
  | Err e, OExn e' => exn_eqb e e'
  | _, _ => false
  end.

Definition cmp_svec (t : tol) (m : scaled zvec) (x : seq dyad) : bool :=
  close_svec x (core m) (Zn (rnum m)) (Zn (rden m)) t.
Definition cmp_smat (t : tol) (m : scaled zmat) (x : seq (seq dyad)) : bool :=
  close_smat x (core m) (Zn (rnum m)) (Zn (rden m)) t.
Definition cmp_vec (t : tol) (m : zvec) (x : seq dyad) : bool := close_vec x m t.
Definition cmp_mat (t : tol) (m : zmat) (x : seq (seq dyad)) : bool := close_mat x m t.

Definition check_valid (al : alg) (d : nat) (o : bool) : bool := alg_valid al d == o.

Definition check_bind (al : alg) (a b : zvec) (t : tol) (o : obs (seq dyad)) : bool :=
  cmp_res (cmp_svec t) (rmap (@nowarn _) (alg_bind al a b)) o.

Definition check_bmat (al : alg) (v : zvec) (swap : bool) (t : tol)
    (o : obs (seq (seq dyad))) : bool :=
  cmp_res (cmp_smat t) (rmap (@nowarn _) (alg_bmat al v swap)) o.

Definition check_invert (al : alg) (v : zvec) (sd : side) (t : tol)
    (o : obs (seq dyad)) : bool :=
  cmp_res (cmp_vec t) (alg_invert al v sd) o.

Definition check_imat (al : alg) (d : nat) (sd : side) (t : tol)
    (o : obs (seq (seq dyad))) : bool :=
  cmp_res (cmp_mat t) (alg_imat al d sd) o.

Definition check_superpose (a b : zvec) (t : tol) (o : obs (seq dyad)) : bool :=
  cmp_res (cmp_vec t) (Ok (nowarn (vadd a b))) o.

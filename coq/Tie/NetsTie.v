(* Case checkers for C05: the binding networks with ideal product units. *)
From mathcomp Require Import all_ssreflect all_algebra ssrZ.
From Coq Require Import ZArith.
From NSpa Require Import Model.Vec Model.Hrr Model.Vtb Model.Power Model.Algebra Model.Nets Tie.Close Tie.AlgTie.
Set Implicit Arguments.
Unset Strict Implicit.

Definition alg_net (al : alg) (opts : net_opts) (a b : zvec) : result (scaled zvec) :=
  match al with
  | AHrr => Ok (plain (hrr_net opts a b))
  | AVtb => vtb_net opts a b
  | ATvtb => tvtb_net opts a b
  end.

(* inputs are scaled operands (core * sqrt(n/d)): the networks are bilinear *)
Definition check_net (al : alg) (opts : net_opts) (a b : scaled zvec) (t : tol) (o : obs (seq dyad)) : bool :=
  cmp_res (cmp_svec t)
    (rmap (fun r => nowarn (scale_mul r a b)) (alg_net al opts (core a) (core b))) o.

Definition check_mm (M K N : nat) (a b : zvec) (t : tol) (o : obs (seq dyad)) : bool :=
  cmp_res (cmp_vec t) (Ok (nowarn (mm_net M K N a b))) o.

(* Case checker for C18: the partition of modules by vocabulary identity. *)
From Coq Require Import List Bool Arith.
From NSpa Require Import Model.NetworkCtx.
Import ListNotations.

(* observed: for every module occurrence (in construction order) an arbitrary
   integer label of its Vocabulary object; the model must induce the same
   partition: label_i = label_j  <->  (map_i, d_i) = (map_j, d_j) *)
Definition same_occ (a b : occ) : bool :=
  Nat.eqb (o_map a) (o_map b) && Nat.eqb (o_dim a) (o_dim b).

Fixpoint partition_agrees (occs : list occ) (labels : list nat) : bool :=
  match occs, labels with
  | o :: r, l :: s =>
      (fix inner (occs2 : list occ) (labels2 : list nat) : bool :=
         match occs2, labels2 with
         | o2 :: r2, l2 :: s2 => Bool.eqb (same_occ o o2) (Nat.eqb l l2) && inner r2 s2
         | [], [] => true
         | _, _ => false
         end) r s && partition_agrees r s
  | [], [] => true
  | _, _ => false
  end.

(* two models in sequence: labels are global to the process *)
Definition check_models (t1 t2 : tree) (labels1 labels2 : list nat) : bool :=
  let '(o1, s1) := build_model t1 0 in
  let '(o2, _) := build_model t2 (next_map s1) in
  partition_agrees (o1 ++ o2) (labels1 ++ labels2).

(* is the map of the i-th module occurrence created with a seed? *)
Fixpoint lookup_seed (m : nat) (l : list (nat * option nat)) : bool :=
  match l with
  | [] => false
  | (k, s) :: r => if Nat.eqb k m then (match s with Some _ => true | None => false end) else lookup_seed m r
  end.
Definition occ_seeded_at (t : tree) (i : nat) : bool :=
  let '(occs, s) := build_model t 0 in
  match nth_error occs i with
  | Some o => negb (o_over o) && lookup_seed (o_map o) (seeds s)
  | None => false
  end.

(* Case checker for C14: a history of top-level events against the model. *)
From Coq Require Import List Bool Arith String.
From NSpa Require Import Model.ActionSel.
Import ListNotations.

(* observed after one event *)
Record aobs := AObs {
  o_rest : bool;              (* active is None, routed_mode False, no free-floating *)
  o_err : option aexn;
  o_built : option bool;      (* for block events *)
  o_keys : list key;          (* list(block.keys()) *)
  o_getitem_ok : bool;        (* block[k] is the k-th utility for every key *)
  o_dconns : nat;             (* immediate `>>` connections made by a plain route event *)
  o_inside_conns : bool       (* some `>>` inside the block connected immediately *)
}.

Definition aexn_eqb (a b : aexn) : bool :=
  match a, b with
  | ASelError, ASelError | ATypeError, ATypeError | ABuildError, ABuildError
  | AOtherError, AOtherError => true
  | _, _ => false
  end.
Definition oaexn_eqb (a b : option aexn) : bool :=
  match a, b with
  | None, None => true | Some x, Some y => aexn_eqb x y | _, _ => false end.

Definition key_eqb (a b : key) : bool :=
  match a, b with
  | KName s, KName t => String.eqb s t
  | KPos i, KPos j => Nat.eqb i j
  | _, _ => false
  end.
Fixpoint keys_eqb (a b : list key) : bool :=
  match a, b with
  | [], [] => true
  | x :: r, y :: s => key_eqb x y && keys_eqb r s
  | _, _ => false
  end.

Definition check_event (g : gstate) (ev : event) (o : aobs) : bool :=
  let '(g1, ob, e) := run_event g ev in
  Bool.eqb (o_rest o) (at_rest g1) &&
  oaexn_eqb (o_err o) e &&
  Nat.eqb (o_dconns o) (conns g1 - conns g) &&
  negb (o_inside_conns o) &&
  match ob with
  | Some b =>
      match o_built o with Some x => Bool.eqb x (built b) | None => false end &&
      (* keys are only claimed for blocks that were built or are empty *)
      (if built b then keys_eqb (o_keys o) (block_keys b) && o_getitem_ok o else true)
  | None => true
  end.

Fixpoint first_bad (g : gstate) (evs : list event) (obs : list aobs) (i : nat) : nat :=
  match evs, obs with
  | ev :: r, o :: s =>
      if check_event g ev o then first_bad (fst (fst (run_event g ev))) r s (S i) else i
  | _, _ => i
  end.

Definition history_first_bad (evs : list event) (obs : list aobs) : nat :=
  first_bad (rest 0) evs obs 0.

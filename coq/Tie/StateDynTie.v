(* Case checkers for the State feedback dynamics (C16) at Z: the trace observed in a Direct-mode
   simulation after the input has ended against the model's prediction.  Values travel as
   integers scaled by 2^k (exact: every float is a dyadic rational). *)
From mathcomp Require Import all_ssreflect all_algebra ssrZ.
From Coq Require Import ZArith.
From NSpa Require Import Model.Vec Model.StateDyn Tie.Close.
Set Implicit Arguments.
Unset Strict Implicit.
Unset Printing Implicit Defensive.

Local Notation ZR := [comRingType of Z].

(* feedback 1: n steps after the input ended the output is what it was, whatever the synapse
   (the model is run with an arbitrary integer in the place of the filter coefficient a) *)
Definition check_hold (k : nat) (a : Z) (y0 : seq Z) (n : nat) (t : tol) (o : seq dyad) : bool :=
  all2 (fun q v => close_rat q v (pow2 k) t) o (sd_after (R := ZR) a 1%Z y0 (size y0) n).

(* feedback 0 from rest: whatever inputs were presented, the filter state stays at rest, so
   once the input is zero the output is zero *)
Definition check_forget (d : nat) (a : Z) (es : seq (seq Z)) (t : tol) (o : seq dyad) : bool :=
  all2 (fun q v => close_rat q v 1%Z t) o
       (sd_out (R := ZR) (sd_run (R := ZR) a 0%Z (vzero ZR d) es) (vzero ZR d)).

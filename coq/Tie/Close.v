(* Comparators used by the correspondence check: an implementation float,
   shipped as an exact dyadic rational, against an exact model value
   (integer, rational, or integer times the square root of a rational).
   Everything is integer arithmetic; no float exists on the Coq side. *)
From Coq Require Import ZArith List Bool.
Import ListNotations.
Local Open Scope Z_scope.

(* q = n / 2^k *)
Definition dyad := (Z * nat)%type.

(* absolute tolerance an/ad (ad > 0); relative tolerance 1e-9 is built in *)
Definition tol := (Z * Z)%type.
Definition RTOL_INV : Z := 1000000000.

Definition pow2 (k : nat) : Z := Z.shiftl 1 (Z.of_nat k).

(* | n/2^k - p/q | <= an/ad + |p/q| * 1e-9        (q > 0, ad > 0) *)
Definition close_rat (x : dyad) (p q : Z) (t : tol) : bool :=
  let '(n, k) := x in
  let '(an, ad) := t in
  if (5000 <=? Z.of_nat k) then false else   (* NaN / inf sentinel *)
  let e := pow2 k in
  (Z.abs (n * q - p * e) * ad * RTOL_INV <=? (an * q * RTOL_INV + Z.abs p * ad) * e).

Definition close_int (x : dyad) (m : Z) (t : tol) : bool := close_rat x m 1 t.

(* target c * sqrt(rn / rd), rn >= 0, rd > 0: sqrt(rn/rd) = sqrt(rn*rd)/rd is
   replaced by floor(sqrt(rn*rd*2^128)) / (rd*2^64), off by < 2^-64/rd *)
Definition SQP : Z := Z.shiftl 1 64.
Definition close_scaled (x : dyad) (c rn rd : Z) (t : tol) : bool :=
  if (rd <=? 0) || (rn <? 0) then false else
  close_rat x (c * Z.sqrt (rn * rd * SQP * SQP)) (rd * SQP) t.

Fixpoint all2 {A B} (f : A -> B -> bool) (a : list A) (b : list B) : bool :=
  match a, b with
  | [], [] => true
  | x :: r, y :: s => f x y && all2 f r s
  | _, _ => false
  end.

Definition close_vec (x : list dyad) (m : list Z) (t : tol) : bool :=
  all2 (fun q v => close_int q v t) x m.
Definition close_mat (x : list (list dyad)) (m : list (list Z)) (t : tol) : bool :=
  all2 (fun r s => close_vec r s t) x m.

Definition close_svec (x : list dyad) (m : list Z) (rn rd : Z) (t : tol) : bool :=
  all2 (fun q v => close_scaled q v rn rd t) x m.
Definition close_smat (x : list (list dyad)) (m : list (list Z)) (rn rd : Z) (t : tol) : bool :=
  all2 (fun r s => close_svec r s rn rd t) x m.

(* exact equality of integer data that travelled as integers *)
Definition eq_zvec (a b : list Z) : bool := all2 Z.eqb a b.
Definition eq_zmat (a b : list (list Z)) : bool := all2 eq_zvec a b.

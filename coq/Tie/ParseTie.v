(* Case checkers for C10: parse values and create_pointer selection at Z. *)
From mathcomp Require Import all_ssreflect all_algebra ssrZ.
From Coq Require Import ZArith.
From NSpa Require Import Model.Vec Model.Hrr Model.Vtb Model.Power Model.Algebra Model.Parse
  Tie.Close Tie.AlgTie.
Set Implicit Arguments.
Unset Strict Implicit.
Unset Printing Implicit Defensive.

Definition zexpr := expr.

Definition check_parse (al : alg) (d : nat) (entries : seq zvec) (e : expr) (t : tol)
    (o : obs (seq dyad)) : bool :=
  match parse al d entries [::] [::] e, o with
  | inr x, OVal v _ => close_svec v (sv_core x) (sv_num x) (sv_den x * sv_div x * sv_div x)%R t
  | inl (PExn er), OExn er' => exn_eqb er er'
  | inl PUnrepresentable, _ => true
  | _, _ => false
  end.

(* 1 = representable (a real comparison was made), 0 = skipped *)
Definition parse_representable (al : alg) (d : nat) (entries : seq zvec) (e : expr) : bool :=
  match parse (R := [comRingType of Z]) al d entries [::] [::] e with
  | inl PUnrepresentable => false
  | _ => true
  end.

(* observed: index of the returned candidate in the stream (None: nothing returned) and whether a warning was issued *)
Definition index_of (cands : seq zvec) (p : zvec) : nat := index p cands.

Definition check_create_pointer (vectors : seq zvec) (bound : Z) (cands : seq zvec)
    (chosen : option nat) (warned : bool) : bool :=
  let '(r, w) := create_pointer_sel (R := [realDomainType of Z]) vectors bound cands in
  (w == warned) &&
  match r, chosen with
  | Some p, Some i => i == index_of cands p
  | None, None => true
  | _, _ => false
  end.

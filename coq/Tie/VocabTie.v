(* Case checker for C09: run the vocabulary state machine on a history and
   compare the full observable state after every step. *)
From Coq Require Import List Bool Arith ZArith String.
From NSpa Require Import Model.Vocab.
Import ListNotations.

Record snap := Snap {
  s_err : option vexn;
  s_keys : list string;
  s_vecs : list (list Z);
  s_len : nat;
  s_contains : list bool
}.

Definition vexn_eqb (a b : vexn) : bool :=
  match a, b with
  | VSpaParseError, VSpaParseError | VValidationError, VValidationError
  | VKeyError, VKeyError | VValueError, VValueError | VSyntaxError, VSyntaxError
  | VNameError, VNameError => true
  | _, _ => false
  end.
Definition oerr_eqb (a b : option vexn) : bool :=
  match a, b with
  | None, None => true
  | Some x, Some y => vexn_eqb x y
  | _, _ => false
  end.

Fixpoint list_eqb {A} (f : A -> A -> bool) (a b : list A) : bool :=
  match a, b with
  | [], [] => true
  | x :: r, y :: s => f x y && list_eqb f r s
  | _, _ => false
  end.

Definition snap_eqb (a b : snap) : bool :=
  oerr_eqb (s_err a) (s_err b) &&
  list_eqb String.eqb (s_keys a) (s_keys b) &&
  list_eqb (list_eqb Z.eqb) (s_vecs a) (s_vecs b) &&
  Nat.eqb (s_len a) (s_len b) &&
  list_eqb Bool.eqb (s_contains a) (s_contains b).

Definition snap_of (alphabet : list string) (v : vocab) (e : option vexn) : snap :=
  Snap e (vkeys v) (vvectors v) (vlen v) (map (contains v) alphabet).

Fixpoint trace (gen : nat -> list Z) (alphabet : list string) (v : vocab) (ops : list op) : list snap :=
  match ops with
  | [] => []
  | o :: r => let '(v', e) := step gen v o in snap_of alphabet v' e :: trace gen alphabet v' r
  end.

(* index of the first step whose snapshot differs, or the number of steps *)
Fixpoint first_diff (a b : list snap) (i : nat) : nat :=
  match a, b with
  | x :: r, y :: s => if snap_eqb x y then first_diff r s (S i) else i
  | [], [] => i
  | _, _ => i
  end.

Definition check_history (d : nat) (strict : bool) (alphabet : list string) (ops : list op)
    (observed : list snap) : bool :=
  Nat.eqb (first_diff (trace (script_vec d) alphabet (empty_vocab d strict) ops) observed 0)
          (List.length ops)
  && Nat.eqb (List.length observed) (List.length ops).

Definition history_first_diff (d : nat) (strict : bool) (alphabet : list string) (ops : list op)
    (observed : list snap) : nat :=
  first_diff (trace (script_vec d) alphabet (empty_vocab d strict) ops) observed 0.

(* Case checkers for C07 / C03: SemanticPointer operators and methods at Z. *)
From mathcomp Require Import all_ssreflect all_algebra ssrZ.
From Coq Require Import ZArith.
From NSpa Require Import Model.Types Model.Vec Model.Hrr Model.Vtb Model.Power Model.Algebra
  Model.SemPtr Tie.Close Tie.AlgTie.
Set Implicit Arguments.
Unset Strict Implicit.
Unset Printing Implicit Defensive.

Definition zsp := sp [comRingType of Z].
Definition mksp (v : zvec) (voc : option nat) (al : alg) : zsp := SP v voc al.
Definition dimsf (dims : seq nat) (i : nat) : nat := nth 0 dims i.

Definition obs_ptr := (seq dyad * option nat * alg)%type.
Definition opt_eqb (a b : option nat) : bool :=
  match a, b with
  | None, None => true
  | Some x, Some y => x == y
  | _, _ => false
  end.

Definition cmp_bin (t : tol) (m : bin_result [comRingType of Z]) (o : obs obs_ptr) : bool :=
  match m, o with
  | BPtr p, OVal (x, voc, al) _ =>
      close_vec x (spv p) t && opt_eqb voc (spvoc p) && alg_eqb al (spalg p)
  | BBound sv voc al, OVal (x, voc', al') _ =>
      cmp_svec t sv x && opt_eqb voc' voc && alg_eqb al' al
  | BDiv v c voc al, OVal (x, voc', al') _ =>
      all2 (fun q n => close_rat q (n * Z.sgn c)%Z (Z.abs c) t) x v && opt_eqb voc' voc && alg_eqb al' al
  | BErr e, OExn e' => exn_eqb e e'
  | _, _ => false
  end.

Inductive binop := BAdd | BSub | BMul | BDivide.

(* self OP other, handled by self's own method (swap = reflected form of * ) *)
Definition check_sp_bin (dims : seq nat) (op : binop) (self : zsp) (o : operand [comRingType of Z])
    (swap : bool) (t : tol) (ob : obs obs_ptr) : bool :=
  let d := dimsf dims in
  cmp_bin t
    (match op with
     | BAdd => sp_add d self o
     | BSub => sp_sub d self o
     | BMul => sp_mul d self o swap
     | BDivide => sp_div self o
     end) ob.

(* other + self through __radd__ (swap) for pointer operands *)
Definition check_sp_radd (dims : seq nat) (self other : zsp) (t : tol) (ob : obs obs_ptr) : bool :=
  cmp_bin t (lift_add (sp_add_ptr (dimsf dims) self other true)) ob.

Definition check_sp_neg (p : zsp) (t : tol) (ob : obs obs_ptr) : bool :=
  cmp_bin t (BPtr (sp_neg p)) ob.

Definition check_sp_invert (p : zsp) (sd : side) (t : tol) (ob : obs obs_ptr) : bool :=
  match sp_invert p sd, ob with
  | Ok w, OVal (x, voc, al) dep =>
      close_vec x (spv (wval w)) t && opt_eqb voc (spvoc p) && alg_eqb al (spalg p) && (wdep w == dep)
  | Err e, OExn e' => exn_eqb e e'
  | _, _ => false
  end.

(* x = num / sqrt(den2) *)
Definition close_div_sqrt (x : dyad) (num den2 : Z) (t : tol) : bool :=
  close_scaled x num 1 den2 t.

Definition check_sp_normalized (p : zsp) (t : tol) (ob : obs obs_ptr) : bool :=
  match ob with
  | OVal (x, voc, al) _ =>
      let '(v, den2) := sp_normalized p in
      all2 (fun q n => close_div_sqrt q n den2 t) x v && opt_eqb voc (spvoc p) && alg_eqb al (spalg p)
  | _ => false
  end.

Definition check_sp_length (p : zsp) (t : tol) (ob : obs dyad) : bool :=
  match ob with
  | OVal x _ => close_scaled x 1 (sp_length2 p) 1 t
  | _ => false
  end.

Definition check_sp_dot (dims : seq nat) (a b : zsp) (t : tol) (ob : obs dyad) : bool :=
  match sp_dot (dimsf dims) a b, ob with
  | Ok r, OVal x _ => close_int x r t
  | Err e, OExn e' => exn_eqb e e'
  | _, _ => false
  end.

Definition check_sp_compare (dims : seq nat) (a b : zsp) (t : tol) (ob : obs dyad) : bool :=
  match sp_compare (dimsf dims) a b, ob with
  | Ok (n, d2), OVal x _ => close_div_sqrt x n d2 t
  | Err e, OExn e' => exn_eqb e e'
  | _, _ => false
  end.

(* distance = 1 - compare: compare (1 - x) *)
Definition dy_one_minus (x : dyad) : dyad := ((pow2 x.2 - x.1)%Z, x.2).
Definition check_sp_distance (dims : seq nat) (a b : zsp) (t : tol) (ob : obs dyad) : bool :=
  match sp_compare (dimsf dims) a b, ob with
  | Ok (n, d2), OVal x _ => close_div_sqrt (dy_one_minus x) n d2 t
  | Err e, OExn e' => exn_eqb e e'
  | _, _ => false
  end.

Definition check_sp_mse (dims : seq nat) (a b : zsp) (t : tol) (ob : obs dyad) : bool :=
  match sp_mse (dimsf dims) a b, ob with
  | Ok (n, d), OVal x _ => close_rat x n (Zn d) t
  | Err e, OExn e' => exn_eqb e e'
  | _, _ => false
  end.

Definition check_sp_bmat (p : zsp) (swap : bool) (t : tol) (ob : obs (seq (seq dyad))) : bool :=
  cmp_res (cmp_smat t) (rmap (@nowarn _) (sp_binding_matrix p swap)) ob.

Definition check_sp_copy (p : zsp) (t : tol) (ob : obs obs_ptr) : bool :=
  cmp_bin t (BPtr (sp_copy p)) ob.

Definition check_nat (m : nat) (o : nat) : bool := m == o.

Definition zoperand := operand [comRingType of Z].
Definition optr (p : zsp) : zoperand := OPtr p.
Definition onum (c : Z) : zoperand := ONum c.
Definition oarr : zoperand := OArr.
Definition oother : zoperand := OOther.

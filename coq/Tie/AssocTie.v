(* Case checkers for C15 at Z. *)
From mathcomp Require Import all_ssreflect all_algebra ssrZ.
From Coq Require Import ZArith.
From NSpa Require Import Model.Vec Model.AssocMem Tie.Close Tie.AlgTie.
Set Implicit Arguments.
Unset Strict Implicit.
Unset Printing Implicit Defensive.

Local Notation ZR := [realDomainType of Z].

Definition zpairs (inkeys outkeys : seq zvec) (ps : seq (nat * nat)) : seq (zvec * zvec) :=
  [seq (nth [::] inkeys p.1, nth [::] outkeys p.2) | p <- ps].

(* observed: the transforms of the two connections, or the exception raised by the constructor *)
Inductive am_obs := AmOk of seq (seq dyad) & seq (seq dyad) | AmExn of exn.

Definition check_am (has_out : bool) (inkeys outkeys : seq zvec) (m : mapping) (t : tol) (o : am_obs) : bool :=
  match normalise has_out (size inkeys) m, o with
  | Ok ps, AmOk k vt =>
      let pairs := zpairs inkeys outkeys ps in
      close_mat k (input_transform (R := ZR) pairs) t && close_mat vt (output_transform (R := ZR) pairs) t
  | Err e, AmExn e' => exn_eqb e e'
  | _, _ => false
  end.

(* Direct mode: the thresholding memory is the ideal linear memory *)
Definition check_memory_direct (d_out : nat) (inkeys outkeys : seq zvec) (ps : seq (nat * nat))
    (x : zvec) (t : tol) (o : seq dyad) : bool :=
  close_vec o (memory (R := ZR) (@sel_identity ZR) d_out (zpairs inkeys outkeys ps) x) t.

(* Direct mode with a default output: mp * output = model *)
Definition check_default_direct (mp mq : Z) (d_out : nat) (inkeys outkeys : seq zvec) (ps : seq (nat * nat))
    (dflt x : zvec) (t : tol) (o : seq dyad) : bool :=
  all2 (fun q v => close_rat q v mp t) o
       (memory_default_direct_times (R := ZR) mp mq d_out (zpairs inkeys outkeys ps) dflt x).

(* ---- ideal selection units, inputs and thresholds scaled by a common factor [sc] ---------- *)
(* winner: index of the first maximal utility *)
Fixpoint argmax_from (best : nat) (bv : Z) (i : nat) (u : seq Z) : nat :=
  match u with
  | [::] => best
  | a :: r => if Z.ltb bv a then argmax_from i a i.+1 r else argmax_from best bv i.+1 r
  end.
Definition argmax (u : seq Z) : nat := if u is a :: r then argmax_from 0 a 1 r else 0.

(* winner-take-all with lateral inhibition at its steady state with a clear winner:
   the winner keeps its value if above the threshold, all others are silenced *)
Definition sel_wta (theta : Z) (u : seq Z) : seq Z :=
  let w := argmax u in
  mkseq (fun i => if (i == w) && Z.ltb theta (nth 0%Z u i) then nth 0%Z u i else 0%Z) (size u).

(* independent accumulators after convergence: the winner outputs [one], all others 0 *)
Definition sel_ia (one : Z) (u : seq Z) : seq Z :=
  let w := argmax u in
  mkseq (fun i => if (i == w) && Z.ltb 0 (nth 0%Z u i) then one else 0%Z) (size u).

Inductive sel_kind := KThreshold | KWta | KIa.

(* observed output (rate neurons) against the ideal-unit memory, values scaled by sc *)
Definition check_selection (kind : sel_kind) (sc theta : Z) (d_out : nat) (inkeys outkeys : seq zvec)
    (ps : seq (nat * nat)) (x : zvec) (t : tol) (o : seq dyad) : bool :=
  let pairs := zpairs inkeys outkeys ps in
  let sel := match kind with
             | KThreshold => sel_threshold (R := ZR) theta
             | KWta => sel_wta theta
             | KIa => sel_ia sc
             end in
  all2 (fun q v => close_rat q v sc t) o (memory (R := ZR) sel d_out pairs x).

(* default output with ideal units: present (coefficient 1) iff nothing is active *)
Definition check_default_gate (kind : sel_kind) (sc theta mp mq : Z) (inkeys : seq zvec)
    (ps : seq (nat * nat)) (x : zvec) (present : bool) : bool :=
  let pairs := zpairs inkeys inkeys ps in
  let sel := match kind with
             | KThreshold => sel_threshold (R := ZR) theta
             | KWta => sel_wta theta
             | KIa => sel_ia sc
             end in
  default_active (R := ZR) (mp * sc)%Z mq (sel (utilities (R := ZR) pairs x)) == present.

(* Case checker for C06: the printed string. *)
From Coq Require Import List Bool Arith String.
From NSpa Require Import Model.ExprTree.
Definition check_print (t : tree) (observed : string) : bool := String.eqb (to_string t) observed.

(* Case checkers for C04 at Z.  Effect values are scaled by a common factor sc
   (fixed scalars like 0.5 become integers). *)
From mathcomp Require Import all_ssreflect all_algebra ssrZ.
From Coq Require Import ZArith.
From NSpa Require Import Model.Vec Model.Routing Tie.Close Tie.AlgTie.
Set Implicit Arguments.
Unset Strict Implicit.
Unset Printing Implicit Defensive.

Local Notation ZR := [realDomainType of Z].
Definition zeffect := effect ZR.
Definition zFixedEff (v : zvec) (t : nat) (s : bool) : zeffect := Effect (SFixed v) t s.
Definition zDynEff (k t : nat) (s : bool) : zeffect := Effect (SDyn ZR k) t s.

(* observed wires, read from the built Nengo graph *)
Inductive owire :=
| OUtility of nat & nat                 (* utility node number, basal ganglia input index *)
| OFixed of nat & nat & seq dyad        (* thalamus ensemble index, target, transform column *)
| OGated of nat & nat & bool & nat & bool.
    (* gate driven by thalamus ensemble i, channel kind scalar?, target, source k,
       gate inhibits every neuron of the channel with -route_inhibit *)

Definition wire_matches (sc : Z) (t : tol) (m : wire ZR) (o : owire) : bool :=
  match m, o with
  | WUtility i j, OUtility i' j' => (i == i') && (j == j')
  | WFixed i tg v, OFixed i' tg' x => (i == i') && (tg == tg') && (size v == size x) &&
                                      all2 (fun q c => close_rat q c sc t) x v
  | WGated i tg s k, OGated i' tg' s' k' full => (i == i') && (tg == tg') && (s == s') && (k == k') && full
  | _, _ => false
  end.

Definition model_wire_eqb (a b : wire ZR) : bool :=
  match a, b with
  | WUtility i j, WUtility i' j' => (i == i') && (j == j')
  | WFixed i tg v, WFixed i' tg' v' => (i == i') && (tg == tg') && eq_zvec v v' && (size v == size v')
  | WGated i tg s k, WGated i' tg' s' k' => (i == i') && (tg == tg') && (s == s') && (k == k')
  | _, _ => false
  end.

(* multiset equality between the model's wiring and the observed one *)
Definition check_wiring (sc : Z) (t : tol) (actions : seq (seq zeffect)) (obs : seq owire) : bool :=
  let ws := build actions in
  (size ws == size obs) &&
  all (fun m => count (model_wire_eqb m) ws == count (wire_matches sc t m) obs) ws.

(* routed values per phase: mean target output (rate neurons) vs the ideal model with winner w *)
Definition check_routed (sc : Z) (t : tol) (actions : seq (seq zeffect)) (dims : seq nat) (dyn : seq zvec)
    (w tg : nat) (o : seq dyad) : bool :=
  let r := received (R := ZR) (fun i => nth O dims i) (fun k => nth [::] dyn k) 0%Z
                    (onehot ZR w) tg (build actions) in
  (size r == size o) && all2 (fun q c => close_rat q c sc t) o r.

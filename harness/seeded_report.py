#!/venv/bin/python
"""Write /verif/seeded/REPORT.md from the meta.json files: which check caught which seeded change."""
import json
from pathlib import Path

SEEDED = Path(__file__).resolve().parent.parent / "seeded"
rows = []
for d in sorted(SEEDED.iterdir()):
    mf = d / "meta.json"
    if not mf.exists():
        continue
    m = json.loads(mf.read_text())
    res = m.get("results", {})
    q, t = res.get("quick", {}), res.get("thorough", {})
    rows.append((d.name, m["property"], ", ".join(m.get("files", [])), m.get("description", "").replace("\n", " ")[:200],
                 m.get("trigger", "").replace("\n", " ")[:160], q.get("caught"), t.get("caught") if t else None,
                 q.get("pinned_tests_pass"), (q.get("first_violation") or "").replace("\n", " ")[:140],
                 m.get("first_run_caught"), m.get("strengthened")))
out = ["# Seeded changes: which check reports which change", "",
       "Each directory holds `patch.diff` (applies to /repo with `git apply`), `demonstration.py` (exit 1 on the patched tree, 0 on",
       "the unchanged one) and `meta.json`. Produced by sub-agents that saw only the property text and a scratch worktree;",
       "confirmed with `harness/seeded.py run <id>` (patch applied, demonstration, pinned tests, the property's check, restore).",
       "`first run` = verdict of the check as it was when the change arrived; `now` = after the strengthening recorded in DESIGN.md 9.5.", "",
       "| id | files | change | first run | now (quick) | thorough | pinned tests | first violation reported |", "|---|---|---|---|---|---|---|---|"]
for r in rows:
    fr = {True: "caught", False: "MISSED", None: "caught"}[r[9]]
    out.append(f"| {r[0]} | {r[2]} | {r[3]} | {fr} | {'caught' if r[5] else 'MISSED'} | {'' if r[6] is None else ('caught' if r[6] else 'missed')} | "
               f"{'pass' if r[7] else 'FAIL'} | {r[8]} |")
n = len(rows)
out += ["", f"{n} changes; caught now (quick): {sum(1 for r in rows if r[5])}; missed on first run: {sum(1 for r in rows if r[9] is False)}."]
(SEEDED / "REPORT.md").write_text("\n".join(out) + "\n")
print(out[-1])

#!/venv/bin/python
"""Entry point: check.py Cxx [--tier quick|thorough] [--replay file]

Runs, for one property: forbidden-vernacular scan, full Coq build (no-op when
current), re-check of Props/Cxx.v with Print Assumptions, the correspondence
check of the model against /repo's current working tree, violation search,
evidence.  Exit 0 = held on everything explored, 1 = VIOLATION line printed.
"""

import argparse
import importlib
import json
import os
import sys
import traceback
import warnings

HERE = os.path.dirname(os.path.abspath(__file__))
VERIF = os.path.dirname(HERE)


def _reexec():
    want = {"PYTHONHASHSEED": "0", "PYTHONPATH": os.environ.get("VERIF_REPO", "/repo"),
            "OMP_NUM_THREADS": "1", "OPENBLAS_NUM_THREADS": "1", "MKL_NUM_THREADS": "1",
            "PYTHONDONTWRITEBYTECODE": "1", "NENGO_SPA_VERIF": "1"}
    if any(os.environ.get(k) != v for k, v in want.items()):
        env = dict(os.environ)
        env.update(want)
        os.execve("/venv/bin/python", ["/venv/bin/python", os.path.abspath(__file__)] + sys.argv[1:], env)


def main():
    _reexec()
    sys.path.insert(0, VERIF)
    sys.path.insert(0, os.environ["PYTHONPATH"])
    from harness import common

    ap = argparse.ArgumentParser()
    ap.add_argument("cid")
    ap.add_argument("--tier", default=os.environ.get("VERIF_TIER", "quick"),
                    choices=["quick", "thorough"])
    ap.add_argument("--replay")
    args = ap.parse_args()
    cid = args.cid
    seed = int(os.environ.get("VERIF_SEED", "0") or 0)

    if args.replay:
        rp = json.load(open(args.replay))
        snippet = rp.get("python")
        if not snippet:
            print("replay file has no python snippet:", rp.get("what"))
            return 1
        ns = {}
        try:
            exec(snippet, ns)
        except AssertionError as e:
            print("REPRODUCED:", e)
            return 1
        print("not reproduced")
        return 0

    warnings.filterwarnings("ignore", message="numpy.core is deprecated")
    warnings.filterwarnings("ignore", message="Skipping some optimization steps")
    warnings.filterwarnings("ignore", message="SciPy is not installed")
    warnings.filterwarnings("ignore", message="Decoder cache could not acquire lock")
    warnings.filterwarnings("ignore", message="Could not create a semantic pointer")
    rep = common.Report(cid, args.tier, seed)
    mod = importlib.import_module(f"harness.props.{cid.lower()}")
    rep.rule = getattr(mod, "RULE", "")
    rep.assumptions = list(getattr(mod, "ASSUMPTIONS", []))

    bad = common.forbidden_vernacular()
    if bad:
        rep.violation("forbidden vernacular in the Coq development",
                      {"hits": bad, "theorem": "all"}, found_input=False)
    ok, log = common.coq_build()
    if not ok:
        rep.notes.append("coq build failed")
        rep.violation("Coq development does not build",
                      {"log": log, "theorem": f"Props/{cid}.v or its dependencies"},
                      found_input=False)
        return rep.finish()
    props = common.check_props(cid)
    rep.props = props
    if not props["ok"]:
        rep.violation(f"Props/{cid}.v no longer checks",
                      {"log": props["log"], "theorem": f"Props/{cid}.v"}, found_input=False)
    elif props.get("unprinted"):
        rep.violation("theorem without Print Assumptions",
                      {"theorems": props["unprinted"]}, found_input=False)

    warnings.filterwarnings("ignore", message="numpy.core is deprecated")

    # watchdog: a check that does not finish is reported, never left hanging
    import signal

    def _timeout(signum, frame):
        raise TimeoutError(f"check exceeded its time limit ({limit} s)")
    limit = int(os.environ.get("VERIF_TIME_LIMIT", "2400" if args.tier == "quick" else "14400"))
    signal.signal(signal.SIGALRM, _timeout)
    signal.alarm(limit)
    try:
        mod.run(rep, args.tier, common.make_rng(seed, cid))
        signal.alarm(0)
    except BaseException as e:  # the harness itself failed: never silently pass
        signal.alarm(0)
        if isinstance(e, KeyboardInterrupt):
            raise
        tb = traceback.format_exc()
        rep.violation("correspondence check could not be completed",
                      {"error": str(e), "traceback": tb[-3000:],
                       "correspondence": f"harness.props.{cid.lower()}"},
                      found_input=False)
    return rep.finish()


if __name__ == "__main__":
    sys.exit(main())

#!/bin/bash
# usage: trymut.sh <Cxx> <file-in-repo> <python-regex> <replacement> [tier]
# applies one textual mutation to /repo, runs the check, restores /repo
set -u
cid=$1; file=$2; pat=$3; rep=$4; tier=${5:-quick}
cd /repo || exit 2
/venv/bin/python - "$file" "$pat" "$rep" <<'PY' || { echo "pattern not found"; exit 2; }
import re,sys
f,p,r=sys.argv[1:4]
t=open(f).read()
n=re.subn(p,r,t,count=1)
if n[1]==0: sys.exit(1)
open(f,'w').write(n[0])
PY
git -C /repo diff --stat | tail -1
cd /verif && /venv/bin/python harness/check.py $cid --tier $tier 2>&1 | grep -E "VIOLATION|KNOWN|\[$cid\]" | cut -c1-110 | head -5
git -C /repo checkout -- .

#!/venv/bin/python
"""Parallel refresh of seeded verdicts: `seeded_par.py <lanes> [substring | =exact-id]`.

Each lane is a scratch clone of /repo under /tmp (removed afterwards); the patch is applied there and the demonstration, the pinned
tests and the property's quick check run against the clone through VERIF_REPO / PYTHONPATH.  /repo itself is never touched.
"""
import json, os, subprocess, sys
from pathlib import Path
from concurrent.futures import ThreadPoolExecutor
import queue
VERIF = Path('/verif'); SEEDED = VERIF / 'seeded'
LANES = int(sys.argv[1]); pat = sys.argv[2] if len(sys.argv) > 2 else ''
def sh(cmd, **kw): return subprocess.run(cmd, capture_output=True, text=True, **kw)
lanes = queue.Queue()
for i in range(LANES):
    d = f'/tmp/rc{os.getpid()}_{i}'
    sh(['rm', '-rf', d]); r = sh(['git', 'clone', '-q', '/repo', d]); assert r.returncode == 0, r.stderr
    lanes.put(d)
def run(sid):
    d = SEEDED / sid
    meta = json.loads((d / 'meta.json').read_text()); cid = meta['property']
    repo = lanes.get()
    try:
        env = dict(os.environ, PYTHONPATH=repo, PYTHONHASHSEED='0', OMP_NUM_THREADS='1', OPENBLAS_NUM_THREADS='1', VERIF_REPO=repo)
        r0 = sh(['/venv/bin/python', str(d / 'demonstration.py')], env=env, timeout=300)
        a = sh(['git', '-C', repo, 'apply', str(d / 'patch.diff')])
        if a.returncode != 0:
            meta.setdefault('results', {})['quick'] = {'tier': 'quick', 'applies': False, 'caught': None}
            (d / 'meta.json').write_text(json.dumps(meta, indent=1))
            return sid, None, 'patch does not apply: ' + a.stderr[:100]
        r1 = sh(['/venv/bin/python', str(d / 'demonstration.py')], env=env, timeout=300)
        b = sh(['/venv/bin/python', str(VERIF / 'harness' / 'baseline.py')], env=env)
        ck = sh(['/venv/bin/python', str(VERIF / 'harness' / 'check.py'), cid, '--tier', 'quick'], env=env, timeout=7200)
        lines = [ln for ln in ck.stdout.splitlines() if ln.startswith('VIOLATION')]
        caught = ck.returncode == 1 and len(lines) > 0
        first = ''
        if lines:
            try: first = json.loads(Path(lines[0].split('replay=')[1].split()[0]).read_text()).get('what', '')[:300]
            except Exception: pass
        res = dict(meta.get('results', {}).get('quick', {}))
        res.update({'tier': 'quick', 'applies': True, 'demo_clean_exit': r0.returncode, 'pinned_tests_pass': b.returncode == 0, 'demo_patched_exit': r1.returncode, 'check_exit': ck.returncode, 'violation_lines': len(lines), 'caught': caught, 'first_violation': first,
                    'no_failing_input_found_only': bool(lines) and all(ln.rstrip().endswith('no-failing-input-found') for ln in lines)})
        meta.setdefault('results', {})['quick'] = res
        (d / 'meta.json').write_text(json.dumps(meta, indent=1))
        return sid, caught, first[:90] + f' demo={r0.returncode}/{r1.returncode} tests={b.returncode == 0}'
    finally:
        sh(['git', '-C', repo, 'checkout', '--', '.']); sh(['git', '-C', repo, 'clean', '-fdq'])
        lanes.put(repo)
sids = [d.name for d in sorted(SEEDED.iterdir()) if (d / 'patch.diff').exists() and any((q in d.name if not q.startswith("=") else d.name == q[1:]) for q in pat.split(","))]
with ThreadPoolExecutor(LANES) as ex:
    for sid, caught, msg in ex.map(run, sids):
        print(f'{sid}: caught={caught} {msg}', flush=True)
for i in range(LANES): sh(['rm', '-rf', f'/tmp/rc{os.getpid()}_{i}'])
print('ALLDONE')

"""C10 correspondence: parse / populate values and create_pointer selection."""

import random
import warnings

import numpy as np

from harness import algs
from harness import common as c

RULE = ("random expression ASTs (depth <= 3 quick / 5 thorough) over 4 integer-valued entries, special names, int and "
        "float literals, unary -, ~, + - * / **, .normalized() .linv() .rinv(), printed with random whitespace and sent to "
        "Vocabulary.parse; three algebras (HRR d=4,5; VTB/TVTB d=4,9); number-only expressions; unknown names, non-pointer "
        "results, malformed text; populate strings mixing bare names, Name.method() and Name = expr items; create_pointer "
        "with scripted candidate streams (first qualifying candidate at the start / middle / end / nowhere, ties) x attempt "
        "limits 0..6 x empty / non-empty vocabulary. Values compared in Coq with the model (symbolic square roots). "
        "Non-trivial: expression with at least one operator; distinct = distinct (algebra, d, text).")
ASSUMPTIONS = ["text -> AST is CPython's own parser: the model evaluates the AST the text was printed from",
               "sums of terms with different irrational factors are not representable in the model's value type and are skipped (counted)"]

IMPORTS = algs.IMPORTS + " Model.Parse Tie.ParseTie"
NAMES = ["A", "B", "C", "D"]


class Gen:
    def __init__(self, rng, al):
        self.rng, self.al = rng, al

    def leaf(self):
        r = self.rng.random()
        if r < 0.8:
            return ("name", self.rng.randrange(4))
        if r < 0.9:
            return ("special", "Identity")
        return ("special", self.rng.choice(["Zero", "Identity"] + (["AbsorbingElement"] if self.al == "AHrr" else [])))

    def num(self):
        return self.rng.choice([(2, 1, False), (3, 1, False), (1, 2, False), (2, 1, True), (3, 2, False), (1, 4, True)])

    def gen(self, depth):
        rng = self.rng
        if depth == 0 or rng.random() < 0.15:
            return self.leaf()
        k = rng.choice(["neg", "inv", "add", "sub", "mul", "mul", "mul", "scale", "rscale", "div", "pow", "linv", "rinv", "dotscale"])
        if k == "dotscale":
            # a scalar computed inside the expression (a NumPy scalar, not a Python number) scaling a pointer
            a = self.gen(max(depth - 2, 0))
            b = self.reshape(a)
            cpt = self.gen(depth - 1)
            return ("mul", ("dot", a, b), cpt) if rng.random() < 0.5 else ("mul", cpt, ("dot", a, b))
        if k in ("neg", "inv", "linv", "rinv"):
            return (k, self.gen(depth - 1))
        if k in ("add", "sub"):
            # same shape on both sides keeps the irrational factors equal in VTB/TVTB
            a = self.gen(depth - 1)
            b = self.reshape(a) if self.al != "AHrr" else self.gen(depth - 1)
            return (k, a, b)
        if k == "mul":
            return (k, self.gen(depth - 1), self.gen(depth - 1))
        if k == "scale":
            return ("mul", self.gen(depth - 1), ("num",) + self.num())
        if k == "rscale":
            return ("mul", ("num",) + self.num(), self.gen(depth - 1))
        if k == "div":
            return ("div", self.gen(depth - 1)) + self.num()
        return ("pow", self.gen(min(depth - 1, 1)), rng.choice([0, 1, 2, 3]), rng.random() < 0.3)

    def reshape(self, a):
        """An expression with the same operator skeleton as a, other leaves."""
        if a[0] == "name":
            return ("name", self.rng.randrange(4))
        if a[0] in ("special", "num"):
            return a
        if a[0] in ("neg", "inv", "linv", "rinv"):
            return (a[0], self.reshape(a[1]))
        if a[0] in ("add", "sub", "mul", "dot"):
            return (a[0], self.reshape(a[1]), self.reshape(a[2]))
        if a[0] == "div":
            return ("div", self.reshape(a[1])) + a[2:]
        if a[0] == "pow":
            return ("pow", self.reshape(a[1]), a[2], a[3])
        return a


PREC = {"add": 1, "sub": 1, "mul": 2, "div": 2, "dot": 2, "neg": 3, "inv": 3, "pow": 4, "linv": 5, "rinv": 5, "normalized": 5,
        "name": 6, "special": 6, "num": 6}


def to_text(e, rng):
    sp = lambda: " " * rng.choice([0, 1, 1, 2])  # noqa

    def par(x, minp, strict=False):
        s = to_text(x, rng)
        p = PREC[x[0]]
        if x[0] == "num" and (x[3] or x[2] != 1):
            p = 3 if x[2] == 1 else 2
        return f"({s})" if (p < minp or (strict and p == minp)) else s

    k = e[0]
    if k == "name":
        return NAMES[e[1]]
    if k == "special":
        return e[1]
    if k == "num":
        _, p, q, neg = e
        s = repr(p / q) if q != 1 else str(p)
        return ("-" if neg else "") + s
    if k == "neg":
        return "-" + par(e[1], 3)
    if k == "inv":
        return "~" + par(e[1], 3)
    if k in ("linv", "rinv", "normalized"):
        return par(e[1], 5) + f".{k}()"
    if k in ("add", "sub"):
        return par(e[1], 1) + sp() + ("+" if k == "add" else "-") + sp() + par(e[2], 1, strict=True)
    if k == "mul":
        return par(e[1], 2) + sp() + "*" + sp() + par(e[2], 2, strict=True)
    if k == "dot":
        if rng.random() < 0.5:
            return par(e[1], 2) + sp() + "@" + sp() + par(e[2], 2, strict=True)
        return par(e[1], 5) + ".dot(" + to_text(e[2], rng) + ")"
    if k == "div":
        _, a, p, q, neg = e
        return par(a, 2) + sp() + "/" + sp() + par(("num", p, q, neg), 2, strict=True)
    if k == "pow":
        _, a, n, neg = e
        return par(a, 4, strict=True) + sp() + "**" + sp() + (f"(-{n})" if neg else str(n))
    raise ValueError(k)


def to_coq(e):
    k = e[0]
    if k == "name":
        return f"(EName {e[1]})"
    if k == "special":
        return "(ESpecial %s)" % {"Identity": "SIdentity", "Zero": "SZeroEl", "AbsorbingElement": "SAbsorbing"}[e[1]]
    if k == "num":
        return f"(ENum {e[1]} {e[2]} {c.b(e[3])})"
    if k == "neg":
        return f"(ENeg {to_coq(e[1])})"
    if k == "inv":
        return f"(EInv {to_coq(e[1])})"
    if k in ("linv", "rinv", "normalized"):
        return f"(EMethod {to_coq(e[1])} {'M' + k.capitalize()})"
    if k in ("add", "sub", "mul", "dot"):
        return f"({ {'add': 'EAdd', 'sub': 'ESub', 'mul': 'EMul', 'dot': 'EDot'}[k]} {to_coq(e[1])} {to_coq(e[2])})"
    if k == "div":
        return f"(EDivNum {to_coq(e[1])} {e[2]} {e[3]} {c.b(e[4])})"
    if k == "pow":
        return f"(EPow {to_coq(e[1])} {e[2]} {c.b(e[3])})"
    raise ValueError(k)


def size(e):
    return 1 + sum(size(x) for x in e[1:] if isinstance(x, tuple))


def run(rep, tier, rng):
    import nengo_spa as spa
    from nengo_spa.exceptions import SpaParseError
    from nengo_spa.semantic_pointer import SemanticPointer

    quick = tier == "quick"
    exprs, meta = [], []
    rexprs = []

    def add(expr, m, key, nontrivial=True, sample=None):
        exprs.append(expr)
        meta.append(m)
        rep.case(key, nontrivial, sample)
        rep.count(m["op"])

    def obs_t(o):
        try:
            return c.obs_term(o, algs.enc_vec)
        except Exception:  # noqa
            return "(OExn OtherError)"

    for al in algs.ALGS:
        A = algs.alg_obj(al)
        for d in ([4, 5] if al == "AHrr" else [4, 9]):
            ents = [algs.rand_vec(rng, d, -2, 2) for _ in range(4)]
            voc = spa.Vocabulary(d, algebra=A)
            for nm, v in zip(NAMES, ents):
                voc.add(nm, algs.fl(v))
            cents = c.lst([c.zlist(v) for v in ents])
            big = 4 ** 4 * d ** 3

            def ill_conditioned(x):
                # normalising is discontinuous at the zero vector: where the exact value of the operand is zero but the
                # floating-point one is rounding noise (a nilpotent VTB / TVTB matrix squared, say), exact and float
                # results legitimately differ; such cases are skipped and counted.  An exact 0.0 is kept.
                if not isinstance(x, tuple):
                    return False
                if x[0] == "normalized":
                    try:
                        with warnings.catch_warnings():
                            warnings.simplefilter("ignore")
                            arg = voc.parse(to_text(x[1], random.Random(0)))
                        nrm = float(np.linalg.norm(arg.v))
                        if 0.0 < nrm < 1e-9:
                            return True
                    except Exception:  # noqa
                        pass
                return any(ill_conditioned(y) for y in x[1:])

            def parse_case(e, text, kind):
                if kind == "random" and ill_conditioned(e):
                    rep.count("normalisation-of-rounding-noise-skipped")
                    return
                with warnings.catch_warnings():
                    warnings.simplefilter("ignore")
                    o = c.observe(lambda: voc.parse(text))
                if o[0] == "ok":
                    r = o[1]
                    if not isinstance(r, SemanticPointer) or r.vocab is not voc or r.algebra is not A:
                        key = "parse-number-uses-hrr-identity" if kind == "number" and al != "AHrr" else None
                        rep.violation(f"parse({text!r}) in a {al} vocabulary returned a pointer whose vocabulary/algebra is not the vocabulary's own "
                                      f"(vocab is own: {getattr(r, 'vocab', None) is voc}, algebra is own: {getattr(r, 'algebra', None) is A})",
                                      {"case": {"alg": al, "d": d, "text": text}, "finding_key": key,
                                       "python": algs.PRELUDE + f"import nengo_spa as spa\nA = {algs.alg_py(al)}\nv = spa.Vocabulary({d}, algebra=A)\n"
                                       + "".join(f"v.add({nm!r}, np.array({vec}, float))\n" for nm, vec in zip(NAMES, ents))
                                       + f"r = v.parse({text!r})\nassert r.vocab is v and r.algebra is A, 'parsed pointer does not belong to the vocabulary / its algebra'\n"})
                    o = ("ok", r.v, o[2], o[3]) if isinstance(r, SemanticPointer) else ("TypeError", "not a pointer")
                add(f"check_parse {al} {c.nat(d)} {cents} {to_coq(e)} ({c.z(big)}, 1000000000%Z) {obs_t(o)}",
                    {"op": "parse-" + kind, "alg": al, "d": d, "text": text, "entries": ents, "obs": c.obs_json(o) if o[0] == "ok" else list(o)},
                    ("parse", al, d, text), nontrivial=size(e) > 1,
                    sample={"alg": al, "d": d, "text": text} if kind == "random" and 12 < len(text) < 30 else None)
                rexprs.append(f"parse_representable {al} {c.nat(d)} {cents} {to_coq(e)}")

            g = Gen(rng, al)
            for _ in range(60 if quick else 500):
                e = g.gen(rng.choice([1, 2, 2, 3]) if quick else rng.choice([1, 2, 3, 4, 5]))
                if rng.random() < 0.15:
                    e = ("normalized", e)
                parse_case(e, to_text(e, rng), "random")
            for e in [("num", 2, 1, False), ("num", 1, 2, False), ("num", 3, 1, True), ("mul", ("num", 2, 1, False), ("num", 3, 1, False)),
                      ("special", "Identity"), ("special", "Zero"), ("special", "AbsorbingElement"),
                      ("mul", ("num", 2, 1, False), ("special", "Identity")), ("add", ("num", 1, 1, False), ("num", 2, 1, False))]:
                parse_case(e, to_text(e, rng), "number" if e[0] in ("num",) or (e[0] in ("mul", "add") and e[1][0] == "num" and e[2][0] == "num") else "special")
            # parse_n: every argument is one expression, whatever their number and length
            for texts_e in ([("mul", ("name", 0), ("name", 1))], [("name", 0), ("add", ("name", 1), ("name", 2))], [("name", 3)],
                            [("mul", ("name", 0), ("special", "Identity")), ("name", 1), ("inv", ("name", 2))], [("num", 12, 1, False)]):
                texts = [to_text(x, rng) for x in texts_e]
                with warnings.catch_warnings():
                    warnings.simplefilter("ignore")
                    on = c.observe(lambda: [r.v for r in voc.parse_n(*texts)])
                for i_, x in enumerate(texts_e):
                    if on[0] == "ok":
                        oi = ("ok", on[1][i_], on[2], on[3]) if i_ < len(on[1]) else ("IndexError", "parse_n returned too few results")
                    else:
                        oi = on
                    add(f"check_parse {al} {c.nat(d)} {cents} {to_coq(x)} ({c.z(big)}, 1000000000%Z) {obs_t(oi)}",
                        {"op": "parse_n", "alg": al, "d": d, "text": f"parse_n{tuple(texts)!r}[{i_}]", "entries": ents, "obs": c.obs_json(oi) if oi[0] == "ok" else list(oi[:2])},
                        ("parse_n", al, d, tuple(texts), i_))
                if on[0] == "ok" and len(on[1]) != len(texts):
                    rep.violation(f"parse_n{tuple(texts)!r} returned {len(on[1])} results for {len(texts)} expressions", {"case": {"alg": al, "d": d, "texts": texts}})
            # errors: unknown name (strict), non-pointer result, malformed text
            for text, want in [("E", SpaParseError), ("A + E", SpaParseError), ("'abc'", SpaParseError), ("None", SpaParseError),
                               ("[1, 2]", SpaParseError), ("A +* B", SyntaxError), ("A B", SyntaxError), ("(A", SyntaxError)]:
                o = c.observe(lambda: voc.parse(text))
                rep.case(("parse-error", al, d, text))
                rep.count("parse-error-class")
                ok = o[0] != "ok" and (o[0] == want.__name__)
                if not ok:
                    rep.violation(f"parse({text!r}) should raise {want.__name__}, observed {o[0]}",
                                  {"case": {"alg": al, "d": d, "text": text}, "observed": list(o[:2]) if o[0] != "ok" else "returned a value",
                                   "python": algs.PRELUDE + f"import nengo_spa as spa\nfrom nengo_spa.exceptions import SpaParseError\nv = spa.Vocabulary({d}, algebra={algs.alg_py(al)}); v.populate('A; B')\n"
                                   f"try:\n    v.parse({text!r}); raised = None\nexcept Exception as e:\n    raised = type(e).__name__\nassert raised == {want.__name__!r}, raised\n"})
                if len(voc) != 4:
                    rep.violation("strict vocabulary changed by a failing parse", {"case": {"text": text}})

            # ---- populate: items left to right -------------------------------------
            FORCED = [[("mul", ("name", 0), ("special", "Identity")), ("add", ("special", "Zero"), ("name", 1))],
                      [("mul", ("special", "Identity"), ("name", 0)), ("sub", ("name", 0), ("mul", ("name", 1), ("special", "Identity")))],
                      [("special", "Zero"), ("mul", ("num", 2, 1, False), ("special", "Identity"))]]
            for run_i in range(len(FORCED) + (6 if quick else 40)):
                forced = FORCED[run_i] if run_i < len(FORCED) else None
                stream = [algs.rand_vec(rng, d, -2, 2) for _ in range(8)]
                it = iter([algs.fl(v) for v in stream])
                pv = spa.Vocabulary(d, algebra=A, pointer_gen=it, max_similarity=1e9)
                names, items, model_entries, text_parts, drawn = [], [], [], [], 0
                for k in range(rng.randint(2, 5) if forced is None else 1 + len(forced)):
                    nm = "P%d" % k
                    form = rng.choice(["bare", "bare", "assign", "method"]) if names else rng.choice(["bare", "bare", "method"])
                    if forced is None and k == 1 and run_i % 2 == 1:
                        form = "method"
                    if forced is not None and k >= 1:
                        form = "assign"
                    if form == "bare":
                        text_parts.append(rng.choice(["", " "]) + nm + rng.choice(["", " "]))
                        items.append((nm, "bare", stream[drawn])); drawn += 1
                    elif form == "method":
                        m = rng.choice(["normalized"])
                        ws_ = ["", " ", "\n    ", "\t"][(run_i + k) % 4]     # blanks between the name and the method
                        text_parts.append(f"{nm}{ws_}.{m}()")
                        items.append((nm, "method", stream[drawn], m)); drawn += 1
                    else:
                        gg = Gen(rng, al)
                        e = gg.gen(2) if forced is None else forced[k - 1]

                        def remap(x):
                            if x[0] == "name":
                                return ("name", x[1] % len(names))
                            return tuple(remap(y) if isinstance(y, tuple) else y for y in x)
                        e = remap(e)
                        txt = to_text(e, rng)
                        for i_, n_ in enumerate(NAMES):
                            pass
                        # print with the populate-local names
                        import re as _re
                        txt2 = _re.sub(r"\b([ABCD])\b", lambda mm: names[NAMES.index(mm.group(1)) % len(names)], txt)
                        # multi-line populate strings: the right-hand side may start / end with a newline and indentation
                        lead, trail = (rng.choice(["", " ", "\n    ", "\n"]), rng.choice(["", " ", "\n    ", "\n"])) if run_i % 2 == 0 else (" ", "")
                        text_parts.append(f"{nm} {rng.choice(['=', ' = ', '='])}{lead}{txt2}{trail}")
                        items.append((nm, "assign", e, list(names)))
                    names.append(nm)
                text = (";" if run_i % 2 else rng.choice([";", ";\n", ";\n    "])).join(text_parts)
                with warnings.catch_warnings():
                    warnings.simplefilter("ignore")
                    o = c.observe(lambda: pv.populate(text))
                rep.count("populate")
                keys = list(pv.keys())
                # walk the items: each stored vector against the model
                sofar = []
                for idx, itx in enumerate(items):
                    nm = itx[0]
                    if nm not in pv:
                        # populate stopped at this item: the model must fail here with the same exception
                        if itx[1] == "assign" and o[0] != "ok":
                            ents_f = [sofar[names.index(n)] for n in itx[3]]
                            while len(ents_f) < 4:
                                ents_f.append(ents_f[-1])
                            if not any(x is None for v in ents_f for x in v):
                                add(f"check_parse {al} {c.nat(d)} {c.lst([c.zlist(v) for v in ents_f])} {to_coq(itx[2])} (1%Z, 1000000000%Z) {obs_t(o)}",
                                    {"op": "populate-item-assign-raised", "alg": al, "d": d, "text": text, "item": idx, "entries": ents_f,
                                     "obs": [o[0], str(o[1])[:120]]}, ("populate-raised", al, d, text, idx))
                        elif o[0] != "ok" and itx[1] in ("bare", "method"):
                            rep.violation(f"populate({text!r}) raised {o[0]} at the {'bare name' if itx[1] == 'bare' else 'Name.method() item'} {nm!r}: {str(o[1])[:80]}",
                                          {"case": {"alg": al, "text": text},
                                           "python": f"import numpy as np, nengo_spa as spa\nv = spa.Vocabulary({d}, pointer_gen=np.random.RandomState(1), max_similarity=1e9)\nv.populate({text!r})\n"})
                        break
                    stored = pv[nm].v
                    if itx[1] == "bare":
                        e, ents_now = ("name", 0), [itx[2]]
                    elif itx[1] == "method":
                        e, ents_now = (itx[3], ("name", 0)), [itx[2]]
                    else:
                        e = itx[2]
                        ents_now = [sofar[names.index(n)] for n in itx[3]]
                        while len(ents_now) < 4:
                            ents_now.append(ents_now[-1])
                    # exact stored value feeds later items: use the implementation's (rounded if integral)
                    sofar.append([int(round(x)) if abs(x - round(x)) < 1e-9 else None for x in stored])
                    if any(x is None for v in ents_now for x in v):
                        rep.count("populate-item-skipped-nonintegral-operand")
                        continue
                    add(f"check_parse {al} {c.nat(d)} {c.lst([c.zlist(v) for v in ents_now])} {to_coq(e)} ({c.z(big)}, 1000000000%Z) "
                        f"{obs_t(('ok', stored, False, []))}",
                        {"op": "populate-item-" + itx[1], "alg": al, "d": d, "text": text, "item": idx, "entries": ents_now,
                         "obs": stored.tolist()}, ("populate", al, d, text, idx))
                    rexprs.append(f"parse_representable {al} {c.nat(d)} {c.lst([c.zlist(v) for v in ents_now])} {to_coq(e)}")
                if o[0] == "ok" and keys != [i_[0] for i_ in items]:
                    rep.violation(f"populate({text!r}) stored keys {keys}, expected {[i_[0] for i_ in items]} in item order",
                                  {"case": {"alg": al, "text": text}})

    # empty text and empty items: nothing is created by empty text; an empty item is an invalid name and stops the
    # population there (items to its left stay, items to its right are not reached)
    TABLE = [("", [], None), ("  ", [], None), (" A ; B ", ["A", "B"], None), ("A;;B", ["A"], "SpaParseError"), ("A;B;", ["A", "B"], "SpaParseError"),
             (";A", [], "SpaParseError"), ("A; B = A * A ; C.normalized()", ["A", "B", "C"], None)]
    for al in algs.ALGS:
        for text, want_keys, want_err in TABLE:
            pv = spa.Vocabulary(4, algebra=algs.alg_obj(al), pointer_gen=np.random.RandomState(3), max_similarity=1e9)
            with warnings.catch_warnings():
                warnings.simplefilter("ignore")
                o = c.outcome(lambda: pv.populate(text))
            rep.case(("populate-empty-items", al, text))
            rep.count("populate-empty-items")
            got_err = None if o[0] == "ok" else o[0]
            if list(pv.keys()) != want_keys or got_err != want_err:
                rep.violation(f"populate({text!r}) ({al}): keys {list(pv.keys())}, outcome {got_err or 'ok'}; expected keys {want_keys}, outcome {want_err or 'ok'}",
                              {"case": {"alg": al, "text": text},
                               "python": f"import numpy as np, nengo_spa as spa\nv = spa.Vocabulary(16)\ntry:\n    v.populate({text!r})\nexcept Exception as e:\n    print(type(e).__name__)\n"
                                         f"assert list(v.keys()) == {want_keys!r}, list(v.keys())\n"})

    # an assignment whose expression itself contains '=' (split must stop at the first '=')
    for al in algs.ALGS:
        A = algs.alg_obj(al)
        pv = spa.Vocabulary(4, algebra=A, pointer_gen=iter([algs.fl([1, 2, 0, -1]), algs.fl([0, 1, 1, 0])]), max_similarity=1e9)
        o = c.observe(lambda: pv.populate("P0; P1 = P0 * (2 if 1 == 1 else 3)"))
        rep.case(("populate-eq", al)); rep.count("populate-embedded-equals")
        if o[0] != "ok" or list(pv.keys()) != ["P0", "P1"] or not np.allclose(pv["P1"].v, 2 * pv["P0"].v):
            rep.violation(f"populate('P0; P1 = P0 * (2 if 1 == 1 else 3)') did not store the parsed value of the expression ({al}): {o[:2] if o[0] != 'ok' else list(pv.keys())}",
                          {"case": {"alg": al}, "python": "import numpy as np, nengo_spa as spa\nv = spa.Vocabulary(16)\nv.populate('P0; P1 = P0 * (2 if 1 == 1 else 3)')\nassert np.allclose(v['P1'].v, 2 * v['P0'].v)\n"})

    # ---- create_pointer: candidate selection --------------------------------------
    d = 3
    sel_exprs, sel_meta = [], []
    existing_sets = [[], [[2, 0, 0]], [[2, 0, 0], [0, 2, 0]]]
    patterns = [[[5, 0, 0], [0, 5, 0], [0, 0, 5]], [[0, 0, 5], [5, 0, 0], [0, 5, 0]], [[3, 0, 0], [2, 1, 0], [1, 0, 4], [0, 0, 1]],
                [[4, 0, 0], [3, 0, 1], [3, 1, 0], [2, 0, 0]], [[1, 1, 0], [1, 0, 1], [1, 1, 1]], [[2, 2, 0], [2, 0, 2], [2, 1, 3]],
                # negative similarities: anti-correlated candidates are dissimilar, not similar
                [[-5, 0, 0], [0, 0, 5]], [[-3, 1, 0], [2, -1, 0], [0, 0, 1]], [[-1, -4, 0], [-4, -1, 0], [1, 1, 1]], [[-2, 3, 1], [3, -2, 0], [-1, -1, -1]]]
    for ex in existing_sets:
        for pat in patterns:
            for attempts in range(0, 7):
                for bound in (1, 2, 4, 6, 100, 0, -3):
                    cands = (pat * 3)[:max(attempts, 1) + 2]
                    def reusing(cs):       # a generator that hands out views of one scratch buffer, overwritten at every step
                        scratch = np.zeros((1, d))
                        for v_ in cs:
                            scratch[0] = algs.fl(v_)
                            yield scratch[0]
                    pv = spa.Vocabulary(d, pointer_gen=reusing(cands) if attempts % 2 else iter([algs.fl(v) for v in cands]), max_similarity=float(bound))
                    for i, v in enumerate(ex):
                        pv.add("E%d" % i, algs.fl(v))
                    with warnings.catch_warnings(record=True) as rec:
                        warnings.simplefilter("always")
                        try:
                            p = pv.create_pointer(attempts=attempts)
                            err = None
                        except Exception as e:  # noqa
                            p, err = None, type(e).__name__
                    warned = any("Could not create" in str(w.message) for w in rec)
                    if err:
                        chosen = "None"
                        rep.count("create_pointer_error_" + err)
                    elif p is None:
                        chosen = "None"
                    else:
                        used = cands[:attempts]
                        idx = next((i for i, v in enumerate(used) if np.array_equal(algs.fl(v), p.v)), None)
                        chosen = f"(Some {idx})" if idx is not None else "(Some 4999)"
                    sel_exprs.append(f"check_create_pointer {c.lst([c.zlist(v) for v in ex])} {c.z(bound)} "
                                     f"{c.lst([c.zlist(v) for v in cands[:attempts]])} {chosen} {c.b(warned)}")
                    sel_meta.append({"existing": ex, "candidates": cands[:attempts], "attempts": attempts, "bound": bound,
                                     "chosen": chosen, "warned": warned, "error": err})
                    rep.case(("create_pointer", tuple(map(tuple, ex)), tuple(map(tuple, cands[:attempts])), bound),
                             sample={"existing": ex, "candidates": cands[:attempts], "max_similarity": bound, "chosen": chosen, "warned": warned}
                             if attempts == 3 and len(ex) == 1 and bound == 4 else None)
                    rep.count("create_pointer")

    # ---- populate 'Name.method()': the similarity test sees the transformed candidate -----------------------------
    # HRR linv / rinv is the involution (entries permuted), so transformed candidates stay integral.
    inv4 = lambda v: [v[0], v[3], v[2], v[1]]  # noqa
    streams = [[[0, 0, 0, 4], [3, 0, 0, 0]],            # raw dissimilar, involuted similar: must be skipped
               [[0, 4, 0, 0], [3, 0, 0, 0]],            # raw similar, involuted dissimilar: must be taken
               [[0, 2, 0, 3], [0, 3, 0, 2], [1, 0, 1, 0]],
               [[2, 0, 0, 0], [0, 0, 3, 0]]]
    for meth in ("linv", "rinv"):
        for st in streams:
            for bound in (1, 5, 12):
                pv = spa.Vocabulary(4, pointer_gen=iter([algs.fl(v) for v in st * 3]), max_similarity=float(bound))
                pv.add("A", algs.fl([0, 5, 0, 0]))
                with warnings.catch_warnings(record=True) as rec:
                    warnings.simplefilter("always")
                    o = c.outcome(lambda: pv.populate(f"B.{meth}()"))
                warned = any("Could not create" in str(w.message) for w in rec)
                tc = [inv4(v) for v in (st * 3)]
                used = tc[:100]
                if o[0] == "ok" and "B" in pv:
                    idx = next((i for i, v in enumerate(used) if np.array_equal(algs.fl(v), pv["B"].v)), None)
                    chosen = f"(Some {idx})" if idx is not None else "(Some 4999)"
                else:
                    chosen = "None"
                # create_pointer's default attempts is 100: the stream (3 rounds) is shorter, exhaustion raises StopIteration
                n_avail = len(tc)
                sel_exprs.append(f"check_create_pointer {c.lst([c.zlist([0, 5, 0, 0])])} {c.z(bound)} {c.lst([c.zlist(v) for v in tc])} {chosen} {c.b(warned)}"
                                 if chosen != "None" else "true")
                sel_meta.append({"existing": [[0, 5, 0, 0]], "candidates": st, "attempts": f"populate('B.{meth}()')", "bound": bound,
                                 "chosen": chosen, "warned": warned, "error": None if o[0] == "ok" else o[0]})
                rep.case(("populate-method-selection", meth, tuple(map(tuple, st)), bound))
                rep.count("populate-method-selection")

    verdicts = c.coq_eval("C10", "cases", IMPORTS, exprs, shard=150)
    reps = c.coq_eval("C10", "repr", IMPORTS, rexprs, shard=300)
    rep.dist["representable_in_model"] = sum(reps)
    rep.dist["skipped_unrepresentable"] = len(reps) - sum(reps)
    for ok, m in zip(verdicts, meta):
        if ok:
            continue
        key = None
        if m["op"] == "parse-number" and m["alg"] != "AHrr":
            key = "parse-number-uses-hrr-identity"
        snippet = algs.PRELUDE + f"import nengo_spa as spa\nA = {algs.alg_py(m['alg'])}\nv = spa.Vocabulary({m['d']}, algebra=A)\n" \
            + "".join(f"v.add({nm!r}, np.array({vec}, float))\n" for nm, vec in zip(NAMES, m["entries"])) \
            + (f"print(v.{m['text']}.v)\n" if m["op"] == "parse_n" else f"print(v.parse({m['text']!r}).v)\n") + "assert False, 'parsed value differs from applying the written operators to the entries in the vocabulary algebra'\n"
        rep.violation(f"{m['op']} {m['text']!r} ({m['alg']}, d={m['d']}) does not evaluate to the written operators applied to the entries",
                      {"case": {k: v for k, v in m.items() if k != "obs"}, "observed": m["obs"], "python": snippet, "finding_key": key,
                       "expected": "Model/Parse.v eval in the vocabulary's algebra"})
    sv = c.coq_eval("C10", "select", IMPORTS, sel_exprs, shard=300)
    for ok, m in zip(sv, sel_meta):
        if not ok:
            rep.violation(f"create_pointer chose {m['chosen']} (warned={m['warned']}) for candidates {m['candidates']} against {m['existing']} with bound {m['bound']}",
                          {"case": m, "python": "import numpy as np, nengo_spa as spa\n"
                           f"v = spa.Vocabulary(3, pointer_gen=iter([np.array(x, float) for x in {m['candidates']!r}]), max_similarity={m['bound']}.0)\n"
                           + "".join(f"v.add('E{i}', np.array({x}, float))\n" for i, x in enumerate(m["existing"]))
                           + f"p = v.create_pointer(attempts={m['attempts']})\nprint(p)\nassert False, 'not the first candidate below the bound / the first least similar one'\n",
                           "expected": "Model/Parse.v create_pointer_sel (proved: first qualifying candidate, else first least-similar with warning)"})

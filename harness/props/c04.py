"""C04 correspondence: action-selection wiring (exact) and routed effects (rate-neuron simulation)."""

import warnings

import numpy as np

from harness import algs
from harness import common as c

RULE = ("(a) structural, exact: random rule sets (1..5 actions, 0..3 effects each drawn from fixed pointer (symbol / Semantic "
        "Pointer), fixed scalar, dynamic pointer, dynamic scalar; shared and distinct targets; State targets with "
        "subdimensions 1/4/8/16, d in {16, 24, 32} so that channels have first / remainder ensembles) built without simulation; read from the Nengo graph: utility node -> basal-ganglia input "
        "index, every connection from a thalamus action ensemble to a target with its transform, every gate (driving "
        "action ensemble, bias, -1 transform), the channel it inhibits (kind, number of inhibited neurons = all neurons of "
        "the channel, weights = -route_inhibit), channel -> target and source -> channel connections; compared as a "
        "multiset with the model's build. (b) seeded LIFRate simulation of blocks with 1..4 actions and winner sequences of "
        "2-3 phases (utility margin >= 0.5): thalamus one-hot-ness and the mean output of every target over the last 0.1 s "
        "of each phase (State: signal arriving at its input node; Scalar: decoded value) against the ideal model (tolerance 0.25 per dimension). Non-trivial: at least two actions and one "
        "effect; distinct = distinct (rule set, seed, phase). Utilities reach the block as input on the ifmax handle, as a scalar module, "
        "as a scaled scalar expression and as a dot product (rotating per action).")
ASSUMPTIONS = ["winner-take-all dynamics of basal ganglia / thalamus are not modelled: the one-hot hypothesis of the theorem is observed "
               "(winner > 0.75, losers < 0.2) in every simulated phase",
               "dynamic effect sources are module outputs or constant multiples of them, so the value of each source expression is known (C01 covers compilation)"]
IMPORTS = algs.IMPORTS + " Model.Routing Tie.RoutingTie"
D = 16       # dimensionality of pointer targets; set per rule set by _set_dim (16, 24 or 32)


def _set_dim(d):
    global D
    D = d
SC = 2   # effect values are sent to Coq multiplied by SC


def gen_rules(rng, na=None, sim=False):
    """A rule set: targets and actions.  Effects: (kind, target, payload)."""
    na = na or rng.randint(1, 5)
    npt, nst = rng.randint(1, 3), rng.randint(1, 2)
    targets = [("P", rng.choice([1, 4, 8] + ([16] if D % 16 == 0 else []))) for _ in range(npt)] + [("S", None)] * nst
    actions, ndyn = [], 0
    used = {t: set() for t in range(len(targets))}      # basis dimensions already used per pointer target (sim: no overlap)
    for i in range(na):
        effs = []
        for _ in range(rng.randint(1 if sim else 0, 3)):
            t = rng.randrange(len(targets))
            if targets[t][0] == "P":
                if sim and targets[t][1] != 1 and any(e[1] == t for e in effs):
                    continue    # two unit vectors into one multi-dimensional ensemble saturate it (representation, not routing)
                free = [k for k in range(D) if k not in used[t]] if sim else list(range(D))
                dim = rng.choice(free)
                if sim:
                    used[t].add(dim)
                if rng.random() < 0.5:
                    effs.append(("fixedP", t, (rng.choice(["sym", "sp"]), dim)))
                else:
                    cst = rng.choice([1, 1, -1]) if sim else rng.choice([1, 2, -1])
                    effs.append(("dynP", t, (ndyn, dim, cst)))
                    ndyn += 1
            else:
                if any(e[1] == t for e in effs) and sim:
                    continue
                if rng.random() < 0.5:
                    effs.append(("fixedS", t, rng.choice([1, 2, -1] if not sim else [1, 2])))    # value / SC
                else:
                    effs.append(("dynS", t, (ndyn, rng.choice([1, 2] if sim else [1, 2, -1]), rng.choice([1, 1, -1]) if not sim else 1)))
                    ndyn += 1
        actions.append(effs)
    return targets, actions, ndyn


def effect_terms(targets, actions):
    """Coq terms: actions (values * SC), dims, dyn values."""
    acts, dyn = [], {}
    for effs in actions:
        row = []
        for kind, t, p in effs:
            if kind == "fixedP":
                v = [SC * x for x in algs.basis(D, p[1])]
                row.append(f"(zFixedEff {c.zlist(v)} {t} false)")
            elif kind == "fixedS":
                row.append(f"(zFixedEff {c.zlist([p])} {t} true)")
            elif kind == "dynP":
                k, dim, cst = p
                dyn[k] = [SC * cst * x for x in algs.basis(D, dim)]
                row.append(f"(zDynEff {k} {t} false)")
            else:
                k, val, cst = p
                dyn[k] = [val * cst]
                row.append(f"(zDynEff {k} {t} true)")
        acts.append(c.lst(row))
    dims = [D if tt[0] == "P" else 1 for tt in targets]
    dynl = [dyn[k] for k in sorted(dyn)]
    return c.lst(acts), c.lst([str(x) for x in dims]), c.lst([c.zlist(v) for v in dynl])


def build_block(targets, actions, ndyn, seed, neuron, utilities=None, mutual_inhibit=None):
    """Build the spa.Network; returns handles."""
    import nengo
    import nengo_spa as spa
    voc = spa.Vocabulary(D, pointer_gen=np.random.RandomState(0), strict=False)
    for k in range(D):
        voc.add(f"E{k}", np.eye(D)[k])
    h = {}
    with spa.Network(seed=seed) as net:
        net.config[nengo.Ensemble].neuron_type = neuron
        if mutual_inhibit is not None:
            net.config[spa.Thalamus].mutual_inhibit = mutual_inhibit     # a configured strength of the inhibition between actions
        if D % 16:
            # the routing channels are spa.State modules with the configured default split (16 does not divide D)
            net.config[spa.State].subdimensions = 8
        tg = []
        for kind, sub in targets:
            tg.append(spa.State(voc, subdimensions=sub) if kind == "P" else spa.Scalar())
        srcs = {}
        for effs in actions:
            for kind, t, p in effs:
                if kind == "dynP":
                    k, dim, cst = p
                    srcs[k] = spa.Transcode(lambda t_, a=np.eye(D)[dim]: a, output_vocab=voc)
                elif kind == "dynS":
                    k, val, cst = p
                    with nengo.Config(nengo.Ensemble) as cfg:
                        cfg[nengo.Ensemble].neuron_type = nengo.Direct()
                        srcs[k] = spa.Scalar()
                    nengo.Connection(nengo.Node(val / SC), srcs[k].input, synapse=None)
        na = len(actions)
        ufun = [(lambda i: (lambda t_: float(utilities(t_)[i])))(i) if utilities else (lambda t_: 0.0) for i in range(na)]
        unodes = [nengo.Node(ufun[i]) for i in range(na)]
        # the utility of action i reaches the block in one of six ways (i mod 6): input on the handle ifmax returns, a scalar
        # module as the condition, a scaled scalar expression, a dot product of a module output with a symbol
        uconds = []
        for i in range(na):
            form = (i + len(actions[0])) % 6
            if form == 0:
                uconds.append(("handle", 0))
            elif form == 1:
                with nengo.Config(nengo.Ensemble) as cfg:
                    cfg[nengo.Ensemble].neuron_type = nengo.Direct()
                    um = spa.Scalar()
                nengo.Connection(unodes[i], um.input, synapse=None)
                uconds.append(("expr", um))
            elif form == 2:
                with nengo.Config(nengo.Ensemble) as cfg:
                    cfg[nengo.Ensemble].neuron_type = nengo.Direct()
                    um = spa.Scalar()
                nengo.Connection(unodes[i], um.input, synapse=None, transform=2.0)
                uconds.append(("expr", 0.5 * um))
            elif form == 3:
                ut = spa.Transcode((lambda f: (lambda t_: f(t_) * np.eye(D)[0]))(ufun[i]), output_vocab=voc)
                uconds.append(("expr", spa.dot(ut, spa.sym.E0)))
            elif form == 4:
                # a sum of scalar expressions scaled as a whole: 0.25 * (2u + 2u)
                with nengo.Config(nengo.Ensemble) as cfg:
                    cfg[nengo.Ensemble].neuron_type = nengo.Direct()
                    um1, um2 = spa.Scalar(), spa.Scalar()
                nengo.Connection(unodes[i], um1.input, synapse=None, transform=2.0)
                nengo.Connection(unodes[i], um2.input, synapse=None, transform=2.0)
                uconds.append(("expr", 0.25 * (um1 + um2)))
            else:
                # a number minus a module: 1 - (1 - u)
                with nengo.Config(nengo.Ensemble) as cfg:
                    cfg[nengo.Ensemble].neuron_type = nengo.Direct()
                    um = spa.Scalar()
                nengo.Connection(unodes[i], um.input, synapse=None, transform=-1.0)
                nengo.Connection(nengo.Node(1.0), um.input, synapse=None)
                uconds.append(("expr", 1.0 - um))
        with spa.ActionSelection() as acts:
            for i, effs in enumerate(actions):
                routes = []
                for kind, t, p in effs:
                    if kind == "fixedP":
                        how, dim = p
                        src = getattr(spa.sym, f"E{dim}") if how == "sym" else voc[f"E{dim}"]
                    elif kind == "fixedS":
                        src = p / SC if p % SC else p // SC
                    elif kind == "dynP":
                        k, dim, cst = p
                        src = srcs[k] if cst == 1 else cst * srcs[k]
                    else:
                        k, val, cst = p
                        src = srcs[k] if cst == 1 else cst * srcs[k]
                    routes.append(src >> tg[t])
                kind_u, cond_u = uconds[i]
                handle = spa.ifmax(*(([f"act{i}"] if i % 2 == 0 else []) + [cond_u] + routes))
                if kind_u == "handle":
                    nengo.Connection(unodes[i], handle, synapse=None)
        h.update(net=net, acts=acts, targets=tg, srcs=srcs, unodes=unodes, voc=voc)
    return h


def extract_wiring(h, actions):
    """Observed wires as Coq terms, read from the Nengo graph."""
    import nengo
    net, acts, tg, srcs = h["net"], h["acts"], h["targets"], h["srcs"]
    th, bg = acts.thalamus, acts.bg
    conns = net.all_connections
    tin = {id(t.input): k for k, t in enumerate(tg)}
    act_idx = {id(e): i for i, e in enumerate(th.actions.ensembles)}
    util_idx = {id(u): i for i, u in enumerate(acts._utilities)}
    src_idx = {}
    for k, s in srcs.items():
        src_idx[id(s.output if hasattr(s, "output") and not isinstance(s, nengo.Node) else s)] = k
    out = []
    problems = []
    bg_in = bg.input
    for cn in conns:
        pre, post = cn.pre_obj, cn.post_obj
        # utilities into the basal ganglia
        if post is bg_in and id(pre) in util_idx:
            sl = cn.post_slice
            idx = sl if isinstance(sl, int) else (list(range(bg_in.size_in))[sl] if not isinstance(sl, slice) else list(range(bg_in.size_in))[sl])
            idx = idx if isinstance(idx, int) else (idx[0] if len(idx) == 1 else -1)
            out.append(f"(OUtility {util_idx[id(pre)]} {idx})")
        # thalamus action ensemble -> target (fixed effects)
        elif id(pre) in act_idx and id(post) in tin:
            tr = np.asarray(cn.transform.init, float)
            col = tr.reshape(-1) if tr.ndim <= 1 or tr.shape[1] == 1 else None
            if col is None:
                problems.append(f"fixed connection with transform of shape {tr.shape}")
                continue
            if col.size == 1 and tg[tin[id(post)]].__class__.__name__ == "State":
                problems.append("scalar transform into a pointer target")
            out.append(f"(OFixed {act_idx[id(pre)]} {tin[id(post)]} {algs.enc_vec(col)})")
    # gates: ensembles driven by an action ensemble with transform -1 that are not targets
    gates = {}
    for cn in conns:
        if id(cn.pre_obj) in act_idx and isinstance(cn.post_obj, nengo.Ensemble) and id(cn.post_obj) not in act_idx and id(cn.post_obj) not in tin:
            gates.setdefault(id(cn.post_obj), {"ens": cn.post_obj, "drivers": []})["drivers"].append((act_idx[id(cn.pre_obj)], float(np.asarray(cn.transform.init))))
    for g in gates.values():
        ens = g["ens"]
        if len(g["drivers"]) != 1 or g["drivers"][0][1] != -1.0:
            problems.append(f"gate {ens.label} driven by {g['drivers']}")
        i = g["drivers"][0][0]
        has_bias = any(cn.post_obj is ens and cn.pre_obj is acts.bias for cn in conns)
        outs = [cn for cn in conns if cn.pre_obj is ens]
        if len(outs) != 1:
            problems.append(f"gate {ens.label} has {len(outs)} outgoing connections")
            continue
        oc = outs[0]
        chan = None
        for ch in th.channels:
            if ch.__class__.__name__ == "Scalar" and isinstance(oc.post_obj, nengo.ensemble.Neurons) and oc.post_obj.ensemble is ch.scalar:
                chan, scalar = ch, True
            elif ch.__class__.__name__ == "State" and getattr(ch.state_ensembles, "neuron_input", None) is oc.post_obj:
                chan, scalar = ch, False
        if chan is None:
            problems.append(f"gate {ens.label} does not inhibit a channel")
            continue
        n_neurons = sum(e.n_neurons for e in chan.all_ensembles)
        tr = np.asarray(oc.transform.init, float)
        full = (oc.post_obj.size_in == n_neurons and tr.shape == (n_neurons, 1) and np.all(tr == -th.route_inhibit) and has_bias)
        if not scalar:
            # the neuron-level input must reach every ensemble of the channel
            reached = sum(cn.post_obj.ensemble.n_neurons for cn in chan.state_ensembles.all_connections
                          if cn.pre_obj is chan.state_ensembles.neuron_input and isinstance(cn.post_obj, nengo.ensemble.Neurons))
            full = full and reached == n_neurons
        to_t = [tin[id(cn.post_obj)] for cn in conns if cn.pre_obj is chan.output and id(cn.post_obj) in tin]
        from_s = [src_idx[id(cn.pre_obj)] for cn in conns if cn.post_obj is chan.input and id(cn.pre_obj) in src_idx]
        if len(to_t) != 1 or len(from_s) != 1:
            problems.append(f"channel of gate {ens.label}: targets {to_t}, sources {from_s}")
            continue
        out.append(f"(OGated {i} {to_t[0]} {c.b(scalar)} {from_s[0]} {c.b(bool(full))})")
    return out, problems


def simulate_block(args):
    """Worker entry: never lets an exception cross the process boundary (unpicklable exceptions hang the pool)."""
    try:
        return _simulate_block(args)
    except BaseException as e:  # noqa
        import traceback
        return ("error", args, f"{type(e).__name__}: {e}"[:300], traceback.format_exc()[-1500:])


def _simulate_block(args):
    """(b): one seeded LIFRate block; returns plain data."""
    import nengo
    seed_rules, seed, na, d, mi = args
    _set_dim(d)
    import random
    rng = random.Random(seed_rules)
    targets, actions, ndyn = gen_rules(rng, na=na, sim=True)
    winners = list(range(na))
    rng.shuffle(winners)
    winners = winners[: rng.choice([2, 3])] if na >= 2 else winners
    T = 0.3
    def util(t):
        w = winners[min(len(winners) - 1, int(t / T))]
        return [0.9 if i == w else 0.3 * ((i * 7 + w) % 2) for i in range(na)]
    with warnings.catch_warnings():
        warnings.simplefilter("ignore")
        h = build_block(targets, actions, ndyn, seed, nengo.LIFRate(), utilities=util, mutual_inhibit=mi)
        with h["net"]:
            pt = nengo.Probe(h["acts"].thalamus.output, synapse=0.03)
            # what the target receives: the input node of a State; a Scalar's input is its ensemble (decoded value)
            pr = [nengo.Probe(t.input if isinstance(t.input, nengo.Node) else t.output, synapse=0.03) for t in h["targets"]]
        with nengo.Simulator(h["net"], progress_bar=False) as sim:
            sim.run(T * len(winners))
    res = []
    for k, w in enumerate(winners):
        sl = slice(int((k + 1) * T / 0.001) - 100, int((k + 1) * T / 0.001))
        res.append((w, sim.data[pt][sl].mean(0), [sim.data[p][sl].mean(0) for p in pr]))
    return seed_rules, seed, na, d, targets, actions, res, mi


def run(rep, tier, rng):
    import multiprocessing as mp
    import nengo

    quick = tier == "quick"
    exprs, meta = [], []

    def add(expr, m, key, nontrivial=True, sample=None):
        exprs.append(expr)
        meta.append(m)
        rep.case(key, nontrivial, sample)
        rep.count(m["op"])

    struct_problems = []
    # ---------------- (a) structural ---------------------------------------------------------------------
    for trial in range(30 if quick else 300):
        _set_dim([16, 32, 24][trial % 3])
        targets, actions, ndyn = gen_rules(rng)
        desc = {"d": D, "targets": targets, "actions": actions}
        with warnings.catch_warnings():
            warnings.simplefilter("ignore")
            o = c.outcome(lambda: build_block(targets, actions, ndyn, 1, nengo.LIFRate()))
        if o[0] != "ok":
            rep.violation(f"building a rule set failed: {o[0]}: {str(o[1])[:150]}", {"case": desc})
            continue
        wires, problems = extract_wiring(o[1], actions)
        for p in problems:
            struct_problems.append((p, desc))
        at, dt, yt = effect_terms(targets, actions)
        add(f"check_wiring {SC} (1%Z, 1000000000%Z) {at} {c.lst(wires)}", dict(desc, op="wiring-vs-model", observed=wires),
            ("wiring", D, repr(targets), repr(actions)), nontrivial=len(actions) >= 2 and any(actions),
            sample={"targets": targets, "actions": actions, "observed_wires": wires} if trial == 3 else None)

    # ---------------- (b) simulation -------------------------------------------------------------------------
    tasks = []
    for b in range(12 if quick else 64):
        tasks.append((rng.randrange(10 ** 9), rng.choice([1, 2, 3]), [1, 2, 3, 3, 4, 2][b % 6], [16, 32, 16, 24][b % 4], [None, 2.0, None][b % 3]))
    from concurrent.futures import ProcessPoolExecutor
    with ProcessPoolExecutor(min(16, len(tasks)), mp_context=mp.get_context("fork")) as pool:
        results = list(pool.map(simulate_block, tasks))     # a dying worker raises BrokenProcessPool instead of hanging
    for r in results:
        if r[0] == "error":
            rep.violation(f"building / simulating an action-selection block failed: {r[2]}",
                          {"case": {"rule_seed": r[1][0], "seed": r[1][1], "actions": r[1][2], "d": r[1][3]}, "traceback": r[3],
                           "python": "# harness/props/c04.py simulate_block(%r)\nassert False, 'block could not be built or simulated'\n" % (r[1],)})
            continue
        seed_rules, seed, na, d, targets, actions, res, mi = r
        _set_dim(d)
        at, dt, yt = effect_terms(targets, actions)
        for phase, (w, thal, outs) in enumerate(res):
            base = {"rule_seed": seed_rules, "seed": seed, "d": d, "actions": actions, "targets": targets, "phase": phase, "winner": w,
                    "thalamus": np.round(thal, 2).tolist(), "config[spa.Thalamus].mutual_inhibit": mi}
            rep.case(("onehot", seed_rules, seed, phase))
            rep.count("thalamus-one-hot")
            if not (thal[w] > 0.75 and all(thal[i] < 0.2 for i in range(na) if i != w)):
                rep.violation(f"selection is not one-hot for winner {w}: thalamus {np.round(thal, 2).tolist()}", {"case": base})
                continue
            for t, out in enumerate(outs):
                add(f"check_routed {SC} (25%Z, 100%Z) {at} {dt} {yt} {w} {t} {algs.enc_vec(out)}",
                    dict(base, op="routed-effects-vs-ideal-model", target=t, observed=np.round(out, 2).tolist()),
                    ("routed", seed_rules, seed, phase, t), nontrivial=True,
                    sample=dict(base, target=t, observed=np.round(out, 2).tolist()) if phase == 1 and t == 0 else None)

    verdicts = c.coq_eval("C04", "cases", IMPORTS, exprs, shard=100)
    routed_failed = any((not ok2) and m2["op"] != "wiring-vs-model" for ok2, m2 in zip(verdicts, meta)) or bool(rep.violations)
    for p, desc in struct_problems:
        rep.violation(f"wiring: {p}", {"case": desc, "correspondence": "harness.props.c04 wiring tie"}, found_input=routed_failed)
    for ok, m in zip(verdicts, meta):
        if ok:
            continue
        if m["op"] == "wiring-vs-model":
            rep.violation(f"the wiring built for actions {str(m['actions'])[:160]} differs from the model: observed {str(m['observed'])[:200]}",
                          {"case": {k: v for k, v in m.items() if k != "observed"}, "observed": m["observed"],
                           "python": "# rebuild with harness/props/c04.py build_block / extract_wiring\nassert False, 'action-selection wiring differs from the model'\n",
                           "expected": "Model/Routing.v build", "correspondence": "harness.props.c04 wiring tie"},
                          found_input=routed_failed)
        else:
            rep.violation(f"phase {m['phase']} winner {m['winner']}: target {m['target']} received {str(m['observed'])[:100]}, not the winner's effects "
                          f"(actions {str(m['actions'])[:120]})",
                          {"case": {k: v for k, v in m.items() if k != "observed"}, "observed": m["observed"],
                           "python": "# rebuild with harness/props/c04.py simulate_block((rule_seed, seed, n_actions, d, mutual_inhibit))\nassert False, 'routed effects differ from the winner effects'\n",
                           "expected": "Model/Routing.v received (onehot w)"})

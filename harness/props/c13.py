"""C13 correspondence: transform_to, translate, reinterpret, create_subset."""

import itertools
import warnings

import numpy as np

from harness import algs
from harness import common as c

RULE = ("vocabulary pairs built for the purpose: source rows orthonormal (signed permutation rows), merely independent, or "
        "arbitrary integer vectors; equal / different dimensionality; overlapping / disjoint / partially requested key sets "
        "incl. requested keys absent from the source; populate in {None, False, True}; with and without a least-squares "
        "solver; strict and non-strict sources; three algebras. Observed: the transform matrix, warnings, target keys "
        "before/after, source keys before/after, translate / reinterpret / create_subset results (.v, .vocab, .algebra) on "
        "fixed pointers and typed symbols. Non-trivial: at least two used keys; distinct = distinct configuration.")
ASSUMPTIONS = ["with populate=True the vectors of newly created target keys are read back from the target and handed to the model",
               "the solver variant is checked by its post-condition (independent source rows map exactly)"]

IMPORTS = algs.IMPORTS + " Model.Translate Tie.TranslateTie"
NAMES = ["A", "B", "C", "D", "E", "F"]
PRE = "import numpy as np, warnings, nengo_spa as spa\nfrom nengo_spa.semantic_pointer import SemanticPointer\n"


def ortho_rows(rng, d, n):
    perm = list(range(d))
    rng.shuffle(perm)
    return [[(rng.choice([1, -1]) if j == perm[i] else 0) for j in range(d)] for i in range(n)]


def coq_entries(keys, vecs):
    return c.lst([f"({NAMES.index(k)}%nat, {c.zlist(v)})" for k, v in zip(keys, vecs)])


def lstsq(a, b):
    return np.linalg.lstsq(a, b, rcond=None)


def run(rep, tier, rng):
    import nengo_spa as spa
    from nengo.exceptions import NengoWarning
    from nengo_spa.ast.symbolic import PointerSymbol
    from nengo_spa.semantic_pointer import SemanticPointer
    from nengo_spa.types import TVocabulary

    quick = tier == "quick"
    exprs, meta = [], []

    def add(expr, m, key, nontrivial=True, sample=None):
        exprs.append(expr)
        meta.append(m)
        rep.case(key, nontrivial, sample)
        rep.count(m["op"])

    configs = []
    for al in algs.ALGS:
        for (d_from, d_to) in ([(4, 4), (4, 9)] if quick else [(4, 4), (4, 9), (9, 4), (9, 9)]):
            if al != "AHrr" and (d_from not in (4, 9) or d_to not in (4, 9)):
                continue
            for kind in ("orthonormal", "independent", "arbitrary"):
                for src_keys, tgt_keys in [(["A", "B", "C"], ["A", "B", "C"]), (["A", "B", "C"], ["B", "C", "D"]),
                                           (["A", "B"], ["C", "D"]), (["A", "B", "C", "D"], ["D", "A"]),
                                           # an empty vocabulary on either side (empty vocabularies are falsy in Python)
                                           (["A", "B"], []), ([], ["A", "B"]), (["B", "A", "C"], ["A", "B", "C"])]:
                    configs.append((al, d_from, d_to, kind, src_keys, tgt_keys))
    if quick:
        rng.shuffle(configs)
        configs = configs[:40]
    for (al, d_from, d_to, kind, src_keys, tgt_keys) in configs:
        A = algs.alg_obj(al)
        for strict, populate, use_solver, req in itertools.product((True, False), (None, False, True), (False, True),
                                                                   (None, "subset", "with-absent", "empty", "repeated")):
            if quick and rng.random() < 0.55:
                continue
            if kind == "orthonormal":
                svecs = ortho_rows(rng, d_from, len(src_keys))
            elif kind == "independent":
                svecs = [[(2 if j == i else 1) for j in range(d_from)] for i in range(len(src_keys))]
            else:
                svecs = [algs.rand_vec(rng, d_from, -2, 2) for _ in src_keys]
            tvecs = [algs.rand_vec(rng, d_to, -3, 3) for _ in tgt_keys]
            newvecs = iter([algs.fl(algs.rand_vec(rng, d_to, -3, 3)) for _ in range(8)])
            src = spa.Vocabulary(d_from, strict=strict, algebra=A, max_similarity=1e9,
                                 pointer_gen=iter([algs.fl(algs.rand_vec(rng, d_from, -3, 3)) for _ in range(8)]))
            tgt_strict = bool((len(exprs) + len(src_keys) + (0 if populate is None else 1 + int(populate))) % 2)   # both kinds of target
            tgt = spa.Vocabulary(d_to, strict=tgt_strict, algebra=A, pointer_gen=newvecs, max_similarity=1e9)
            for k, v in zip(src_keys, svecs):
                src.add(k, algs.fl(v))
            for k, v in zip(tgt_keys, tvecs):
                tgt.add(k, algs.fl(v))
            if req is None:
                requested = None
            elif req == "empty":
                requested = []                              # an explicitly empty selection: the zero transform
            elif req == "subset":
                requested = src_keys[:2]
            elif req == "repeated":
                requested = src_keys[:2] + src_keys[1:2] + src_keys[:1]   # a key named more than once counts once
            else:
                requested = src_keys[:1] + ["F"]       # F is in neither vocabulary
            src_before, tgt_before = list(src.keys()), list(tgt.keys())
            with warnings.catch_warnings(record=True) as rec:
                warnings.simplefilter("always")
                o = c.outcome(lambda: src.transform_to(tgt, populate=populate, keys=requested, solver=lstsq if use_solver else None))
            warned = any(issubclass(w.category, NengoWarning) for w in rec)
            src_after, tgt_after = list(src.keys()), list(tgt.keys())
            base = {"alg": al, "d_from": d_from, "d_to": d_to, "kind": kind, "src_keys": src_keys, "tgt_keys": tgt_keys, "strict": strict, "target_strict": tgt_strict,
                    "populate": populate, "solver": use_solver, "requested": requested, "src_vectors": svecs, "tgt_vectors": tvecs}
            # ---- the source vocabulary is never changed -------------------------------
            rep.case(("source-unchanged", repr(base)))
            rep.count("source-unchanged")
            if src_after != src_before:
                key = "transform-to-adds-requested-key-to-nonstrict-source" if (not strict and requested and "F" in requested) else None
                rep.violation(f"transform_to changed the source vocabulary: keys {src_before} -> {src_after} (requested {requested}, strict={strict})",
                              {"case": base, "finding_key": key,
                               "python": PRE + "src = spa.Vocabulary(16, strict=False); src.populate('A'); tgt = spa.Vocabulary(16); tgt.populate('A')\n"
                               "before = list(src.keys())\nsrc.transform_to(tgt, keys=['A', 'F'], populate=False)\nassert list(src.keys()) == before, list(src.keys())\n"})
            # ---- target keys ---------------------------------------------------------
            cpop = "None" if populate is None else f"(Some {c.b(populate)})"
            creq = "None" if requested is None else f"(Some {c.lst([str(NAMES.index(k)) for k in requested])})"
            if o[0] == "ok":
                try:
                    obs_keys = c.lst([str(NAMES.index(k)) for k in tgt_after])
                except ValueError:
                    obs_keys = "[99]"
                add(f"check_target_keys {c.lst([str(NAMES.index(k)) for k in tgt_before])} {c.lst([str(NAMES.index(k)) for k in src_keys])} {creq} {cpop} {obs_keys}",
                    dict(base, op="target-keys", observed=tgt_after), ("tkeys", repr(base)))
            elif tgt_after != tgt_before and populate is not True:
                rep.violation("target vocabulary changed although populate is not True", {"case": base})
            # ---- the matrix ----------------------------------------------------------
            if use_solver:
                # post-condition: independent source rows used map exactly onto their namesakes
                if o[0] == "ok" and kind in ("orthonormal", "independent"):
                    Tm = np.asarray(o[1])
                    used = [k for k in (src_keys if requested is None else requested) if k in src_before and k in tgt_after]
                    rep.case(("solver", repr(base)), nontrivial=len(used) >= 2)
                    rep.count("solver-exact-map")
                    for kk in used:
                        if not np.allclose(Tm @ src[kk].v, tgt[kk].v, atol=1e-8):
                            rep.violation(f"least-squares transform does not map source key {kk} onto the target's {kk}",
                                          {"case": base, "python": PRE + "assert False, 'solver transform does not map independent source entries exactly'\n"})
                continue
            if o[0] == "ok":
                tafter_vecs = [[int(round(x)) for x in tgt[k].v] for k in tgt_after]
                ob = f"(TObs {algs.enc_mat(o[1])} {c.b(warned)})"
                cta = coq_entries(tgt_after, tafter_vecs) if all(k in NAMES for k in tgt_after) else "[]"
            else:
                ob = "TObsKeyError" if o[0] == "KeyError" else "TObsOther"
                cta = coq_entries(tgt_before, tvecs)
            # a non-strict source that gained the absent key is the recorded finding; the matrix is then compared
            # against the model of a source that does not hold the key (strict semantics: KeyError) only for strict sources
            add(f"check_transform {c.nat(d_from)} {c.nat(d_to)} {coq_entries(src_keys, svecs)} {cta} "
                f"{c.lst([str(NAMES.index(k)) for k in tgt_before])} {creq} {cpop} {c.b(strict)} (1%Z, 100000000%Z) {ob}",
                dict(base, op="matrix", observed=repr(o)[:300], warned=warned), ("matrix", repr(base)),
                nontrivial=len(set(src_keys) & set(tgt_keys)) >= 2,
                sample={k: base[k] for k in ("alg", "kind", "src_keys", "tgt_keys", "populate", "requested")} if populate is None and req == "subset" and kind == "orthonormal" else None)
            # ---- translate on fixed pointers and typed symbols ---------------------------
            if o[0] == "ok" and populate is not True and src_keys:
                Tm = [[int(round(x)) for x in row] for row in np.asarray(o[1])]
                if np.allclose(np.asarray(o[1]), np.array(Tm)):
                    p = src[src_keys[0]]
                    with warnings.catch_warnings():
                        warnings.simplefilter("ignore")
                        tr = c.outcome(lambda: p.translate(tgt, populate=populate, keys=requested))
                        ts = c.outcome(lambda: PointerSymbol(src_keys[0], TVocabulary(src)).translate(tgt, populate=populate, keys=requested))
                    for nm, r in (("translate-pointer", tr), ("translate-symbol", ts)):
                        if r[0] != "ok":
                            rep.violation(f"{nm} raised {r[0]} where transform_to succeeded", {"case": base, "observed": list(r[:2])})
                            continue
                        add(f"check_translate {c.zmat(Tm)} {c.zlist(svecs[0])} (1%Z, 100000000%Z) {algs.enc_vec(r[1].v)}",
                            dict(base, op=nm, observed=r[1].v.tolist()), (nm, repr(base)))
                        if r[1].vocab is not tgt:
                            rep.violation(f"{nm}: the translated pointer is not a pointer of the target vocabulary", {"case": base})

            # ---- translating a pointer into its OWN vocabulary is still the projection onto the requested keys ----
            if o[0] == "ok" and src_keys and not use_solver and populate is not True:
                with warnings.catch_warnings():
                    warnings.simplefilter("ignore")
                    keys_in_src = None if requested is None else [k for k in requested if k in src_keys]
                    t_self = c.outcome(lambda: src.transform_to(src, populate=populate, keys=keys_in_src))
                    p_self = c.outcome(lambda: src[src_keys[0]].translate(src, populate=populate, keys=keys_in_src))
                rep.case(("translate-self", repr(base)))
                rep.count("translate-into-own-vocabulary")
                if t_self[0] == "ok" and (p_self[0] != "ok" or not np.allclose(p_self[1].v, np.asarray(t_self[1]) @ src[src_keys[0]].v, atol=1e-9 * (1 + np.abs(np.asarray(t_self[1])).max() * 10))):
                    rep.violation(f"translate of a pointer into its own vocabulary (keys={keys_in_src}) is not transform_to(own vocabulary) applied to it",
                                  {"case": base, "python": "assert False, 'self-translation skips the projection'\n"})
            # ---- translate on a module output (dynamic node): the pending transform is the same matrix -------
            if o[0] == "ok" and populate is not True and not use_solver:
                import nengo
                from nengo_spa.connectors import as_ast_node
                with warnings.catch_warnings():
                    warnings.simplefilter("ignore")
                    with spa.Network():
                        td = c.outcome(lambda: as_ast_node(spa.State(src, subdimensions=1)).translate(tgt, populate=populate, keys=requested))
                        tf = c.outcome(lambda: spa.translate(spa.State(src, subdimensions=1), tgt, populate=populate, keys=requested))
                    if d_from == d_to or True:
                        def composed():
                            with spa.Network() as net2:
                                st = spa.State(src, subdimensions=1)
                                sink = spa.State(tgt, subdimensions=1)
                                spa.translate(~st if al != "AVtb" else st.rinv(), tgt, populate=populate, keys=requested) >> sink
                            conns = [cn for cn in net2.all_connections if cn.post_obj is sink.input and cn.pre_obj is st.output]
                            return np.asarray(conns[0].transform.init) if len(conns) == 1 else None
                        tc = c.outcome(composed)
                        rep.case(("translate-composed", repr(base)))
                        rep.count("translate-composed-with-inverse")
                        from nengo_spa.algebras.base import ElementSidedness as _E
                        Minv = A.get_inversion_matrix(d_from) if al != "AVtb" else A.get_inversion_matrix(d_from, sidedness=_E.RIGHT)
                        if tc[0] != "ok" or tc[1] is None or np.shape(tc[1]) != (d_to, d_from) or not np.allclose(tc[1], np.asarray(o[1]) @ Minv):
                            rep.violation(f"translate(~module) >> sink connects with a transform other than (translation matrix) . (inversion matrix) ({al}, {d_from}->{d_to})",
                                          {"case": base, "observed": None if tc[0] != "ok" or tc[1] is None else np.asarray(tc[1]).tolist(),
                                           "python": "assert False, 'nested transforms composed in the wrong order'\n"})
                for nm, r in (("translate-dynamic-node", td), ("translate-module", tf)):
                    rep.case((nm, repr(base)))
                    rep.count(nm)
                    if r[0] != "ok":
                        rep.violation(f"{nm} raised {r[0]} where transform_to succeeded", {"case": base, "observed": list(r[:2])})
                    elif not (np.shape(r[1].transform) == np.shape(o[1]) and np.allclose(r[1].transform, o[1])):
                        rep.violation(f"{nm}(keys={requested}, populate={populate}) does not use the matrix of transform_to with the same arguments",
                                      {"case": base, "observed": np.asarray(r[1].transform).tolist(), "expected_matrix": np.asarray(o[1]).tolist(),
                                       "python": "assert False, 'dynamic translate ignores an argument of transform_to'\n"})
                    elif getattr(getattr(r[1], "type", None), "vocab", None) is not tgt:
                        rep.violation(f"{nm}: the result is not typed with the target vocabulary", {"case": base})

    # ---------------- reinterpret / create_subset ---------------------------------------------
    for al in algs.ALGS:
        A = algs.alg_obj(al)
        d = 4
        v1, v2 = spa.Vocabulary(d, algebra=A), spa.Vocabulary(d, algebra=A)
        vh = spa.Vocabulary(d)
        v1.populate("A; B; C")
        for tgt, nm in ((v2, "same-algebra vocabulary"), (vh, "HRR vocabulary"), (None, "no vocabulary")):
            p = v1["A"]
            r = c.outcome(lambda: p.reinterpret(tgt))
            rep.case(("reinterpret", al, nm))
            rep.count("reinterpret")
            if r[0] != "ok":
                rep.violation(f"reinterpret({nm}) raised {r[0]}", {"case": {"alg": al}, "observed": list(r[:2])})
                continue
            q = r[1]
            want_alg = A if tgt is None else tgt.algebra
            ok = np.array_equal(q.v, p.v) and q.vocab is tgt and q.algebra is want_alg
            if not ok:
                key = "reinterpret-none-drops-algebra" if tgt is None and al != "AHrr" and q.algebra is not A else None
                rep.violation(f"reinterpret({nm}) of a {al} pointer: vector kept={np.array_equal(q.v, p.v)}, vocab ok={q.vocab is tgt}, "
                              f"algebra is {type(q.algebra).__name__} (expected {type(want_alg).__name__})",
                              {"case": {"alg": al, "target": nm}, "finding_key": key,
                               "python": PRE + f"from nengo_spa.algebras.vtb_algebra import VtbAlgebra\nv = spa.Vocabulary(4, algebra=VtbAlgebra()); v.populate('A')\n"
                               "q = v['A'].reinterpret(None)\nassert q.algebra is v.algebra, type(q.algebra).__name__\n"})
        # reinterpret on fixed pointers, typed symbols and module outputs, also into a vocabulary without keys
        from nengo_spa.ast.symbolic import PointerSymbol as _PS
        from nengo_spa.connectors import as_ast_node as _node
        from nengo_spa.types import TAnyVocabOfDim as _TD, TVocabulary as _TV
        v_empty = spa.Vocabulary(d, algebra=A, strict=False)
        for tgt, nm in ((v2, "same-algebra vocabulary"), (v_empty, "vocabulary without keys"), (None, "no vocabulary")):
            with spa.Network():
                objs = {"pointer": lambda: v1["A"].reinterpret(tgt), "typed symbol": lambda: _PS("A", _TV(v1)).reinterpret(tgt),
                        "dynamic node": lambda: _node(spa.State(v1, subdimensions=1)).reinterpret(tgt),
                        "module (function)": lambda: spa.reinterpret(spa.State(v1, subdimensions=1), tgt)}
                for kind_, fn in objs.items():
                    r = c.outcome(fn)
                    rep.case(("reinterpret-type", al, nm, kind_))
                    rep.count("reinterpret-type")
                    if r[0] != "ok":
                        rep.violation(f"reinterpret of a {kind_} into {nm} raised {r[0]}", {"case": {"alg": al}, "observed": list(r[:2])})
                        continue
                    t = r[1].type if hasattr(r[1], "type") else None
                    want = _TD(d) if tgt is None else _TV(tgt)
                    if kind_ == "pointer" and tgt is None:
                        ok = r[1].vocab is None
                    elif kind_ == "typed symbol" and tgt is None:
                        ok = not hasattr(t, "vocab")        # a symbol without vocabulary has no dimensionality either
                    else:
                        ok = t == want and (tgt is None or getattr(t, "vocab", None) is tgt)
                    if not ok:
                        rep.violation(f"reinterpret of a {kind_} into {nm} has type {t}, expected {want} ({al})",
                                      {"case": {"alg": al, "target": nm, "kind": kind_},
                                       "python": PRE + "v1 = spa.Vocabulary(16); v1.populate('A'); v2 = spa.Vocabulary(16)\nwith spa.Network():\n"
                                                 "    r = spa.reinterpret(spa.State(v1), v2)\nassert r.type.vocab is v2, r.type\n"})
                    if kind_ in ("dynamic node", "module (function)") and not np.array_equal(np.asarray(r[1].transform), np.eye(d)):
                        rep.violation(f"reinterpret of a {kind_} applies a transform other than the identity", {"case": {"alg": al, "target": nm}})
        for strict in (True, False):
            vs = spa.Vocabulary(d, algebra=A, strict=strict)
            vs.populate("A; B; C")
            sub = c.outcome(lambda: vs.create_subset(["A", "C"]))
            rep.case(("subset", al, strict))
            rep.count("create_subset")
            if sub[0] != "ok":
                rep.violation(f"create_subset raised {sub[0]}", {"case": {"alg": al}})
                continue
            s = sub[1]
            ok = (list(s.keys()) == ["A", "C"] and np.array_equal(s["A"].v, vs["A"].v) and np.array_equal(s["C"].v, vs["C"].v)
                  and s.algebra is vs.algebra and s.dimensions == vs.dimensions and s["A"].vocab is s)
            vs.populate("D")
            s.populate("E")
            ok = ok and "D" not in s and "E" not in vs and list(vs.keys()) == ["A", "B", "C", "D"]
            if not ok:
                rep.violation("create_subset does not hold the same vectors under the same keys with the same algebra, independent of the original",
                              {"case": {"alg": al, "strict": strict}})

    # ---- populate left unspecified (the argument is omitted): every entry point warns about the missing keys and adds nothing ----
    from nengo_spa.connectors import as_ast_node as _aan
    for al in algs.ALGS:
        A = algs.alg_obj(al)
        dd = 4
        s_ = spa.Vocabulary(dd, algebra=A, pointer_gen=np.random.RandomState(3))
        s_.populate("A; B")
        entry = {
            "source.transform_to(target)": lambda t: s_.transform_to(t),
            "source['A'].translate(target)": lambda t: s_["A"].translate(t),
            "spa.translate(source['A'], target)": lambda t: spa.translate(s_["A"], t),
            "PointerSymbol('A', TVocabulary(source)).translate(target)": lambda t: PointerSymbol("A", TVocabulary(s_)).translate(t),
            "spa.translate(PointerSymbol('A', TVocabulary(source)), target)": lambda t: spa.translate(PointerSymbol("A", TVocabulary(s_)), t),
            "spa.translate(State(source), target)": lambda t: spa.translate(spa.State(s_, subdimensions=1), t),
            "as_ast_node(State(source)).translate(target)": lambda t: _aan(spa.State(s_, subdimensions=1)).translate(t),
        }
        for label, fn in entry.items():
            t_ = spa.Vocabulary(dd, algebra=A, pointer_gen=np.random.RandomState(4))
            t_.populate("A")
            with warnings.catch_warnings(record=True) as rec:
                warnings.simplefilter("always")
                with spa.Network():
                    o = c.outcome(lambda: fn(t_))
            warned = any(issubclass(w.category, NengoWarning) for w in rec)
            rep.case(("populate-omitted", al, label))
            rep.count("populate-omitted")
            if o[0] != "ok" or not warned or list(t_.keys()) != ["A"]:
                rep.violation(f"{label} with populate omitted and key B missing in the target: raised={o[0] if o[0] != 'ok' else None}, "
                              f"warned={warned}, target keys afterwards {list(t_.keys())} (expected: a warning, keys unchanged) ({al})",
                              {"case": {"alg": al, "entry_point": label},
                               "python": PRE + "from nengo.exceptions import NengoWarning\nsource = spa.Vocabulary(16); source.populate('A; B')\n"
                               "target = spa.Vocabulary(16); target.populate('A')\nwith warnings.catch_warnings(record=True) as rec:\n    warnings.simplefilter('always')\n"
                               "    with spa.Network():\n        " + label.replace("as_ast_node", "spa.connectors.as_ast_node").replace("State(", "spa.State(") + "\n"
                               "assert any(issubclass(w.category, NengoWarning) for w in rec), 'no warning about the missing key'\nassert list(target.keys()) == ['A']\n"})

    _sv = lambda dd_, i_: [((i_ + 1) * (j_ + 2) * 7 + i_ * i_) % 11 - 5 for j_ in range(dd_)]  # noqa
    # ---- a subset is a vocabulary of its own: whatever keys were selected, growing one never shows in the other ------------------
    for al in algs.ALGS:
        for sel in (["A", "B", "Cc"], ["A"], ["Cc", "A"], ["B", "Cc"]):
            A = algs.alg_obj(al)
            voc = spa.Vocabulary(4, algebra=A, pointer_gen=np.random.RandomState(1))
            for i, k in enumerate(["A", "B", "Cc"]):
                voc.add(k, np.array(_sv(4, i), float))
            sub = voc.create_subset(sel)
            rep.case(("subset-independent", al, tuple(sel)))
            rep.count("subset-independent")
            problems = []
            if list(sub.keys()) != sel or not all(np.array_equal(sub[k].v, voc[k].v) for k in sel):
                problems.append(f"subset holds {list(sub.keys())}")
            sub.add("New1", np.array(_sv(4, 5), float))
            if list(voc.keys()) != ["A", "B", "Cc"] or len(voc) != 3 or len(voc.vectors) != 3 or "New1" in voc:
                problems.append(f"adding to the subset changed the original: keys {list(voc.keys())}, len {len(voc)}")
            voc.add("New2", np.array(_sv(4, 6), float))
            if list(sub.keys()) != sel + ["New1"] or "New2" in sub or len(sub.vectors) != len(sel) + 1:
                problems.append(f"adding to the original changed the subset: keys {list(sub.keys())}")
            if problems:
                rep.violation(f"create_subset({sel}) of a vocabulary with keys A, B, Cc is not an independent vocabulary ({al}): " + "; ".join(problems),
                              {"case": {"alg": al, "keys": sel},
                               "python": "import numpy as np, nengo_spa as spa\nv = spa.Vocabulary(16); v.populate('A; B; Cc')\n"
                                         f"s = v.create_subset({sel!r}); s.populate('New1')\nassert list(v.keys()) == ['A', 'B', 'Cc'], list(v.keys())\n"
                                         f"v.populate('New2')\nassert list(s.keys()) == {sel + ['New1']!r}, list(s.keys())\n"})

    # ---- translation between vocabularies of different algebras: the result is a pointer of the target vocabulary ------------
    for al1 in algs.ALGS:
        for al2 in algs.ALGS:
            if al1 == al2:
                continue
            s2 = spa.Vocabulary(4, algebra=algs.alg_obj(al1))
            t2 = spa.Vocabulary(4, algebra=algs.alg_obj(al2))
            for i_, k_ in enumerate(["A", "B"]):
                s2.add(k_, np.array(_sv(4, i_), float))
                t2.add(k_, np.array(_sv(4, i_ + 3), float))
            Tm = sum(np.outer(t2[k_].v, s2[k_].v) for k_ in ("A", "B"))
            for label, fn in (("source['A'].translate(target)", lambda: s2["A"].translate(t2, populate=False)),
                              ("spa.translate(source['B'], target)", lambda: spa.translate(s2["B"], t2, populate=False)),
                              ("PointerSymbol('A', TVocabulary(source)).translate(target).evaluate()", lambda: PointerSymbol("A", TVocabulary(s2)).translate(t2, populate=False).evaluate())):
                o = c.outcome(fn)
                src_v = s2["B"].v if "'B'" in label else s2["A"].v
                rep.case(("translate-across-algebras", al1, al2, label))
                rep.count("translate-across-algebras")
                if o[0] != "ok" or o[1].vocab is not t2 or o[1].algebra is not t2.algebra or not np.allclose(o[1].v, Tm @ src_v, atol=1e-9):
                    rep.violation(f"{label} from a {al1} into a {al2} vocabulary: " + (f"raised {o[0]}: {str(o[1])[:80]}" if o[0] != "ok" else
                                  f"vocabulary is target: {o[1].vocab is t2}, algebra is the target's: {o[1].algebra is t2.algebra}, value {np.round(o[1].v, 3).tolist()}"),
                                  {"case": {"from": al1, "to": al2, "entry_point": label}, "expected": (Tm @ src_v).tolist(),
                                   "python": PRE + algs.PRELUDE + f"source = spa.Vocabulary(4, algebra={algs.alg_py(al1)}); target = spa.Vocabulary(4, algebra={algs.alg_py(al2)})\n"
                                   "source.populate('A; B'); target.populate('A; B')\nr = source['A'].translate(target, populate=False)\nassert r.vocab is target and r.algebra is target.algebra\n"})
    verdicts = c.coq_eval("C13", "cases", IMPORTS, exprs, shard=150)
    for ok, m in zip(verdicts, meta):
        if ok:
            continue
        rep.violation(f"C13 {m['op']} deviates: {({k: m[k] for k in ('alg', 'kind', 'src_keys', 'tgt_keys', 'strict', 'populate', 'requested')})} observed {str(m.get('observed'))[:150]}",
                      {"case": {k: v for k, v in m.items() if k != "observed"}, "observed": str(m.get("observed"))[:600],
                       "python": PRE + "# see case for the two vocabularies and the call\nassert False, 'transform / translated vector / target keys differ from the specification'\n",
                       "expected": "Model/Translate.v"})

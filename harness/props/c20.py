"""C20 correspondence: similarity, text, pairs."""

import itertools

import numpy as np

from harness import algs
from harness import common as c

RULE = ("similarity: data shapes (d,), (1,d), (T,d) and a SemanticPointer x vocabulary given as Vocabulary, ndarray, list of "
        "arrays, list of SemanticPointers x with / without zero rows x normalize on/off, vocabularies of 0..8 keys; text: all "
        "(minimum <= maximum in {None, 0..4}) x threshold in {None, -1, 0, 0.0, 0.125, 0.5, 2} x terms in {None, subset, compound "
        "expressions} on vocabularies of 0..8 keys with dyadic vectors and engineered ties, output string compared "
        "character by character with the model (exact '%0.2f' rounding); pairs for 0..8 keys. Non-trivial: at least two "
        "keys; distinct = distinct (function, inputs).")
ASSUMPTIONS = ["vectors are dyadic rationals so that similarities and their two-decimal formatting are exact",
               "text(normalize=True) divides by an irrational norm and is only checked for its ordering properties, not its digits"]

IMPORTS = "Model.Examine Tie.Close Tie.ExamineTie"
PRE = "import numpy as np, nengo_spa as spa\nfrom nengo_spa.examine import similarity, text, pairs\nfrom nengo_spa.semantic_pointer import SemanticPointer\n"


def sobs(o, enc):
    if o[0] != "ok":
        return "SErr"
    try:
        return f"(SVal {enc(o[1])})"
    except Exception:  # noqa
        return "SErr"


def run(rep, tier, rng):
    import nengo_spa as spa
    from nengo_spa.examine import pairs, similarity, text
    from nengo_spa.semantic_pointer import SemanticPointer

    quick = tier == "quick"
    exprs, meta = [], []

    def add(expr, m, key, nontrivial=True, sample=None):
        exprs.append(expr)
        meta.append(m)
        rep.case(key, nontrivial, sample)
        rep.count(m["op"])

    d = 4
    T = "(1%Z, 100000000%Z)"
    names = ["A", "B", "C", "D", "E", "F", "G", "H"]
    # ---------------- similarity ----------------------------------------------------------
    for n in ([0, 1, 3, 8] if quick else range(0, 9)):
        for zero_row in (False, True):
            vecs = [algs.rand_vec(rng, d, -3, 3) for _ in range(n)]
            if zero_row and n:
                vecs[rng.randrange(n)] = [0] * d
            voc = spa.Vocabulary(d)
            for k, v in zip(names, vecs):
                voc.add(k, algs.fl(v))
            forms = {"Vocabulary": voc, "ndarray": np.array(vecs, dtype=float).reshape(n, d),
                     "list-of-arrays": [algs.fl(v) for v in vecs], "list-of-pointers": [SemanticPointer(algs.fl(v)) for v in vecs]}
            datas = {"(d,)": [algs.rand_vec(rng, d, -3, 3)], "(1,d)": [algs.rand_vec(rng, d, -3, 3)],
                     "(T,d)": [algs.rand_vec(rng, d, -3, 3) for _ in range(3)], "pointer": [algs.rand_vec(rng, d, -3, 3)]}
            if zero_row:
                datas["(T,d)"][1] = [0] * d
            for (fn, fv), (dn, dv), norm in itertools.product(forms.items(), datas.items(), (False, True)):
                if dn == "(d,)":
                    data = algs.fl(dv[0])
                elif dn == "pointer":
                    data = SemanticPointer(algs.fl(dv[0]))
                else:
                    data = np.array(dv, dtype=float)
                o = c.observe(lambda: similarity(data, fv, normalize=norm))
                single = dn in ("(d,)", "pointer")
                base = {"form": fn, "shape": dn, "normalize": norm, "n": n, "vectors": vecs, "data": dv, "obs": repr(o)[:200]}
                if n == 0 and fn != "Vocabulary" and fn != "ndarray":
                    # an empty list carries no dimensionality: any outcome but a wrong value is acceptable
                    rep.count("similarity-empty-list-unclaimed")
                    continue
                if single:
                    chk = "check_similarity_norm1" if norm else "check_similarity1"
                    add(f"{chk} {c.zmat(vecs)} {c.zlist(dv[0])} {T} {sobs(o, algs.enc_vec)}", dict(base, op="similarity"),
                        ("sim", fn, dn, norm, n, zero_row, tuple(map(tuple, vecs)), tuple(dv[0])), nontrivial=n >= 2,
                        sample={"vocab_form": fn, "data_shape": dn, "normalize": norm, "keys": n} if n == 3 and fn == "list-of-pointers" else None)
                else:
                    chk = "check_similarity_norm" if norm else "check_similarity"
                    add(f"{chk} {c.zmat(vecs)} {c.zmat(dv)} {T} {sobs(o, algs.enc_mat)}", dict(base, op="similarity"),
                        ("sim", fn, dn, norm, n, zero_row, tuple(map(tuple, vecs)), tuple(map(tuple, dv))), nontrivial=n >= 2)
                if o[0] == "ok" and np.isnan(np.asarray(o[1], dtype=float)).any():
                    rep.violation("similarity returned NaN", {"case": base})
                # cosines do not depend on magnitude: data scaled by 2^-60 (norm below machine epsilon), ndarray vocabulary scaled by 2^-55
                if norm and n and fn == "ndarray" and dn in ("(d,)", "(T,d)"):
                    data_s = data * 2.0 ** -60
                    voc_s = np.asarray(fv, dtype=float) * 2.0 ** -55
                    os_ = c.observe(lambda: similarity(data_s, voc_s, normalize=True))
                    if single:
                        add(f"check_similarity_norm1 {c.zmat(vecs)} {c.zlist(dv[0])} {T} {sobs(os_, algs.enc_vec)}", dict(base, op="similarity-tiny-magnitude", obs=repr(os_)[:200]),
                            ("sim-tiny", fn, dn, n, zero_row, tuple(map(tuple, vecs)), tuple(dv[0])), nontrivial=n >= 2)
                    else:
                        add(f"check_similarity_norm {c.zmat(vecs)} {c.zmat(dv)} {T} {sobs(os_, algs.enc_mat)}", dict(base, op="similarity-tiny-magnitude", obs=repr(os_)[:200]),
                            ("sim-tiny", fn, dn, n, zero_row, tuple(map(tuple, vecs)), tuple(map(tuple, dv))), nontrivial=n >= 2)

                # integer-typed data (one-hot / count vectors) against a vocabulary of non-integer vectors: exactly the dot products
                if n and not norm and fn in ("ndarray", "list-of-arrays", "list-of-pointers") and dn in ("(d,)", "(T,d)"):
                    data_i = np.asarray(dv[0] if single else dv, dtype=int)
                    quarter = {"ndarray": lambda: np.asarray(fv, dtype=float) * 0.25, "list-of-arrays": lambda: [np.asarray(x_) * 0.25 for x_ in fv],
                               "list-of-pointers": lambda: [SemanticPointer(x_.v * 0.25) for x_ in fv]}[fn]()
                    oi_ = c.outcome(lambda: similarity(data_i, quarter, normalize=False))
                    rep.case(("sim-int-data", fn, dn, n, zero_row, tuple(map(tuple, vecs))))
                    rep.count("similarity-integer-data")
                    if o[0] == "ok" and (oi_[0] != "ok" or not np.allclose(np.asarray(oi_[1], dtype=float), 0.25 * np.asarray(o[1], dtype=float), atol=1e-12)):
                        rep.violation(f"similarity of integer-typed data with a {fn} vocabulary of non-integer vectors is not the dot products",
                                      {"case": {"form": fn, "shape": dn, "vectors_times_4": vecs, "data": dv}, "observed": repr(oi_[1])[:200],
                                       "expected": (0.25 * np.asarray(o[1], dtype=float)).tolist(),
                                       "python": "import numpy as np\nfrom nengo_spa.examine import similarity\n"
                                                 f"data = np.array({dv[0] if single else dv!r}, dtype=int); voc = np.array({vecs!r}, float) * 0.25\n"
                                                 "assert np.allclose(similarity(data, voc), data @ voc.T), similarity(data, voc)\n"})
                # 32-bit data (e.g. probe data of a 32-bit simulation) and 32-bit vocabulary arrays: zero vectors still give 0, never NaN
                if n and fn in ("ndarray", "list-of-arrays") and dn in ("(d,)", "(T,d)"):
                    data32 = np.asarray(data, dtype=np.float32)
                    voc32 = np.asarray(fv, dtype=np.float32) if fn == "ndarray" else [np.asarray(x_, dtype=np.float32) for x_ in fv]
                    for which, dd_, vv_ in (("float32 data", data32, fv), ("float32 data and vocabulary", data32, voc32)):
                        o32 = c.observe(lambda: similarity(dd_, vv_, normalize=norm))
                        T32 = "(1%Z, 100000%Z)"
                        b32 = dict(base, op="similarity-" + which.replace(" ", "-"), obs=repr(o32)[:200])
                        if single:
                            add(f"{'check_similarity_norm1' if norm else 'check_similarity1'} {c.zmat(vecs)} {c.zlist(dv[0])} {T32} {sobs(o32, algs.enc_vec)}", b32,
                                ("sim32", which, fn, dn, norm, n, zero_row, tuple(map(tuple, vecs)), tuple(dv[0])), nontrivial=n >= 2)
                        else:
                            add(f"{'check_similarity_norm' if norm else 'check_similarity'} {c.zmat(vecs)} {c.zmat(dv)} {T32} {sobs(o32, algs.enc_mat)}", b32,
                                ("sim32", which, fn, dn, norm, n, zero_row, tuple(map(tuple, vecs)), tuple(map(tuple, dv))), nontrivial=n >= 2)
                        if o32[0] == "ok" and np.isnan(np.asarray(o32[1], dtype=float)).any():
                            rep.violation(f"similarity returned NaN for {which}", {"case": {k_: v_ for k_, v_ in b32.items() if k_ != "obs"},
                                          "python": "import numpy as np\nfrom nengo_spa.examine import similarity\n"
                                                    f"r = similarity(np.array({dv if not single else dv[0]!r}, dtype=np.float32), np.array({vecs!r}, dtype=np.float32), normalize={norm})\n"
                                                    "assert not np.isnan(r).any(), r\n"})

    # ---------------- text -----------------------------------------------------------------
    a = 2  # vectors are multiples of 1/4
    k = 2 * a
    counts = [(mn, mx) for mn in (None, 0, 1, 2, 4) for mx in (None, 0, 1, 2, 4) if mn is None or mx is None or mn <= mx]
    thresholds = [None, -1, 0, 0.0, 0.125, 0.5, 2]      # 0 is a threshold, not 'no threshold'
    for n in ([0, 1, 4, 8] if quick else range(0, 9)):
        for rep_i in range(1 if quick else 3):
            ivecs = [algs.rand_vec(rng, d, -6, 6) for _ in range(n)]
            if n >= 3:
                ivecs[2] = list(ivecs[0])          # engineered tie
            iv = algs.rand_vec(rng, d, -6, 6)
            voc = spa.Vocabulary(d)
            for nm, v in zip(names, ivecs):
                voc.add(nm, algs.fl(v) / 4.0)
            vptr = SemanticPointer(algs.fl(iv) / 4.0)
            term_sets = [None]
            if n >= 2:
                term_sets.append([names[1], names[0]])
                term_sets.append([f"{names[0]}*{names[1]}", names[1], f"{names[1]}+{names[0]}"])
                # more terms than the vocabulary has keys: every key plus compound terms (counts are counts of TERMS)
                term_sets.append(names[:n] + [f"{names[0]}*{names[1]}", f"{names[1]}+{names[0]}"])
            for terms in term_sets:
                if terms is None:
                    tvecs, tnames, sc = ivecs, names[:n], k
                else:
                    pv = [voc.parse(t).v for t in terms]
                    # parsed vectors are dyadic with denominator 16 (products) at most
                    tvecs = [[int(round(x * 16)) for x in v] for v in pv]
                    if any(abs(x * 16 - round(x * 16)) > 1e-9 for v in pv for x in v):
                        continue
                    tnames = terms
                    sc = None
                # a threshold that equals one of the similarities exactly (strictness of '>')
                kk0 = k if terms is None else 6
                simvals = sorted({sum(x * y for x, y in zip(tv, iv)) for tv in tvecs}) if tvecs else []
                ths = thresholds + ([simvals[len(simvals) // 2] / float(1 << kk0)] if simvals else [])
                for (mn, mx), th in itertools.product(counts, ths):
                    if quick and rng.random() < 0.5 and th in thresholds:
                        continue
                    o = c.observe(lambda: text(vptr, voc, minimum_count=mn, maximum_count=mx, threshold=th, terms=terms))
                    if terms is None:
                        kk, vv, vs = k, iv, tvecs
                    else:
                        # v scaled by 4, term vectors by 16 -> similarities by 64 = 2^6
                        kk, vv, vs = 6, iv, tvecs
                    cth = "None" if th is None else f"(Some {c.z(int(th * (1 << kk)))})"
                    add(f"check_text {kk} {c.opt(mn, str)} {c.opt(mx, str)} {cth} {c.zlist(vv)} {c.zmat(vs)} "
                        f"{c.lst([c.s(t) for t in tnames])} {sobs(o, c.s)}",
                        {"op": "text", "n": n, "min": mn, "max": mx, "threshold": th, "terms": terms, "v": iv, "vectors": ivecs,
                         "obs": repr(o)[:200]},
                        ("text", n, mn, mx, th, None if terms is None else tuple(terms), tuple(iv), tuple(map(tuple, ivecs))),
                        nontrivial=n >= 2,
                        sample={"keys": n, "minimum": mn, "maximum": mx, "threshold": th, "terms": terms, "output": o[1] if o[0] == "ok" else o[0]}
                        if n == 4 and mn == 1 and mx == 2 and th == 0.125 else None)
            # normalize=True normalises the queried vector only (the terms keep their length): digits compared for vectors
            # whose norm is a power of two
            if n >= 1:
                for raw, normed in (([2.0] + [0.0] * (d - 1), [4] + [0] * (d - 1)), ([1.0] * 4 + [0.0] * (d - 4), [2] * 4 + [0] * (d - 4)),
                                    ([0.0, -8.0] + [0.0] * (d - 2), [0, -4] + [0] * (d - 2))):
                    for (mn, mx, th) in ((n, None, None), (None, None, 0.125), (1, 2, 0)):
                        cth = "None" if th is None else f"(Some {c.z(int(th * (1 << k)))})"
                        # the queried vector as a Semantic Pointer, an ndarray, a list, a tuple: the same vector in every form
                        for vform, vmk in (("SemanticPointer", lambda: SemanticPointer(np.array(raw))), ("ndarray", lambda: np.array(raw)),
                                           ("list", lambda: list(raw)), ("tuple", lambda: tuple(raw))):
                            o = c.observe(lambda: text(vmk(), voc, minimum_count=mn, maximum_count=mx, threshold=th, normalize=True))
                            add(f"check_text {k} {c.opt(mn, str)} {c.opt(mx, str)} {cth} {c.zlist(normed)} {c.zmat(ivecs)} "
                                f"{c.lst([c.s(t) for t in names[:n]])} {sobs(o, c.s)}",
                                {"op": "text-normalize", "n": n, "min": mn, "max": mx, "threshold": th, "terms": None, "v": raw, "v_form": vform, "vectors": ivecs, "obs": repr(o)[:200]},
                                ("text-normalize", vform, n, mn, mx, th, tuple(raw), tuple(map(tuple, ivecs))), nontrivial=n >= 2)
            # ordering property with normalize=True (digits are not compared)
            if n >= 2:
                o = c.observe(lambda: text(vptr, voc, minimum_count=n, threshold=None, normalize=True))
                rep.case(("text-normalize", n, tuple(iv)))
                rep.count("text-normalize-ordering")
                if o[0] != "ok":
                    rep.violation(f"text(..., normalize=True) raised {o[0]}", {"case": {"n": n}, "observed": list(o[:2])})
                else:
                    vals = [float(x[:x.index(".") + 3]) for x in o[1].split(";")]
                    if any(vals[i] < vals[i + 1] for i in range(len(vals) - 1)):
                        rep.violation("text output is not in non-increasing similarity", {"case": {"n": n}, "observed": o[1]})

    # ---------------- pairs ----------------------------------------------------------------
    for n in range(0, 9):
        voc = spa.Vocabulary(16)
        if n:
            voc.populate(";".join(names[:n]))
        o = c.observe(lambda: sorted(pairs(voc)))
        obs = c.lst([c.s(x) for x in o[1]]) if o[0] == "ok" else "[]"
        add(f"check_pairs {c.lst([c.s(x) for x in names[:n]])} {obs}", {"op": "pairs", "n": n, "obs": repr(o)[:200]}, ("pairs", n),
            nontrivial=n >= 2)

    # pairs is a function of the vocabulary's current keys: repeated calls, growth in between, caller mutating the result
    voc = spa.Vocabulary(16)
    hist_names = []
    for step, nm in enumerate(names[:6]):
        voc.populate(nm)
        hist_names.append(nm)
        if step % 2:
            try:                       # a rejected addition (wrong dimensionality) in between leaves nothing behind
                voc.add("Z%d" % step, np.zeros(3))
            except Exception:  # noqa
                pass
        for rpt in range(2):
            o = c.observe(lambda: pairs(voc))
            obs = c.lst([c.s(x) for x in sorted(o[1])]) if o[0] == "ok" else "[]"
            add(f"check_pairs {c.lst([c.s(x) for x in hist_names])} {obs}", {"op": "pairs-after-growth", "n": len(hist_names), "obs": repr(o)[:200]},
                ("pairs-history", step, rpt), nontrivial=len(hist_names) >= 2)
            if o[0] == "ok" and isinstance(o[1], set):
                o[1].add("X*Y")       # a caller mutating its result must not affect later calls

    # similarity / text after a rejected addition to the vocabulary (wrong dimensionality, then a successful addition)
    for n in (2, 3):
        hvecs = [algs.rand_vec(rng, d, -3, 3) for _ in range(n + 1)]
        voc = spa.Vocabulary(d)
        for nm, v in zip(names[:n], hvecs):
            voc.add(nm, algs.fl(v))
        try:
            voc.add("Q", np.zeros(d + 1))
        except Exception:  # noqa
            pass
        voc.add(names[n], algs.fl(hvecs[n]))
        dv = algs.rand_vec(rng, d, -3, 3)
        o = c.observe(lambda: similarity(algs.fl(dv), voc))
        add(f"check_similarity1 {c.zmat(hvecs)} {c.zlist(dv)} {T} {sobs(o, algs.enc_vec)}",
            {"op": "similarity-after-rejected-add", "form": "Vocabulary", "n": n + 1, "vectors": hvecs, "data": dv, "obs": repr(o)[:200]},
            ("sim-after-rejected-add", n, tuple(map(tuple, hvecs)), tuple(dv)))
        o = c.observe(lambda: text(SemanticPointer(algs.fl(dv)), voc, minimum_count=n + 1, threshold=None))
        add(f"check_text 0 (Some {n + 1}) None None {c.zlist(dv)} {c.zmat(hvecs)} {c.lst([c.s(t) for t in names[:n + 1]])} {sobs(o, c.s)}",
            {"op": "text-after-rejected-add", "n": n + 1, "min": n + 1, "max": None, "threshold": None, "terms": None, "v": dv, "vectors": hvecs, "obs": repr(o)[:200]},
            ("text-after-rejected-add", n, tuple(map(tuple, hvecs)), tuple(dv)))

    verdicts = c.coq_eval("C20", "cases", IMPORTS, exprs, shard=300)
    for ok, m in zip(verdicts, meta):
        if ok:
            continue
        key = None
        ob = m["obs"]
        if m["op"] == "similarity" and m.get("form", "").startswith("list") and "ValueError" in ob:
            key = "similarity-list-input-numpy2"
        if m["op"] == "text" and m.get("terms") is not None and "ValueError" in ob:
            key = "similarity-list-input-numpy2"
        if m["op"] == "text" and m["n"] == 0 and "StopIteration" in ob:
            key = "text-empty-vocabulary-stopiteration"
        if m["op"] == "similarity" and m["n"] == 0 and "StopIteration" in ob:
            key = "text-empty-vocabulary-stopiteration"
        rep.violation(f"{m['op']} deviates from the specification: {({k: v for k, v in m.items() if k not in ('vectors', 'data', 'v', 'obs')})} -> {ob[:120]}",
                      {"case": {k: v for k, v in m.items() if k != "obs"}, "observed": ob, "finding_key": key,
                       "python": PRE + "# see case for the inputs\nassert False, 'similarity/text/pairs output differs from the true similarities'\n",
                       "expected": "Model/Examine.v"})

"""C17 correspondence: sign and abs of the three algebras."""

import numpy as np

from harness import algs
from harness import common as c

RULE = ("HRR: for every d up to the bound integer vectors from every boundary class of (dc, nyquist) in "
        "{<0, =0, >0}^2 (zero coefficients only where NumPy's rfft returns an exact zero for that vector), random "
        "vectors, products sign(bind(a,b)) with non-zero coefficients, abs, to_vector, through the algebra API and "
        "SemanticPointer.sign()/abs(). VTB/TVTB: matrices generated from congruence certificates V = L D L^T with all "
        "sign patterns of a non-singular D, the zero matrix, and non-symmetric matrices; predicates and abs. "
        "Non-trivial: non-zero vector; distinct = distinct (operation, algebra, vector).")
ASSUMPTIONS = [
    "LAPACK eigvalsh and NumPy rfft are observed through results only; VTB/TVTB classification in the model uses the "
    "congruence certificate supplied by the generator and re-verified inside Coq",
    "singular semi-definite matrices and inexact zero Fourier coefficients are outside the tie (float rounding decides them)",
]

PRED = ["is_positive", "is_negative", "is_zero", "is_indefinite"]


def preds(sign):
    return [bool(getattr(sign, p)()) for p in PRED]


def enc_preds(x):
    return c.lst([c.b(v) for v in x])


def hrr_vectors(rng, d):
    """Integer vectors covering the (dc, nyquist) classes."""
    out = []
    for _ in range(3):
        out.append(("random", algs.rand_vec(rng, d, -4, 4)))
    for sdc in (-1, 0, 1):
        for sny in (-1, 0, 1):
            for _ in range(2):
                v = algs.rand_vec(rng, d, -3, 3)
                # adjust dc
                dc = sum(v)
                v[0] += sdc * (abs(dc) + rng.randint(1, 3)) - dc if sdc else -dc
                if d % 2 == 0 and d >= 2:
                    ny = sum((-1) ** i * x for i, x in enumerate(v))
                    want = sny * rng.randint(1, 3) * 2 + (ny % 2 if sny else 0)
                    # change v[0], v[1] by +-delta keeping dc: v0 += t, v1 -= t changes ny by 2t
                    delta = (want - ny)
                    if sny == 0:
                        delta = -ny
                    if delta % 2:
                        continue
                    v[0] += delta // 2
                    v[1] -= delta // 2
                out.append((f"class{sdc}{sny}", v))
    if d == 2:
        out.append(("witness-dc0", [1, -1]))
        out.append(("witness-ny0", [1, 1]))
        out.append(("witness-ny0b", [0, 1]))
    out.append(("zero", [0] * d))
    out.append(("e0", algs.basis(d, 0)))
    if d > 1:
        out.append(("e1", algs.basis(d, 1)))
        out.append(("alt", [(-1) ** i for i in range(d)]))
    return out


def exact_ok(v):
    """Boundary cases are tied only when NumPy's rfft is exact on them."""
    f = np.fft.rfft(np.array(v, float))
    dc = sum(v)
    ny = sum((-1) ** i * x for i, x in enumerate(v)) if len(v) % 2 == 0 else 0
    ok = (f[0].real == dc) if dc == 0 else (np.sign(f[0].real) == np.sign(dc))
    if len(v) % 2 == 0:
        ok = ok and ((f[-1].real == ny) if ny == 0 else (np.sign(f[-1].real) == np.sign(ny)))
    return bool(ok)


def cert(rng, s, pattern):
    L = [[(1 if i == j else (rng.randint(-2, 2) if j < i else 0)) for j in range(s)] for i in range(s)]
    if pattern == "pos":
        D = [rng.randint(1, 3) for _ in range(s)]
    elif pattern == "neg":
        D = [-rng.randint(1, 3) for _ in range(s)]
    elif pattern == "zero":
        D = [0] * s
    elif pattern == "semi":          # singular, not zero: positive (or negative) semi-definite
        sg = rng.choice([-1, 1])
        D = [sg * rng.randint(1, 3) for _ in range(s)]
        D[rng.randrange(s)] = 0
        if not any(D):
            D[0] = sg
    elif pattern == "semi-mixed":    # singular with eigenvalues of both signs
        D = [2, 0, -1] + [rng.choice([-1, 0, 1]) for _ in range(s - 3)]
        rng.shuffle(D)
    else:
        D = [rng.choice([-1, 1]) * rng.randint(1, 3) for _ in range(s)]
        if s > 1:
            D[0], D[1] = abs(D[0]), -abs(D[1])
    Lm = np.array(L)
    V = Lm @ np.diag(D) @ Lm.T
    return L, D, V.astype(int)


def run(rep, tier, rng):
    import nengo_spa as spa
    from nengo_spa.semantic_pointer import SemanticPointer

    quick = tier == "quick"
    exprs, meta = [], []

    def add(expr, m, key, nontrivial=True, sample=None):
        exprs.append(expr)
        meta.append(m)
        rep.case(key, nontrivial, sample)
        rep.count(m["op"])

    def obs_t(o, enc):
        try:
            return c.obs_term(o, enc)
        except Exception:  # noqa
            return "(OExn OtherError)"

    H = algs.alg_obj("AHrr")
    for d in range(1, (33 if quick else 65)):
        for kind, v in hrr_vectors(rng, d):
            if not exact_ok(v):
                rep.count("skipped_inexact_fft")
                continue
            vf = algs.fl(v)
            o = c.observe(lambda: preds(H.sign(vf)))
            add(f"check_hrr_sign {c.zlist(v)} {obs_t(o, enc_preds)}",
                {"op": "hrr-sign", "alg": "AHrr", "v": v, "kind": kind, "obs": c.obs_json(o), "py": "preds(A.sign(v))"},
                ("hrr-sign", tuple(v)), nontrivial=any(v),
                sample={"op": "HrrAlgebra.sign", "v": v, "observed": c.obs_json(o)} if d == 4 and kind.startswith("class") else None)
            if o[0] != "ok":
                # property level: the sign must be total on valid vectors
                ny = sum((-1) ** i * x for i, x in enumerate(v)) if d % 2 == 0 else 0
                key = "hrr-sign-dc0-nyquist-nonzero" if (o[0] == "ValueError" and sum(v) == 0 and ny != 0) else None
                rep.violation(f"HrrAlgebra.sign raises {o[0]} on v={v} (dc={sum(v)}, nyquist={ny}): sign is not total",
                              {"case": {"v": v, "dc": sum(v), "nyquist": ny}, "observed": c.obs_json(o), "finding_key": key,
                               "python": algs.PRELUDE + f"v = np.array({v}, float)\ntry:\n    s = HrrAlgebra().sign(v)\nexcept Exception as e:\n    raise AssertionError('HrrAlgebra.sign is not total: ' + repr(e))\n"})
            # the sign does not depend on the magnitude: the same vector scaled by powers of two (exact in binary floating point)
            if o[0] == "ok" and d <= 16:
                for e2 in (-40, -30, 30):
                    osc = c.observe(lambda: preds(H.sign(vf * 2.0 ** e2)))
                    add(f"check_hrr_sign {c.zlist(v)} {obs_t(osc, enc_preds)}",
                        {"op": "hrr-sign-scaled", "alg": "AHrr", "v": v, "kind": f"{kind} * 2**{e2}", "obs": c.obs_json(osc), "py": f"preds(A.sign(v * 2.0 ** {e2}))"},
                        ("hrr-sign-scaled", tuple(v), e2), nontrivial=any(v))
            if d <= 12:
                oint = c.observe(lambda: preds(H.sign(np.array(v, dtype=int))))      # integer-typed array
                add(f"check_hrr_sign {c.zlist(v)} {obs_t(oint, enc_preds)}",
                    {"op": "hrr-sign-int-dtype", "alg": "AHrr", "v": v, "kind": kind, "obs": c.obs_json(oint), "py": "preds(A.sign(np.array(v, dtype=int)))"},
                    ("hrr-sign-int", tuple(v)), nontrivial=any(v))
            o2 = c.observe(lambda: preds(SemanticPointer(vf).sign()))
            add(f"check_hrr_sign {c.zlist(v)} {obs_t(o2, enc_preds)}",
                {"op": "sp-sign", "alg": "AHrr", "v": v, "kind": kind, "obs": c.obs_json(o2), "py": "preds(SemanticPointer(v).sign())"},
                ("sp-sign", tuple(v)), nontrivial=any(v))
            o3 = c.observe(lambda: H.sign(vf).to_vector(d))
            add(f"check_hrr_sign_vector {c.zlist(v)} (1%Z, 1000000000%Z) {obs_t(o3, algs.enc_vec)}",
                {"op": "hrr-sign-vector", "alg": "AHrr", "v": v, "kind": kind, "obs": c.obs_json(o3), "py": "A.sign(v).to_vector(d)"},
                ("hrr-sign-vector", tuple(v)), nontrivial=any(v))
            o4 = c.observe(lambda: H.abs(vf))
            add(f"check_hrr_abs {c.zlist(v)} {algs.tol_for(v, d=d)} {obs_t(o4, algs.enc_vec)}",
                {"op": "hrr-abs", "alg": "AHrr", "v": v, "kind": kind, "obs": c.obs_json(o4), "py": "A.abs(v)"},
                ("hrr-abs", tuple(v)), nontrivial=any(v))
            o5 = c.observe(lambda: SemanticPointer(vf).abs().v)
            add(f"check_hrr_abs {c.zlist(v)} {algs.tol_for(v, d=d)} {obs_t(o5, algs.enc_vec)}",
                {"op": "sp-abs", "alg": "AHrr", "v": v, "kind": kind, "obs": c.obs_json(o5), "py": "SemanticPointer(v).abs().v"},
                ("sp-abs", tuple(v)), nontrivial=any(v))
        # sign of a binding: operands with non-zero coefficients (so float results are far from 0)
        vs = [v for _, v in hrr_vectors(rng, d) if sum(v) != 0 and (d % 2 or sum((-1) ** i * x for i, x in enumerate(v)) != 0)]
        for _ in range(3 if quick else 8):
            if len(vs) < 2:
                break
            a, bb = rng.choice(vs), rng.choice(vs)
            # model-side: the sign of the exact integer convolution
            conv = [sum(a[j] * bb[(i - j) % d] for j in range(d)) for i in range(d)]
            o = c.observe(lambda: preds(H.sign(H.bind(algs.fl(a), algs.fl(bb)))))
            add(f"check_hrr_sign {c.zlist(conv)} {obs_t(o, enc_preds)}",
                {"op": "hrr-sign-of-binding", "alg": "AHrr", "v": conv, "a": a, "b": bb, "obs": c.obs_json(o),
                 "py": "preds(A.sign(A.bind(a, b)))"},
                ("hrr-sign-of-binding", tuple(a), tuple(bb)))
            osm = c.observe(lambda: preds(H.sign(H.bind(algs.fl(a) * 2.0 ** -17, algs.fl(bb) * 2.0 ** -17))))
            add(f"check_hrr_sign {c.zlist(conv)} {obs_t(osm, enc_preds)}",
                {"op": "hrr-sign-of-binding-small-operands", "alg": "AHrr", "v": conv, "a": a, "b": bb, "obs": c.obs_json(osm),
                 "py": "preds(A.sign(A.bind(a * 2.0 ** -17, b * 2.0 ** -17)))"},
                ("hrr-sign-of-binding-small", tuple(a), tuple(bb)))

    # property level: the sign of a binding is the component-wise product of the operands' signs
    for d in range(1, (17 if quick else 33)):
        cand = [v for _, v in hrr_vectors(rng, d) if exact_ok(v)]
        pairs = [(rng.choice(cand), rng.choice(cand)) for _ in range(6 if quick else 12)]
        if d == 2:
            pairs.append(([1, 1], [0, 1]))
        for a, bb in pairs:
            conv = [sum(a[j] * bb[(i - j) % d] for j in range(d)) for i in range(d)]
            try:
                r = H.bind(algs.fl(a), algs.fl(bb))
                f = np.fft.rfft(r)
            except Exception:  # noqa
                r = f = None
            ny_c = sum((-1) ** i * x for i, x in enumerate(conv)) if d % 2 == 0 else 1
            if f is None or not exact_ok(conv) or (sum(conv) == 0 and f[0].real != 0) or (ny_c == 0 and f[-1].real != 0):
                rep.count("skipped_inexact_fft")
                continue
            try:
                sa, sb = H.sign(algs.fl(a)), H.sign(algs.fl(bb))
            except ValueError:
                continue  # the totality finding, reported above
            got = c.observe(lambda: (lambda s: (s.dc_sign, s.nyquist_sign))(H.sign(H.bind(algs.fl(a), algs.fl(bb)))))
            exp = (sa.dc_sign * sb.dc_sign, sa.nyquist_sign * sb.nyquist_sign)
            rep.case(("sign-product", tuple(a), tuple(bb)))
            rep.count("sign-product-property")
            if got[0] != "ok" or tuple(got[1]) != exp:
                ny = lambda v: sum((-1) ** i * x for i, x in enumerate(v)) if d % 2 == 0 else None
                key = None
                if got[0] == "ok" and d % 2 == 0 and (ny(a) == 0 or ny(bb) == 0) and sum(a) != 0 and sum(bb) != 0:
                    key = "hrr-sign-zero-nyquist-not-multiplicative"
                elif got[0] == "ValueError" and sum(conv) == 0:
                    key = "hrr-sign-dc0-nyquist-nonzero"
                rep.violation(f"HRR sign(bind(a,b)) = {got[1] if got[0] == 'ok' else got[0]} is not the component-wise product {exp} of sign(a), sign(b) for a={a}, b={bb}",
                              {"case": {"a": a, "b": bb}, "observed": c.obs_json(got) if got[0] != "ok" else list(got[1]), "expected": list(exp),
                               "finding_key": key,
                               "python": algs.PRELUDE + f"A = HrrAlgebra(); a = np.array({a}, float); b = np.array({bb}, float)\n"
                               "sa, sb, s = A.sign(a), A.sign(b), A.sign(A.bind(a, b))\n"
                               "assert (s.dc_sign, s.nyquist_sign) == (sa.dc_sign * sb.dc_sign, sa.nyquist_sign * sb.nyquist_sign), 'sign of a binding is not the product of the signs'\n"})

    for al in ("AVtb", "ATvtb"):
        A = algs.alg_obj(al)
        for s in range(1, (5 if quick else 8)):
            d = s * s
            for pattern in ["pos", "neg", "mixed", "zero"] * (2 if quick else 4) + ["nonsym"] * 2 + ["upper", "lower", "upper-diag"] + \
                    ["semi", "semi", "semi-mixed", "pos-rounded", "neg-rounded"]:
                if pattern in ("nonsym", "upper", "lower", "upper-diag"):
                    if s == 1:
                        continue
                    L = [[int(i == j) for j in range(s)] for i in range(s)]
                    D = [1] * s
                    V = np.array([[rng.randint(-3, 3) for _ in range(s)] for _ in range(s)])
                    if pattern == "upper":          # strictly upper triangular: an eigenvalue routine reading one triangle sees zeros
                        V = np.triu(np.abs(V) + 1, 1)
                    elif pattern == "lower":
                        V = np.tril(np.abs(V) + 1, -1)
                    elif pattern == "upper-diag":   # positive diagonal plus an upper triangle: looks positive definite from below
                        V = np.triu(np.abs(V) + 1, 0)
                    if (V == V.T).all():
                        V[0, 1] += 1
                else:
                    if pattern in ("mixed", "semi") and s == 1:
                        continue
                    if pattern == "semi-mixed" and s < 3:
                        continue
                    if pattern.endswith("-rounded") and s == 1:
                        continue
                    L, D, V = cert(rng, s, pattern.split("-rounded")[0])
                v = [int(x) for x in V.flatten()]
                vf = algs.fl(v)
                if pattern.endswith("-rounded"):
                    # large magnitude, symmetric only up to rounding (a few ulps): still the definite matrix it is to 1e-12
                    D = [x * 10 ** 9 for x in D]
                    v = [x * 10 ** 9 for x in v]
                    noise = np.triu(np.array([[rng.choice([-2.0, -1.0, 1.0, 2.0]) for _ in range(s)] for _ in range(s)]), 1)
                    vf = (np.array(v, dtype=float).reshape(s, s) * (1.0 + 1e-13 * noise)).flatten()
                o = c.observe(lambda: preds(A.sign(vf)))
                add(f"check_sq_sign {c.zlist(v)} {c.zmat(L)} {c.zlist(D)} {obs_t(o, enc_preds)}",
                    {"op": "sq-sign", "alg": al, "v": v, "pattern": pattern, "L": L, "D": D, "obs": c.obs_json(o),
                     "py": "preds(A.sign(v))"},
                    ("sq-sign", al, tuple(v)), nontrivial=any(v),
                    sample={"op": f"{al}.sign", "v": v, "certificate": {"L": L, "D": D}, "observed": c.obs_json(o)} if s == 2 and pattern == "mixed" else None)
                voc = spa.Vocabulary(d, algebra=A)
                o2 = c.observe(lambda: preds(SemanticPointer(vf, vocab=voc).sign()))
                add(f"check_sq_sign {c.zlist(v)} {c.zmat(L)} {c.zlist(D)} {obs_t(o2, enc_preds)}",
                    {"op": "sp-sq-sign", "alg": al, "v": v, "pattern": pattern, "L": L, "D": D, "obs": c.obs_json(o2),
                     "py": "preds(SemanticPointer(v, vocab=spa.Vocabulary(d, algebra=A)).sign())"},
                    ("sp-sq-sign", al, tuple(v)), nontrivial=any(v))
                # a pointer without vocabulary keeps its algebra through sign() / abs()
                pnv = SemanticPointer(vf, algebra=A)
                oa = c.outcome(lambda: pnv.abs())
                rep.case(("sp-abs-keeps-algebra", al, tuple(v)))
                rep.count("sp-abs-keeps-algebra")
                if oa[0] == "ok" and not (oa[1].algebra is A and oa[1].vocab is None):
                    rep.violation(f"abs() of a vocabulary-less {al} pointer returns a pointer of algebra {type(oa[1].algebra).__name__}",
                                  {"case": {"alg": al, "v": v},
                                   "python": algs.PRELUDE + "from nengo_spa.semantic_pointer import SemanticPointer\n" + f"A = {algs.alg_py(al)}\n"
                                             f"p = SemanticPointer(np.array({v}, float), algebra=A)\nassert p.abs().algebra is A, type(p.abs().algebra).__name__\n"})
                if oa[0] == "ok":
                    oaa = c.outcome(lambda: oa[1].abs())
                    if oaa[0] != "ok" or not np.allclose(oaa[1].v, oa[1].v, atol=1e-9 * (1 + np.abs(oa[1].v).max())):
                        rep.violation(f"abs() is not idempotent on a vocabulary-less {al} pointer (v={v[:9]})", {"case": {"alg": al, "v": v}})
                # the pointer method computes the same absolute vector (or refuses the same way) as the algebra
                o3p = c.observe(lambda: pnv.abs().v)
                add(f"check_sq_abs {al} {c.zlist(v)} {c.zmat(L)} {c.zlist(D)} {algs.tol_for(v, d=d)} {obs_t(o3p, algs.enc_vec)}",
                    {"op": "sq-abs", "alg": al, "v": v, "pattern": pattern, "L": L, "D": D, "obs": c.obs_json(o3p), "py": "SemanticPointer(v, algebra=A).abs().v"},
                    ("sp-sq-abs", al, tuple(v)), nontrivial=any(v))
                vf_arg = np.array(vf, dtype=float)
                o3 = c.observe(lambda: A.abs(vf_arg))
                add(f"check_sq_abs {al} {c.zlist(v)} {c.zmat(L)} {c.zlist(D)} {algs.tol_for(v, d=d)} {obs_t(o3, algs.enc_vec)}",
                    {"op": "sq-abs", "alg": al, "v": v, "pattern": pattern, "L": L, "D": D, "obs": c.obs_json(o3), "py": "A.abs(v)"},
                    ("sq-abs", al, tuple(v)), nontrivial=any(v))
                rep.case(("sq-abs-operand-unchanged", al, tuple(v)))
                rep.count("abs-sign-leave-operand-unchanged")
                c.outcome(lambda: A.sign(vf_arg))
                if not np.array_equal(vf_arg, vf):
                    rep.violation(f"{al}.abs / sign modified the caller's array in place (v={v[:9]})",
                                  {"case": {"alg": al, "v": v}, "observed": vf_arg.tolist(),
                                   "python": algs.PRELUDE + f"A = {algs.alg_py(al)}\nv = np.array({v}, float); w = v.copy()\ntry:\n    A.abs(v)\nexcept NotImplementedError:\n    pass\n"
                                             "assert np.array_equal(v, w), 'abs changed its argument'\n"})

    verdicts = c.coq_eval("C17", "cases", algs.IMPORTS, exprs, shard=150)
    for ok, m in zip(verdicts, meta):
        if ok:
            continue
        key = None
        if m["op"] in ("hrr-sign", "sp-sign", "hrr-sign-vector", "hrr-abs", "sp-abs") and m["obs"].get("raised") == "ValueError":
            v = m["v"]
            if sum(v) == 0 and len(v) % 2 == 0 and sum((-1) ** i * x for i, x in enumerate(v)) != 0:
                key = "hrr-sign-dc0-nyquist-nonzero"
        P = algs.PRELUDE + "import nengo_spa as spa\nfrom nengo_spa.semantic_pointer import SemanticPointer\n" \
            f"A = {algs.alg_py(m['alg'])}\n" \
            "def preds(s): return [bool(getattr(s, p)()) for p in ('is_positive', 'is_negative', 'is_zero', 'is_indefinite')]\n"
        if "a" in m:
            P += f"a = np.array({m['a']}, float); b = np.array({m['b']}, float)\n"
        P += f"v = np.array({m['v']}, float); d = len(v)\n"
        snippet = P + f"try:\n    got = {m['py']}\nexcept Exception as e:\n    got = e\nprint(got)\n" \
            "assert not isinstance(got, Exception), 'sign/abs is not total: ' + repr(got)\n" \
            "assert sum(map(bool, got)) == 1 if isinstance(got, list) else True, 'sign predicates are not exactly one of positive/negative/zero/indefinite'\n" \
            f"assert False, 'C17 {m['op']} deviates from the documented sign (observed above)'\n"
        rep.violation(f"{m['alg']} {m['op']} deviates from the documented sign / abs on v={m['v'][:12]}",
                      {"case": {k: v for k, v in m.items() if k not in ("obs", "py")}, "operation": m["py"],
                       "observed": m["obs"], "python": snippet, "finding_key": key,
                       "expected": "Model/Hrr.v hrr_sign_of / Model/Sign.v (certificate classification)"})

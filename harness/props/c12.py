"""C12 correspondence: unitary vectors and binding powers."""

import numpy as np

from harness import algs
from harness import common as c

RULE = ("integer binding powers -6..6 of integer vectors (entries -2..2) for every d up to the bound and all three "
        "algebras, through the algebra API and SemanticPointer.__pow__, compared for equality with the model; "
        "make_unitary / SemanticPointer.unitary() / UnitaryVectors outputs relation-checked in Coq on their exact values "
        "(unitarity in the algebra's sense, fixed point of make_unitary, dot products preserved on integer partners on "
        "every supported side, inverse undoes binding); fractional exponents: outcome class for non-positive vectors, "
        "v^a * v^b = v^(a+b) on positive HRR vectors with a, b in [0,4]; fractional VTB/TVTB exponents raise ImportError "
        "without SciPy. Non-trivial: non-zero vector; distinct = distinct (operation, algebra, operands).")
ASSUMPTIONS = [
    "HRR make_unitary and fractional powers are relation-checked (not executable over a ring); NumPy FFT / solve observed through results",
    "SciPy is absent in this sandbox: the VTB/TVTB fractional-power and positive-vector paths raise ImportError (modelled as such)",
]


def run(rep, tier, rng):
    import nengo_spa as spa
    from nengo_spa.semantic_pointer import SemanticPointer
    from nengo_spa.vector_generation import UnitaryVectors

    quick = tier == "quick"
    exprs, meta = [], []

    def add(expr, m, key, nontrivial=True, sample=None):
        exprs.append(expr)
        meta.append(m)
        rep.case(key, nontrivial, sample)
        rep.count(m["op"])

    def obs_t(o, enc=algs.enc_vec):
        try:
            return c.obs_term(o, enc)
        except Exception:  # noqa
            return "(OExn OtherError)"

    REL = "(1%Z, 100000000%Z)"   # 1e-8 absolute for relation checks on unit-scale vectors
    for al in algs.ALGS:
        A = algs.alg_obj(al)
        dmax = (25 if quick else 64) if al == "AHrr" else (25 if quick else 49)
        for d in algs.dims_for(al, dmax):
            voc = spa.Vocabulary(d, algebra=A)
            # ---- integer powers, equality --------------------------------
            for _ in range(1 if quick else 3):
                v = algs.rand_vec(rng, d, -2, 2)
                if d > 12:  # keep sixth powers far inside 2^53
                    v = [x if rng.random() < 0.3 else 0 for x in v]
                for e in range(-6, 7):
                    if not quick or e in (-6, -3, -2, -1, 0, 1, 2, 3, 5):
                        vf = algs.fl(v)
                        big = max(1, max(abs(x) for x in v)) ** (abs(e) + 1) * d ** max(abs(e), 1)
                        tol = f"({c.z(big)}, 1000000000%Z)"
                        o = c.observe(lambda: A.binding_power(vf, e))
                        add(f"check_power {al} {c.zlist(v)} {c.b(e < 0)} {c.nat(abs(e))} {tol} {obs_t(o)}",
                            {"op": "power", "alg": al, "v": v, "e": e, "obs": c.obs_json(o), "py": f"A.binding_power(v, {e})"},
                            ("power", al, tuple(v), e), nontrivial=any(v),
                            sample={"op": "binding_power", "alg": al, "v": v, "exponent": e, "observed": c.obs_json(o)} if d == 4 and e == 3 else None)
                        if d <= 9 and abs(e) <= 3:
                            # the exponent given as NumPy integer / integral float / NumPy float
                            for ename, ev in (("np.int64", np.int64(e)), ("float", float(e)), ("np.float64", np.float64(e))):
                                oe = c.observe(lambda: A.binding_power(vf, ev))
                                if oe[0] == "ValueError" and ename != "np.int64" and e < 0 and al != "AHrr":
                                    continue      # VTB / TVTB refuse non-integer *types* for negative exponents only through the sign gate: not claimed
                                add(f"check_power {al} {c.zlist(v)} {c.b(e < 0)} {c.nat(abs(e))} {tol} {obs_t(oe)}",
                                    {"op": "power-exponent-" + ename, "alg": al, "v": v, "e": e, "obs": c.obs_json(oe), "py": f"A.binding_power(v, {ename}({e}))"},
                                    ("power-exp", ename, al, tuple(v), e), nontrivial=any(v))
                            oi = c.observe(lambda: A.binding_power(np.array(v, dtype=int), e))     # integer-typed array
                            add(f"check_power {al} {c.zlist(v)} {c.b(e < 0)} {c.nat(abs(e))} {tol} {obs_t(oi)}",
                                {"op": "power-int-dtype", "alg": al, "v": v, "e": e, "obs": c.obs_json(oi), "py": f"A.binding_power(np.array(v, dtype=int), {e})"},
                                ("power-int", al, tuple(v), e), nontrivial=any(v))
                        o2 = c.observe(lambda: (SemanticPointer(vf, vocab=voc) ** e).v)
                        add(f"check_power {al} {c.zlist(v)} {c.b(e < 0)} {c.nat(abs(e))} {tol} {obs_t(o2)}",
                            {"op": "sp-power", "alg": al, "v": v, "e": e, "obs": c.obs_json(o2),
                             "py": f"(SemanticPointer(v, vocab=spa.Vocabulary(len(v), algebra=A)) ** {e}).v"},
                            ("sp-power", al, tuple(v), e), nontrivial=any(v))
                        # a vocabulary-less pointer with an explicit algebra: the power stays in that algebra, so binding it on gives
                        # the next power (for e >= 1; the result's own algebra is what the further binding uses)
                        pf = SemanticPointer(vf, algebra=A)
                        o3 = c.observe(lambda: (pf ** e).v)
                        add(f"check_power {al} {c.zlist(v)} {c.b(e < 0)} {c.nat(abs(e))} {tol} {obs_t(o3)}",
                            {"op": "sp-power", "alg": al, "v": v, "e": e, "obs": c.obs_json(o3),
                             "py": f"(SemanticPointer(v, algebra=A) ** {e}).v"},
                            ("sp-power-novocab", al, tuple(v), e), nontrivial=any(v))
                        if o3[0] == "ok":
                            rp = pf ** e
                            rep.case(("sp-power-algebra", al, tuple(v), e))
                            rep.count("sp-power-keeps-algebra")
                            if rp.algebra is not A or rp.vocab is not None:
                                rep.violation(f"{al}: SemanticPointer(v, algebra=A) ** {e} is a pointer of algebra {type(rp.algebra).__name__}",
                                              {"case": {"alg": al, "v": v, "e": e},
                                               "python": algs.PRELUDE + f"from nengo_spa.semantic_pointer import SemanticPointer\nA = {algs.alg_py(al)}\n"
                                               f"p = SemanticPointer(np.array({v}, float), algebra=A)\nassert (p ** {e}).algebra is A, 'the power left the algebra'\n"
                                               f"assert np.allclose(((p ** 1) * p).v, A.bind(p.v, p.v)), 'binding a power on uses another algebra'\n"})
                            if e >= 1:
                                o4 = c.observe(lambda: (rp * pf).v)
                                add(f"check_power {al} {c.zlist(v)} false {c.nat(e + 1)} {tol} {obs_t(o4)}",
                                    {"op": "sp-power", "alg": al, "v": v, "e": e + 1, "obs": c.obs_json(o4),
                                     "py": f"((SemanticPointer(v, algebra=A) ** {e}) * SemanticPointer(v, algebra=A)).v"},
                                    ("sp-power-then-bind", al, tuple(v), e), nontrivial=any(v))
            # ---- the inherited default implementation (an algebra that does not override binding_power) ---------
            if al in ("AHrr", "ATvtb") and d <= 9:
                from nengo_spa.algebras.base import AbstractAlgebra
                Default = type("DefaultPower" + type(A).__name__, (type(A),), {"binding_power": AbstractAlgebra.binding_power})
                G = Default()
                for _ in range(2):
                    v = algs.rand_vec(rng, d, -2, 2)
                    for e in (-3, -2, -1, 0, 1, 2, 3):
                        big = max(1, max(abs(x) for x in v)) ** (abs(e) + 1) * d ** max(abs(e), 1)
                        og = c.observe(lambda: G.binding_power(algs.fl(v), e))
                        add(f"check_power {al} {c.zlist(v)} {c.b(e < 0)} {c.nat(abs(e))} ({c.z(big)}, 1000000000%Z) {obs_t(og)}",
                            {"op": "power-inherited-default", "alg": al, "v": v, "e": e, "obs": c.obs_json(og), "py": f"AbstractAlgebra.binding_power(A, v, {e})"},
                            ("power-default", al, tuple(v), e), nontrivial=any(v))
                    # the default supports integer exponents only: fractional ones are refused, never truncated
                    for ef in (0.5, 2.5, -1.5, np.float64(1.25)):
                        of = c.outcome(lambda: G.binding_power(algs.fl(v), ef))
                        rep.case(("power-default-fractional", al, tuple(v), float(ef)))
                        rep.count("power-inherited-default-fractional")
                        if of[0] != "ValueError":
                            rep.violation(f"the inherited default binding_power accepted the fractional exponent {ef!r} ({al}): {of[0]}",
                                          {"case": {"alg": al, "v": v, "e": float(ef)}, "observed": repr(of[1])[:200],
                                           "python": algs.PRELUDE + "from nengo_spa.algebras.base import AbstractAlgebra\n" + f"A = {algs.alg_py(al)}\n"
                                           f"try:\n    r = AbstractAlgebra.binding_power(A, np.array({v}, float), {float(ef)})\nexcept ValueError:\n    r = None\n"
                                           "assert r is None, ('fractional exponent accepted by the integer-only default', r)\n"})
            # ---- unitary vectors: relations on exact outputs --------------
            srcs = []
            for _ in range(2 if quick else 5):
                w = np.array([rng.gauss(0, 1) for _ in range(d)])
                srcs.append(("make_unitary", c.observe(lambda: A.make_unitary(w)), w))
            if al == "AHrr":
                # vectors with vanishing Fourier coefficients (zero, constant, alternating, ...): still made unitary
                specials = [np.zeros(d), np.ones(d), np.array([(-1.0) ** i for i in range(d)]), np.array([float(i == 0) - float(i == 2 % d) for i in range(d)]),
                            2.0 * np.eye(d)[0]]
                for wsp in specials:
                    srcs.append(("make_unitary-special", c.observe(lambda: A.make_unitary(wsp)), wsp))
                    srcs.append(("sp-unitary-special", c.observe(lambda: SemanticPointer(wsp, vocab=voc).unitary().v), wsp))
            if al != "AHrr" and d > 1:
                # matrices with a singular leading minor: make_unitary may refuse, but what it returns (finite) must be unitary
                sdim = int(round(d ** 0.5))
                sing = [np.fliplr(np.eye(sdim)).flatten(), np.roll(np.eye(sdim), 1, axis=1).flatten()]
                m0 = np.array([[rng.gauss(0, 1) for _ in range(sdim)] for _ in range(sdim)])
                m0[0, 0] = 0.0
                sing.append(m0.flatten())
                # structured matrices: lower triangular (rows already orthogonal in their right parts), block diagonal, tiny magnitude
                lt = np.tril(np.array([[rng.choice([-2.0, -1.0, 1.0, 2.0]) for _ in range(sdim)] for _ in range(sdim)]))
                blk = np.eye(sdim) + np.diag([1.0] * (sdim - 1), -1)
                sing += [lt.flatten(), blk.flatten(), (m0 + np.eye(sdim) * 3.0).flatten() * 2.0 ** -30]
                for wsp in sing:
                    with np.errstate(all="ignore"):
                        osp = c.observe(lambda: A.make_unitary(wsp))
                    if osp[0] == "ok" and np.all(np.isfinite(np.asarray(osp[1], dtype=float))):
                        srcs.append(("make_unitary-singular-minor", osp, wsp))
                    else:
                        rep.count("make_unitary-refused-or-nan")
            srcs.append(("sp-unitary", c.observe(lambda: SemanticPointer(w, vocab=voc).unitary().v), w))
            srcs.append(("UnitaryVectors", c.observe(lambda: next(UnitaryVectors(d, A, rng=np.random.RandomState(rng.randrange(10 ** 6))))), None))
            for nm, o, w in srcs:
                if o[0] != "ok":
                    rep.violation(f"{al} {nm} raised {o[0]} on a generic random vector (d={d})",
                                  {"case": {"alg": al, "d": d, "source": nm, "w": None if w is None else w.tolist()},
                                   "observed": c.obs_json(o), "python": algs.PRELUDE + f"A = {algs.alg_py(al)}\nA.make_unitary(np.array({None if w is None else w.tolist()}))\n"})
                    continue
                u = np.asarray(o[1], dtype=float)
                ut = algs.enc_vec(u)
                base = {"alg": al, "d": d, "source": nm, "u": u.tolist(), "w": None if w is None else w.tolist()}
                add(f"rel_unitary {al} {ut} {REL}", dict(base, op="unitary-relation"), ("unitary", al, d, nm, tuple(u)))
                u2 = c.observe(lambda: A.make_unitary(u))
                if u2[0] == "ok":
                    add(f"rel_close {ut} {algs.enc_vec(u2[1])} {REL}", dict(base, op="unitary-fixed-point"),
                        ("fixed-point", al, d, nm, tuple(u)))
                else:
                    rep.violation(f"{al} make_unitary of a unitary vector raised {u2[0]}", {"case": base, "observed": c.obs_json(u2)})
                x, y = algs.rand_vec(rng, d, -3, 3), algs.rand_vec(rng, d, -3, 3)
                sides = [False] if al == "AVtb" else [False, True]
                tolxy = f"({c.z(max(1, sum(abs(a) for a in x)) * max(1, sum(abs(a) for a in y)))}, 100000000%Z)"
                for left in sides:
                    add(f"rel_isometry {al} {ut} {c.zlist(x)} {c.zlist(y)} {c.b(left)} {tolxy}",
                        dict(base, op="isometry", x=x, y=y, left=left), ("isometry", al, d, nm, tuple(u), left))
                    add(f"rel_isometry {al} {ut} {c.zlist(x)} {c.zlist(x)} {c.b(left)} {tolxy}",
                        dict(base, op="norm-preserved", x=x, left=left), ("norm", al, d, nm, tuple(u), left))
                add(f"rel_unbind {al} {ut} {c.zlist(x)} {tolxy}", dict(base, op="inverse-undoes-binding", x=x),
                    ("unbind", al, d, nm, tuple(u)))
                # the implementation's own inverse and bind undo each other
                from nengo_spa.algebras.base import ElementSidedness as E
                rt = c.observe(lambda: A.bind(A.bind(algs.fl(x), u), A.invert(u, sidedness=E.RIGHT)))
                add(f"check_is {c.zlist(x)} {tolxy} {obs_t(rt)}", dict(base, op="impl-round-trip", x=x),
                    ("impl-round-trip", al, d, nm, tuple(u)))
            # ---- fractional exponents -------------------------------------
            v = algs.rand_vec(rng, d, -2, 2)
            o = c.observe(lambda: A.binding_power(algs.fl(v), 0.5))
            if al == "AHrr":
                try:
                    pos = A.sign(algs.fl(v)).is_positive()
                except ValueError:
                    pos = None
                rep.case(("frac-gate", al, tuple(v)))
                rep.count("fractional-gate")
                if pos is not None and ((o[0] == "ok") != bool(pos)) and not (o[0] == "ValueError" and not pos):
                    rep.violation(f"HRR fractional power accepted={o[0] == 'ok'} but sign positive={pos} for v={v}",
                                  {"case": {"v": v}, "observed": c.obs_json(o),
                                   "python": algs.PRELUDE + f"A = HrrAlgebra(); v = np.array({v}, float)\npos = A.sign(v).is_positive()\n"
                                   "try:\n    A.binding_power(v, 0.5); ok = True\nexcept ValueError:\n    ok = False\nassert ok == pos, 'fractional exponents must be accepted exactly for positive vectors'\n"})
            else:
                rep.case(("frac-gate", al, tuple(v)))
                rep.count("fractional-gate")
                if o[0] not in ("ImportError", "ModuleNotFoundError", "ValueError"):
                    # with SciPy absent the documented outcome is ImportError
                    rep.violation(f"{al} fractional power without SciPy gave {o[0]}", {"case": {"v": v}, "observed": c.obs_json(o)})
            if al == "AHrr":
                # positive vector: abs of a random vector with non-zero coefficients
                for _ in range(2 if quick else 6):
                    w = np.array([rng.gauss(0, 1) for _ in range(d)])
                    p = c.observe(lambda: A.abs(w / np.linalg.norm(w)))
                    if p[0] != "ok":
                        continue
                    pv = np.asarray(p[1])
                    a, bq = rng.choice([0, 0.5, 1, 1.25, 2.5]), rng.choice([0, 0.75, 1.5, 2])
                    pa = c.observe(lambda: A.binding_power(pv, a))
                    pb = c.observe(lambda: A.binding_power(pv, bq))
                    pab = c.observe(lambda: A.binding_power(pv, a + bq))
                    if "ok" == pa[0] == pb[0] == pab[0]:
                        add(f"rel_hrr_bind_eq {algs.enc_vec(pa[1])} {algs.enc_vec(pb[1])} {algs.enc_vec(pab[1])} (1%Z, 10000000%Z)",
                            {"op": "fractional-exponents-add", "alg": al, "d": d, "v": pv.tolist(), "a": a, "b": bq},
                            ("frac-add", d, tuple(pv), a, bq))
                    else:
                        rep.violation(f"HRR fractional power refused on a positive vector: {pa[0]}, {pb[0]}, {pab[0]}",
                                      {"case": {"v": pv.tolist(), "a": a, "b": bq}, "observed": [c.obs_json(pa), c.obs_json(pb), c.obs_json(pab)]})

    verdicts = c.coq_eval("C12", "cases", algs.IMPORTS, exprs, shard=60)
    for ok, m in zip(verdicts, meta):
        if ok:
            continue
        P = algs.PRELUDE + "import nengo_spa as spa\nfrom nengo_spa.semantic_pointer import SemanticPointer\n" + f"A = {algs.alg_py(m['alg'])}\n"
        if m["op"] in ("power", "sp-power"):
            snippet = P + f"v = np.array({m['v']}, float); e = {m['e']}\ngot = {m['py']}\n" \
                "w = A.invert(v, sidedness=ElementSidedness.RIGHT) if e < 0 else v\n" \
                "if e == 0:\n    exp = A.identity_element(len(v), sidedness=ElementSidedness.RIGHT)\nelse:\n    exp = w\n    for _ in range(abs(e) - 1):\n        exp = A.bind(exp, w)\n" \
                "print(got, exp)\nassert np.allclose(got, exp, atol=1e-6 * (1 + np.abs(exp).max())), 'binding power differs from repeated left-nested binding'\n"
        else:
            snippet = P + f"# relation {m['op']} failed on the vector u below (source: {m.get('source')})\nu = np.array({m.get('u', m.get('v'))})\n" \
                f"assert False, 'C12 relation {m['op']} does not hold for this output'\n"
        rep.violation(f"{m['alg']} {m['op']} does not hold (d={m.get('d', len(m.get('v', [])))})",
                      {"case": {k: v for k, v in m.items() if k not in ("obs", "py")}, "observed": m.get("obs"), "python": snippet,
                       "expected": "Model/Power.v (equality) or the unitarity / isometry / exponent-addition relation evaluated in Coq"})

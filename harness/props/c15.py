"""C15 correspondence: associative memories (transforms, Direct-mode value, selection idealisation)."""

import warnings

import numpy as np

from harness import algs
from harness import common as c

RULE = ("(a) exact part: for the three memory classes, mappings given as dict (value order different from key order, compound "
        "key / output expressions, hetero-associative with different input / output dimensionality), key sequence and "
        "'by-key', 1..6 keys, plus missing / empty / ill-typed mappings: the transforms of the input and output connection "
        "of the built network against the model (pairs from normalise), and the Direct-mode output of "
        "ThresholdingAssocMem (with and without default output) on basis and random integer inputs against the linear "
        "memory; (b) selection idealisation: seeded LIFRate runs of Thresholding / WTA / IA memories on orthonormal keys with "
        "inputs {clean key, scaled key below threshold, two-key mixtures 1.0/0.6, unrelated vector, zero}, thresholds "
        "0.3 / 0.5, 2 (thorough 5) seeds, against the ideal-unit memory (tolerance 0.15) and the default-output gate. "
        "Non-trivial: at least two keys and a non-zero input; distinct = distinct (class, mapping, input, seed).")
ASSUMPTIONS = ["key and output expressions are parsed by the real Vocabulary.parse (C10); the model starts from their vectors",
               "selection dynamics (lateral inhibition, accumulation) are not modelled: WTA / IA are compared with their intended steady state "
               "(one winner) on inputs with a clear winner; rate neurons are compared with ideal units at 0.15 absolute tolerance and "
               "utilities at least 0.1 away from the threshold"]
IMPORTS = algs.IMPORTS + " Model.AssocMem Tie.AssocTie"


def mapping_term(m):
    if m is None:
        return "MNone"
    if m == "by-key":
        return "MByKey"
    if isinstance(m, str):
        return "MOtherStr"
    if isinstance(m, tuple) and m[0] == "dict":
        return "(MDict %s)" % c.lst([f"({a}%nat, {b_}%nat)" for a, b_ in m[1]])
    return "(MSeq %s)" % c.lst([f"{a}%nat" for a in m[1]])


def transforms_of(am):
    import nengo
    K = V = None
    for conn in am.connections:
        if conn.pre_obj is am.input and conn.post_obj is am.selection.input:
            K = np.asarray(conn.transform.init if hasattr(conn.transform, "init") else conn.transform)
        if conn.pre_obj is am.selection.output and conn.post_obj is am.output:
            V = np.asarray(conn.transform.init if hasattr(conn.transform, "init") else conn.transform)
    return K, V


def run(rep, tier, rng):
    import nengo
    import nengo_spa as spa

    quick = tier == "quick"
    exprs, meta = [], []

    def add(expr, m, key, nontrivial=True, sample=None):
        exprs.append(expr)
        meta.append(m)
        rep.case(key, nontrivial, sample)
        rep.count(m["op"])

    CLASSES = {"ThresholdingAssocMem": (spa.ThresholdingAssocMem, {"threshold": 0.3}),
               "WTAAssocMem": (spa.WTAAssocMem, {"threshold": 0.3}),
               "IAAssocMem": (spa.IAAssocMem, {})}

    # ---------------- (a) exact part -----------------------------------------------------------------
    EXPRS = ["A", "B", "C", "D", "E", "F", "A*B", "A+B", "2*C", "B*~A", "A-D"]
    for trial in range(6 if quick else 30):
        d_in = rng.choice([4, 5, 8])
        d_out = rng.choice([d_in, 3, 6]) if trial % 2 else d_in
        hetero = trial % 2 == 1
        nkeys = rng.randint(1, 6)
        vin = spa.Vocabulary(d_in, pointer_gen=np.random.RandomState(1), strict=True)
        vout = spa.Vocabulary(d_out, pointer_gen=np.random.RandomState(2), strict=True) if hetero else vin
        names = "ABCDEF"[:max(nkeys, 2)]
        for n in names:
            vin.add(n, np.array(algs.rand_vec(rng, d_in, -2, 2) or [1], float))
            if hetero:
                vout.add(n, np.array(algs.rand_vec(rng, d_out, -2, 2), float))
        usable = [e for e in EXPRS if all(ch in names or not ch.isalpha() for ch in e)]
        with warnings.catch_warnings():
            warnings.simplefilter("ignore")
            inkeys = [np.round(vin.parse(e).v).astype(int).tolist() for e in usable]
            outkeys = [np.round(vout.parse(e).v).astype(int).tolist() for e in usable]
        nbase = len(names)
        forms = []
        ks = rng.sample(range(len(usable)), min(nkeys, len(usable)))
        vs = [rng.randrange(len(usable)) for _ in ks]
        forms.append((("dict", list(zip(ks, vs))), {usable[a]: usable[b_] for a, b_ in zip(ks, vs)}))
        perm = list(ks)
        rng.shuffle(perm)
        forms.append((("dict", list(zip(ks, perm))), {usable[a]: usable[b_] for a, b_ in zip(ks, perm)}))
        # a mapping need not be a dict instance: a read-only view, a UserDict
        import collections as _coll
        import types as _types
        forms.append((("dict", list(zip(ks, perm))), _types.MappingProxyType({usable[a]: usable[b_] for a, b_ in zip(ks, perm)})))
        forms.append((("dict", list(zip(ks, vs))), _coll.UserDict({usable[a]: usable[b_] for a, b_ in zip(ks, vs)})))
        forms.append((("seq", ks), [usable[a] for a in ks]))
        forms.append((("seq", ks), tuple(usable[a] for a in ks)))
        forms.append((("seq", ks), {usable[a]: None for a in ks}.keys()))          # any iterable of keys, e.g. a dict view
        # one-shot iterables: a generator expression, iter(list) (made afresh for every memory that is built)
        forms.append((("seq", ks), lambda ks=ks: (usable[a] for a in ks)))
        forms.append((("seq", ks), lambda ks=ks: iter([usable[a] for a in ks])))
        if not hetero:
            rk = ks + ks[:1] + ks[-1:]                     # a key sequence listing keys more than once
            forms.append((("seq", rk), [usable[a] for a in rk]))
        forms.append(("by-key", "by-key"))
        forms.append((None, None))
        forms.append(("other", "bykey"))
        forms.append((("dict", []), {}))
        forms.append((("seq", []), []))
        for mform, marg in forms:
            for cname, (cls, kw) in CLASSES.items():
                if cname != "ThresholdingAssocMem" and (quick and rng.random() < 0.5):
                    continue

                def build():
                    with spa.Network(seed=1) as net:
                        net.config[nengo.Ensemble].neuron_type = nengo.Direct()
                        am = cls(input_vocab=vin, output_vocab=vout if hetero else None, mapping=marg() if callable(marg) else marg, **kw)
                    return net, am
                with warnings.catch_warnings():
                    warnings.simplefilter("ignore")
                    o = c.outcome(build)
                # by-key uses the vocabulary's own keys (the first nbase entries of usable)
                ink = inkeys[:nbase] if mform == "by-key" else inkeys
                outk = outkeys[:nbase] if mform == "by-key" else outkeys
                base = {"class": cname, "d_in": d_in, "d_out": d_out, "hetero": hetero,
                        "mapping": (f"one-shot iterable over {[usable[a] for a in mform[1]]}" if callable(marg) else repr(marg))[:120]}
                if o[0] == "ok":
                    K, V = transforms_of(o[1][1])
                    obs = f"(AmOk {algs.enc_mat(K)} {algs.enc_mat(V)})"
                else:
                    obs = f"(AmExn {c.EXN.get(o[0], 'OtherError')})"
                    base["raised"] = [o[0], str(o[1])[:100]]
                add(f"check_am {c.b(hetero)} {c.lst([c.zlist(v) for v in ink])} {c.lst([c.zlist(v) for v in outk])} {mapping_term(mform)} "
                    f"(1%Z, 1000000000%Z) {obs}",
                    dict(base, op="transforms-pair-keys-with-outputs" if o[0] == "ok" else "mapping-rejected"),
                    ("am", cname, d_in, d_out, base["mapping"], tuple(map(tuple, inkeys))), nontrivial=o[0] != "ok" or len(K) >= 2,
                    sample=dict(base, input_transform=K.tolist(), output_transform=V.tolist()) if o[0] == "ok" and hetero and len(K) == 3 and cname == "WTAAssocMem" else None)
                if o[0] != "ok" or cname != "ThresholdingAssocMem" or not isinstance(mform, tuple) or mform[0] != "dict":
                    continue
                # Direct-mode value on basis and random inputs, with and without default output
                pairs = mform[1]
                ps = c.lst([f"({a}%nat, {b_}%nat)" for a, b_ in pairs])
                xs = [algs.basis(d_in, i) for i in range(d_in)] + [algs.rand_vec(rng, d_in, -3, 3) for _ in range(3)]
                for with_default in (False, True):
                    mp, mq = rng.choice([(1, 2), (3, 10), (1, 1), (2, 1)])      # min_activation_value = mp / mq
                    dn = rng.randrange(nbase)

                    def sim():
                        with spa.Network(seed=1) as net:
                            net.config[nengo.Ensemble].neuron_type = nengo.Direct()
                            am = cls(input_vocab=vin, output_vocab=vout if hetero else None, mapping=marg, **kw)
                            if with_default:
                                am.add_default_output(names[dn], mp / mq)
                            X = np.array(xs, float)
                            inp = nengo.Node(lambda t: X[min(len(xs) - 1, max(0, int(round(t / 0.001)) - 1))])
                            nengo.Connection(inp, am.input, synapse=None)
                            p = nengo.Probe(am.output, synapse=None)
                        with nengo.Simulator(net, progress_bar=False) as s:
                            # every connection inside has the default synapse: hold each input for 100 steps
                            return s, p
                    # hold each input constant long enough for the filtered connections to settle
                    def sim_hold():
                        out = []
                        with spa.Network(seed=1) as net:
                            net.config[nengo.Ensemble].neuron_type = nengo.Direct()
                            am = cls(input_vocab=vin, output_vocab=vout if hetero else None, mapping=marg, **kw)
                            if with_default:
                                am.add_default_output(names[dn], mp / mq)
                            X = np.array(xs, float)
                            hold = 150
                            inp = nengo.Node(lambda t: X[min(len(xs) - 1, max(0, (int(round(t / 0.001)) - 1) // hold))])
                            nengo.Connection(inp, am.input, synapse=None)
                            p = nengo.Probe(am.output, synapse=None)
                        with nengo.Simulator(net, progress_bar=False) as s:
                            s.run_steps(hold * len(xs))
                        return [s.data[p][hold * (i + 1) - 1] for i in range(len(xs))]
                    with warnings.catch_warnings():
                        warnings.simplefilter("ignore")
                        so = c.outcome(sim_hold)
                    if so[0] != "ok":
                        rep.violation(f"Direct-mode simulation of {cname} failed: {so[0]}: {str(so[1])[:100]}", {"case": base})
                        continue
                    for x, out in zip(xs, so[1]):
                        mag = max(1, max(abs(v) for v in x)) * 4 * d_in * 4 * len(pairs) * 4
                        tol = f"({c.z(mag)}, 100000000%Z)"
                        if with_default:
                            add(f"check_default_direct {c.z(mp)} {c.z(mq)} {d_out} {c.lst([c.zlist(v) for v in inkeys])} {c.lst([c.zlist(v) for v in outkeys])} {ps} "
                                f"{c.zlist(outkeys[dn])} {c.zlist(x)} {tol} {algs.enc_vec(out)}",
                                dict(base, op="direct-mode-value-with-default-output", x=x, observed=np.round(out, 6).tolist()),
                                ("direct-default", cname, repr(marg), tuple(x), mp, mq, tuple(map(tuple, inkeys))), nontrivial=any(x) and len(pairs) >= 2)
                        else:
                            add(f"check_memory_direct {d_out} {c.lst([c.zlist(v) for v in inkeys])} {c.lst([c.zlist(v) for v in outkeys])} {ps} {c.zlist(x)} {tol} {algs.enc_vec(out)}",
                                dict(base, op="direct-mode-value-is-the-linear-memory", x=x, observed=np.round(out, 6).tolist()),
                                ("direct", cname, repr(marg), tuple(x), tuple(map(tuple, inkeys))), nontrivial=any(x) and len(pairs) >= 2,
                                sample=dict(base, input=x, output=np.round(out, 4).tolist()) if hetero and len(pairs) >= 3 and not any(abs(v) > 1 for v in x) is False else None)

        # a non-strict output vocabulary that is still empty when the memory is built is an output vocabulary all the same
        for cname, (cls, kw) in CLASSES.items():
            vempty = spa.Vocabulary(rng.choice([3, 6]), pointer_gen=np.random.RandomState(4), strict=False)
            mp = {names[0]: "X0", names[-1]: "Y0"}
            with warnings.catch_warnings():
                warnings.simplefilter("ignore")
                o = c.outcome(lambda: cls(input_vocab=vin, output_vocab=vempty, mapping=mp, add_to_container=False, **kw))
            rep.case(("empty-output-vocab", trial, cname))
            rep.count("empty-nonstrict-output-vocabulary")
            if o[0] != "ok":
                rep.violation(f"{cname} with an empty non-strict output vocabulary raised {o[0]}: {str(o[1])[:100]}", {"case": {"class": cname}})
            else:
                am = o[1]
                K, V = transforms_of(am)
                want = np.array([vempty[mp[k]].v for k in mp]).T if all(v_ in vempty for v_ in mp.values()) else None
                if am.output_vocab is not vempty or am.output.size_in != vempty.dimensions or want is None or V is None or not np.allclose(V, want):
                    rep.violation(f"{cname}: an empty non-strict output vocabulary is not used as the output vocabulary (output size {am.output.size_in}, "
                                  f"vocabulary is the given one: {am.output_vocab is vempty})", {"case": {"class": cname, "d_out": vempty.dimensions}})
        # by-key with an output vocabulary lacking a key must not pair silently
        if hetero:
            vmiss = spa.Vocabulary(d_out, pointer_gen=np.random.RandomState(3), strict=True)
            vmiss.add(names[0], np.ones(d_out))
            with warnings.catch_warnings():
                warnings.simplefilter("ignore")
                o = c.outcome(lambda: spa.ThresholdingAssocMem(0.3, input_vocab=vin, output_vocab=vmiss, mapping="by-key", add_to_container=False))
            rep.case(("by-key-missing", trial))
            rep.count("by-key-missing-output-key")
            if o[0] == "ok" and len(names) > 1:
                rep.violation("'by-key' mapping accepted although the output vocabulary lacks a key of the input vocabulary", {"case": {"names": names}})

    # ---------------- (b) selection idealisation (rate neurons) ------------------------------------------
    d = 16
    SC = 10
    seeds = [1, 2] if quick else [1, 2, 3, 4, 5]
    for theta10 in ([3] if quick else [3, 5]):
        for nkeys in ([4] if quick else [2, 4, 6]):
            pos = rng.sample(range(d), nkeys + 1)
            keyv = [algs.basis(d, p) for p in pos[:nkeys]]
            dflt = algs.basis(d, pos[nkeys])
            perm = list(range(nkeys))
            rng.shuffle(perm)
            names = "ABCDEF"[:nkeys]
            voc = spa.Vocabulary(d, pointer_gen=np.random.RandomState(0), strict=True)
            for n, v in zip(names, keyv):
                voc.add(n, np.array(v, float))
            voc.add("DEF", np.array(dflt, float))
            marg = {names[i]: names[perm[i]] for i in range(nkeys)}
            pairs = [(i, perm[i]) for i in range(nkeys)]
            ps = c.lst([f"({a}%nat, {b_}%nat)" for a, b_ in pairs])
            unrel = algs.basis(d, [p for p in range(d) if p not in pos][0])
            low = theta10 - 1       # below the threshold by 0.1
            inputs = {"clean-key": [SC * v for v in keyv[0]],
                      "clean-last-key": [SC * v for v in keyv[-1]],
                      "below-threshold": [low * v for v in keyv[0]],
                      "unrelated": [SC * v for v in unrel],
                      "zero": [0] * d}
            if nkeys >= 2:
                inputs["mixture-1.0-0.6"] = [SC * a + 6 * b_ for a, b_ in zip(keyv[0], keyv[1])]
                inputs["mixture-0.6-1.0"] = [6 * a + SC * b_ for a, b_ in zip(keyv[0], keyv[1])]
            if nkeys >= 2:
                # history (accumulator memory only): key 0 latched, a pulse on input_reset, then the clean key 1
                inputs["after-reset-pulse:clean-second-key"] = [SC * v for v in keyv[1]]
                # history (winner-take-all only): the other key alone first, then a mixture in which the first key is clearly stronger
                inputs["after-other-key:mixture-1.0-0.8"] = [SC * a + 8 * b_ for a, b_ in zip(keyv[0], keyv[1])]
            variants = list(CLASSES.items())
            # non-default strength of the lateral inhibition: a clean key still yields its paired output at its own strength
            variants += [("WTAAssocMem inhibit_scale=2.0", (spa.WTAAssocMem, {"threshold": 0.3, "inhibit_scale": 2.0})),
                         ("WTAAssocMem inhibit_scale=0.5", (spa.WTAAssocMem, {"threshold": 0.3, "inhibit_scale": 0.5}))]
            for cname, (cls, kw) in variants:
                kind = {"ThresholdingAssocMem": "KThreshold", "WTAAssocMem": "KWta", "IAAssocMem": "KIa"}[cname.split()[0]]
                kw = dict(kw)
                if "threshold" in kw:
                    kw["threshold"] = theta10 / 10.0
                for iname, x10 in inputs.items():
                    if "inhibit_scale" in cname and iname not in ("clean-key", "clean-last-key", "zero", "unrelated", "below-threshold"):
                        continue
                    if cname == "IAAssocMem" and iname == "below-threshold":
                        continue        # accumulators integrate any positive evidence: not claimed
                    if iname.startswith("after-reset-pulse") and cname != "IAAssocMem":
                        continue
                    if iname.startswith("after-other-key") and cname != "WTAAssocMem":
                        continue
                    if cname == "ThresholdingAssocMem" and iname.startswith("mixture") and theta10 >= 6:
                        continue
                    for seed in seeds:
                        for with_default in (False, True):
                            def sim():
                                with spa.Network(seed=seed) as net:
                                    net.config[nengo.Ensemble].neuron_type = nengo.LIFRate()
                                    am = cls(input_vocab=voc, mapping=marg, **kw)
                                    if with_default:
                                        am.add_default_output("DEF", 0.3)
                                    if iname.startswith("after-reset-pulse"):
                                        first, second = np.array(keyv[0], float), np.array(x10, float) / SC
                                        inp = nengo.Node(lambda t: first if t < 0.25 else (np.zeros(d) if t < 0.4 else second))
                                        rst = nengo.Node(lambda t: 1.0 if 0.25 <= t < 0.35 else 0.0)
                                        nengo.Connection(rst, am.input_reset, synapse=None)
                                    elif iname.startswith("after-other-key"):
                                        other, mix = np.array(keyv[1], float), np.array(x10, float) / SC
                                        inp = nengo.Node(lambda t: other if t < 0.3 else mix)
                                    else:
                                        inp = nengo.Node(np.array(x10, float) / SC)
                                    nengo.Connection(inp, am.input, synapse=None)
                                    p = nengo.Probe(am.output, synapse=0.02)
                                with nengo.Simulator(net, progress_bar=False) as s:
                                    s.run(0.9 if iname.startswith("after-") else 0.5)
                                return s.data[p][-1]
                            with warnings.catch_warnings():
                                warnings.simplefilter("ignore")
                                so = c.outcome(sim)
                            base = {"class": cname, "threshold": theta10 / 10.0, "keys": nkeys, "input": iname, "seed": seed,
                                    "default": with_default, "mapping": marg}
                            if so[0] != "ok":
                                rep.violation(f"rate-neuron simulation of {cname} failed: {so[0]}: {str(so[1])[:100]}", {"case": base})
                                continue
                            out = np.asarray(so[1])
                            base["observed"] = np.round(out, 3).tolist()
                            kv = c.lst([c.zlist(v) for v in keyv])
                            key = (cname, theta10, nkeys, iname, seed, with_default, tuple(pos))
                            if not with_default:
                                add(f"check_selection {kind} {SC} {theta10} {d} {kv} {kv} {ps} {c.zlist(x10)} (15%Z, 100%Z) {algs.enc_vec(out)}",
                                    dict(base, op="selection-vs-ideal-units"), key, nontrivial=any(x10),
                                    sample=dict(base) if iname == "mixture-1.0-0.6" and seed == 1 and cname == "WTAAssocMem" else None)
                            else:
                                dcoef = float(np.dot(out, dflt))
                                present = dcoef > 0.5
                                if 0.15 < dcoef <= 0.5:
                                    rep.violation(f"{cname}: default output neither present nor absent (coefficient {dcoef:.2f}) for input {iname}", {"case": base})
                                    continue
                                add(f"check_default_gate {kind} {SC} {theta10} 3 10 {kv} {ps} {c.zlist(x10)} {c.b(present)}",
                                    dict(base, op="default-output-iff-nothing-active", default_coefficient=round(dcoef, 3)), ("gate",) + key, nontrivial=True)

    verdicts = c.coq_eval("C15", "cases", IMPORTS, exprs, shard=200)
    for ok, m in zip(verdicts, meta):
        if ok:
            continue
        what = {"transforms-pair-keys-with-outputs": "input / output transforms do not pair each key with its own output",
                "mapping-rejected": "mapping accepted / rejected differently from the model (or with another exception)",
                "direct-mode-value-is-the-linear-memory": "Direct-mode output differs from the sum of paired outputs weighted by similarity",
                "direct-mode-value-with-default-output": "Direct-mode output with default output differs from linear memory + (1 - sum/min_activation) * default",
                "selection-vs-ideal-units": "rate-neuron output differs from the ideal-unit memory by more than 0.15",
                "default-output-iff-nothing-active": "default output present / absent contrary to the ideal gate"}[m["op"]]
        desc = {k: v for k, v in m.items() if k in ("class", "mapping", "input", "seed", "threshold", "x", "raised", "default_coefficient")}
        rep.violation(f"{what}: {str(desc)[:200]} observed {str(m.get('observed'))[:80]}",
                      {"case": {k: v for k, v in m.items() if k != "observed"}, "observed": m.get("observed"),
                       "python": "# see harness/props/c15.py: build the memory with the recorded mapping / input / seed\nassert False, 'associative memory differs from its specification'\n",
                       "expected": "Model/AssocMem.v"})

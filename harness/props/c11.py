"""C11 correspondence: nengo_spa.types vs Model/Types.v, exhaustive."""

import itertools

from harness import common as c

RULE = ("exhaustive enumeration over the property's universe (scalar, any, any-of-d for 2-3 d, "
        "3-4 vocabularies with shared dimensionalities): all ordered pairs through the six "
        "comparison operators and hash, all tuples of length 1..4 through coerce_types; every "
        "operand position gets its own freshly constructed Type object. A case is non-trivial "
        "when it involves at least two distinct types; distinct = distinct (operation, operands).")
ASSUMPTIONS = ["a Vocabulary object is modelled by its allocation index; `is` on vocabularies = index equality"]

PRELUDE = """
import nengo_spa as spa
from nengo_spa.types import TScalar, TAnyVocab, TAnyVocabOfDim, TVocabulary, coerce_types
from nengo_spa.exceptions import SpaTypeError
import numpy as np
from nengo_spa.types import Type
DIMS = {dims}
VOCS = [spa.Vocabulary(d if i != 2 else np.int64(d)) for i, d in enumerate(DIMS)]
def mk(u):
    k, a = u
    return {{'s': lambda: TScalar, 's2': lambda: Type('TScalar'), 'a': lambda: TAnyVocab, 'd': lambda: TAnyVocabOfDim(int(str(a))),
            'v': lambda: TVocabulary(VOCS[a])}}[k]()
"""


def universe(tier):
    # 300: a dimensionality above CPython's small-integer cache (equal ints are then different objects); vocabulary 2 is created
    # with a NumPy integer dimensionality; "s2" is a scalar type equal to TScalar that is not the TScalar object itself
    dims = [16, 16, 32, 300] if tier == "quick" else [16, 16, 32, 300, 8]
    ds = sorted(set(dims))
    u = [("s", None), ("s2", None), ("a", None)] + [("d", d) for d in ds] + [("v", i) for i in range(len(dims))]
    return dims, u


def coq_ty(u):
    k, a = u
    return {"s": "TScalar", "s2": "TScalar", "a": "TAny", "d": f"(TAnyDim {a})", "v": f"(TVoc {a})"}[k]


def run(rep, tier, rng):
    import nengo_spa as spa
    from nengo_spa.exceptions import SpaTypeError
    from nengo_spa.types import TAnyVocab, TAnyVocabOfDim, TScalar, TVocabulary, coerce_types

    dims, U = universe(tier)
    import numpy as _np
    from nengo_spa.types import Type
    vocs = [spa.Vocabulary(d if i != 2 else _np.int64(d)) for i, d in enumerate(dims)]
    cdims = c.lst([str(d) for d in dims])

    def mk(u):
        k, a = u
        if k == "s":
            return TScalar
        if k == "s2":
            return Type("TScalar")
        if k == "a":
            return TAnyVocab
        if k == "d":
            return TAnyVocabOfDim(int(str(a)))       # a fresh int object (beyond the small-integer cache: a different object each time)
        return TVocabulary(vocs[a])

    exprs, meta = [], []
    # ---- comparisons and hash -------------------------------------------
    for ua, ub in itertools.product(U, U):
        a, bb = mk(ua), mk(ub)
        obs = [a == bb, a != bb, a < bb, a <= bb, a > bb, a >= bb]
        import numpy as _np2
        if not all(isinstance(o, bool) for o in obs):
            obs = [bool(o) if isinstance(o, (bool, _np2.bool_)) else None for o in obs]      # a NumPy bool is a truth value too
        exprs.append(f"check_cmp {cdims} {coq_ty(ua)} {coq_ty(ub)} {c.lst([c.b(o) for o in obs])}")
        meta.append(("cmp", ua, ub, obs))
        rep.case(("cmp", ua, ub), nontrivial=ua != ub, sample={"op": "compare", "a": ua, "b": ub, "observed": obs})
        rep.count("compare")
        ha, hb = c.outcome(lambda: hash(a)), c.outcome(lambda: hash(bb))
        if ha[0] == "ok" and hb[0] == "ok":
            exprs.append(f"check_hash {c.b(a == bb)} {c.b(ha[1] == hb[1])}")
            meta.append(("hash", ua, ub, (ha[1] == hb[1])))
            rep.case(("hash", ua, ub), nontrivial=ua != ub)
            rep.count("hash")
        else:
            rep.count("hash_unhashable")

    # ---- coerce_types -----------------------------------------------------
    tuples = []
    for n in range(1, 5):
        tuples.extend(itertools.product(range(len(U)), repeat=n))
    if tier == "thorough":
        for _ in range(3000):
            n = rng.randint(5, 9)
            tuples.append(tuple(rng.randrange(len(U)) for _ in range(n)))
    tuples.append(())
    for tup in tuples:
        objs = [mk(U[k]) for k in tup]
        try:
            res = coerce_types(*objs)
            pos = [i for i, o in enumerate(objs) if o is res]
            if pos:
                obs = f"(OOk {coq_ty(U[tup[pos[0]]])})"
                o_py = ("ok", U[tup[pos[0]]])
            else:  # a new object: must still equal a member; report by equality
                eqs = [i for i, o in enumerate(objs) if o == res]
                obs = f"(OOk {coq_ty(U[tup[eqs[0]]])})" if eqs else "OOther"
                o_py = ("ok-new-object", U[tup[eqs[0]]] if eqs else None)
        except SpaTypeError as e:
            msg = str(e)
            r = {"Different vocabularies": "DifferentVocabularies",
                 "Dimensionality mismatch": "DimensionalityMismatch",
                 "Incompatible types": "IncompatibleTypes"}.get(msg.split(":")[0])
            obs = f"(OErr {r})" if r else "OOther"
            o_py = ("SpaTypeError", msg.split(":")[0])
        except Exception as e:  # noqa
            obs = "OOther"
            o_py = (type(e).__name__, str(e))
        exprs.append(f"check_coerce {cdims} {c.lst([coq_ty(U[k]) for k in tup])} {obs}")
        meta.append(("coerce", [U[k] for k in tup], o_py))
        rep.case(("coerce", tup), nontrivial=len(set(tup)) > 1,
                 sample={"op": "coerce_types", "types": [U[k] for k in tup], "observed": o_py}
                 if len(tup) == 3 and len(set(tup)) == 3 else None)
        rep.count(f"coerce_len{min(len(tup), 5)}")
        rep.count("coerce_" + o_py[0])

    # ---- call history: one surviving type object, the other argument a temporary that is freed after each call ----
    # (CPython hands the next temporary the address of the previous one: an answer must depend on the types, never on
    # object identity of earlier arguments)
    def observe_pair(args, us):
        try:
            res = coerce_types(*args)
            eqs = [i for i, o in enumerate(args) if o is res] or [i for i, o in enumerate(args) if o == res]
            return (f"(OOk {coq_ty(us[eqs[0]])})" if eqs else "OOther"), ("ok", us[eqs[0]] if eqs else None)
        except SpaTypeError as e:
            msg = str(e)
            r = {"Different vocabularies": "DifferentVocabularies", "Dimensionality mismatch": "DimensionalityMismatch",
                 "Incompatible types": "IncompatibleTypes"}.get(msg.split(":")[0])
            return (f"(OErr {r})" if r else "OOther"), ("SpaTypeError", msg.split(":")[0])
        except Exception as e:  # noqa
            return "OOther", (type(e).__name__, str(e))
    for us in U:
        surv = mk(us)
        for rnd in range(2):
            others = list(U)
            rng.shuffle(others)
            for uo in others:
                for order in (0, 1):
                    utup = (uo, us) if order == 0 else (us, uo)
                    obs, o_py = observe_pair((mk(uo), surv) if order == 0 else (surv, mk(uo)), utup)
                    exprs.append(f"check_coerce {cdims} {c.lst([coq_ty(u) for u in utup])} {obs}")
                    meta.append(("coerce", list(utup), o_py))
                    rep.case(("coerce-temporary", us, uo, order, rnd), nontrivial=us != uo)
                    rep.count("coerce_with_temporaries")

    # ---- equality and hash of a vocabulary type do not depend on the vocabulary's current contents -----------
    import numpy as np
    import nengo_spa as spa
    from nengo_spa.types import TVocabulary
    for strict in (True, False):
        vg = spa.Vocabulary(16, strict=strict, pointer_gen=np.random.RandomState(5))
        t_before = TVocabulary(vg)
        hb = c.outcome(lambda: hash(t_before))
        if hb[0] != "ok":
            rep.violation(f"a vocabulary type is not hashable: hash(TVocabulary(v)) raised {hb[0]}: {str(hb[1])[:80]} (equal types must hash equally)",
                          {"case": {"strict": strict},
                           "python": "import nengo_spa as spa\nfrom nengo_spa.types import TVocabulary\nv = spa.Vocabulary(16)\nassert hash(TVocabulary(v)) == hash(TVocabulary(v))\n"})
            continue
        h_before = hb[1]
        table = {t_before: "found"}
        for step, nm in enumerate(["A", "B", "Cc"]):
            vg.populate(nm)
            t_after = TVocabulary(vg)
            rep.case(("hash-after-growth", strict, step))
            rep.count("hash_after_growth")
            ok_h = c.outcome(lambda: (t_after == t_before, hash(t_after) == h_before, table.get(t_after)))
            if ok_h[0] != "ok" or ok_h[1] != (True, True, "found"):
                rep.violation(f"the type of a vocabulary changes its equality / hash when the vocabulary grows: (equal, same hash, dict lookup) = {ok_h[1]}",
                              {"case": {"strict": strict, "keys_added": step + 1},
                               "python": "import nengo_spa as spa\nfrom nengo_spa.types import TVocabulary\nv = spa.Vocabulary(16)\nt = TVocabulary(v); h = hash(t); d = {t: 1}\n"
                                         "v.populate('A')\nassert TVocabulary(v) == t and hash(TVocabulary(v)) == h and TVocabulary(v) in d\n"})

    verdicts = c.coq_eval("C11", "cases", "Model.Types Tie.C11Tie", exprs, shard=1500)
    rep.exhaustive = True
    for ok, m in zip(verdicts, meta):
        if ok:
            continue
        pre = PRELUDE.format(dims=dims)
        if m[0] == "cmp":
            _, ua, ub, obs = m
            msg = f"comparison of {ua} and {ub} deviates from the documented order: observed {obs}"
            snippet = pre + f"a, b = mk({ua!r}), mk({ub!r})\nobs = [a == b, a != b, a < b, a <= b, a > b, a >= b]\nprint(obs)\n" \
                f"assert obs != {obs!r}, {msg!r}\n"
            rep.violation(f"comparison operators on {ua},{ub} deviate from the documented partial order",
                          {"case": {"a": ua, "b": ub}, "observed": obs, "python": snippet,
                           "expected": "Model/Types.v ty_eqb/ty_lt/... (proved = documented chains)"})
        elif m[0] == "hash":
            _, ua, ub, same = m
            snippet = pre + f"a, b = mk({ua!r}), mk({ub!r})\nassert not (a == b) or hash(a) == hash(b), 'equal types hash differently'\n"
            rep.violation(f"equal types {ua},{ub} hash differently",
                          {"case": {"a": ua, "b": ub}, "python": snippet})
        else:
            _, tys, o_py = m
            msg = f"coerce_types{tuple(tys)} gave {o_py}, not the least upper bound / documented error"
            snippet = pre + f"ts = [mk(u) for u in {tys!r}]\n" \
                "try:\n    r = coerce_types(*ts); obs = ('ok', [i for i, t in enumerate(ts) if t is r][:1])\n" \
                "except Exception as e:\n    obs = (type(e).__name__, str(e).split(':')[0])\nprint(obs)\n" \
                f"assert obs[0] != {o_py[0]!r} or (obs[0] == 'ok' and mk({o_py[1]!r}) != ts[obs[1][0]]) or (obs[0] != 'ok' and obs[1] != {o_py[1]!r}), {msg!r}\n"
            rep.violation(f"coerce_types on {tys} is not the least upper bound (observed {o_py})",
                          {"case": {"types": tys}, "observed": o_py, "python": snippet,
                           "expected": "Model/Types.v coerce_types (proved: greatest member or error)"})

"""C19 correspondence: vector generators (relation checks on every yielded vector)."""

import warnings

import numpy as np

from harness import algs
from harness import common as c

RULE = ("every vector yielded by UnitLengthVectors, ExpectedUnitLengthVectors, OrthonormalVectors (incl. exhaustion after d), "
        "AxisAlignedVectors, UnitaryVectors, VectorsWithProperties (all property sets, three algebras) and "
        "EquallySpacedPositiveUnitaryHrrVectors for d in a range up to 24 (thorough 64), n in 1..6 (16), offsets "
        "{0, 0.5, 1, 2.25, -1}: length, exact squared norm, pairwise dot products, unitarity in the algebra's sense, HRR sign, "
        "v_{j+1} = v_j * step and v_0 = v_{n-1} * step with step = v_1 * ~v_0, first vector = step ** offset; relations are "
        "evaluated in Coq on the exact (dyadic) outputs; same-seed reproducibility and different-seed difference. "
        "Non-trivial: every case (random draws); distinct = distinct (generator, d, parameters, index).")
ASSUMPTIONS = ["NumPy's RandomState is external: reproducibility is checked by re-running with an equal state, distribution claims are not made",
               "SciPy is absent: positive VTB/TVTB vectors raise ImportError (modelled as such)"]
IMPORTS = algs.IMPORTS


def run(rep, tier, rng):
    from nengo_spa import vector_generation as vg
    from nengo_spa.algebras.base import ElementSidedness as E

    quick = tier == "quick"
    exprs, meta = [], []
    REL = "(1%Z, 100000000%Z)"

    def add(expr, m, key, sample=None):
        exprs.append(expr)
        meta.append(m)
        rep.case(key, True, sample)
        rep.count(m["op"])

    ds = [1, 2, 3, 4, 5, 8, 9, 16, 24] if quick else list(range(1, 33)) + [36, 49, 64]
    H = algs.alg_obj("AHrr")
    for d in ds:
        seed = rng.randrange(10 ** 6)
        # ---- UnitLengthVectors / ExpectedUnitLengthVectors ---------------------------------
        g = vg.UnitLengthVectors(d, rng=np.random.RandomState(seed))
        g2 = vg.UnitLengthVectors(d, rng=np.random.RandomState(seed))
        g3 = vg.UnitLengthVectors(d, rng=np.random.RandomState(seed + 1))
        for j in range(3):
            v, v2, v3 = next(g), next(g2), next(g3)
            add(f"rel_unit_norm {algs.enc_vec(v)} {REL}", {"op": "unit-length", "d": d, "v": v.tolist()}, ("unit", d, seed, j),
                sample={"generator": "UnitLengthVectors", "d": d, "vector": v.tolist()} if d == 3 and j == 0 else None)
            rep.count("reproducibility")
            if len(v) != d or not np.array_equal(v, v2):
                rep.violation("UnitLengthVectors: wrong length or not reproducible from an equal random state", {"case": {"d": d, "seed": seed}})
            if d > 1 and np.array_equal(v, v3):
                rep.violation("UnitLengthVectors: a different seed gave the same vector", {"case": {"d": d, "seed": seed}})
        ge = vg.ExpectedUnitLengthVectors(d, rng=np.random.RandomState(seed))
        draws = np.random.RandomState(seed)
        for j in range(3):
            v = next(ge)
            gdraw = draws.randn(d)
            add(f"rel_scaled_draw {algs.enc_vec(v)} {algs.enc_vec(gdraw)} {d} {REL}", {"op": "expected-unit-length", "d": d, "v": v.tolist()},
                ("expected", d, seed, j))
        # ---- every way of consuming a generator yields the same vectors: next(g), g.next(), iteration ------------
        import itertools as _it
        factories = {"UnitLengthVectors": lambda r: vg.UnitLengthVectors(d, rng=r), "ExpectedUnitLengthVectors": lambda r: vg.ExpectedUnitLengthVectors(d, rng=r),
                     "OrthonormalVectors": lambda r: vg.OrthonormalVectors(d, rng=r), "AxisAlignedVectors": lambda r: vg.AxisAlignedVectors(d),
                     "UnitaryVectors(HRR)": lambda r: vg.UnitaryVectors(d, H, rng=r),
                     "VectorsWithProperties({'unitary'}, HRR)": lambda r: vg.VectorsWithProperties(d, {"unitary"}, H, rng=r)}
        for gname, fac in factories.items():
            nv = 1 if d == 1 else 2
            via_next = c.outcome(lambda: [np.array(next(g_)) for g_ in [fac(np.random.RandomState(seed))] for _ in range(nv)])
            via_iter = c.outcome(lambda: [np.array(v_) for v_ in _it.islice(iter(fac(np.random.RandomState(seed))), nv)])
            gm = fac(np.random.RandomState(seed))
            via_meth = c.outcome(lambda: [np.array(gm.next()) for _ in range(nv)]) if hasattr(gm, "next") else via_next
            rep.case(("entry-points", gname, d, seed))
            rep.count("generator-entry-points-agree")
            seqs = [via_next, via_iter, via_meth]
            if any(o_[0] != "ok" for o_ in seqs) or not all(len(o_[1]) == nv and all(np.array_equal(a_, b_) for a_, b_ in zip(o_[1], via_next[1])) for o_ in seqs):
                rep.violation(f"{gname}(d={d}): next(g), iteration and g.next() do not deliver the same vectors from equal random states",
                              {"case": {"generator": gname, "d": d, "seed": seed},
                               "observed": {k_: (o_[0] if o_[0] != "ok" else [np.round(x_, 4).tolist() for x_ in o_[1]]) for k_, o_ in zip(("next(g)", "iteration", "g.next()"), seqs)},
                               "python": "import numpy as np\nfrom nengo_spa import vector_generation as vg\nfrom nengo_spa.algebras.hrr_algebra import HrrAlgebra\n"
                                         f"d, seed, H = {d}, {seed}, HrrAlgebra()\nmk = lambda r: vg.{gname.split('(')[0]}" +
                                         ("(d)" if gname.startswith("Axis") else ("(d, H, rng=r)" if gname.startswith("Unitary") else ("(d, {'unitary'}, H, rng=r)" if gname.startswith("VectorsWith") else "(d, rng=r)"))) +
                                         "\na = next(mk(np.random.RandomState(seed)))\ng = mk(np.random.RandomState(seed))\nb = g.next() if hasattr(g, 'next') else next(g)\n"
                                         "assert np.array_equal(a, b), (a, b)\n"})
        # ---- OrthonormalVectors -------------------------------------------------------------
        if d <= (9 if quick else 24):
            go = vg.OrthonormalVectors(d, rng=np.random.RandomState(seed))
            vs = []
            for j in range(d + 2):
                try:
                    vs.append(next(go))
                except StopIteration:
                    break
            rep.case(("ortho-count", d))
            rep.count("orthonormal-exhaustion")
            if len(vs) != d:
                rep.violation(f"OrthonormalVectors({d}) yielded {len(vs)} vectors, expected exactly {d}", {"case": {"d": d}})
            for a in range(len(vs)):
                for b_ in range(a, len(vs)):
                    add(f"rel_dot {algs.enc_vec(vs[a])} {algs.enc_vec(vs[b_])} {1 if a == b_ else 0} {REL}",
                        {"op": "orthonormal", "d": d, "i": a, "j": b_}, ("ortho", d, seed, a, b_))
            # consumed in chunks / iterated twice: still at most d vectors in total, all mutually orthonormal, and retained vectors stay valid
            import itertools as _it
            go2 = vg.OrthonormalVectors(d, rng=np.random.RandomState(seed))
            first_chunk = [np.array(v) for v in _it.islice(go2, max(1, d // 2))]
            kept = [v for v in first_chunk]
            rest = []
            for v in go2:            # a second iter() on the same object
                rest.append(np.array(v))
            allv = kept + rest
            rep.case(("ortho-chunks", d))
            rep.count("orthonormal-chunked")
            G = np.array(allv) @ np.array(allv).T if allv else np.zeros((0, 0))
            if len(allv) != d or not np.allclose(G, np.eye(len(allv)), atol=1e-8):
                rep.violation(f"OrthonormalVectors({d}) consumed in two chunks yields {len(allv)} vectors that are not an orthonormal set of d",
                              {"case": {"d": d, "seed": seed},
                               "python": "import itertools, numpy as np\nfrom nengo_spa.vector_generation import OrthonormalVectors\n"
                                         f"g = OrthonormalVectors({d}, rng=np.random.RandomState(0)); a = list(itertools.islice(g, {max(1, d // 2)})); b = list(g)\n"
                                         f"M = np.array(a + b); assert len(M) == {d} and np.allclose(M @ M.T, np.eye({d}))\n"})
        # ---- AxisAlignedVectors ----------------------------------------------------------------
        ax = list(vg.AxisAlignedVectors(d))
        rep.case(("axis", d))
        rep.count("axis-aligned")
        if len(ax) != d or any(not np.array_equal(v, np.eye(d)[k]) for k, v in enumerate(ax)):
            rep.violation(f"AxisAlignedVectors({d}) are not the basis vectors in order", {"case": {"d": d}})

    # ---- UnitaryVectors / VectorsWithProperties -----------------------------------------------------
    for al in algs.ALGS:
        A = algs.alg_obj(al)
        for d in algs.dims_for(al, 16 if quick else 49):
            seed = rng.randrange(10 ** 6)
            gu = vg.UnitaryVectors(d, A, rng=np.random.RandomState(seed))
            gu_same = vg.UnitaryVectors(d, A, rng=np.random.RandomState(seed))
            gu_other = vg.UnitaryVectors(d, A, rng=np.random.RandomState(seed + 1))
            for j in range(2):
                v = next(gu)
                v_same, v_other = next(gu_same), next(gu_other)
                rep.count("reproducibility")
                if not np.array_equal(v, v_same):
                    rep.violation(f"UnitaryVectors({d}, {al}) is not reproducible from an equal random state", {"case": {"alg": al, "d": d, "seed": seed},
                                  "python": "assert False, 'generator ignores the random state it was given'\n"})
                if d > 4 and np.array_equal(v, v_other):      # small d: only finitely many unitary vectors (signs), collisions are expected
                    rep.violation(f"UnitaryVectors({d}, {al}): a different seed gave the same vector", {"case": {"alg": al, "d": d, "seed": seed}})
                add(f"rel_unitary {al} {algs.enc_vec(v)} {REL}", {"op": "unitary-generator", "alg": al, "d": d, "v": v.tolist()}, ("unitary", al, d, seed, j))
            for props in ([], ["unitary"], ["positive"], ["unitary", "positive"], ["bogus"], ["unitary", "bogus"], ["positive", "bogus"],
                          ["unitary", "positive", "bogus"]):
                with warnings.catch_warnings(record=True) as rec:
                    warnings.simplefilter("always")
                    gen_box = []

                    def first():
                        gen_box.append(vg.VectorsWithProperties(d, set(props), A, rng=np.random.RandomState(seed)))
                        return next(gen_box[0])
                    o = c.outcome(first)
                warned = any("only positive unitary" in str(w.message) for w in rec)
                rep.case(("props", al, d, tuple(props)))
                rep.count("vectors-with-properties")
                want_err = "ValueError" if "bogus" in props else None
                if al != "AHrr" and props == ["positive"]:
                    want_err = "ImportError"
                if want_err:
                    if o[0] not in (want_err, "ModuleNotFoundError"):
                        rep.violation(f"create_vector({props}) for {al}: expected {want_err}, got {o[0]}", {"case": {"alg": al, "d": d, "props": props}})
                    continue
                if o[0] != "ok":
                    rep.violation(f"create_vector({props}) for {al} raised {o[0]}", {"case": {"alg": al, "d": d, "props": props}})
                    continue
                v = np.asarray(o[1])
                base = {"alg": al, "d": d, "props": props, "v": v.tolist()}
                # reproducible from the random state it was given
                with warnings.catch_warnings():
                    warnings.simplefilter("ignore")
                    o_same = c.outcome(lambda: next(vg.VectorsWithProperties(d, set(props), A, rng=np.random.RandomState(seed))))
                rep.count("reproducibility")
                if o_same[0] != "ok" or not np.array_equal(np.asarray(o_same[1]), v):
                    rep.violation(f"VectorsWithProperties({props}) for {al} (d={d}) is not reproducible from an equal random state",
                                  {"case": {"alg": al, "d": d, "props": props, "seed": seed}, "python": "assert False, 'generator ignores the random state it was given'\n"})
                if "unitary" in props and not (al != "AHrr" and "positive" in props):
                    add(f"rel_unitary {al} {algs.enc_vec(v)} {REL}", dict(base, op="property-unitary"), ("p-unitary", al, d, tuple(props)))
                if "positive" in props and al == "AHrr":
                    add(f"rel_hrr_positive {algs.enc_vec(v)} {REL}", dict(base, op="property-positive"), ("p-positive", al, d, tuple(props)))
                if not props:
                    add(f"rel_unit_norm {algs.enc_vec(v)} {REL}", dict(base, op="property-none-unit"), ("p-none", al, d))
                if al != "AHrr" and set(props) == {"unitary", "positive"}:
                    ident = A.identity_element(d, sidedness=E.RIGHT)
                    if not (np.allclose(v, ident) and warned):
                        rep.violation(f"{al} unitary+positive vector is not the identity with a warning", {"case": base})
                # the generator keeps its properties: later vectors have them too - also when the consumer modifies, in place, the
                # vectors it was handed before drawing the next one
                prev = v
                for later in (1, 2):
                    try:
                        prev *= -3.0
                        prev += 1.0
                    except (ValueError, TypeError):
                        pass
                    with warnings.catch_warnings():
                        warnings.simplefilter("ignore")
                        ol = c.outcome(lambda: next(gen_box[0]))
                    if ol[0] != "ok":
                        rep.violation(f"VectorsWithProperties({props}) for {al} raised {ol[0]} on vector number {later + 1}", {"case": base})
                        break
                    vl = np.asarray(ol[1])
                    bl = dict(base, v=vl.tolist(), index=later)
                    if "unitary" in props and not (al != "AHrr" and "positive" in props):
                        add(f"rel_unitary {al} {algs.enc_vec(vl)} {REL}", dict(bl, op="property-unitary-later-vector"), ("p-unitary", al, d, tuple(props), later))
                    if "positive" in props and al == "AHrr":
                        add(f"rel_hrr_positive {algs.enc_vec(vl)} {REL}", dict(bl, op="property-positive-later-vector"), ("p-positive", al, d, tuple(props), later))
                    if al != "AHrr" and set(props) == {"unitary", "positive"}:
                        rep.case(("p-identity-later", al, d, later))
                        rep.count("square-algebra-positive-unitary-later-vector")
                        if not np.allclose(vl, A.identity_element(d, sidedness=E.RIGHT)):
                            rep.violation(f"{al} unitary+positive vector number {later + 1} (d={d}) is not the identity after the consumer modified the previous one in place",
                                          {"case": bl, "python": algs.PRELUDE + "from nengo_spa import vector_generation as vg\n" + f"A = {algs.alg_py(al)}\n"
                                           f"g = vg.VectorsWithProperties({d}, {{'unitary', 'positive'}}, A, rng=np.random.RandomState(1))\nimport warnings; warnings.simplefilter('ignore')\n"
                                           "a = next(g); ref = a.copy()\ntry:\n    a *= -3.0\nexcept ValueError:\n    pass\nb = next(g)\nassert np.allclose(b, ref), b\n"})
                    prev = ol[1] if isinstance(ol[1], np.ndarray) else vl

    # ---- EquallySpacedPositiveUnitaryHrrVectors ------------------------------------------------------------
    for d in ([2, 3, 4, 5, 8, 16] if quick else list(range(2, 25)) + [32, 64]):
        for n in ([1, 2, 3, 6] if quick else range(1, 17)):
            for offset in ([0, 0.5, 2.25] if quick else [0, 0.5, 1, 2.25, -1]):
                o = c.outcome(lambda: list(vg.EquallySpacedPositiveUnitaryHrrVectors(d=d, n=n, offset=offset)))
                if o[0] != "ok":
                    rep.violation(f"EquallySpacedPositiveUnitaryHrrVectors(d={d}, n={n}, offset={offset}) raised {o[0]}", {"case": {"d": d, "n": n, "offset": offset}})
                    continue
                vs = o[1]
                base = {"d": d, "n": n, "offset": offset}
                if len(vs) != n or any(len(v) != d for v in vs):
                    rep.violation("wrong number or length of equally spaced vectors", {"case": base})
                    continue
                for j, v in enumerate(vs):
                    add(f"rel_unitary AHrr {algs.enc_vec(v)} {REL}", dict(base, op="spaced-unitary", j=j), ("sp-unitary", d, n, offset, j),
                        sample=dict(base, vector=np.round(v, 4).tolist()) if (d, n, j) == (4, 3, 1) and offset == 0.5 else None)
                    add(f"rel_hrr_positive {algs.enc_vec(v)} {REL}", dict(base, op="spaced-positive", j=j), ("sp-positive", d, n, offset, j))
                # the fixed step: from the first to the second vector (n >= 2), else the full turn
                if n >= 2:
                    step = H.bind(vs[1], H.invert(vs[0]))
                    for j in range(n):
                        nxt = vs[(j + 1) % n]
                        add(f"rel_hrr_bind_eq {algs.enc_vec(vs[j])} {algs.enc_vec(step)} {algs.enc_vec(nxt)} (1%Z, 10000000%Z)",
                            dict(base, op="spaced-step", j=j), ("sp-step", d, n, offset, j))
                    pass
                # the offset is measured in steps from the identity: offset 0 is the identity, one more unit of
                # offset is one more step, and offsets add under binding (all exact for a fixed base)
                G = lambda off: list(vg.EquallySpacedPositiveUnitaryHrrVectors(d=d, n=n, offset=off))  # noqa
                if offset == 0:
                    add(f"rel_close {algs.enc_vec(vs[0])} {algs.enc_vec(H.identity_element(d))} (1%Z, 10000000%Z)",
                        dict(base, op="spaced-offset-zero-is-identity"), ("sp-zero", d, n))
                nxt0 = G(offset + 1)[0]
                add(f"rel_close {algs.enc_vec(nxt0)} {algs.enc_vec(vs[1 % n])} (1%Z, 10000000%Z)",
                    dict(base, op="spaced-offset-unit-is-one-step"), ("sp-unit", d, n, offset))
                dbl = G(2 * offset)[0]
                add(f"rel_hrr_bind_eq {algs.enc_vec(vs[0])} {algs.enc_vec(vs[0])} {algs.enc_vec(dbl)} (1%Z, 10000000%Z)",
                    dict(base, op="spaced-offsets-add"), ("sp-add", d, n, offset))

    # ---- exactly n vectors of length d for every (d, n, offset) of a dense grid ---------------------------------
    for d in range(2, 41 if quick else 65):
        for n in range(1, 21 if quick else 33):
            for offset in (0, 0.3, 0.7, 2, 3):
                rep.count("spaced-count")
                try:
                    k = sum(1 for v in vg.EquallySpacedPositiveUnitaryHrrVectors(d=d, n=n, offset=offset) if len(v) == d)
                except Exception as e:  # noqa
                    k = type(e).__name__
                if k != n:
                    rep.case(("sp-count", d, n, offset))
                    rep.violation(f"EquallySpacedPositiveUnitaryHrrVectors(d={d}, n={n}, offset={offset}) yielded {k} vectors of length d, expected {n}",
                                  {"case": {"d": d, "n": n, "offset": offset},
                                   "python": "from nengo_spa.vector_generation import EquallySpacedPositiveUnitaryHrrVectors as G\n"
                                             f"assert len(list(G(d={d}, n={n}, offset={offset}))) == {n}\n"})
    rep.case(("sp-count-grid", quick))

    verdicts = c.coq_eval("C19", "cases", IMPORTS, exprs, shard=120)
    for ok, m in zip(verdicts, meta):
        if not ok:
            rep.violation(f"generator property {m['op']} does not hold for {({k: v for k, v in m.items() if k not in ('v', 'op')})}",
                          {"case": m, "python": "assert False, 'a yielded vector lacks its advertised property'\n",
                           "expected": "relation evaluated in Coq (Tie/AlgTie.v rel_*)"})

"""C03 correspondence: the operand matrix and the history clause."""

import itertools

import numpy as np

from harness import algs
from harness import common as c

RULE = ("exhaustive matrix (regular operand values, and zero / unit-vector values for Semantic Pointer operands): operator {+,-,*,/,dot/@,compare,mse,>>} x left operand kind x right operand kind "
        "(SemanticPointer with/without vocabulary, PointerSymbol typed/untyped, dynamic pointer, dynamic scalar, number, bare "
        "array) x vocabulary relation (same, different same-d, different d, none) x algebra relation; observed: accepted "
        "(and SPA type / vocabulary identity of the result) or rejected with SpaTypeError/TypeError; compared in Coq with "
        "the type-level model (coerce_types + array gate + algebra gate). Histories: every order in which one "
        "vocabulary-less pointer meets up to three vocabularies (exhaustive up to length 3, thorough 4; random longer). "
        "Non-trivial: both operands typed; distinct = distinct cell.")
ASSUMPTIONS = ["cells the DSL does not implement for reasons unrelated to vocabularies (e.g. number + pointer, dynamic scaling) are 'free'",
               "array arguments to dot/compare/mse are documented as array_like and not claimed"]

IMPORTS = "Model.Types Model.Dispatch"
PRE = ("import numpy as np, warnings, nengo, nengo_spa as spa\nfrom nengo_spa.semantic_pointer import SemanticPointer\n"
       "from nengo_spa.ast.symbolic import PointerSymbol\nfrom nengo_spa.types import TVocabulary\n"
       "from nengo_spa.algebras.vtb_algebra import VtbAlgebra\nwarnings.simplefilter('ignore')\n")

DIMS = [16, 16, 32, 16, 16, 1, 1]   # vocabulary 3 uses VTB; vocabulary 4 has no keys (an empty vocabulary is falsy in Python); 5 and 6 are
# two different 1-dimensional vocabularies (a 1-d output must not be mistaken for a scalar)


def run(rep, tier, rng):
    import nengo
    import nengo_spa as spa
    from nengo_spa.ast.symbolic import PointerSymbol
    from nengo_spa.connectors import as_ast_node
    from nengo_spa.exceptions import SpaTypeError
    from nengo_spa.semantic_pointer import SemanticPointer
    from nengo_spa.types import TAnyVocab, TAnyVocabOfDim, TScalar, TVocabulary

    quick = tier == "quick"
    H, V = algs.alg_obj("AHrr"), algs.alg_obj("AVtb")
    vocs = [spa.Vocabulary(16, pointer_gen=np.random.RandomState(1)), spa.Vocabulary(16, pointer_gen=np.random.RandomState(2)),
            spa.Vocabulary(32, pointer_gen=np.random.RandomState(3)), spa.Vocabulary(16, algebra=V, pointer_gen=np.random.RandomState(4))]
    for v in vocs:
        v.populate("A; B")
    vocs.append(spa.Vocabulary(16, pointer_gen=np.random.RandomState(5), strict=False))      # stays empty
    for i_ in (6, 7):
        v1d = spa.Vocabulary(1, pointer_gen=np.random.RandomState(i_))
        v1d.populate("A")
        vocs.append(v1d)

    def mk_state(v):
        return spa.State(v) if v.dimensions >= 16 else spa.State(v, subdimensions=1)
    cdims = c.lst([str(d) for d in DIMS])

    # operand descriptors: (kind, vocab index or None, extra)
    operands = []
    for vi in range(4):
        operands += [("KSp", vi, None), ("KSym", vi, None), ("KDyn", vi, None)]
    # the empty vocabulary: a module of it, a typed symbol, and operands explicitly reinterpreted into it
    operands += [("KDyn", 4, None), ("KSym", 4, None), ("KSp", 4, "reint"), ("KDyn", 4, "reint"), ("KDyn", 1, "transcode-out")]
    # operands derived by a unary operation keep their vocabulary; outputs of modules with distinct input / output vocabularies
    operands += [("KSym", 0, "linv"), ("KSym", 1, "rinv"), ("KSym", 0, "inv"), ("KSym", 1, "neg"), ("KSym", 0, "normalized"),
                 ("KDyn", 0, "neg"), ("KDyn", 1, "inv"), ("KSp", 0, "neg"), ("KSp", 1, "inv"),
                 ("KDyn", 1, "assoc-out"), ("KDyn", 0, "bind-out"),
                 ("KDyn", 0, "sum"), ("KDyn", 1, "sum"), ("KDyn", 0, "scaled"), ("KDyn", 1, "scaled")]
    # 1-d vocabularies; a dynamic operand reinterpreted without a target vocabulary (type: any vocabulary of dimension 16);
    # a vocabulary-less pointer whose length is next to 16
    operands += [("KDyn", 5, None), ("KDyn", 6, None), ("KSp", 6, None), ("KDyn", None, "reint-none"), ("KSp", None, "hrr17")]
    # special pointers obtained from a vocabulary by name belong to that vocabulary; a connector declared again with another
    # vocabulary has the vocabulary of the last declaration
    operands += [("KSp", 0, "special-Identity"), ("KSp", 1, "special-Zero"), ("KSp", 0, "parse-Identity"), ("KDyn", 1, "redeclared")]
    operands += [("KSp", None, "hrr16"), ("KSp", None, "vtb16"), ("KSp", None, "hrr32"), ("KSym", None, None),
                 ("KDynScalar", None, None), ("KNum", None, "int"), ("KNum", None, "np.float64"), ("KArr", None, 16)]

    def build(desc, special=None):
        """special: None (regular value), 'zero' or 'unit' - the gate must not depend on the operand's value."""
        k, vi, ex = desc
        if k == "KSym" and ex in ("linv", "rinv", "inv", "neg", "normalized"):
            base_sym = PointerSymbol("A", TVocabulary(vocs[vi]))
            return {"linv": lambda: base_sym.linv(), "rinv": lambda: base_sym.rinv(), "inv": lambda: ~base_sym, "neg": lambda: -base_sym,
                    "normalized": lambda: base_sym.normalized()}[ex]()
        if k == "KSp" and ex in ("special-Identity", "special-Zero"):
            return vocs[vi][ex.split("-")[1]]
        if k == "KSp" and ex == "parse-Identity":
            return vocs[vi].parse("Identity")
        if k == "KDyn" and ex == "redeclared":
            st_ = spa.State(vocs[0] if vi != 0 else vocs[1])
            nengo.Network.context[-1].declare_output(st_.output, vocs[vi])
            return as_ast_node(st_.output)
        if k == "KDyn" and ex == "reint-none":
            return spa.reinterpret(as_ast_node(spa.State(vocs[0])))
        if k == "KDyn" and ex in ("sum", "scaled"):
            # a sum of two module outputs / a module output scaled by a number keeps the modules' vocabulary
            nd = as_ast_node(spa.State(vocs[vi]))
            return nd + as_ast_node(spa.State(vocs[vi])) if ex == "sum" else 0.5 * nd
        if k == "KDyn" and ex in ("neg", "inv"):
            nd = as_ast_node(spa.State(vocs[vi]))
            return -nd if ex == "neg" else ~nd
        if k == "KSp" and ex in ("neg", "inv"):
            return -vocs[vi]["A"] if ex == "neg" else ~vocs[vi]["A"]
        if k == "KDyn" and ex == "assoc-out":
            # hetero-associative memory: its output belongs to the output vocabulary
            other_in = vocs[0] if vi != 0 else vocs[1]
            return as_ast_node(spa.ThresholdingAssocMem(0.3, input_vocab=other_in, output_vocab=vocs[vi], mapping={"A": "A"}))
        if k == "KDyn" and ex == "bind-out":
            return as_ast_node(spa.Bind(vocs[vi]))
        if k == "KSp" and ex == "reint":
            return vocs[0]["A"].reinterpret(vocs[vi])
        if k == "KDyn" and ex == "reint":
            return spa.reinterpret(as_ast_node(spa.State(vocs[0])), vocs[vi])
        if k == "KDyn" and ex == "transcode-out":
            # a Transcode whose input and output vocabularies differ: as a source it has its output vocabulary
            return as_ast_node(spa.Transcode(lambda t, p: p.v, input_vocab=vocs[0], output_vocab=vocs[vi]))
        if k == "KSp":
            if vi is not None:
                if special is None:
                    return vocs[vi]["A"]
                dd_ = vocs[vi].dimensions
                return SemanticPointer(np.zeros(dd_) if special == "zero" else np.eye(dd_)[0], vocab=vocs[vi])
            d = 32 if ex == "hrr32" else (17 if ex == "hrr17" else 16)
            vec = np.arange(1.0, d + 1) if special is None else (np.zeros(d) if special == "zero" else np.eye(d)[0])
            return SemanticPointer(vec, algebra=V if ex == "vtb16" else H)
        if k == "KSym":
            return PointerSymbol("A", TVocabulary(vocs[vi])) if vi is not None else PointerSymbol("A")
        if k == "KDyn":
            return as_ast_node(mk_state(vocs[vi]))
        if k == "KDynScalar":
            return as_ast_node(spa.Scalar())
        if k == "KNum":
            return 2 if ex == "int" else np.float64(2.0)
        return np.ones(ex)

    def ty_of(desc):
        k, vi, ex = desc
        if k in ("KNum", "KDynScalar"):
            return "TScalar"
        if k == "KArr":
            return "TAny"
        if ex == "reint-none":
            return "(TAnyDim 16)"
        return f"(TVoc {vi})" if vi is not None else "TAny"

    def dim_of(desc):
        k, vi, ex = desc
        if k not in ("KSp", "KSym", "KDyn"):
            return None
        if vi is not None:
            return DIMS[vi]
        if k == "KSp":
            return 32 if ex == "hrr32" else (17 if ex == "hrr17" else 16)
        if ex == "reint-none":
            return 16
        return None

    def alg_of(desc):
        k, vi, ex = desc
        if vi is not None:
            return "V" if vi == 3 else "H"
        return "V" if ex == "vtb16" else "H"

    def enc_type(t):
        if t is TScalar or t == TScalar:
            return "TScalar"
        if isinstance(t, TVocabulary):
            for i, v in enumerate(vocs):
                if t.vocab is v:
                    return f"(TVoc {i})"
            return "(TVoc 99)"
        if isinstance(t, TAnyVocabOfDim):
            return f"(TAnyDim {t.dimensions})"
        return "TAny"

    def enc_result(r):
        if isinstance(r, SemanticPointer):
            if r.vocab is None:
                return "(CAccepted (Some TAny))"
            return f"(CAccepted (Some {enc_type(TVocabulary(r.vocab))}))"
        if hasattr(r, "type"):
            return f"(CAccepted (Some {enc_type(r.type)}))"
        return "(CAccepted None)"

    import operator
    OPS = {"PAdd": ("+", operator.add), "PSub": ("-", operator.sub), "PMul": ("*", operator.mul),
           "PDiv": ("/", operator.truediv), "PDot": ("@", operator.matmul),
           "PCompare": ("compare", lambda a, b: a.compare(b)), "PMse": ("mse", lambda a, b: a.mse(b)),
           "PRoute": (">>", None), "PRouteT": (">> Transcode(input_vocab != output_vocab)", None),
           "PRouteA": (">> associative memory (input_vocab != output_vocab)", None)}
    exprs, meta = [], []
    MODES = [(None, None), ("zero", None), (None, "zero"), ("zero", "zero"), ("unit", "unit")]
    for op, (sym_, fn), (sa, sb) in ((o, f, m) for o, f in OPS.items() for m in MODES):
        for da, db in itertools.product(operands, operands):
            if (sa or sb) and not ((sa is None or da[0] == "KSp") and (sb is None or db[0] == "KSp") and "KSp" in (da[0], db[0])):
                continue
            if (sa or sb) and op == "PDiv":
                continue
            if op in ("PCompare", "PMse") and not (da[0] == "KSp" and db[0] in ("KSp",)):
                continue
            if op in ("PRoute", "PRouteT", "PRouteA") and (db[0] != "KDyn" or db[2] is not None):
                continue
            if op in ("PRoute", "PRouteT", "PRouteA") and da[0] in ("KArr",):
                continue
            if op == "PRouteA" and db[1] == 4:
                continue
            if op in ("PRouteT", "PRouteA") and db[1] in (5, 6):
                continue
            with spa.Network():
                try:
                    a = build(da, sa)
                    if op == "PRoute":
                        sink = mk_state(vocs[db[1]])
                        r = a >> sink
                    elif op == "PRouteA":
                        other_v = vocs[1] if db[1] != 1 else vocs[0]
                        sink = spa.ThresholdingAssocMem(0.3, input_vocab=vocs[db[1]], output_vocab=other_v, mapping={"A": "A"})
                        r = a >> sink
                    elif op == "PRouteT":
                        # one node is both input and output, declared with different vocabularies: `>>` checks the input's
                        other_v = vocs[1] if db[1] != 1 else vocs[0]
                        sink = spa.Transcode(lambda t, p: p.v[:other_v.dimensions] if len(p.v) >= other_v.dimensions else np.zeros(other_v.dimensions),
                                             input_vocab=vocs[db[1]], output_vocab=other_v)
                        r = a >> sink
                    else:
                        b_ = build(db, sb)
                        r = fn(a, b_)
                        if r is NotImplemented:
                            raise TypeError("NotImplemented returned")
                    if isinstance(r, SemanticPointer) and op in ("PAdd", "PSub", "PMul") and isinstance(a, SemanticPointer) and isinstance(b_, SemanticPointer):
                        # an accepted combination carries ONE algebra: the vector is that algebra's operation on the operands
                        RA = r.algebra
                        want = {"PAdd": lambda: RA.superpose(a.v, b_.v), "PSub": lambda: RA.superpose(a.v, -b_.v), "PMul": lambda: RA.bind(a.v, b_.v)}[op]()
                        rep.count("accepted-value-in-result-algebra")
                        if not np.allclose(r.v, want, atol=1e-9 * (1 + np.abs(want).max())):
                            rep.violation(f"{da} {sym_} {db}: the accepted result claims algebra {type(RA).__name__} but its vector is not that algebra's "
                                          f"operation on the operands (operand algebras {type(a.algebra).__name__}, {type(b_.algebra).__name__})",
                                          {"case": {"op": sym_, "a": da, "b": db, "values": [sa or "regular", sb or "regular"]},
                                           "python": "assert False, 'result vector computed in another algebra than the result claims'\n"})
                    if isinstance(r, np.ndarray) and r.dtype == object:
                        obs, o_py = "(CAccepted None)", "object ndarray"
                    else:
                        obs, o_py = enc_result(r), type(r).__name__
                except (SpaTypeError, TypeError) as e:
                    obs, o_py = "CTypeRejected", type(e).__name__
                except Exception as e:  # noqa
                    obs, o_py = "COtherError", type(e).__name__
            same_alg = alg_of(da) == alg_of(db)
            dd = dim_of(da) is not None and dim_of(db) is not None and dim_of(da) != dim_of(db)
            cop = "PRoute" if op in ("PRouteT", "PRouteA") else op
            exprs.append(f"c03_check {cdims} {cop} {da[0]} {db[0]} {ty_of(da)} {ty_of(db)} {c.b(same_alg)} {c.b(dd)} {obs}")
            meta.append({"op": sym_, "a": da, "b": db, "observed": o_py, "same_alg": same_alg, "values": [sa or "regular", sb or "regular"]})
            rep.case((op, da, db, sa, sb), nontrivial=da[0] not in ("KNum", "KArr") and db[0] not in ("KNum", "KArr"),
                     sample={"op": sym_, "left": da, "right": db, "observed": o_py} if op == "PAdd" and da == ("KSp", 0, None) and db[0] == "KSym" else None)
            rep.count("cell_" + sym_)
            rep.count("obs_" + ("accepted" if obs.startswith("(CAcc") else obs))
    rep.exhaustive = True
    verdicts = c.coq_eval("C03", "cases", IMPORTS, exprs, shard=800)
    for ok, m in zip(verdicts, meta):
        if ok:
            continue
        key = None
        if m["a"][0] == "KArr" and m["b"][0] in ("KSp",) and m["op"] == "*" and m["observed"] == "object ndarray":
            key = "ndarray-times-pointer-not-rejected"
        if m["op"] in ("@", "compare", "mse") and m["a"][0] == "KSp" == m["b"][0] and m["a"][1] is None and m["b"][1] is None and not m["same_alg"]:
            key = "dot-compare-mse-ignore-algebra-of-vocabless-pointers"
        rep.violation(f"operand matrix cell {m['a']} {m['op']} {m['b']}: observed {m['observed']}, which the property forbids",
                      {"case": m, "finding_key": key,
                       "python": PRE + "# cell of the C03 operand matrix; see case for operand descriptors (kind, vocabulary index, extra)\n"
                       f"assert False, 'C03: {m['a']} {m['op']} {m['b']} -> {m['observed']}'\n",
                       "expected": "Model/Dispatch.v expect (coerce_types + array gate + algebra gate)"})

    # ---- history clause: a vocabulary-less pointer meets several vocabularies -----
    hv = [spa.Vocabulary(16, pointer_gen=np.random.RandomState(10 + i)) for i in range(3)]
    for v in hv:
        v.populate("A")
    steps = [(i, opn) for i in range(3) for opn in ("+", "*", "dot", "r+")]
    maxlen = 2 if quick else 3
    seqs = [s for n in range(1, maxlen + 1) for s in itertools.product(steps, repeat=n)]
    if not quick:
        seqs += [tuple(rng.choice(steps) for _ in range(rng.randint(4, 12))) for _ in range(300)]
    for seq in seqs:
        p = SemanticPointer(np.arange(1.0, 17.0))
        rep.case(("history", seq), nontrivial=len({s[0] for s in seq}) > 1)
        rep.count("history")
        for k, (vi, opn) in enumerate(seq):
            q = hv[vi]["A"]
            try:
                r = {"+": lambda: p + q, "*": lambda: p * q, "dot": lambda: p.dot(q), "r+": lambda: q + p}[opn]()
                okv = (not isinstance(r, SemanticPointer)) or r.vocab is hv[vi]
                err = None if okv else "result vocabulary is not the other operand's"
            except Exception as e:  # noqa
                err = f"{type(e).__name__}: {e}"[:160]
            if err:
                first_other = next((j for j, s in enumerate(seq[:k]) if s[0] != vi), None)
                key = "vocabless-pointer-type-mutated-by-infer-types" if first_other is not None and "Different vocabularies" in err else None
                rep.violation(f"history clause: vocabulary-less pointer no longer combinable at step {k} of {seq}: {err}",
                              {"case": {"history": seq, "step": k}, "observed": err, "finding_key": key,
                               "python": PRE + "vs = [spa.Vocabulary(16) for _ in range(3)]\nfor v in vs: v.populate('A')\n"
                               "p = SemanticPointer(np.arange(1.0, 17.0))\n"
                               f"for vi, opn in {list(seq[:k + 1])!r}:\n    q = vs[vi]['A']\n"
                               "    r = {'+': lambda: p + q, '*': lambda: p * q, 'dot': lambda: p.dot(q), 'r+': lambda: q + p}[opn]()\n"})
                break

"""C08 correspondence: special elements and inverses, per side."""

import math

import numpy as np

from harness import algs
from harness import common as c

RULE = ("exhaustive enumeration algebra x element (identity, negative identity, zero, absorbing) x sidedness x every "
        "valid d up to the bound: outcome class, DeprecationWarning flag and vector vs the model; for every returned "
        "element random integer v through bind(e,v) and bind(v,e); inverse round trips "
        "bind(bind(a,v),inv_R(v)) and bind(inv_L(v),bind(v,a)) on exactly-unitary v (signed shifts for HRR, signed "
        "permutation matrices / sqrt(s) for VTB/TVTB) and on random non-unitary v; double inversion; the "
        "SemanticPointer wrappers Identity/NegativeIdentity/Zero/AbsorbingElement and vocabulary special names. "
        "Non-trivial: everything except zero-vector operands; distinct = distinct (operation, algebra, side, operands).")
ASSUMPTIONS = ["irrational factors travel as (core, radicand) pairs; the implementation is given core*sqrt(radicand) in floats",
               "float rounding bounded by tolerance 1e-9, not modelled"]

ELEMS = {"EIdentity": "identity_element", "ENegIdentity": "negative_identity_element",
         "EZero": "zero_element", "EAbsorbing": "absorbing_element"}
WRAP = {"EIdentity": "Identity", "ENegIdentity": "NegativeIdentity", "EZero": "Zero", "EAbsorbing": "AbsorbingElement"}
SIDES = ["SLeft", "SRight", "STwo"]


def sc(core, n=1, d=1):
    return f"(sc {c.zlist(core)} {c.nat(n)} {c.nat(d)})"


def sval(core, n=1, d=1):
    return np.array(core, dtype=float) * math.sqrt(n / d)


def unitary_vec(rng, al, d):
    """An exactly unitary vector as (core, rnum, rden)."""
    if al == "AHrr":
        k = rng.randrange(d)
        v = [0] * d
        v[k] = rng.choice([1, -1])
        return v, 1, 1
    s = int(round(d ** 0.5))
    perm = list(range(s))
    rng.shuffle(perm)
    m = [[0] * s for _ in range(s)]
    for i, p in enumerate(perm):
        m[i][p] = rng.choice([1, -1])
    return [x for r in m for x in r], 1, s


def run(rep, tier, rng):
    import nengo_spa as spa
    from nengo_spa import semantic_pointer as sp

    quick = tier == "quick"
    exprs, meta = [], []

    def add(expr, m, key, nontrivial=True, sample=None):
        exprs.append(expr)
        meta.append(m)
        rep.case(key, nontrivial, sample)
        rep.count(m["op"])

    def obs_t(o, enc=algs.enc_vec):
        try:
            return c.obs_term(o, enc)
        except Exception:  # noqa
            return "(OExn OtherError)"

    T = "(1%Z, 1000000000%Z)"
    for al in algs.ALGS:
        A = algs.alg_obj(al)
        dmax = (36 if quick else 64)
        for d in algs.dims_for(al, dmax):
            s = int(round(d ** 0.5))
            for el, meth in ELEMS.items():
                for sd in SIDES:
                    S = algs.side_obj(sd)
                    o = c.observe(lambda: getattr(A, meth)(d, sidedness=S))
                    add(f"check_element {al} {el} {c.nat(d)} {sd} {T} {obs_t(o)}",
                        {"op": "element", "alg": al, "el": el, "d": d, "side": sd, "obs": c.obs_json(o),
                         "py": f"A.{meth}({d}, sidedness={algs.SIDE_PY[sd]})"},
                        ("element", al, el, d, sd),
                        sample={"op": meth, "alg": al, "d": d, "side": sd, "observed": c.obs_json(o)} if d == 4 and el == "EIdentity" else None)
                    # SemanticPointer wrapper
                    o2 = c.observe(lambda: getattr(sp, WRAP[el])(d, algebra=A, sidedness=S).v)
                    add(f"check_element {al} {el} {c.nat(d)} {sd} {T} {obs_t(o2)}",
                        {"op": "wrapper", "alg": al, "el": el, "d": d, "side": sd, "obs": c.obs_json(o2),
                         "py": f"semantic_pointer.{WRAP[el]}({d}, algebra=A, sidedness={algs.SIDE_PY[sd]}).v"},
                        ("wrapper", al, el, d, sd))
                    # the wrapper is a pointer of the requested algebra: binding it to another pointer of that algebra works and is
                    # the algebra's binding with the element
                    if o2[0] == "ok" and d <= 16:
                        w = getattr(sp, WRAP[el])(d, algebra=A, sidedness=S)
                        pv = algs.rand_vec(rng, d)
                        pp = sp.SemanticPointer(algs.fl(pv), algebra=A)
                        rep.case(("wrapper-acts", al, el, d, sd))
                        rep.count("wrapper-pointer-binds-in-its-algebra")
                        for order, fn, direct in (("p * e", lambda: (pp * w).v, lambda: A.bind(pp.v, w.v)), ("e * p", lambda: (w * pp).v, lambda: A.bind(w.v, pp.v))):
                            ow, od = c.outcome(fn), c.outcome(direct)
                            if w.algebra is not A or ow[0] != od[0] or (ow[0] == "ok" and not np.allclose(ow[1], od[1], atol=1e-9 * (1 + np.abs(od[1]).max()))):
                                rep.violation(f"semantic_pointer.{WRAP[el]}({d}, algebra={al}, sidedness={sd}): {order} is not the algebra's binding with the element "
                                              f"(wrapper algebra {type(w.algebra).__name__}; pointer-level {ow[0]}, algebra-level {od[0]})",
                                              {"case": {"alg": al, "el": el, "d": d, "side": sd, "order": order, "p": pv},
                                               "python": algs.PRELUDE + "from nengo_spa import semantic_pointer as sp\n" + f"A = {algs.alg_py(al)}\n"
                                               f"e = sp.{WRAP[el]}({d}, algebra=A, sidedness={algs.SIDE_PY[sd]}); p = sp.SemanticPointer(np.array({pv}, float), algebra=A)\n"
                                               f"assert e.algebra is A\nr = {order}\n"})
                    # a dimensionality that is a NumPy integer is a dimensionality like any other
                    if d <= 9:
                        o_np = c.observe(lambda: getattr(A, meth)(np.int64(d), sidedness=S))
                        add(f"check_element {al} {el} {c.nat(d)} {sd} {T} {obs_t(o_np)}",
                            {"op": "element-numpy-int-d", "alg": al, "el": el, "d": d, "side": sd, "obs": c.obs_json(o_np),
                             "py": f"A.{meth}(np.int64({d}), sidedness={algs.SIDE_PY[sd]})"},
                            ("element-np", al, el, d, sd))
                    # the element acting on random vectors, both sides (model decides what comes out)
                    if o[0] == "ok":
                        e = np.asarray(o[1], dtype=float)
                        ecore, en, ed = {
                            "EIdentity": (([1] + [0] * (d - 1)) if al == "AHrr" else [int(i // s == i % s) for i in range(d)], 1, 1 if al == "AHrr" else s),
                            "ENegIdentity": (([-1] + [0] * (d - 1)) if al == "AHrr" else [-int(i // s == i % s) for i in range(d)], 1, 1 if al == "AHrr" else s),
                            "EZero": ([0] * d, 1, 1),
                            "EAbsorbing": ([1] * d, 1, d),
                        }[el]
                        for _ in range(1 if quick else 4):
                            v = algs.rand_vec(rng, d)
                            for order in ("ev", "ve"):
                                if order == "ev":
                                    oo = c.observe(lambda: A.bind(e, algs.fl(v)))
                                    x, y = sc(ecore, en, ed), sc(v)
                                else:
                                    oo = c.observe(lambda: A.bind(algs.fl(v), e))
                                    x, y = sc(v), sc(ecore, en, ed)
                                add(f"check_sbind {al} {x} {y} {algs.tol_for(v, d=d)} {obs_t(oo)}",
                                    {"op": "element-bind", "alg": al, "el": el, "d": d, "side": sd, "order": order, "v": v,
                                     "obs": c.obs_json(oo),
                                     "py": f"A.bind(e, v) if '{order}' == 'ev' else A.bind(v, e)  # e = A.{meth}({d}, sidedness={algs.SIDE_PY[sd]}), v = {v}"},
                                    ("element-bind", al, el, d, sd, order, tuple(v)))
            # vocabulary special names (always two-sided)
            voc = c.observe(lambda: spa.Vocabulary(d, algebra=A))
            if voc[0] == "ok":
                for el, nm in (("EIdentity", "Identity"), ("EZero", "Zero"), ("EAbsorbing", "AbsorbingElement")):
                    o3 = c.observe(lambda: voc[1][nm].v)
                    add(f"check_element {al} {el} {c.nat(d)} STwo {T} {obs_t(o3)}",
                        {"op": "vocab-special", "alg": al, "el": el, "d": d, "side": "STwo", "obs": c.obs_json(o3),
                         "py": f"spa.Vocabulary({d}, algebra=A)['{nm}'].v"},
                        ("vocab-special", al, el, d))
            # inverses: round trips
            for kind in ["unitary"] * (2 if quick else 6) + ["random"] * (1 if quick else 3):
                if kind == "unitary":
                    vc, vn, vd = unitary_vec(rng, al, d)
                else:
                    vc, vn, vd = algs.rand_vec(rng, d, -3, 3), 1, 1
                vf = sval(vc, vn, vd)
                a = algs.rand_vec(rng, d)
                for sd in SIDES:
                    S = algs.side_obj(sd)
                    o_r = c.observe(lambda: A.bind(A.bind(algs.fl(a), vf), A.invert(vf, sidedness=S)))
                    tol = algs.tol_for(a, vc, vc, d=d * d)
                    add(f"check_unbind_r {al} {sc(a)} {sc(vc, vn, vd)} {sd} {tol} {obs_t(o_r)}",
                        {"op": "unbind-right", "alg": al, "d": d, "side": sd, "kind": kind, "a": a, "v": [vc, vn, vd],
                         "obs": c.obs_json(o_r), "py": f"A.bind(A.bind(a, v), A.invert(v, sidedness={algs.SIDE_PY[sd]}))"},
                        ("unbind-right", al, d, sd, tuple(a), tuple(vc)))
                    o_l = c.observe(lambda: A.bind(A.invert(vf, sidedness=S), A.bind(vf, algs.fl(a))))
                    add(f"check_unbind_l {al} {sc(a)} {sc(vc, vn, vd)} {sd} {tol} {obs_t(o_l)}",
                        {"op": "unbind-left", "alg": al, "d": d, "side": sd, "kind": kind, "a": a, "v": [vc, vn, vd],
                         "obs": c.obs_json(o_l), "py": f"A.bind(A.invert(v, sidedness={algs.SIDE_PY[sd]}), A.bind(v, a))"},
                        ("unbind-left", al, d, sd, tuple(a), tuple(vc)))
                    if kind == "unitary":
                        # property level: the round trip returns a (whenever the side is supported)
                        if o_r[0] == "ok":
                            add(f"check_is {c.zlist(a)} {tol} {obs_t(o_r)}",
                                {"op": "unbind-right-is-a", "alg": al, "d": d, "side": sd, "a": a, "v": [vc, vn, vd],
                                 "obs": c.obs_json(o_r), "py": f"A.bind(A.bind(a, v), A.invert(v, sidedness={algs.SIDE_PY[sd]})) == a"},
                                ("unbind-right-is-a", al, d, sd, tuple(a), tuple(vc)))
                        if o_l[0] == "ok" and al != "AVtb":
                            add(f"check_is {c.zlist(a)} {tol} {obs_t(o_l)}",
                                {"op": "unbind-left-is-a", "alg": al, "d": d, "side": sd, "a": a, "v": [vc, vn, vd],
                                 "obs": c.obs_json(o_l), "py": f"A.bind(A.invert(v, sidedness={algs.SIDE_PY[sd]}), A.bind(v, a)) == a"},
                                ("unbind-left-is-a", al, d, sd, tuple(a), tuple(vc)))
                    # inverting twice
                    o_ii = c.observe(lambda: A.invert(A.invert(algs.fl(a), sidedness=S), sidedness=S))
                    if o_ii[0] == "ok":
                        add(f"check_is {c.zlist(a)} {algs.tol_for(a)} {obs_t(o_ii)}",
                            {"op": "invert-twice", "alg": al, "d": d, "side": sd, "a": a, "obs": c.obs_json(o_ii),
                             "py": f"A.invert(A.invert(a, sidedness={algs.SIDE_PY[sd]}), sidedness={algs.SIDE_PY[sd]}) == a"},
                            ("invert-twice", al, d, sd, tuple(a)))

    # ---- vocabulary special names: strict, non-strict and auto-created vocabularies --------------------------
    import warnings as _w
    import nengo_spa as _spa
    from nengo_spa.vocabulary import VocabularyMap
    NAMES = {"Identity": "EIdentity", "Zero": "EZero", "AbsorbingElement": "EAbsorbing"}
    for al in algs.ALGS:
        A = algs.alg_obj(al)
        for d in algs.dims_for(al, 9 if quick else 25):
            vocabs = {"strict": _spa.Vocabulary(d, algebra=A, strict=True, pointer_gen=np.random.RandomState(1)),
                      "non-strict": _spa.Vocabulary(d, algebra=A, strict=False, pointer_gen=np.random.RandomState(1)),
                      "non-strict-populated": _spa.Vocabulary(d, algebra=A, strict=False, pointer_gen=np.random.RandomState(1))}
            vocabs["non-strict-populated"].populate("A; B")
            if al == "AHrr":
                vocabs["auto-created"] = VocabularyMap(rng=np.random.RandomState(1)).get_or_create(d)
            for vk, voc in vocabs.items():
                for nm, el in NAMES.items():
                    for how in ("getitem", "parse"):
                        before = list(voc.keys())
                        with _w.catch_warnings():
                            _w.simplefilter("ignore")
                            o = c.observe((lambda: voc[nm].v) if how == "getitem" else (lambda: voc.parse(nm).v))
                        add(f"check_element {al} {el} {c.nat(d)} STwo {T} {obs_t(o)}",
                            {"op": "vocabulary-special-name", "alg": al, "el": el, "d": d, "side": "STwo", "vocab": vk, "how": how,
                             "obs": c.obs_json(o), "py": f"Vocabulary({d}, algebra=A, strict={vk == 'strict'})[{nm!r}] / .parse({nm!r})"},
                            ("special-name", al, d, vk, nm, how))
                        if list(voc.keys()) != before:
                            rep.violation(f"looking up the special name {nm!r} changed the keys of a {vk} vocabulary", {"case": {"alg": al, "d": d, "vocab": vk}})

    # ---- the inverse for a side through every entry point: pointer methods, parsed text, vocabulary-less pointers ----
    from nengo_spa.semantic_pointer import SemanticPointer as _SP
    for al in algs.ALGS:
        A = algs.alg_obj(al)
        for d in algs.dims_for(al, 9 if quick else 25):
            av = algs.rand_vec(rng, d)
            vq = _spa.Vocabulary(d, algebra=A)
            vq.add("A", algs.fl(av))
            free = _SP(algs.fl(av), algebra=A)
            for sd, forms in (("SLeft", [("vocab['A'].linv()", lambda: vq["A"].linv().v), ("vocab.parse('A.linv()')", lambda: vq.parse("A.linv()").v),
                                         ("SemanticPointer(a, algebra=A).linv()", lambda: free.linv().v)]),
                              ("SRight", [("vocab['A'].rinv()", lambda: vq["A"].rinv().v), ("vocab.parse('A.rinv()')", lambda: vq.parse("A.rinv()").v),
                                          ("SemanticPointer(a, algebra=A).rinv()", lambda: free.rinv().v)]),
                              ("STwo", [("~vocab['A']", lambda: (~vq["A"]).v), ("vocab.parse('~A')", lambda: vq.parse("~A").v),
                                        ("~SemanticPointer(a, algebra=A)", lambda: (~free).v)])):
                for label, fn in forms:
                    with _w.catch_warnings():
                        _w.simplefilter("ignore")
                        o = c.observe(fn)
                    add(f"check_invert {al} {c.zlist(av)} {sd} {algs.tol_for(av)} {obs_t(o)}",
                        {"op": "inverse-entry-point", "alg": al, "d": d, "side": sd, "a": av, "obs": c.obs_json(o), "py": f"{label} with a = {av}"},
                        ("inv-entry", al, d, sd, label))

    # ---- call-history independence: the same queries in shuffled orders on one algebra object ----------
    # (every answer is a function of the arguments alone: an earlier request for another side / size
    # must not change it)
    for al in algs.ALGS:
        for rnd in range(2 if quick else 6):
            A = algs.alg_obj(al)          # one fresh instance per round, shared by all queries of the round
            qs = []
            for d in (algs.dims_for(al, 9) if rnd % 2 == 0 else algs.dims_for(al, 16)[-2:]):
                for sd in SIDES:
                    qs.append(("imat", d, sd, None))
                    qs.append(("invert", d, sd, algs.rand_vec(rng, d)))
                    for el in ELEMS:
                        qs.append(("element", d, sd, el))
                for sw in (False, True):
                    qs.append(("bmat", d, sw, algs.rand_vec(rng, d)))
            rng.shuffle(qs)
            qs = qs + qs[::-1][: len(qs) // 2]
            for pos, (kind, d, x, y) in enumerate(qs):
                base = {"alg": al, "d": d, "history_position": pos, "round": rnd}
                if kind == "imat":
                    o = c.observe(lambda: A.get_inversion_matrix(d, sidedness=algs.side_obj(x)))
                    add(f"check_imat {al} {c.nat(d)} {x} {T} {obs_t(o, algs.enc_mat)}",
                        dict(base, op="history-inversion-matrix", side=x, obs=c.obs_json(o), py=f"A.get_inversion_matrix({d}, sidedness={algs.SIDE_PY[x]}) after {pos} other calls"),
                        ("h-imat", al, d, x, rnd, pos))
                    if o[0] == "ok" and isinstance(o[1], np.ndarray) and o[1].flags.writeable:
                        o[1][...] = 7.0
                elif kind == "invert":
                    arr = algs.fl(y) if pos % 2 == 0 else np.array(y, dtype=int)      # integer-typed arrays are vectors too
                    o = c.observe(lambda: A.invert(arr, sidedness=algs.side_obj(x)))
                    add(f"check_invert {al} {c.zlist(y)} {x} {algs.tol_for(y)} {obs_t(o)}",
                        dict(base, op="history-invert", side=x, a=y, obs=c.obs_json(o), py=f"A.invert(a, sidedness={algs.SIDE_PY[x]}) after {pos} other calls"),
                        ("h-invert", al, d, x, rnd, pos))
                elif kind == "element":
                    o = c.observe(lambda: getattr(A, ELEMS[y])(d, sidedness=algs.side_obj(x)))
                    add(f"check_element {al} {y} {c.nat(d)} {x} {T} {obs_t(o)}",
                        dict(base, op="history-element", side=x, el=y, obs=c.obs_json(o), py=f"A.{ELEMS[y]}({d}, sidedness={algs.SIDE_PY[x]}) after {pos} other calls"),
                        ("h-element", al, d, x, y, rnd, pos))
                    if o[0] == "ok" and isinstance(o[1], np.ndarray) and o[1].flags.writeable:
                        o[1][...] = 7.0          # a caller scribbling over its result must not change later answers
                else:
                    o = c.observe(lambda: A.get_binding_matrix(algs.fl(y), swap_inputs=x))
                    add(f"check_bmat {al} {c.zlist(y)} {c.b(x)} {algs.tol_for(y, d=1)} {obs_t(o, algs.enc_mat)}",
                        dict(base, op="history-binding-matrix", a=y, obs=c.obs_json(o), py=f"A.get_binding_matrix(a, swap_inputs={x}) after {pos} other calls"),
                        ("h-bmat", al, d, x, rnd, pos))

    verdicts = c.coq_eval("C08", "cases", algs.IMPORTS, exprs, shard=150)
    for ok, m in zip(verdicts, meta):
        if ok:
            continue
        P = algs.PRELUDE + "import nengo_spa as spa\nfrom nengo_spa import semantic_pointer\n" + f"A = {algs.alg_py(m['alg'])}\n"
        if "a" in m:
            P += f"a = np.array({m['a']}, float)\n"
        if "v" in m and isinstance(m["v"], list) and len(m["v"]) == 3 and isinstance(m["v"][0], list):
            P += f"v = np.array({m['v'][0]}, float) * np.sqrt({m['v'][1]} / {m['v'][2]})\n"
        snippet = P + f"# operation: {m['py']}\nprint('observed earlier:', {m['obs']!r})\n" \
            f"assert False, 'C08 {m['op']} ({m['alg']}, d={m['d']}, side={m.get('side')}) deviates from the model of the special elements / inverses'\n"
        rep.violation(f"{m['alg']} {m['op']} (d={m['d']}, side={m.get('side')}, element={m.get('el')}) deviates from the specification",
                      {"case": {k: v for k, v in m.items() if k not in ("obs", "py")}, "operation": m["py"],
                       "observed": m["obs"], "python": snippet,
                       "expected": "Model/Hrr.v / Model/Vtb.v special elements and inverses (proved to act on the stated side)"})

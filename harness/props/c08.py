"""C08 correspondence: special elements and inverses, per side."""

import math

import numpy as np

from harness import algs
from harness import common as c

RULE = ("exhaustive enumeration algebra x element (identity, negative identity, zero, absorbing) x sidedness x every "
        "valid d up to the bound: outcome class, DeprecationWarning flag and vector vs the model; for every returned "
        "element random integer v through bind(e,v) and bind(v,e); inverse round trips "
        "bind(bind(a,v),inv_R(v)) and bind(inv_L(v),bind(v,a)) on exactly-unitary v (signed shifts for HRR, signed "
        "permutation matrices / sqrt(s) for VTB/TVTB) and on random non-unitary v; double inversion; the "
        "SemanticPointer wrappers Identity/NegativeIdentity/Zero/AbsorbingElement and vocabulary special names. "
        "Non-trivial: everything except zero-vector operands; distinct = distinct (operation, algebra, side, operands).")
ASSUMPTIONS = ["irrational factors travel as (core, radicand) pairs; the implementation is given core*sqrt(radicand) in floats",
               "float rounding bounded by tolerance 1e-9, not modelled"]

ELEMS = {"EIdentity": "identity_element", "ENegIdentity": "negative_identity_element",
         "EZero": "zero_element", "EAbsorbing": "absorbing_element"}
WRAP = {"EIdentity": "Identity", "ENegIdentity": "NegativeIdentity", "EZero": "Zero", "EAbsorbing": "AbsorbingElement"}
SIDES = ["SLeft", "SRight", "STwo"]


def sc(core, n=1, d=1):
    return f"(sc {c.zlist(core)} {c.nat(n)} {c.nat(d)})"


def sval(core, n=1, d=1):
    return np.array(core, dtype=float) * math.sqrt(n / d)


def unitary_vec(rng, al, d):
    """An exactly unitary vector as (core, rnum, rden)."""
    if al == "AHrr":
        k = rng.randrange(d)
        v = [0] * d
        v[k] = rng.choice([1, -1])
        return v, 1, 1
    s = int(round(d ** 0.5))
    perm = list(range(s))
    rng.shuffle(perm)
    m = [[0] * s for _ in range(s)]
    for i, p in enumerate(perm):
        m[i][p] = rng.choice([1, -1])
    return [x for r in m for x in r], 1, s


def run(rep, tier, rng):
    import nengo_spa as spa
    from nengo_spa import semantic_pointer as sp

    quick = tier == "quick"
    exprs, meta = [], []

    def add(expr, m, key, nontrivial=True, sample=None):
        exprs.append(expr)
        meta.append(m)
        rep.case(key, nontrivial, sample)
        rep.count(m["op"])

    def obs_t(o, enc=algs.enc_vec):
        try:
            return c.obs_term(o, enc)
        except Exception:  # noqa
            return "(OExn OtherError)"

    T = "(1%Z, 1000000000%Z)"
    for al in algs.ALGS:
        A = algs.alg_obj(al)
        dmax = (36 if quick else 64)
        for d in algs.dims_for(al, dmax):
            s = int(round(d ** 0.5))
            for el, meth in ELEMS.items():
                for sd in SIDES:
                    S = algs.side_obj(sd)
                    o = c.observe(lambda: getattr(A, meth)(d, sidedness=S))
                    add(f"check_element {al} {el} {c.nat(d)} {sd} {T} {obs_t(o)}",
                        {"op": "element", "alg": al, "el": el, "d": d, "side": sd, "obs": c.obs_json(o),
                         "py": f"A.{meth}({d}, sidedness={algs.SIDE_PY[sd]})"},
                        ("element", al, el, d, sd),
                        sample={"op": meth, "alg": al, "d": d, "side": sd, "observed": c.obs_json(o)} if d == 4 and el == "EIdentity" else None)
                    # SemanticPointer wrapper
                    o2 = c.observe(lambda: getattr(sp, WRAP[el])(d, algebra=A, sidedness=S).v)
                    add(f"check_element {al} {el} {c.nat(d)} {sd} {T} {obs_t(o2)}",
                        {"op": "wrapper", "alg": al, "el": el, "d": d, "side": sd, "obs": c.obs_json(o2),
                         "py": f"semantic_pointer.{WRAP[el]}({d}, algebra=A, sidedness={algs.SIDE_PY[sd]}).v"},
                        ("wrapper", al, el, d, sd))
                    # the element acting on random vectors, both sides (model decides what comes out)
                    if o[0] == "ok":
                        e = np.asarray(o[1], dtype=float)
                        ecore, en, ed = {
                            "EIdentity": (([1] + [0] * (d - 1)) if al == "AHrr" else [int(i // s == i % s) for i in range(d)], 1, 1 if al == "AHrr" else s),
                            "ENegIdentity": (([-1] + [0] * (d - 1)) if al == "AHrr" else [-int(i // s == i % s) for i in range(d)], 1, 1 if al == "AHrr" else s),
                            "EZero": ([0] * d, 1, 1),
                            "EAbsorbing": ([1] * d, 1, d),
                        }[el]
                        for _ in range(1 if quick else 4):
                            v = algs.rand_vec(rng, d)
                            for order in ("ev", "ve"):
                                if order == "ev":
                                    oo = c.observe(lambda: A.bind(e, algs.fl(v)))
                                    x, y = sc(ecore, en, ed), sc(v)
                                else:
                                    oo = c.observe(lambda: A.bind(algs.fl(v), e))
                                    x, y = sc(v), sc(ecore, en, ed)
                                add(f"check_sbind {al} {x} {y} {algs.tol_for(v, d=d)} {obs_t(oo)}",
                                    {"op": "element-bind", "alg": al, "el": el, "d": d, "side": sd, "order": order, "v": v,
                                     "obs": c.obs_json(oo),
                                     "py": f"A.bind(e, v) if '{order}' == 'ev' else A.bind(v, e)  # e = A.{meth}({d}, sidedness={algs.SIDE_PY[sd]}), v = {v}"},
                                    ("element-bind", al, el, d, sd, order, tuple(v)))
            # vocabulary special names (always two-sided)
            voc = c.observe(lambda: spa.Vocabulary(d, algebra=A))
            if voc[0] == "ok":
                for el, nm in (("EIdentity", "Identity"), ("EZero", "Zero"), ("EAbsorbing", "AbsorbingElement")):
                    o3 = c.observe(lambda: voc[1][nm].v)
                    add(f"check_element {al} {el} {c.nat(d)} STwo {T} {obs_t(o3)}",
                        {"op": "vocab-special", "alg": al, "el": el, "d": d, "side": "STwo", "obs": c.obs_json(o3),
                         "py": f"spa.Vocabulary({d}, algebra=A)['{nm}'].v"},
                        ("vocab-special", al, el, d))
            # inverses: round trips
            for kind in ["unitary"] * (2 if quick else 6) + ["random"] * (1 if quick else 3):
                if kind == "unitary":
                    vc, vn, vd = unitary_vec(rng, al, d)
                else:
                    vc, vn, vd = algs.rand_vec(rng, d, -3, 3), 1, 1
                vf = sval(vc, vn, vd)
                a = algs.rand_vec(rng, d)
                for sd in SIDES:
                    S = algs.side_obj(sd)
                    o_r = c.observe(lambda: A.bind(A.bind(algs.fl(a), vf), A.invert(vf, sidedness=S)))
                    tol = algs.tol_for(a, vc, vc, d=d * d)
                    add(f"check_unbind_r {al} {sc(a)} {sc(vc, vn, vd)} {sd} {tol} {obs_t(o_r)}",
                        {"op": "unbind-right", "alg": al, "d": d, "side": sd, "kind": kind, "a": a, "v": [vc, vn, vd],
                         "obs": c.obs_json(o_r), "py": f"A.bind(A.bind(a, v), A.invert(v, sidedness={algs.SIDE_PY[sd]}))"},
                        ("unbind-right", al, d, sd, tuple(a), tuple(vc)))
                    o_l = c.observe(lambda: A.bind(A.invert(vf, sidedness=S), A.bind(vf, algs.fl(a))))
                    add(f"check_unbind_l {al} {sc(a)} {sc(vc, vn, vd)} {sd} {tol} {obs_t(o_l)}",
                        {"op": "unbind-left", "alg": al, "d": d, "side": sd, "kind": kind, "a": a, "v": [vc, vn, vd],
                         "obs": c.obs_json(o_l), "py": f"A.bind(A.invert(v, sidedness={algs.SIDE_PY[sd]}), A.bind(v, a))"},
                        ("unbind-left", al, d, sd, tuple(a), tuple(vc)))
                    if kind == "unitary":
                        # property level: the round trip returns a (whenever the side is supported)
                        if o_r[0] == "ok":
                            add(f"check_is {c.zlist(a)} {tol} {obs_t(o_r)}",
                                {"op": "unbind-right-is-a", "alg": al, "d": d, "side": sd, "a": a, "v": [vc, vn, vd],
                                 "obs": c.obs_json(o_r), "py": f"A.bind(A.bind(a, v), A.invert(v, sidedness={algs.SIDE_PY[sd]})) == a"},
                                ("unbind-right-is-a", al, d, sd, tuple(a), tuple(vc)))
                        if o_l[0] == "ok" and al != "AVtb":
                            add(f"check_is {c.zlist(a)} {tol} {obs_t(o_l)}",
                                {"op": "unbind-left-is-a", "alg": al, "d": d, "side": sd, "a": a, "v": [vc, vn, vd],
                                 "obs": c.obs_json(o_l), "py": f"A.bind(A.invert(v, sidedness={algs.SIDE_PY[sd]}), A.bind(v, a)) == a"},
                                ("unbind-left-is-a", al, d, sd, tuple(a), tuple(vc)))
                    # inverting twice
                    o_ii = c.observe(lambda: A.invert(A.invert(algs.fl(a), sidedness=S), sidedness=S))
                    if o_ii[0] == "ok":
                        add(f"check_is {c.zlist(a)} {algs.tol_for(a)} {obs_t(o_ii)}",
                            {"op": "invert-twice", "alg": al, "d": d, "side": sd, "a": a, "obs": c.obs_json(o_ii),
                             "py": f"A.invert(A.invert(a, sidedness={algs.SIDE_PY[sd]}), sidedness={algs.SIDE_PY[sd]}) == a"},
                            ("invert-twice", al, d, sd, tuple(a)))

    verdicts = c.coq_eval("C08", "cases", algs.IMPORTS, exprs, shard=150)
    for ok, m in zip(verdicts, meta):
        if ok:
            continue
        P = algs.PRELUDE + "import nengo_spa as spa\nfrom nengo_spa import semantic_pointer\n" + f"A = {algs.alg_py(m['alg'])}\n"
        if "a" in m:
            P += f"a = np.array({m['a']}, float)\n"
        if "v" in m and isinstance(m["v"], list) and len(m["v"]) == 3 and isinstance(m["v"][0], list):
            P += f"v = np.array({m['v'][0]}, float) * np.sqrt({m['v'][1]} / {m['v'][2]})\n"
        snippet = P + f"# operation: {m['py']}\nprint('observed earlier:', {m['obs']!r})\n" \
            f"assert False, 'C08 {m['op']} ({m['alg']}, d={m['d']}, side={m.get('side')}) deviates from the model of the special elements / inverses'\n"
        rep.violation(f"{m['alg']} {m['op']} (d={m['d']}, side={m.get('side')}, element={m.get('el')}) deviates from the specification",
                      {"case": {k: v for k, v in m.items() if k not in ("obs", "py")}, "operation": m["py"],
                       "observed": m["obs"], "python": snippet,
                       "expected": "Model/Hrr.v / Model/Vtb.v special elements and inverses (proved to act on the stated side)"})

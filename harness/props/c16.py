"""C16 correspondence: State / IdentityEnsembleArray layout, identity map, feedback, neuron-level access."""

import warnings

import numpy as np

from harness import common as c

RULE = ("every (dimensions, subdimensions) with subdimensions | dimensions and dimensions <= 24 (thorough 64), both "
        "representation modes: the built graph's input / output slices, ensemble sizes and neuron-input / neuron-output "
        "slices are compared with the model; add_output with per-ensemble functions; rejection of non-divisible "
        "dimensionalities; Direct-mode simulation of State for the identity map (every split at d <= 16), feedback 1 holds "
        "and feedback 0 forgets (trace against Model/StateDyn.v for several splits, modes and synapses); LIFRate simulation: inhibiting all neuron inputs silences the state, driving one "
        "neuron-input entry moves only the neuron-output entry of the same index. Non-trivial: more than one ensemble; "
        "distinct = distinct (d, sub, mode, probe).")
ASSUMPTIONS = ["ideal neurons = Nengo Direct mode (an ensemble outputs what it represents); neuron-level clause = seeded LIFRate neurons",
               "Nengo's connection semantics (a connection delivers transform * value, inputs add) are exercised, not proved"]
IMPORTS = "Model.IdEnsArray Tie.IdEnsTie"


def slc(s, size):
    s = s if isinstance(s, slice) else slice(None)
    start, stop, step = s.indices(size)
    assert step == 1
    return start, stop - start


def P(start, size):
    return f"(Part {start} {size})"


def run(rep, tier, rng):
    import nengo
    import nengo_spa as spa
    from nengo.exceptions import ValidationError
    from nengo_spa.networks import IdentityEnsembleArray

    quick = tier == "quick"
    dmax = 24 if quick else 64
    npd = 3
    exprs, meta = [], []

    def add(expr, m, key, nontrivial=True, sample=None):
        exprs.append(expr)
        meta.append(m)
        rep.case(key, nontrivial, sample)
        rep.count(m["op"])

    pairs = [(d, s) for d in range(1, dmax + 1) for s in range(1, d + 1) if d % s == 0]
    for d, sub in pairs:
        # ---- structure of the identity-optimised array ----------------------------------
        with nengo.Network() as net:
            ea = IdentityEnsembleArray(npd, d, sub)
            nin = ea.add_neuron_input()
            nout = ea.add_neuron_output()
        enss = list(ea.all_ensembles)
        ins, outs, nis, nos = {}, {}, {}, {}
        for conn in ea.all_connections:
            pre, post = conn.pre_obj, conn.post_obj
            if pre is ea.input and isinstance(post, nengo.Ensemble):
                ins[post] = slc(conn.pre_slice, d)
            if pre is ea.input and hasattr(ea, "remainder") and post is ea.remainder.input:
                base = slc(conn.pre_slice, d)[0]
                for c2 in ea.remainder.all_connections:
                    if c2.pre_obj is ea.remainder.input and isinstance(c2.post_obj, nengo.Ensemble):
                        st, sz = slc(c2.pre_slice, ea.remainder.input.size_out)
                        ins[c2.post_obj] = (base + st, sz)
            if isinstance(pre, nengo.Ensemble) and post is ea.output:
                outs[pre] = slc(conn.post_slice, d)
            if hasattr(ea, "remainder") and pre is ea.remainder.output and post is ea.output:
                base = slc(conn.post_slice, d)[0]
                for c2 in ea.remainder.all_connections:
                    if isinstance(c2.pre_obj, nengo.Ensemble) and c2.post_obj is ea.remainder.output:
                        st, sz = slc(c2.post_slice, ea.remainder.output.size_in)
                        outs[c2.pre_obj] = (base + st, sz)
            if pre is nin and isinstance(post, nengo.ensemble.Neurons):
                nis[post.ensemble] = slc(conn.pre_slice, npd * d)
            if isinstance(pre, nengo.ensemble.Neurons) and post is nout:
                nos[pre.ensemble] = slc(conn.post_slice, npd * d)
        try:
            term = (f"check_layout true {npd} {d} {sub} {c.lst([P(*ins[e]) for e in enss])} {c.lst([P(*outs[e]) for e in enss])} "
                    f"{c.lst([P(*nis[e]) for e in enss])} {c.lst([P(*nos[e]) for e in enss])} "
                    f"{c.lst([f'({e.dimensions}, {e.n_neurons})' for e in enss])}")
        except KeyError:
            term = "false"
        add(term, {"op": "layout-identity", "d": d, "sub": sub}, ("layout", True, d, sub), nontrivial=len(enss) > 1,
            sample={"d": d, "sub": sub, "input_slices": [ins.get(e) for e in enss], "neuron_input_slices": [nis.get(e) for e in enss]} if (d, sub) == (12, 4) else None)
        # ---- plain EnsembleArray mode through State --------------------------------------
        with spa.Network() as net2:
            st = spa.State(d, subdimensions=sub, neurons_per_dimension=npd, represent_cc_identity=False)
        ea2 = st.state_ensembles
        e2 = list(ea2.all_ensembles)
        ins2, outs2 = {}, {}
        for conn in ea2.all_connections:
            if conn.pre_obj is ea2.input and isinstance(conn.post_obj, nengo.Ensemble):
                ins2[conn.post_obj] = slc(conn.pre_slice, d)
            if isinstance(conn.pre_obj, nengo.Ensemble) and conn.post_obj is ea2.output:
                outs2[conn.pre_obj] = slc(conn.post_slice, d)
        try:
            # plain arrays have no neuron nodes by default: reuse the model's own slices for those fields
            off, nsl = 0, []
            for e in e2:
                nsl.append(P(off, e.n_neurons))
                off += e.n_neurons
            term = (f"check_layout false {npd} {d} {sub} {c.lst([P(*ins2[e]) for e in e2])} {c.lst([P(*outs2[e]) for e in e2])} "
                    f"{c.lst(nsl)} {c.lst(nsl)} {c.lst([f'({e.dimensions}, {e.n_neurons})' for e in e2])}")
        except KeyError:
            term = "false"
        add(term, {"op": "layout-plain", "d": d, "sub": sub}, ("layout", False, d, sub), nontrivial=len(e2) > 1)
        # ---- add_output: one function per ensemble kind ----------------------------------------
        if d <= 16 or not quick:
            with nengo.Network():
                ea3 = IdentityEnsembleArray(npd, d, sub)
                o = c.outcome(lambda: ea3.add_output("sq", lambda x: np.concatenate([x ** 2, [np.sum(x)]])))
            rep.case(("add_output", d, sub))
            rep.count("add_output")
            if o[0] != "ok":
                key = "add-output-degenerate-split" if (sub == 1 or d == sub) and o[0] == "AttributeError" else None
                rep.violation(f"IdentityEnsembleArray({npd}, {d}, {sub}).add_output raised {o[0]}: {o[1][:80]}",
                              {"case": {"d": d, "sub": sub}, "finding_key": key,
                               "python": "import numpy as np, nengo\nfrom nengo_spa.networks import IdentityEnsembleArray\n"
                                         f"with nengo.Network():\n    ea = IdentityEnsembleArray(3, {d}, {sub})\n    ea.add_output('sq', lambda x: x ** 2)\n"})
            else:
                node = o[1]
                sl = {}
                for conn in ea3.all_connections:
                    if conn.post_obj is node:
                        if isinstance(conn.pre_obj, nengo.Ensemble):
                            sl[conn.pre_obj] = slc(conn.post_slice, node.size_in)
                        else:  # the remainder's own output node
                            base = slc(conn.post_slice, node.size_in)[0]
                            rnode = conn.pre_obj
                            for c2 in ea3.remainder.all_connections:
                                if c2.post_obj is rnode and isinstance(c2.pre_obj, nengo.Ensemble):
                                    st_, sz_ = slc(c2.post_slice, rnode.size_in)
                                    sl[c2.pre_obj] = (base + st_, sz_)
                e3 = list(ea3.all_ensembles)
                try:
                    term = f"check_add_output {d} {sub} {c.lst([str(k + 1) for k in range(1, d + 1)])} {c.lst([P(*sl[e]) for e in e3])} {node.size_in}"
                except KeyError:
                    term = "false"
                add(term, {"op": "add_output", "d": d, "sub": sub}, ("add_output-layout", d, sub))

    # ---- add_output with a list of functions: one per ensemble, or first / second / all remaining ------
    lf = [(4, 2), (6, 2), (8, 2), (9, 3), (12, 4), (6, 3), (10, 5)] if quick else [(d, s) for d, s in pairs if 1 < s < d and d <= 24]
    for d, sub in lf:
        n_rem = d // sub - 1
        for form in ("per-ensemble", "three"):
            ks = [2.0 ** (i + 1) for i in range(n_rem + 2)] if form == "per-ensemble" else [2.0, 4.0, 8.0]
            fns = [(lambda x, k=k: x * k) for k in ks]
            x = np.array([rng.randint(-4, 4) / 4.0 for _ in range(d)])
            mult = np.empty(d)
            mult[0], mult[1:sub] = ks[0], ks[1]
            for r in range(n_rem):
                mult[sub * (r + 1):sub * (r + 2)] = ks[2 + r] if form == "per-ensemble" else ks[2]
            snippet = ("import numpy as np, nengo\nfrom nengo_spa.networks import IdentityEnsembleArray\n"
                       f"ks = {ks!r}; x = np.array({x.tolist()!r})\n"
                       "with nengo.Network(seed=1) as net:\n    net.config[nengo.Ensemble].neuron_type = nengo.Direct()\n"
                       f"    ea = IdentityEnsembleArray(3, {d}, {sub})\n    out = ea.add_output('f', [(lambda v, k=k: v * k) for k in ks])\n"
                       "    nengo.Connection(nengo.Node(x), ea.input, synapse=None)\n    p = nengo.Probe(out, synapse=None)\n"
                       "with nengo.Simulator(net, progress_bar=False) as sim:\n    sim.run(0.003)\n"
                       f"assert np.allclose(sim.data[p][-1], np.array({mult.tolist()!r}) * x), sim.data[p][-1]\n")
            rep.case(("add_output-list", form, d, sub))
            rep.count("add_output-list-" + form)

            def build():
                with nengo.Network(seed=1) as net:
                    net.config[nengo.Ensemble].neuron_type = nengo.Direct()
                    ea4 = IdentityEnsembleArray(npd, d, sub)
                    out = ea4.add_output("f", fns)
                    nengo.Connection(nengo.Node(x), ea4.input, synapse=None)
                    pr = nengo.Probe(out, synapse=None)
                with nengo.Simulator(net, progress_bar=False) as sim:
                    sim.run(0.003)
                return sim.data[pr][-1]
            o = c.outcome(build)
            what = (f"IdentityEnsembleArray({npd}, {d}, {sub}).add_output with {'one function per ensemble' if form == 'per-ensemble' else 'three functions (first, second, all remaining ensembles)'}")
            if o[0] != "ok":
                key = "add-output-three-functions-several-remainder-ensembles" if form == "three" and n_rem > 1 and o[0] == "ValidationError" else None
                rep.violation(f"{what} raised {o[0]}: {str(o[1])[:90]}", {"case": {"d": d, "sub": sub, "form": form}, "finding_key": key, "python": snippet})
            elif not (np.shape(o[1]) == (d,) and np.allclose(o[1], mult * x, atol=1e-9)):
                rep.violation(f"{what} does not apply each function to its own ensemble's dimensions in dimension order",
                              {"case": {"d": d, "sub": sub, "form": form, "x": x.tolist()}, "observed": np.asarray(o[1]).tolist(),
                               "expected": (mult * x).tolist(), "python": snippet})

    # ---- call history: a second add_output of the same name applies the function passed in THAT call (or is refused) -------
    for d, sub in [(4, 4), (1, 1), (3, 3), (4, 2), (6, 3)] + ([] if quick else [(16, 16), (8, 4), (9, 1)]):
        x = np.array([rng.randint(1, 4) / 4.0 for _ in range(d)])

        def twice():
            with nengo.Network(seed=1) as net:
                net.config[nengo.Ensemble].neuron_type = nengo.Direct()
                ea5 = IdentityEnsembleArray(npd, d, sub)
                nengo.Connection(nengo.Node(x), ea5.input, synapse=None)
                first = ea5.add_output("fn_out", lambda v: v * 2.0)
                try:
                    second = ea5.add_output("fn_out", lambda v: v * -4.0)
                except ValidationError:
                    return None                      # refusing the reused name is fine
                p1, p2 = nengo.Probe(first, synapse=None), nengo.Probe(second, synapse=None)
            with nengo.Simulator(net, progress_bar=False) as sim:
                sim.run(0.003)
            return sim.data[p1][-1], sim.data[p2][-1]
        with warnings.catch_warnings():
            warnings.simplefilter("ignore")
            o = c.outcome(twice)
        rep.case(("add_output-twice", d, sub))
        rep.count("add_output-same-name-twice")
        if o[0] != "ok":
            rep.violation(f"IdentityEnsembleArray({npd}, {d}, {sub}): adding a second output under a used name raised {o[0]}: {str(o[1])[:80]}", {"case": {"d": d, "sub": sub}})
        elif o[1] is not None and not (np.allclose(o[1][0], 2.0 * x, atol=1e-9) and np.allclose(o[1][1], -4.0 * x, atol=1e-9)):
            rep.violation(f"IdentityEnsembleArray({npd}, {d}, {sub}): an output added under an already used name does not compute the function passed in that call",
                          {"case": {"d": d, "sub": sub, "x": x.tolist()}, "observed": [np.asarray(o[1][0]).tolist(), np.asarray(o[1][1]).tolist()],
                           "expected": [(2.0 * x).tolist(), (-4.0 * x).tolist()],
                           "python": "import numpy as np, nengo\nfrom nengo_spa.networks import IdentityEnsembleArray\n"
                                     f"x = np.array({x.tolist()!r})\nwith nengo.Network(seed=1) as net:\n    net.config[nengo.Ensemble].neuron_type = nengo.Direct()\n"
                                     f"    ea = IdentityEnsembleArray(3, {d}, {sub}); nengo.Connection(nengo.Node(x), ea.input, synapse=None)\n"
                                     "    ea.add_output('fn_out', lambda v: v * 2.0); second = ea.add_output('fn_out', lambda v: v * -4.0)\n    p = nengo.Probe(second, synapse=None)\n"
                                     "with nengo.Simulator(net, progress_bar=False) as sim:\n    sim.run(0.003)\nassert np.allclose(sim.data[p][-1], -4.0 * x), sim.data[p][-1]\n"})

    # ---- rejection of non-divisible dimensionalities ----------------------------------------------
    for d in range(1, 13 if quick else 33):
        for sub in range(1, d + 2):
            for mode in (True, False):
                with spa.Network():
                    try:
                        spa.State(d, subdimensions=sub, represent_cc_identity=mode)
                        acc = True
                    except ValidationError:
                        acc = False
                add(f"check_state_accepts {d} {sub} {c.b(acc)}", {"op": "state-accepts", "d": d, "sub": sub, "represent_cc_identity": mode},
                    ("accepts", d, sub, mode))
                # the split given through the network configuration instead of the keyword
                with spa.Network() as cnet:
                    cnet.config[spa.State].subdimensions = sub
                    try:
                        stc = spa.State(d, represent_cc_identity=mode)
                        acc_c = True
                        n_ens = len(list(stc.state_ensembles.all_ensembles))
                    except ValidationError:
                        acc_c, n_ens = False, None
                add(f"check_state_accepts {d} {sub} {c.b(acc_c)}", {"op": "state-accepts", "d": d, "sub": sub, "represent_cc_identity": mode, "via": "config[spa.State].subdimensions"},
                    ("accepts-config", d, sub, mode))
                if acc_c and d % sub == 0:
                    want_n = d // sub + (1 if (mode and sub > 1) else 0)
                    rep.case(("config-split", d, sub, mode))
                    rep.count("configured-split-is-used")
                    if n_ens != want_n:
                        rep.violation(f"State({d}) with config[spa.State].subdimensions = {sub} (represent_cc_identity={mode}) is split into {n_ens} ensembles, expected {want_n}",
                                      {"case": {"d": d, "sub": sub, "mode": mode},
                                       "python": f"import nengo_spa as spa\nwith spa.Network() as net:\n    net.config[spa.State].subdimensions = {sub}\n"
                                                 f"    s = spa.State({d}, represent_cc_identity={mode})\nassert len(list(s.state_ensembles.all_ensembles)) == {want_n}\n"})

    verdicts = c.coq_eval("C16", "cases", IMPORTS, exprs, shard=400)
    structural = [m for ok, m in zip(verdicts, meta) if not ok]
    n_before = len(rep.violations)

    # ---- behaviour with ideal neurons: identity, feedback -------------------------------------------
    ident = [(d, s) for d, s in pairs if d <= (8 if quick else 16)]
    for mode in (True, False):
        with spa.Network(seed=1) as net:
            net.config[nengo.Ensemble].neuron_type = nengo.Direct()
            probes = []
            for d, sub in ident:
                x = np.array([rng.randint(-4, 4) / 4.0 for _ in range(d)])
                stim = nengo.Node(x)
                st = spa.State(d, subdimensions=sub, represent_cc_identity=mode)
                nengo.Connection(stim, st.input, synapse=None)
                probes.append((d, sub, x, nengo.Probe(st.output, synapse=None)))
        with nengo.Simulator(net, progress_bar=False) as sim:
            sim.run(0.005)
        for d, sub, x, p in probes:
            rep.case(("identity", mode, d, sub), nontrivial=d > 1)
            rep.count("identity-direct")
            if not np.allclose(sim.data[p][-1], x, atol=1e-9):
                rep.violation(f"State(d={d}, sub={sub}, represent_cc_identity={mode}) with ideal neurons does not output its input",
                              {"case": {"d": d, "sub": sub, "mode": mode, "x": x.tolist()}, "observed": sim.data[p][-1].tolist(),
                               "python": "assert False, 'State output differs from its input in Direct mode'\n"})
    # ---- feedback with ideal neurons: Model/StateDyn.v against the simulated trace --------------------
    from fractions import Fraction
    fconfs = [(4, 2, True, 0.01), (4, 2, False, 0.1), (6, 3, True, 0.05), (3, 1, False, 0.02), (5, 5, True, 0.1), (1, 1, True, 0.03)]
    if not quick:
        fconfs += [(d, s, m, tau) for d, s in [(8, 4), (12, 3), (16, 16), (7, 1), (9, 3)] for m in (True, False) for tau in (0.005, 0.2)]
    n_in, n_total = 20, 60
    fexprs, fmeta = [], []
    for fb in (1.0, 0.0):
        for d, sub, mode, tau in fconfs:
            x = np.array([rng.randint(-4, 4) / 4.0 for _ in range(d)])
            if not x.any():
                x[0] = 0.75
            with spa.Network(seed=1) as net:
                net.config[nengo.Ensemble].neuron_type = nengo.Direct()
                stim = nengo.Node(lambda t, x=x: x if t < (n_in + 0.5) * 0.001 else np.zeros(len(x)))
                st = spa.State(d, subdimensions=sub, feedback=fb, feedback_synapse=tau, represent_cc_identity=mode)
                nengo.Connection(stim, st.input, synapse=None)
                p = nengo.Probe(st.output, synapse=None)
            with nengo.Simulator(net, progress_bar=False) as sim:
                sim.run(n_total * 0.001)
            y = sim.data[p]
            i0 = n_in + 2
            case = {"d": d, "sub": sub, "represent_cc_identity": mode, "feedback": fb, "feedback_synapse": tau, "x": x.tolist()}
            snippet = ("import numpy as np, nengo, nengo_spa as spa\n"
                       f"x = np.array({x.tolist()!r})\n"
                       "with spa.Network(seed=1) as net:\n"
                       "    net.config[nengo.Ensemble].neuron_type = nengo.Direct()\n"
                       f"    stim = nengo.Node(lambda t: x if t < {(n_in + 0.5) * 0.001!r} else np.zeros(len(x)))\n"
                       f"    st = spa.State({d}, subdimensions={sub}, feedback={fb!r}, feedback_synapse={tau!r}, represent_cc_identity={mode})\n"
                       "    nengo.Connection(stim, st.input, synapse=None)\n"
                       "    p = nengo.Probe(st.output, synapse=None)\n"
                       "with nengo.Simulator(net, progress_bar=False) as sim:\n"
                       f"    sim.run({n_total * 0.001!r})\n"
                       f"y = sim.data[p]; a, b = y[{i0}], y[-1]\n"
                       + ("assert np.allclose(a, b, atol=1e-9) and np.abs(a).max() > 1e-3, ('value not held', a, b)\n" if fb else
                          "assert np.allclose(b, 0, atol=1e-9), ('value kept without feedback', b)\n"))
            rep.case(("feedback", fb, d, sub, mode, tau))
            rep.count("feedback")
            if fb:
                y0 = [Fraction(float(v)) for v in y[i0]]
                k = max([f.denominator.bit_length() - 1 for f in y0] + [0])
                ints = [int(f * (1 << k)) for f in y0]
                if not np.abs(y[i0]).max() > 1e-3:
                    rep.violation(f"State(d={d}, sub={sub}, feedback=1, feedback_synapse={tau}) holds nothing right after the input ends",
                                  {"case": case, "observed": y[i0].tolist(), "python": snippet})
                    continue
                for n in (1, 7, n_total - 1 - i0):
                    fexprs.append(f"check_hold {c.nat(k)} {c.z(3)} {c.zlist(ints)} {c.nat(n)} ({c.z(1)}, {c.z(10**9)}) {c.dylist(y[i0 + n])}")
                    fmeta.append({"what": f"State(d={d}, sub={sub}, represent_cc_identity={mode}, feedback=1, feedback_synapse={tau}) does not hold its value: "
                                          f"{n} steps after the input ended the output differs from the model (Model/StateDyn.v sd_after)",
                                  "case": dict(case, steps=n), "observed": [y[i0].tolist(), y[i0 + n].tolist()], "python": snippet})
            else:
                es = [[int(round(v * 4)) for v in x]] * n_in
                fexprs.append(f"check_forget {c.nat(d)} {c.z(3)} {c.lst([c.zlist(e) for e in es])} ({c.z(1)}, {c.z(10**9)}) {c.dylist(y[-1])}")
                fmeta.append({"what": f"State(d={d}, sub={sub}, represent_cc_identity={mode}, feedback=0) keeps a value after the input ends "
                                      "(Model/StateDyn.v: without feedback the state stays at rest)",
                              "case": case, "observed": y[-1].tolist(), "python": snippet})
    fverd = c.coq_eval("C16", "feedback", "Model.StateDyn Tie.StateDynTie", fexprs, shard=400)
    for ok, m in zip(fverd, fmeta):
        if not ok:
            rep.violation(m["what"], {"case": m["case"], "observed": m["observed"], "python": m["python"],
                                      "expected": "Model/StateDyn.v; theorems C16_feedback_one_holds_the_value_for_every_number_of_steps, C16_feedback_zero_remembers_nothing"})

    # ---- neuron-level access with rate neurons ----------------------------------------------------------
    for d, sub in ([(4, 2), (6, 3), (4, 1), (3, 3)] if quick else [(4, 2), (6, 3), (4, 1), (3, 3), (8, 4), (1, 1), (12, 4)]):
        n = npd * d
        k = rng.randrange(n)
        res = []
        for drive in (None, "inhibit", k):
            with nengo.Network(seed=3) as net:
                net.config[nengo.Ensemble].neuron_type = nengo.LIFRate()
                ea = IdentityEnsembleArray(npd, d, sub)
                nin, nout = ea.add_neuron_input(), ea.add_neuron_output()
                nengo.Connection(nengo.Node(np.ones(d) * 0.7), ea.input, synapse=None)
                cur = np.zeros(n)
                if drive == "inhibit":
                    cur[:] = -50.0
                elif drive is not None:
                    cur[drive] = 5.0
                nengo.Connection(nengo.Node(cur), nin, synapse=None)
                p = nengo.Probe(nout, synapse=None)
                po = nengo.Probe(ea.output, synapse=None)
            with nengo.Simulator(net, progress_bar=False) as sim:
                sim.run(0.01)
            res.append((sim.data[p][-1], sim.data[po][-1]))
        rep.case(("neuron-level", d, sub, k))
        rep.count("neuron-level-rate")
        base, inh, drv = res
        if not (np.allclose(inh[0], 0) and np.allclose(inh[1], 0)):
            rep.violation(f"inhibiting all neuron inputs of IdentityEnsembleArray(d={d}, sub={sub}) does not silence it",
                          {"case": {"d": d, "sub": sub}, "observed": {"rates": inh[0].tolist(), "output": inh[1].tolist()}})
        diff = np.abs(drv[0] - base[0]) > 1e-9
        want = np.zeros(n, dtype=bool)
        want[k] = True
        if diff.any() and not np.array_equal(diff, want) or (not diff.any() and base[0][k] == 0 and drv[0][k] == 0 and False):
            rep.violation(f"driving neuron_input[{k}] of IdentityEnsembleArray(d={d}, sub={sub}) changed neuron_output entries {np.nonzero(diff)[0].tolist()}",
                          {"case": {"d": d, "sub": sub, "k": k}})

    # layout differences: a failing input exists only if the behaviour checks above failed too
    behavioural = len(rep.violations) > n_before
    for m in structural:
        if m["op"] == "state-accepts":
            rep.violation(f"State({m['d']}, subdimensions={m['sub']}, represent_cc_identity={m.get('represent_cc_identity')}) is accepted / rejected contrary to "
                          "'dimensions must be divisible by subdimensions'",
                          {"case": m, "python": (f"import nengo_spa as spa\nwith spa.Network() as net:\n    net.config[spa.State].subdimensions = {m['sub']}\n"
                                                 f"    spa.State({m['d']}, represent_cc_identity={m.get('represent_cc_identity')})\n" if m.get("via") else
                                                 f"import nengo_spa as spa\nwith spa.Network():\n    spa.State({m['d']}, subdimensions={m['sub']}, "
                                                 f"represent_cc_identity={m.get('represent_cc_identity')})\n")
                           + f"assert {m['d'] % m['sub'] == 0}, 'accepted a split that does not divide'\n"})
            continue
        rep.violation(f"{m['op']} of (d={m['d']}, sub={m['sub']}) differs from the partition [0,1) [1,sub) then sub-sized chunks "
                      "(correspondence Tie/IdEnsTie.v with Model/IdEnsArray.v)",
                      {"case": m, "python": "assert False, 'slices / sizes differ from the model layout'\n",
                       "expected": "Model/IdEnsArray.v parts / neuron_slices / out_slices",
                       "correspondence": "harness.props.c16 structural tie"}, found_input=behavioural)

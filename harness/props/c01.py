"""C01 correspondence: networks built from SPA expressions, simulated with ideal neurons."""

import math
import warnings

import numpy as np

from harness import algs
from harness import common as c

RULE = ("typed expression trees over module outputs (pointer and scalar), untyped and typed pointer symbols, SemanticPointer "
        "objects with and without vocabulary, int / float / NumPy numbers: a bounded-exhaustive layer (every operator x both "
        "operand orders x every operand kind at depth 1, each wrapped once more at depth 2) plus random trees (depth <= 3 "
        "quick, <= 5 thorough); 1-3 statements per sink; sources fed and sinks read through Transcode in each accepted form; "
        "three algebras, HRR d in {3,4,5,8}, VTB/TVTB d in {4,9,16}; Direct-mode nengo.Simulator run to steady state "
        "(0.3 s, unfiltered probe on the sink output). Each sink value is compared in Coq with Semantic-Pointer arithmetic "
        "(symbolic radicands) and, where the algebra's factor is an integer, with build + connect_to of Model/Dynamic.v; the "
        "AST the implementation built (classes, pending transforms) is compared with build; ill-typed / unsupported "
        "combinations must raise. Non-trivial: at least one operator and one dynamic operand; distinct = distinct "
        "(algebra, d, statements, source values).")
ASSUMPTIONS = ["ideal neurons = Nengo Direct mode; steady state = last sample after 0.3 s (60 synaptic time constants) of constant input",
               "vocabularies are identified with their dimensionality in Model/Dynamic.v (distinct vocabularies of one dimensionality: C02)",
               "sums whose terms carry different irrational factors are not representable in the radicand value type and are skipped (counted)"]
IMPORTS = algs.IMPORTS + " Model.Parse Model.Dynamic Tie.ParseTie Tie.DynTie"
NAMES = ["A", "B", "C"]
T_RUN = 0.3


# ------------------------------------------------------------------------------------------------------
# expression trees: tuples.  Types: ("P", v) pointer in vocabulary number v; "S" scalar.
#   ("src", k)            dynamic pointer (module k), vocabulary 0
#   ("ssrc", k)           dynamic scalar
#   ("sym", i)            untyped pointer symbol sym.<name>
#   ("symT", i)           PointerSymbol typed with vocabulary 0
#   ("sp", i)             vocab[name] (SemanticPointer with vocabulary)
#   ("spnv", i)           SemanticPointer without vocabulary
#   ("num", p, q, neg, form)   form: int / float / np64 / np0d
#   ("add"|"sub"|"mul"|"dot", a, b)   ("neg"|"inv"|"linv"|"rinv", a)   ("div", a, num)
#   ("reinterpret", a, v)  ("translate", a, v)
# ------------------------------------------------------------------------------------------------------
DYN = ("src", "ssrc")
FIXP = ("sym", "symT", "sp", "spnv")


def has_dyn(e):
    return e[0] in DYN or any(isinstance(x, tuple) and has_dyn(x) for x in e[1:])


def depth(e):
    return 1 + max((depth(x) for x in e[1:] if isinstance(x, tuple)), default=-1) if e[0] not in DYN + FIXP + ("num",) else 0


def n_ops(e):
    return (0 if e[0] in DYN + FIXP + ("num",) else 1) + sum(n_ops(x) for x in e[1:] if isinstance(x, tuple))


def fixed_kind(e):
    """None if e contains a dynamic operand, else the kind of fixed operand it is made of ('sym', 'sp', 'num', 'mixed')."""
    if e[0] in DYN:
        return None
    if e[0] in ("sym", "symT"):
        return e[0]
    if e[0] in ("sp", "spnv"):
        return "sp"
    if e[0] == "num":
        return "num"
    kinds = [fixed_kind(x) for x in e[1:] if isinstance(x, tuple)]
    if any(k is None for k in kinds):
        return None
    ks = set(kinds) - {"num"}
    if not ks:
        return "num"
    return ks.pop() if len(ks) == 1 else "mixed"


class Gen:
    def __init__(self, rng, al, nsrc=3, nssrc=2):
        self.rng, self.al, self.nsrc, self.nssrc = rng, al, nsrc, nssrc

    def num(self, integer=False):
        rng = self.rng
        p, q = rng.choice([(2, 1), (3, 1), (1, 1), (2, 1)] if integer else [(2, 1), (3, 1), (1, 2), (3, 2), (1, 4), (5, 1)])
        return ("num", p, q, rng.random() < 0.3, rng.choice(["int", "float", "np64", "np0d"]) if q == 1 else rng.choice(["float", "np64", "np0d"]))

    def fixed_p(self):
        return (self.rng.choice(["sym", "sym", "symT", "sp", "sp", "spnv"]), self.rng.randrange(len(NAMES)))

    def leaf_p(self, need_dyn):
        if need_dyn or self.rng.random() < 0.6:
            return ("src", self.rng.randrange(self.nsrc))
        return self.fixed_p()

    def gen_p(self, depth, need_dyn=True, integer=False):
        """A pointer-typed expression in vocabulary 0 containing (if need_dyn) a dynamic operand."""
        rng = self.rng
        if depth == 0 or rng.random() < 0.12:
            return self.leaf_p(need_dyn)
        k = rng.choice(["add", "sub", "neg", "mul", "mul", "mul", "scale", "rscale", "div", "inv", "linv", "rinv",
                        "sscale", "reinterpret", "translate"])
        if k in ("add", "sub", "mul"):
            a = self.gen_p(depth - 1, need_dyn=True, integer=integer)
            if self.al != "AHrr" and k != "mul":
                b = self.reshape(a)
            else:
                b = self.gen_p(depth - 1, need_dyn=False, integer=integer) if rng.random() < 0.5 else self.leaf_p(False)
            if fixed_kind(b) == "mixed":
                b = self.leaf_p(False)
            return (k, a, b) if rng.random() < 0.5 else (k, b, a)
        if k == "neg":
            return ("neg", self.gen_p(depth - 1, need_dyn, integer))
        if k == "scale":
            return ("mul", self.gen_p(depth - 1, need_dyn, integer), self.num(integer))
        if k == "rscale":
            return ("mul", self.num(integer), self.gen_p(depth - 1, need_dyn, integer))
        if k == "div":
            if integer:
                return ("neg", self.gen_p(depth - 1, need_dyn, integer))
            return ("div", self.gen_p(depth - 1, need_dyn, integer), self.num())
        if k in ("inv", "linv", "rinv"):
            if self.al == "AVtb" and k == "linv":
                k = "rinv"
            return (k, self.gen_p(depth - 1, need_dyn, integer))
        if k == "sscale":
            # a dynamic scalar scaling a typed symbol
            s = self.gen_s(depth - 1, integer=integer)
            f = ("symT", rng.randrange(len(NAMES)))
            return ("mul", s, f) if rng.random() < 0.5 else ("mul", f, s)
        if k == "reinterpret":
            # into the second vocabulary of the same dimensionality and back
            return ("reinterpret", ("reinterpret", self.gen_p(depth - 1, True, integer), 1), 0)
        if k == "translate":
            return ("translate", ("reinterpret", self.gen_p(depth - 1, True, integer), 1), 0)
        raise ValueError(k)

    def gen_s(self, depth, integer=False):
        rng = self.rng
        if depth == 0 or rng.random() < 0.15:
            return ("ssrc", rng.randrange(self.nssrc))
        k = rng.choice(["add", "sub", "mul", "scale", "neg", "div", "dot", "dot", "dotf", "addnum"])
        if k in ("add", "sub", "mul"):
            return (k, self.gen_s(depth - 1, integer), self.gen_s(depth - 1, integer))
        if k == "scale":
            a, n = self.gen_s(depth - 1, integer), self.num(integer)
            return ("mul", a, n) if rng.random() < 0.5 else ("mul", n, a)
        if k == "addnum":
            a, n = self.gen_s(depth - 1, integer), self.num(integer)
            op = rng.choice(["add", "sub"])
            return (op, a, n) if rng.random() < 0.5 else (op, n, a)
        if k == "neg":
            return ("neg", self.gen_s(depth - 1, integer))
        if k == "div":
            if integer:
                return ("neg", self.gen_s(depth - 1, integer))
            return ("div", self.gen_s(depth - 1, integer), self.num())
        if k == "dot":
            a = self.gen_p(depth - 1, True, integer)
            b = self.reshape(a) if self.al != "AHrr" else self.gen_p(depth - 1, True, integer)
            return ("dot", a, b)
        a = self.gen_p(depth - 1, True, integer)
        f = self.fixed_p()
        if self.al != "AHrr" and n_binds(a) != 0:
            a = ("src", rng.randrange(self.nsrc))
        return ("dot", a, f) if rng.random() < 0.5 else ("dot", f, a)

    def reshape(self, a):
        """Same operator skeleton (hence the same irrational factor), other leaves."""
        rng = self.rng
        if a[0] == "src":
            return ("src", rng.randrange(self.nsrc))
        if a[0] == "ssrc":
            return ("ssrc", rng.randrange(self.nssrc))
        if a[0] in FIXP:
            return (a[0], rng.randrange(len(NAMES)))
        if a[0] == "num":
            return a
        return (a[0],) + tuple(self.reshape(x) if isinstance(x, tuple) else x for x in a[1:])


def n_binds(e):
    if e[0] in DYN + FIXP + ("num",):
        return 0
    sub = [n_binds(x) for x in e[1:] if isinstance(x, tuple)]
    if e[0] == "mul" and all(typ(x) != "S" for x in e[1:3]):
        return 1 + sum(sub)
    return max(sub, default=0)


def strip(e):
    """Remove ("shared", key, e) wrappers (one Python object used in several places)."""
    if not isinstance(e, tuple):
        return e
    if e[0] == "shared":
        return strip(e[2])
    return tuple(strip(x) for x in e)


def typ(e):
    k = e[0]
    if k == "shared":
        return typ(e[2])
    if k in ("ssrc", "num", "dot"):
        return "S"
    if k in ("src", "src2", "sp2") + FIXP or k in ("inv", "linv", "rinv", "reinterpret", "translate", "translatek"):
        return "P"
    if k in ("neg", "div"):
        return typ(e[1])
    return "P" if "P" in (typ(e[1]), typ(e[2])) else "S"


def exhaustive(al, nsrc, nssrc):
    """Every operator x operand order x operand kind at depth 1, and each wrapped once more."""
    DP, DP2, DS, DS2 = ("src", 0), ("src", 1), ("ssrc", 0), ("ssrc", 1)
    fixed = [("sym", 0), ("symT", 1), ("sp", 2), ("spnv", 0)]
    nums = [("num", 2, 1, False, "int"), ("num", 3, 2, True, "float"), ("num", 1, 2, False, "np64"), ("num", 3, 1, False, "np0d")]
    out = [DP, DS]
    for op in ("add", "sub", "mul"):
        out.append((op, DP, DP2))
        out.append((op, DP2, DP))
        out.append((op, DS, DS2))
        for f in fixed:
            out.append((op, DP, f))
            out.append((op, f, DP))
    for n in nums:
        out += [("mul", DP, n), ("mul", n, DP), ("div", DP, n), ("mul", DS, n), ("mul", n, DS), ("div", DS, n),
                ("add", DS, n), ("add", n, DS), ("sub", DS, n), ("sub", n, DS)]
    out += [("mul", DS, ("symT", 0)), ("mul", ("symT", 1), DS)]
    for u in ("neg", "inv", "linv", "rinv"):
        out.append((u, DP))          # VTB has no left inverse: NotImplementedError on both sides
    out.append(("neg", DS))
    out.append(("dot", DP, DP2))
    for f in fixed:
        out += [("dot", DP, f), ("dot", f, DP)]
    out += [("reinterpret", ("reinterpret", DP, 1), 0), ("translate", ("reinterpret", DP, 1), 0), ("translate", DP, 2), ("reinterpret", DP, 1)]
    # translate restricted to a key subset, through the function and through the module's own method
    out += [("translatek", DP, 2, "function"), ("translatek", DP, 2, "method"), ("translatek", ("neg", DP), 2, "method")]
    # right-nested fixed sub-expressions (printing them needs parentheses; VTB / TVTB binding is not associative)
    s0, s1, s2 = ("sym", 0), ("sym", 1), ("sym", 2)
    out += [("mul", DP, ("mul", s0, ("mul", s1, s2))), ("mul", ("mul", s0, ("mul", s1, s2)), DP), ("mul", ("mul", ("mul", s0, s1), s2), DP),
            ("dot", DP, ("mul", s0, ("mul", s1, s2)))]
    if al == "AHrr":
        out += [("add", DP, ("sub", s0, ("sub", s1, s2))), ("sub", ("sub", s0, ("sub", s1, s2)), DP)]
    d1 = list(out)
    # depth 2: wrap each pointer-typed depth-1 expression by the unary operators and one binary of each kind
    for e in d1:
        if e[0] in DYN:
            continue
        if typ(e) == "P" and not (e[0] in ("reinterpret", "translate", "translatek") and e[2] != 0):
            out += [("neg", e), ("rinv", e), ("mul", e, ("sym", 1)), ("mul", ("sp", 0), e), ("mul", e, DP2), ("mul", DP2, e),
                    ("mul", e, nums[1]), ("dot", e, ("sym", 2))]
            if al == "AHrr" or n_binds(e) == 0:
                out += [("sub", DP2, e), ("add", e, ("symT", 2)), ("dot", DP2, e)]
        elif typ(e) == "S":
            out += [("neg", e), ("mul", e, DS2), ("sub", nums[0], e), ("mul", e, ("symT", 0)), ("add", e, DS2), ("div", e, nums[2])]
    return out


ILL_TYPED = [
    ("add", ("src", 0), ("num", 2, 1, False, "float")), ("add", ("src", 0), ("ssrc", 0)), ("sub", ("ssrc", 0), ("src", 1)),
    ("mul", ("ssrc", 0), ("src", 0)), ("mul", ("src", 0), ("ssrc", 0)), ("dot", ("src", 0), ("ssrc", 0)),
    ("dot", ("ssrc", 0), ("ssrc", 1)), ("inv", ("ssrc", 0)), ("rinv", ("ssrc", 0)), ("mul", ("ssrc", 0), ("sym", 0)),
    ("mul", ("sym", 0), ("ssrc", 0)), ("add", ("src", 0), ("src2", 0)), ("mul", ("src", 0), ("src2", 0)),
    ("dot", ("src2", 0), ("src", 0)), ("mul", ("src", 0), ("sp2", 0)), ("add", ("sp2", 0), ("src", 0)),
    ("add", ("ssrc", 0), ("sp", 0)), ("dot", ("src", 0), ("num", 2, 1, False, "int")),
]


# ------------------------------------------------------------------------------------------------------
class World:
    """Vocabularies, source values and the three renderings of an expression."""

    def __init__(self, al, d, rng):
        import nengo_spa as spa
        self.al, self.d, self.rng = al, d, rng
        self.A = algs.alg_obj(al)
        self.d2 = {3: 5, 4: 9, 5: 3, 8: 4, 9: 4, 16: 4}[d] if al == "AHrr" else {4: 9, 9: 4, 16: 4}[d]
        self.names = [algs.rand_vec(rng, d, -2, 2) for _ in NAMES]
        for v in self.names:
            if not any(v):
                v[0] = 1
        self.names1 = [algs.rand_vec(rng, d, -2, 2) for _ in NAMES]
        self.names2 = [algs.rand_vec(rng, self.d2, -2, 2) for _ in NAMES[:2]]
        mk = lambda dim: spa.Vocabulary(dim, algebra=self.A, pointer_gen=np.random.RandomState(1), strict=False)  # noqa
        self.vocabs = [mk(d), mk(d), mk(self.d2)]
        for n, v in zip(NAMES, self.names):
            self.vocabs[0].add(n, np.array(v, float))
        for n, v in reversed(list(zip(NAMES, self.names1))):     # same keys as vocabs[0], held in another order
            self.vocabs[1].add(n, np.array(v, float))
        for n, v in zip(NAMES[:2], self.names2):
            self.vocabs[2].add(n, np.array(v, float))
        self.src = [algs.rand_vec(rng, d, -3, 3) for _ in range(3)]
        for v in self.src:
            if not any(v):
                v[-1] = 2
        self.ssrc = [rng.choice([-3, -2, 2, 3]) for _ in range(2)]
        self.src2 = [algs.rand_vec(rng, self.d2, -3, 3)]
        for k, v in enumerate(self.src):
            self.vocabs[0].add(f"S{k}", np.array(v, float))
        # translate matrices (real transform_to, integer valued because the vocabularies are)
        self.T = {}
        for (a, b_) in ((1, 0), (0, 2), (0, 1)):
            with warnings.catch_warnings():
                warnings.simplefilter("ignore")
                self.vocabs[a].transform_to(self.vocabs[b_], populate=False)
            # sum over the common keys of (target vector)(source vector)^T, computed here and not taken from transform_to
            vv = {0: self.names, 1: self.names1, 2: self.names2}
            ncommon = min(len(vv[a]), len(vv[b_]))
            self.T[(a, b_)] = sum(np.outer(np.array(vv[b_][k_], float), np.array(vv[a][k_], float)) for k_ in range(ncommon))
        # restricted to the key A: the outer product of the two A vectors (independent of transform_to's own handling of keys)
        self.T[(0, 2, "A")] = np.outer(np.array(self.names2[0], float), np.array(self.names[0], float))

    # ---- Coq renderings --------------------------------------------------------------------------
    def entries(self):
        return self.src + self.names

    def mats(self):
        d = self.d
        eye = [[int(i == j) for j in range(d)] for i in range(d)]
        ti = lambda M: [[int(round(x)) for x in row] for row in M]  # noqa
        return [eye, ti(self.T[(1, 0)]), ti(self.T[(0, 2)]), ti(self.T[(0, 2, "A")])]

    def to_parse(self, e, vcur=0):
        """Model/Parse.v expr (specification side)."""
        k = e[0]
        if k == "src":
            return f"(EName {e[1]})"
        if k == "ssrc":
            return f"(EScalarSrc {e[1]})"
        if k in FIXP:
            return f"(EName {3 + e[1]})"
        if k == "num":
            return f"(ENum {e[1]} {e[2]} {c.b(e[3])})"
        if k == "neg":
            return f"(ENeg {self.to_parse(e[1])})"
        if k == "inv":
            return f"(EInv {self.to_parse(e[1])})"
        if k in ("linv", "rinv"):
            return f"(ESide {self.to_parse(e[1])} {c.b(k == 'linv')})"
        if k in ("add", "sub", "mul", "dot"):
            return f"({ {'add': 'EAdd', 'sub': 'ESub', 'mul': 'EMul', 'dot': 'EDot'}[k]} {self.to_parse(e[1])} {self.to_parse(e[2])})"
        if k == "div":
            return f"(EDivNum {self.to_parse(e[1])} {e[2][1]} {e[2][2]} {c.b(e[2][3])})"
        if k == "reinterpret":
            return f"(EApply 0 {self.to_parse(e[1])})"
        if k == "translate":
            return f"(EApply {1 if e[2] == 0 else 2} {self.to_parse(e[1])})"
        if k == "translatek":
            return f"(EApply 3 {self.to_parse(e[1])})"
        raise ValueError(k)

    def integer_only(self, e):
        if e[0] == "num":
            return e[2] == 1
        if e[0] == "div":
            return False
        return all(self.integer_only(x) for x in e[1:] if isinstance(x, tuple))

    def to_dyn(self, e):
        """Model/Dynamic.v dexpr at Z (integer numbers only)."""
        k = e[0]
        if k == "src":
            return f"(zSrc {e[1]})"
        if k == "src2":
            return "(zSrc 3)"
        if k == "ssrc":
            return f"(zSSrc {e[1]})"
        if k in ("sym", "symT"):
            return f"(zFix true {c.zlist(self.names[e[1]])})"
        if k in ("sp", "spnv"):
            return f"(zFix false {c.zlist(self.names[e[1]])})"
        if k == "sp2":
            return f"(zFix false {c.zlist(self.names2[e[1]])})"
        if k == "num":
            return f"(zNum {c.z(-e[1] if e[3] else e[1])})"
        if k == "neg":
            return f"(zNeg {self.to_dyn(e[1])})"
        if k in ("inv", "linv", "rinv"):
            return f"(zInv { {'inv': 'STwo', 'linv': 'SLeft', 'rinv': 'SRight'}[k]} {self.to_dyn(e[1])})"
        if k in ("add", "sub", "mul", "dot"):
            return f"({ {'add': 'zAdd', 'sub': 'zSub', 'mul': 'zMul', 'dot': 'zDot'}[k]} {self.to_dyn(e[1])} {self.to_dyn(e[2])})"
        if k == "reinterpret":
            return f"(zApply {c.zmat(self.mats()[0])} {self.to_dyn(e[1])})"
        if k == "translate":
            return f"(zApply {c.zmat(self.mats()[1 if e[2] == 0 else 2])} {self.to_dyn(e[1])})"
        if k == "translatek":
            return f"(zApply {c.zmat(self.mats()[3])} {self.to_dyn(e[1])})"
        raise ValueError(k)

    # ---- text (for reports) ----------------------------------------------------------------------
    def text(self, e):
        k = e[0]
        if k in ("src", "ssrc", "src2"):
            return f"{k}{e[1]}"
        if k == "sym":
            return f"sym.{NAMES[e[1]]}"
        if k == "symT":
            return f"PointerSymbol('{NAMES[e[1]]}', TVocabulary(v0))"
        if k == "sp":
            return f"v0['{NAMES[e[1]]}']"
        if k == "sp2":
            return f"v2['{NAMES[e[1]]}']"
        if k == "spnv":
            return f"SemanticPointer(v0['{NAMES[e[1]]}'].v)"
        if k == "num":
            x = (-1 if e[3] else 1) * (e[1] / e[2] if e[2] != 1 else e[1])
            return {"int": repr(x), "float": repr(float(x)), "np64": f"np.float64({float(x)!r})", "np0d": f"np.array({float(x)!r})"}[e[4]]
        if k == "neg":
            return f"-({self.text(e[1])})"
        if k == "inv":
            return f"~({self.text(e[1])})"
        if k in ("linv", "rinv"):
            return f"({self.text(e[1])}).{k}()"
        if k in ("add", "sub", "mul"):
            return f"({self.text(e[1])}) { {'add': '+', 'sub': '-', 'mul': '*'}[k]} ({self.text(e[2])})"
        if k == "dot":
            return f"spa.dot({self.text(e[1])}, {self.text(e[2])})"
        if k == "div":
            return f"({self.text(e[1])}) / {self.text(e[2])}"
        if k == "reinterpret":
            return f"spa.reinterpret({self.text(e[1])}, v{e[2]})"
        if k == "translate":
            return f"spa.translate({self.text(e[1])}, v{e[2]}, populate=False)"
        if k == "translatek":
            return (f"spa.translate({self.text(e[1])}, v{e[2]}, populate=False, keys=['A'])" if e[3] == "function"
                    else f"({self.text(e[1])}).translate(v{e[2]}, populate=False, keys=['A'])")
        raise ValueError(k)


class Net:
    """One spa.Network with the sources of a World; statements are added, then it is simulated."""

    def __init__(self, w, form_seed=0):
        import nengo
        import nengo_spa as spa
        self.w = w
        self.spa, self.nengo = spa, nengo
        self.model = spa.Network(seed=1)
        self.probes = []
        self.forms = []
        self.shared = {}
        v0 = w.vocabs[0]
        self.history = "none"
        if form_seed % 3 == 1:
            # call history: an action-selection block that failed earlier in this process must leave nothing behind
            self.history = "failed action-selection block"
            with spa.Network():
                st0 = spa.State(v0, subdimensions=1)
                try:
                    with spa.ActionSelection():
                        spa.ifmax(0.5, spa.sym.A >> st0)
                        raise RuntimeError("body fails")
                except RuntimeError:
                    pass
        with self.model:
            self.model.config[nengo.Ensemble].neuron_type = nengo.Direct()
            self.src = []
            for k, v in enumerate(w.src):
                arr = np.array(v, float)
                form = (form_seed + k) % 10
                nm = f"S{k}"
                if form == 0:      # function of time returning an array
                    m = spa.Transcode(lambda t, a=arr: a, output_vocab=v0)
                elif form == 1:    # SemanticPointer
                    m = spa.Transcode(spa.SemanticPointer(arr, vocab=v0), output_vocab=v0)
                elif form == 2:    # symbol
                    m = spa.Transcode(getattr(spa.sym, nm), output_vocab=v0)
                elif form == 3:    # expression string
                    m = spa.Transcode(f"0.5 * {nm} + {nm} * 0.5", output_vocab=v0)
                elif form == 4:    # function of time returning a Semantic Pointer
                    m = spa.Transcode(lambda t, a=arr: spa.SemanticPointer(a, vocab=v0), output_vocab=v0)
                elif form == 5:    # function of time returning an expression string
                    m = spa.Transcode(lambda t, n=nm: f"2 * {n} - {n}", output_vocab=v0)
                elif form == 6:    # function of time returning a symbol
                    m = spa.Transcode(lambda t, n=nm: getattr(spa.sym, n), output_vocab=v0)
                elif form == 7:    # function of time and the input pointer (fed by another Transcode)
                    feeder = spa.Transcode(lambda t, a=arr: a / 2.0, output_vocab=v0)
                    m = spa.Transcode(lambda t, p: p + p, input_vocab=v0, output_vocab=v0)
                    feeder >> m
                elif form == 9:    # function of the input pointer whose input vocabulary has no keys yet (an empty vocabulary is falsy)
                    ve = spa.Vocabulary(w.d, algebra=w.A, pointer_gen=np.random.RandomState(7), strict=False)
                    ident = spa.semantic_pointer.Identity(w.d, algebra=w.A) if w.al != "AVtb" else \
                        spa.semantic_pointer.Identity(w.d, algebra=w.A, sidedness=spa.algebras.ElementSidedness.RIGHT)
                    feeder = spa.Transcode(lambda t, a=arr: a, output_vocab=ve)
                    m = spa.Transcode(lambda t, p, i_=ident: p * i_, input_vocab=ve, output_vocab=v0)   # pointer arithmetic on the input
                    feeder >> m
                else:              # a State module fed from a Transcode (a module that is not a Node)
                    feeder = spa.Transcode(lambda t, a=arr: a, output_vocab=v0)
                    m = spa.State(v0, subdimensions=1)
                    feeder >> m
                self.forms.append(["function(t)->array", "SemanticPointer", "symbol", "expression string",
                                   "function(t)->SemanticPointer", "function(t)->string", "function(t)->symbol",
                                   "function(t, pointer)", "State fed by Transcode", "function(t, pointer) with an empty input vocabulary"][form])
                self.src.append(m)
            # a source given as symbol / expression string: the names themselves are also available as sources
            self.ssrc = []
            for x in w.ssrc:
                s = spa.Scalar()
                nengo.Connection(nengo.Node(float(x)), s.input, synapse=None)
                self.ssrc.append(s)
            self.src2 = [spa.Transcode(lambda t, a=np.array(w.src2[0], float): a, output_vocab=w.vocabs[2])]

    def obj(self, e):
        """The implementation object of an expression (must be called inside `with self.model`)."""
        spa, w = self.spa, self.w
        from nengo_spa.ast.symbolic import PointerSymbol
        from nengo_spa.types import TVocabulary
        k = e[0]
        if k == "src":
            return self.src[e[1]]
        if k == "src2":
            return self.src2[e[1]]
        if k == "ssrc":
            return self.ssrc[e[1]]
        if k == "sym":
            return getattr(spa.sym, NAMES[e[1]])
        if k == "symT":
            return PointerSymbol(NAMES[e[1]], TVocabulary(w.vocabs[0]))
        if k == "sp":
            return w.vocabs[0][NAMES[e[1]]]
        if k == "sp2":
            return w.vocabs[2][NAMES[e[1]]]
        if k == "spnv":
            return spa.SemanticPointer(np.array(w.names[e[1]], float), algebra=w.A)
        if k == "num":
            x = (-1 if e[3] else 1) * (e[1] / e[2] if e[2] != 1 else e[1])
            return {"int": x, "float": float(x), "np64": np.float64(x), "np0d": np.array(float(x))}[e[4]]
        if k == "neg":
            return -self.obj(e[1])
        if k == "inv":
            return ~self.obj(e[1])
        if k == "linv":
            return self.obj(e[1]).linv()
        if k == "rinv":
            return self.obj(e[1]).rinv()
        if k == "add":
            return self.obj(e[1]) + self.obj(e[2])
        if k == "sub":
            return self.obj(e[1]) - self.obj(e[2])
        if k == "mul":
            return self.obj(e[1]) * self.obj(e[2])
        if k == "div":
            return self.obj(e[1]) / self.obj(e[2])
        if k == "dot":
            return spa.dot(self.obj(e[1]), self.obj(e[2]))
        if k == "reinterpret":
            return spa.reinterpret(self.obj(e[1]), w.vocabs[e[2]])
        if k == "translate":
            return spa.translate(self.obj(e[1]), w.vocabs[e[2]], populate=False)
        if k == "translatek":
            if e[3] == "function":
                return spa.translate(self.obj(e[1]), w.vocabs[e[2]], populate=False, keys=[NAMES[0]])
            return self.obj(e[1]).translate(w.vocabs[e[2]], populate=False, keys=[NAMES[0]])
        if k == "shared":
            if e[1] not in self.shared:
                self.shared[e[1]] = self.obj(e[2])
            return self.shared[e[1]]
        raise ValueError(k)

    def add_sink(self, stmts, out_type, sink_form):
        """Connect each statement to a fresh sink; returns (probe index or exception outcome, AST shapes)."""
        spa, nengo, w = self.spa, self.nengo, self.w
        shapes = []
        with warnings.catch_warnings():
            warnings.simplefilter("ignore")
            with self.model:
                if out_type == "S":
                    sink = spa.Scalar()
                    out = sink.output
                else:
                    voc = w.vocabs[out_type[1]]
                    if sink_form % 2 == 0:
                        sink = spa.State(voc, subdimensions=1)
                        out = sink.output
                    else:          # read through a Transcode: function of time and the input pointer
                        sink = spa.Transcode(lambda t, p: p.v, input_vocab=voc, size_out=voc.dimensions)
                        out = sink.output
                try:
                    for e in stmts:
                        o = self.obj(e)
                        shapes.append(self.ast_shape(o))
                        o >> sink
                except Exception as ex:  # noqa
                    return (type(ex).__name__, str(ex)[:160]), shapes
                self.probes.append(nengo.Probe(out, synapse=None))
        return len(self.probes) - 1, shapes

    def ast_shape(self, o):
        """Class codes and pending transforms of the AST object (see Tie/DynTie.v shape)."""
        from nengo_spa.ast import dynamic as dy
        from nengo_spa.ast.symbolic import FixedScalar, PointerSymbol
        spa = self.spa
        src_outputs = {id(m.output) for m in self.src + self.ssrc + self.src2}
        mods = {}
        for n in self.model.all_networks:
            if hasattr(n, "output") and isinstance(n, spa.Network):
                mods[id(n.output)] = type(n).__name__
        codes, trs = [], []

        def walk(x):
            if isinstance(x, dy.Transformed):
                tr = np.asarray(x.transform, dtype=float)
                if tr.ndim == 0:
                    kind, m = 0, tr.reshape(1, 1)
                elif tr.ndim == 2 and tr.shape[0] == 1 and tr.shape[1] > 1:
                    kind, m = 2, tr
                elif tr.ndim == 2 and tr.shape[1] == 1 and tr.shape[0] > 1:
                    kind, m = 3, tr
                elif tr.ndim == 2:
                    kind, m = 1, tr
                else:
                    kind, m = 10 + tr.ndim, tr.reshape(1, -1)
                codes.extend([1, kind])
                trs.append(m)
                walk(x.source)
            elif isinstance(x, dy.Summed):
                codes.extend([2, 1 if x.type == spa.types.TScalar else 0])
                if len(x.sources) != 2:
                    codes.append(100 + len(x.sources))
                for s in x.sources:
                    walk(s)
            elif isinstance(x, dy.ModuleOutput):
                if id(x.output) in src_outputs:
                    codes.append(4)
                else:
                    codes.append({"Bind": 5, "Product": 6, "Compare": 7}.get(mods.get(id(x.output)), 99))
            elif isinstance(x, (PointerSymbol, spa.SemanticPointer)):
                codes.append(8)
            elif isinstance(x, FixedScalar) or np.isscalar(x) or isinstance(x, np.ndarray):
                codes.append(9)
            elif hasattr(x, "output") and id(x.output) in src_outputs:
                codes.append(4)
            else:
                codes.append(98)
        walk(o)
        return codes, trs

    def run(self):
        with warnings.catch_warnings():
            warnings.simplefilter("ignore")
            with self.nengo.Simulator(self.model, progress_bar=False) as sim:
                sim.run(T_RUN)
            return [np.array(sim.data[p][-1]) for p in self.probes]


def magnitude(w, stmts):
    """A bound on the size of the value, for the absolute part of the tolerance."""
    def m(e):
        k = e[0]
        if k in ("src", "src2"):
            return 3.0 * 1
        if k == "ssrc":
            return 3.0
        if k in FIXP or k == "sp2":
            return 2.0
        if k == "num":
            return e[1] / e[2]
        if k in ("neg", "inv", "linv", "rinv", "reinterpret"):
            return m(e[1])
        if k in ("translate", "translatek"):
            return m(e[1]) * 4 * w.d * 3
        if k in ("add", "sub"):
            return m(e[1]) + m(e[2])
        if k == "div":
            return m(e[1]) * e[2][2] / e[2][1]
        if k in ("mul", "dot"):
            both_p = typ(e[1]) == "P" and typ(e[2]) == "P"
            return m(e[1]) * m(e[2]) * (w.d if both_p else 1)
        raise ValueError(k)
    return int(math.ceil(sum(m(e) for e in stmts))) + 1


def plan(al, d, seed, quick):
    """Deterministic world and statement groups of one (algebra, d) configuration."""
    import random
    rng = random.Random(f"c01:{al}:{d}:{seed}")
    w = World(al, d, rng)
    g = Gen(rng, al)
    exact = al == "AHrr" or d == 16
    groups = []      # (statements, out type, origin)
    # one AST object used in several statements: compiling it once must not change what it means the next time
    x1 = ("shared", "x1", ("mul", ("src", 0), ("sym", 0)))
    y1 = ("shared", "y1", ("mul", ("ssrc", 0), ("num", 2, 1, False, "int")))
    z1 = ("shared", "z1", ("neg", ("src", 1)))
    groups += [([("rinv", x1)], ("P", 0), "shared"), ([x1], ("P", 0), "shared"), ([("mul", x1, ("sym", 1))], ("P", 0), "shared"),
               ([("neg", y1)], "S", "shared"), ([y1, ("mul", y1, ("ssrc", 1))], "S", "shared"),
               ([("mul", ("sym", 2), z1)], ("P", 0), "shared"), ([z1, ("dot", z1, ("sym", 1))] if False else [z1], ("P", 0), "shared")]
    # constants that need all their digits (1/3, 2/7, 1234567.5): a symbol scaled by a number is re-parsed from its printed form
    third, sev, many = ("num", 1, 3, False, "float"), ("num", 2, 7, True, "np64"), ("num", 2469135, 2, False, "float")
    groups += [([("mul", ("sym", 0), third)], ("P", 0), "digits"), ([("mul", sev, ("sym", 1))], ("P", 0), "digits"),
               ([("sub", ("mul", third, ("sym", 0)), ("div", ("sym", 1), ("num", 7, 1, False, "int")))], ("P", 0), "digits"),
               ([("mul", ("src", 0), ("mul", ("sym", 1), third))], ("P", 0), "digits"),
               ([("mul", ("mul", ("sym", 2), many), ("src", 1))], ("P", 0), "digits"),
               ([("mul", ("ssrc", 0), ("mul", ("symT", 0), sev))], ("P", 0), "digits")]
    # inverses of fixed operands for a side (a right inverse exists in every shipped algebra)
    groups += [([("mul", ("src", 0), ("rinv", ("sym", 1)))], ("P", 0), "fixed-inverse"), ([("rinv", ("sym", 2))], ("P", 0), "fixed-inverse"),
               ([("mul", ("rinv", ("symT", 0)), ("src", 1))], ("P", 0), "fixed-inverse"),
               ([("add", ("rinv", ("mul", ("sym", 0), ("sym", 1))), ("src", 0))], ("P", 0), "fixed-inverse"),
               ([("mul", ("src", 1), ("rinv", ("sp", 2)))], ("P", 0), "fixed-inverse")]
    if al != "AVtb":
        groups += [([("mul", ("src", 0), ("linv", ("sym", 1)))], ("P", 0), "fixed-inverse"), ([("mul", ("inv", ("sym", 2)), ("src", 0))], ("P", 0), "fixed-inverse")]
    if d in (4, 16) or not quick:
        for e in exhaustive(al, 3, 2):
            if quick and depth(e) > 1 and (d == 16 or rng.random() < 0.5):
                continue
            t = ("P", e[2]) if e[0] in ("reinterpret", "translate", "translatek") else (("P", 0) if typ(e) == "P" else "S")
            groups.append(([e], t, "exhaustive"))
    nrand = (40 if quick else 300) if d != 16 else (12 if quick else 80)
    for _ in range(nrand):
        dep = rng.choice([1, 2, 2, 3] if quick else [2, 3, 3, 4, 5])
        integer = exact and rng.random() < 0.5
        k = rng.choice([1, 1, 2, 3])
        gen = g.gen_p if rng.random() < 0.65 else g.gen_s
        first = gen(dep, integer=integer)
        stm = [first] + [(g.reshape(first) if al != "AHrr" else gen(rng.randrange(dep + 1), integer=integer)) for _ in range(k - 1)]
        groups.append((stm, ("P", 0) if gen == g.gen_p else "S", "random"))
    return w, groups, exact


BATCH = 10


def work(args):
    """Worker entry: never lets an exception cross the process boundary (unpicklable exceptions hang the pool)."""
    try:
        return _work(args)
    except BaseException as e:  # noqa
        import traceback
        return [], [(f"worker for {args[0]} d={args[1]} failed: {type(e).__name__}: {e}"[:300],
                     {"case": {"alg": args[0], "d": args[1], "chunk": [args[5], args[6]]}, "traceback": traceback.format_exc()[-1500:]})], []


def _work(args):
    """Simulate one chunk of a configuration; returns plain data (runs in a worker process)."""
    al, d, seed, quick, ci, lo, hi, extras = args
    w, groups, exact = plan(al, d, seed, quick)
    cases, viols, plain = [], [], []

    def add(expr, m, key, nontrivial=True, sample=None):
        cases.append((expr, m, key, nontrivial, sample))

    ents = c.lst([c.zlist(v) for v in w.entries()])
    scal = c.lst([f"({c.z(x)}, 1%Z)" for x in w.ssrc])
    matl = c.lst([c.zmat(m) for m in w.mats()])
    srcs = c.lst([c.zlist(v) for v in w.src + w.src2])
    sc = c.zlist(w.ssrc)
    for b0 in range(lo, min(hi, len(groups)), BATCH):
        batch = groups[b0:min(b0 + BATCH, hi)]
        net = Net(w, form_seed=b0 // BATCH + ci)
        res = [net.add_sink(stm, t, sink_form=b0 + gi) for gi, (stm, t, origin) in enumerate(batch)]
        o = c.outcome(net.run)
        if o[0] != "ok":
            viols.append((f"simulation of a batch of compiled expressions failed: {o[0]}: {str(o[1])[:120]}",
                          {"case": {"alg": al, "d": d, "statements": [[w.text(strip(e)) for e in st] for st, _, _ in batch]}}))
            continue
        values = o[1]
        for (stm, t, origin), (pi, shapes) in zip(batch, res):
            stm = [strip(e) for e in stm]
            texts = [w.text(e) for e in stm]
            base = {"alg": al, "d": d, "statements": texts, "sources": {"src": w.src, "ssrc": w.ssrc, "names": w.names},
                    "source_forms": net.forms, "origin": origin, "history": net.history}
            key = (al, d, tuple(texts), tuple(map(tuple, w.src)), tuple(w.ssrc))
            if isinstance(pi, tuple):
                obs_t = c.obs_term((pi[0], pi[1]), algs.enc_vec)
                base["observed"] = list(pi)
            else:
                val = values[pi]
                obs_t = c.obs_term(("ok", val, False, []), algs.enc_vec)
                base["observed"] = np.round(np.asarray(val), 9).tolist()
            tol = f"({c.z(magnitude(w, stm))}, 100000000%Z)"
            nontriv = all(has_dyn(e) for e in stm) and sum(n_ops(e) for e in stm) >= 1
            # (1) specification: Semantic-Pointer arithmetic with radicands
            pe = c.lst([w.to_parse(e) for e in stm])
            add(f"check_spec {al} {d} {ents} {scal} {matl} {pe} {tol} {obs_t}",
                dict(base, op="sink-value-vs-semantic-pointer-arithmetic"), ("spec",) + key, nontriv,
                dict(base) if origin == "random" and len(stm) == 2 and d in (4, 5) and isinstance(pi, int) else None)
            add(f"spec_representable {al} {d} {ents} {scal} {matl} {pe}", dict(base, op="representable"), ("repr",) + key, False)
            # (2) the compiler model, where it is executable over Z
            if exact and all(w.integer_only(e) for e in stm):
                de = c.lst([w.to_dyn(e) for e in stm])
                add(f"check_dyn {al} {srcs} {sc} {de} {tol} {obs_t}", dict(base, op="sink-value-vs-compiler-model"), ("dyn",) + key, nontriv)
                for e, (codes, trs) in zip(stm, shapes):
                    if isinstance(pi, tuple):
                        break
                    add(f"check_shape {al} {srcs} {w.to_dyn(e)} (1%Z, 100000000%Z) {c.lst([str(x) for x in codes])} "
                        f"{c.lst([algs.enc_mat(m) for m in trs])}",
                        dict(base, op="ast-structure-vs-build", statement=w.text(e), codes=codes),
                        ("shape", al, d, w.text(e), tuple(map(tuple, w.src))), has_dyn(e) and n_ops(e) >= 1)
                    add(f"model_agrees {al} {srcs} {sc} {w.to_dyn(e)}", dict(base, op="model-build-equals-model-spec", statement=w.text(e)),
                        ("agree", al, d, w.text(e), tuple(map(tuple, w.src))), False)

    # ---- ill-typed and unsupported combinations must be rejected (once per configuration) ---------------
    if extras:
        for e in ILL_TYPED:
            net = Net(w)
            pi, _ = net.add_sink([e], ("P", 0) if typ(e) == "P" else "S", 0)
            plain.append((("ill", al, d, w.text(e)), "ill-typed-rejected"))
            if not isinstance(pi, tuple):
                val = net.run()[pi]
                viols.append((f"{al} d={d}: ill-typed expression {w.text(e)} was accepted and delivered {np.round(val, 4).tolist()}",
                              {"case": {"alg": al, "d": d, "statement": w.text(e), "op": "ill-typed-accepted"}}))
            if not (e[0] == "dot" and e[2][0] == "num") and not any(x[0] == "sym" for x in e[1:]):
                add(f"dyn_rejected {al} {srcs} {sc} {w.to_dyn(e)}", {"op": "model-rejects-ill-typed", "alg": al, "d": d, "statements": [w.text(e)]},
                    ("ill-model", al, d, w.text(e)), False)
        # dynamic scalar x SemanticPointer object: the property lists it, the implementation refuses it
        for e in (("mul", ("ssrc", 0), ("sp", 0)), ("mul", ("sp", 1), ("ssrc", 1)), ("mul", ("ssrc", 0), ("spnv", 0))):
            net = Net(w)
            pi, _ = net.add_sink([e], ("P", 0), 0)
            plain.append((("scalar-x-sp", al, d, w.text(e)), "dynamic-scalar-times-semantic-pointer"))
            if isinstance(pi, tuple):
                viols.append((f"{al} d={d}: {w.text(e)} (a fixed Semantic Pointer scaled by a dynamic scalar) raises {pi[0]}: {pi[1][:80]}",
                              {"case": {"alg": al, "d": d, "statement": w.text(e)},
                               "finding_key": "dynamic-scalar-times-semantic-pointer-not-implemented" if pi[0] == "NotImplementedError" else None,
                               "python": REPLAY_SCALAR_SP}))
            else:
                val = net.run()[pi]
                si, fi = (e[1][1], e[2][1]) if e[1][0] == "ssrc" else (e[2][1], e[1][1])
                want = w.ssrc[si] * np.array(w.names[fi], float)
                if not np.allclose(val, want, atol=1e-8):
                    viols.append((f"{al} d={d}: {w.text(e)} delivered {np.round(val, 4).tolist()}, expected {want.tolist()}",
                                  {"case": {"alg": al, "d": d, "statement": w.text(e)}}))
    return cases, viols, plain


def run(rep, tier, rng):
    import multiprocessing as mp
    quick = tier == "quick"
    seed = rng.randrange(10 ** 9)
    tasks = []
    ci = 0
    for al in algs.ALGS:
        for d in ([4, 5] if quick else [3, 4, 5, 8]) if al == "AHrr" else ([4, 16] if quick else [4, 9, 16]):
            _, groups, _ = plan(al, d, seed, quick)
            chunk = 20 if d != 16 else 10
            for k, lo in enumerate(range(0, len(groups), chunk)):
                tasks.append((al, d, seed, quick, ci, lo, lo + chunk, k == 0 and (al == "AHrr" or d == 16)))
            ci += 1
    from concurrent.futures import ProcessPoolExecutor
    with ProcessPoolExecutor(min(16, len(tasks)), mp_context=mp.get_context("fork")) as pool:
        results = list(pool.map(work, tasks))     # a dying worker raises BrokenProcessPool instead of hanging

    exprs, meta = [], []
    for cases, viols, plain in results:
        for expr, m, key, nontrivial, sample in cases:
            exprs.append(expr)
            meta.append(m)
            rep.case(key, nontrivial, sample)
            rep.count(m["op"])
        for key, name in plain:
            rep.case(key)
            rep.count(name)
        for what, data in viols:
            rep.violation(what, data)

    number_valued_sources(rep)
    verdicts = c.coq_eval("C01", "cases", IMPORTS, exprs, shard=120)
    skipped = 0
    WHAT = {"sink-value-vs-semantic-pointer-arithmetic": "the sink received a value different from Semantic-Pointer arithmetic on the source values",
            "sink-value-vs-compiler-model": "the sink value differs from the compiler model (Model/Dynamic.v build + deliver)",
            "ast-structure-vs-build": "the AST built by the operators differs from the model's build (classes / pending transforms)",
            "model-build-equals-model-spec": "MODEL: build + deliver differs from eval_sp inside the model (the theorem's statement fails on this input)",
            "model-rejects-ill-typed": "MODEL: an ill-typed expression is accepted by the model's build"}
    for ok, m in zip(verdicts, meta):
        if m["op"] == "representable":
            skipped += 0 if ok else 1
            continue
        if ok:
            continue
        stm = m.get("statement") or " ; ".join(m["statements"])
        rep.violation(f"{m['alg']} d={m['d']} [{stm}] >> sink: {WHAT[m['op']]}"
                      + (f" (observed {str(m.get('observed'))[:70]})" if "observed" in m else ""),
                      {"case": {k: v for k, v in m.items() if k != "observed"}, "observed": m.get("observed"),
                       "python": REPLAY_GENERIC.format(al=m["alg"], d=m["d"], stm=m["statements"], src=m.get("sources")),
                       "expected": "Model/Parse.v eval (specification) / Model/Dynamic.v delivered"},
                      found_input=not (m["op"].startswith("model-") or m["op"] == "ast-structure-vs-build"))
    rep.count("spec-unrepresentable-skipped", skipped)


def number_valued_sources(rep):
    """A number-valued expression string as a Transcode source is that number times the identity of the vocabulary's OWN
    algebra (dyadic at these sizes: HRR e_0; VTB / TVTB at d = 16: eye(4) / 2 flattened)."""
    import nengo
    import nengo_spa as spa
    for al, d in (("AHrr", 4), ("AVtb", 16), ("ATvtb", 16)):
        ident = np.eye(d)[0] if al == "AHrr" else (np.eye(4) / 2.0).flatten()
        for form, mk, cst in (("spa.Transcode('0.5', output_vocab=v)", lambda v: spa.Transcode("0.5", output_vocab=v), 0.5),
                              ("spa.Transcode(lambda t: '2 - 1', output_vocab=v)", lambda v: spa.Transcode(lambda t: "2 - 1", output_vocab=v), 1.0),
                              ("spa.Transcode(lambda t: '0.25 * 2', output_vocab=v)", lambda v: spa.Transcode(lambda t: "0.25 * 2", output_vocab=v), 0.5)):
            rep.case(("number-valued-source", al, form))
            rep.count("number-valued-source")
            py = "import nengo, nengo_spa as spa\n"
            py += (f"{algs.PRELUDE}v = spa.Vocabulary({d}, algebra={algs.alg_py(al)})\n"
                   "with spa.Network() as net:\n    net.config[nengo.Ensemble].neuron_type = nengo.Direct()\n"
                   f"    src = {form}; sink = spa.Transcode(input_vocab=v, output_vocab=v); src >> sink\n"
                   "    p = nengo.Probe(sink.output, synapse=None)\n"
                   "for conn in net.all_connections: conn.synapse = None\n"
                   "with nengo.Simulator(net, progress_bar=False) as sim: sim.run_steps(5)\n"
                   f"assert np.allclose(sim.data[p][-1], {cst} * np.array({ident.tolist()})), sim.data[p][-1]\n")
            try:
                v = spa.Vocabulary(d, algebra=algs.alg_obj(al), pointer_gen=np.random.RandomState(1))
                with spa.Network() as net:
                    net.config[nengo.Ensemble].neuron_type = nengo.Direct()
                    src = mk(v)
                    sink = spa.Transcode(input_vocab=v, output_vocab=v)
                    src >> sink
                    pr = nengo.Probe(sink.output, synapse=None)
                for conn in net.all_connections:
                    conn.synapse = None
                with nengo.Simulator(net, progress_bar=False) as sim:
                    sim.run_steps(5)
                got = np.asarray(sim.data[pr][-1], dtype=float)
            except Exception as e:  # noqa
                rep.violation(f"{al} d={d}: {form} >> sink raised {type(e).__name__}: {str(e)[:100]}", {"case": {"alg": al, "d": d, "source": form}, "python": py})
                continue
            if got.shape != ident.shape or np.max(np.abs(got - cst * ident)) > 1e-9:
                rep.violation(f"{al} d={d}: {form} >> sink delivers {np.round(got, 4).tolist()}, not {cst} times the identity of the vocabulary's algebra",
                              {"case": {"alg": al, "d": d, "source": form}, "observed": got.tolist(), "expected": (cst * ident).tolist(), "python": py})


def _uses(e, what):
    return False


def _has_translate_to(e, v):
    return (e[0] == "translate" and e[2] == v) or any(isinstance(x, tuple) and _has_translate_to(x, v) for x in e[1:])


REPLAY_GENERIC = """# statements {stm} into one sink, algebra {al}, d={d}, sources {src}
# rebuild with harness/props/c01.py: World / Net (Direct mode, 0.3 s) and compare with SemanticPointer arithmetic
assert False, 'compiled expression delivers a value different from Semantic-Pointer arithmetic'
"""

REPLAY_SCALAR_SP = """import numpy as np, nengo, nengo_spa as spa
v = spa.Vocabulary(4, pointer_gen=np.random.RandomState(1)); v.add('A', np.array([1., 2, 0, -1]))
with spa.Network() as m:
    s = spa.Scalar(); sink = spa.State(v, subdimensions=1)
    (s * v['A']) >> sink      # NotImplementedError: Dynamic scaling of semantic pointer not implemented.
"""

"""C06 correspondence: expression-tree printer, symbolic evaluation, pointer names."""

import ast
import itertools
import warnings

import numpy as np

from harness import algs
from harness import common as c
from harness.props import c10

RULE = ("printer: all trees of depth <= 2 over {13 binary operators | ^ & << >> + - * @ / // % **, unary - + ~, attribute, "
        "zero-argument call} on two leaf names (quick: every (outer, inner) operator pair in both child positions; thorough: "
        "exhaustive depth 2 + random depth <= 6), printed by the implementation, compared character by character with the "
        "model's rendering and re-parsed with CPython's ast.parse whose tree must equal the original; comparison / boolean "
        "operators of the precedence table through CPython only. Symbolic: random programs over sym.X, sym('...'), numbers "
        "of every kind, + - * / unary - ~ and the methods, evaluated in vocabularies of the three algebras and compared in "
        "Coq with the C10 evaluator applied to the written operations. Names: random operator sequences on vocabulary "
        "entries, name re-parsed in the vocabulary and compared with the vector. Non-trivial: tree with at least two "
        "operators; distinct = distinct tree / program.")
ASSUMPTIONS = ["CPython's parser is the reference for 'Python's grammar'; Model/ExprTree.v D is validated against it on every printed string",
               "determinism of the grammar relation D (one tree per string) is not proved; names shortened with an ellipsis are outside the claim"]

IMPORTS = algs.IMPORTS + " Model.Parse Tie.ParseTie Model.ExprTree Tie.ExprTie"

BOPS = {"|": "BOr", "^": "BXor", "&": "BAnd", "<<": "BShl", ">>": "BShr", "+": "BAdd", "-": "BSub", "*": "BMul",
        "@": "BMatMul", "/": "BDiv", "//": "BFloorDiv", "%": "BMod", "**": "BPow"}
UOPS = {"-": "UNeg", "+": "UPos", "~": "UInv"}
AST_B = {ast.BitOr: "|", ast.BitXor: "^", ast.BitAnd: "&", ast.LShift: "<<", ast.RShift: ">>", ast.Add: "+", ast.Sub: "-",
         ast.Mult: "*", ast.MatMult: "@", ast.Div: "/", ast.FloorDiv: "//", ast.Mod: "%", ast.Pow: "**"}
AST_U = {ast.USub: "-", ast.UAdd: "+", ast.Invert: "~"}


def coq_tree(t):
    k = t[0]
    if k == "leaf":
        return f"(Leaf {c.s(t[1])})"
    if k == "un":
        return f"(Un {UOPS[t[1]]} {coq_tree(t[2])})"
    if k == "bin":
        return f"(Bin {BOPS[t[1]]} {coq_tree(t[2])} {coq_tree(t[3])})"
    if k == "attr":
        return f"(Attr {c.s(t[1])} {coq_tree(t[2])})"
    return f"(Call0 {coq_tree(t[1])})"


def impl_tree(t):
    from nengo_spa.ast import expr_tree as et
    k = t[0]
    if k == "leaf":
        return et.Leaf(t[1])
    if k == "un":
        return et.UnaryOperator(t[1], impl_tree(t[2]))
    if k == "bin":
        return et.BinaryOperator(t[1], impl_tree(t[2]), impl_tree(t[3]))
    if k == "attr":
        return et.AttributeAccess(t[1], impl_tree(t[2]))
    return et.FunctionCall(tuple(), impl_tree(t[1]))


def from_ast(n):
    if isinstance(n, ast.Expression):
        return from_ast(n.body)
    if isinstance(n, ast.Name):
        return ("leaf", n.id)
    if isinstance(n, ast.Constant):
        return ("leaf", repr(n.value))
    if isinstance(n, ast.UnaryOp) and type(n.op) in AST_U:
        return ("un", AST_U[type(n.op)], from_ast(n.operand))
    if isinstance(n, ast.BinOp):
        return ("bin", AST_B[type(n.op)], from_ast(n.left), from_ast(n.right))
    if isinstance(n, ast.Attribute):
        return ("attr", n.attr, from_ast(n.value))
    if isinstance(n, ast.Call) and not n.args and not n.keywords:
        return ("call", from_ast(n.func))
    return ("other", ast.dump(n))


def depth1_nodes(leaves):
    out = []
    for op in BOPS:
        for l, r in itertools.product(leaves, leaves):
            out.append(("bin", op, l, r))
    for op in UOPS:
        for l in leaves:
            out.append(("un", op, l))
    for l in leaves:
        out.append(("attr", "m", l))
        out.append(("call", l))
    return out


def rand_tree(rng, depth):
    if depth == 0 or rng.random() < 0.2:
        return ("leaf", rng.choice(["a", "b", "x1"]))
    r = rng.random()
    if r < 0.6:
        return ("bin", rng.choice(list(BOPS)), rand_tree(rng, depth - 1), rand_tree(rng, depth - 1))
    if r < 0.8:
        return ("un", rng.choice(list(UOPS)), rand_tree(rng, depth - 1))
    if r < 0.9:
        return ("attr", rng.choice(["m", "normalized"]), rand_tree(rng, depth - 1))
    return ("call", rand_tree(rng, depth - 1))


def left_nested_pow(t):
    if t[0] == "bin":
        if t[1] == "**" and t[2][0] == "bin" and t[2][1] == "**":
            return True
        return left_nested_pow(t[2]) or left_nested_pow(t[3])
    if t[0] in ("un", "attr"):
        return left_nested_pow(t[2])
    if t[0] == "call":
        return left_nested_pow(t[1])
    return False


def nops(t):
    return 0 if t[0] == "leaf" else 1 + sum(nops(x) for x in t[1:] if isinstance(x, tuple))


def run(rep, tier, rng):
    import nengo_spa as spa
    from nengo_spa.ast import expr_tree as et
    from nengo_spa.ast.symbolic import PointerSymbol, sym
    from nengo_spa.semantic_pointer import SemanticPointer
    from nengo_spa.types import TVocabulary

    quick = tier == "quick"
    # ---------------- (i) printer ---------------------------------------------------
    a, b_ = ("leaf", "a"), ("leaf", "b")
    d1 = depth1_nodes([a, b_])
    trees = [a] + d1
    inner = [x for x in depth1_nodes([a]) if x[0] != "bin" or (x[2] == a and x[3] == a)]
    inner_b = [("bin", op, a, b_) for op in BOPS] + [("un", op, a) for op in UOPS] + [("attr", "m", a), ("call", a)]
    for op in BOPS:
        for x in inner_b:
            trees.append(("bin", op, x, b_))
            trees.append(("bin", op, b_, x))
    for op in UOPS:
        for x in inner_b:
            trees.append(("un", op, x))
    for x in inner_b:
        trees.append(("attr", "m", x))
        trees.append(("call", x))
    if not quick:
        for x, y in itertools.product(inner_b, inner_b):
            for op in BOPS:
                trees.append(("bin", op, x, y))
    for _ in range(300 if quick else 3000):
        trees.append(rand_tree(rng, rng.choice([2, 3, 4]) if quick else rng.choice([3, 4, 5, 6])))
    pexprs, pmeta = [], []
    for t in trees:
        s = str(impl_tree(t))
        pexprs.append(f"check_print {coq_tree(t)} {c.s(s)}")
        pmeta.append((t, s))
        rep.case(("print", t), nontrivial=nops(t) >= 2, sample={"tree": repr(t), "printed": s} if nops(t) == 3 and len(s) < 30 else None)
        rep.count("print")
        # CPython's grammar reads the string back as the same tree
        try:
            back = from_ast(ast.parse(s, mode="eval"))
        except SyntaxError as e:
            back = ("syntax-error", str(e))
        if back != t:
            key = "printer-left-nested-pow" if left_nested_pow(t) else None
            rep.violation(f"printed tree {s!r} re-parses under Python's grammar to a different tree",
                          {"case": {"tree": repr(t)}, "observed": {"printed": s, "reparsed": repr(back)}, "finding_key": key,
                           "python": "import ast\nfrom nengo_spa.ast.expr_tree import *\n"
                                     f"# tree: {t!r}\nassert False, 'printed string {s} does not re-parse to the tree it was printed from'\n"})
    pv = c.coq_eval("C06", "print", IMPORTS, pexprs, shard=400)
    for ok, (t, s) in zip(pv, pmeta):
        if not ok:
            # the rendering differs from the model; the property itself was evaluated above (CPython re-parse):
            try:
                still_ok = from_ast(ast.parse(s, mode="eval")) == t
            except SyntaxError:
                still_ok = False
            rep.violation(f"printer output {s!r} differs from the model's rendering of {t!r}"
                          + (" (it still re-parses to the same tree: correspondence Tie/ExprTie.check_print no longer holds)" if still_ok else ""),
                          {"case": {"tree": repr(t)}, "observed": s, "expected": "Model/ExprTree.v to_string",
                           "correspondence": "Tie/ExprTie.v check_print vs nengo_spa/ast/expr_tree.py __str__"},
                          found_input=not still_ok)
    # comparison / boolean operators of the table: CPython only
    for op in ["or", "and", "<", "<=", ">", ">=", "!=", "==", "in", "not in", "is", "is not"]:
        for t in [("L", op), ("R", op)]:
            la, lb, lc = et.Leaf("a"), et.Leaf("b"), et.Leaf("c")
            tree = et.BinaryOperator(op, et.BinaryOperator(op, la, lb), lc) if t[0] == "L" else et.BinaryOperator(op, la, et.BinaryOperator(op, lb, lc))
            s = str(tree)
            rep.case(("print-cmp", t))
            rep.count("print-nonarithmetic")
            want = f"(a {op} b) {op} c" if t[0] == "L" else f"a {op} (b {op} c)"
            def norm(n):
                # BoolOp is n-ary in CPython's AST: a or b or c == (a or b) or c semantically
                n = ast.parse(n, mode="eval").body
                def flat(x):
                    if isinstance(x, ast.BoolOp):
                        vals = []
                        for v in x.values:
                            fv = flat(v)
                            if isinstance(v, ast.BoolOp) and type(v.op) is type(x.op) and v is x.values[0]:
                                vals.extend(fv[1])
                            else:
                                vals.append(fv)
                        return (type(x.op).__name__, vals)
                    return ast.dump(x)
                return flat(n)
            try:
                same = norm(s) == norm(want)
            except SyntaxError:
                same = False
            if not same:
                key = "printer-comparison-chain" if op not in ("or", "and") else None
                rep.violation(f"printed tree {s!r} (meant {want!r}) re-parses to a different tree under Python's grammar",
                              {"case": {"op": op, "nesting": t[0]}, "observed": s, "finding_key": key,
                               "python": f"import ast\nfrom nengo_spa.ast.expr_tree import BinaryOperator as B, Leaf as L\n"
                                         f"t = {'B(%r, B(%r, L(\"a\"), L(\"b\")), L(\"c\"))' % (op, op) if t[0] == 'L' else 'B(%r, L(\"a\"), B(%r, L(\"b\"), L(\"c\")))' % (op, op)}\n"
                                         f"assert ast.dump(ast.parse(str(t), mode='eval')) == ast.dump(ast.parse({want!r}, mode='eval')), str(t)\n"})

    # ---------------- (ii) symbolic evaluation ------------------------------------------
    exprs, meta, rexprs = [], [], []
    NUMS = [("int", 2, (2, 1, False)), ("float", 0.5, (1, 2, False)), ("np.float64", np.float64(0.5), (1, 2, False)),
            ("np.float32", np.float32(0.25), (1, 4, False)), ("np.int64", np.int64(3), (3, 1, False)), ("negint", -2, (2, 1, True)),
            ("0-d array", np.array(1.5), (3, 2, False)),
            # numbers that need all their digits: a printer that rounds them changes the value
            ("third", 1.0 / 3.0, (1, 3, False)), ("many-digits", 1234567.5, (2469135, 2, False)), ("np third", np.float64(2.0 / 7.0), (2, 7, False)),
            ("small", 0.0001220703125, (1, 8192, False))]

    def gen_prog(depth, al):
        r = rng.random()
        if depth == 0 or r < 0.2:
            if rng.random() < 0.8:
                i = rng.randrange(4)
                return ("sym", i), ("name", i)
            return sym_expr_leaf(al)
        k = rng.choice(["neg", "inv", "add", "sub", "mul", "mul", "scale", "rscale", "div", "normalized", "linv", "rinv"])
        if k in ("neg", "inv", "normalized", "linv", "rinv"):
            p, e = gen_prog(depth - 1, al)
            return (k, p), (k, e)
        if k in ("add", "sub"):
            p1, e1 = gen_prog(depth - 1, al)
            if al == "AHrr":
                p2, e2 = gen_prog(depth - 1, al)
            else:
                p2, e2 = reshape_prog(p1, e1)
            return (k, p1, p2), (k, e1, e2)
        if k == "mul":
            p1, e1 = gen_prog(depth - 1, al)
            p2, e2 = gen_prog(depth - 1, al)
            return ("mul", p1, p2), ("mul", e1, e2)
        nk = rng.choice(NUMS)
        p, e = gen_prog(depth - 1, al)
        if k == "scale":
            return ("mul", p, ("num", nk[0], nk[1])), ("mul", e, ("num",) + nk[2])
        if k == "rscale":
            return ("mul", ("num", nk[0], nk[1]), p), ("mul", ("num",) + nk[2], e)
        return ("div", p, ("num", nk[0], nk[1])), ("div", e) + nk[2]

    def sym_expr_leaf(al):
        """sym('<text>'): an arbitrary expression text as one leaf.  The text may begin with '(' and end with ')'
        without being one parenthesised group, e.g. '(A + B) * (C + D)'."""
        nm = lambda: ("name", rng.randrange(4))  # noqa
        r = rng.random()
        if r < 0.25:
            t = ("add", nm(), nm())
        elif r < 0.6:
            inner = rng.choice(["add", "sub"]) if al == "AHrr" else "add"
            outer = rng.choice(["mul", "mul", "sub", "add"]) if al == "AHrr" else rng.choice(["mul", "add"])
            t = (outer, (inner, nm(), nm()), (inner, nm(), nm()))
        elif r < 0.8:
            t = ("mul", ("add", nm(), nm()), nm()) if rng.random() < 0.5 else ("mul", nm(), ("add", nm(), nm()))
        else:
            t = c10.Gen(rng, al).gen(2)
            if t[0] in ("name", "special", "num"):
                t = ("add", nm(), nm())
        return ("symexpr", c10.to_text(t, rng)), t

    def reshape_prog(p, e):
        if p[0] == "sym":
            i = rng.randrange(4)
            return ("sym", i), ("name", i)
        if p[0] == "symexpr":
            e2 = c10.Gen(rng, "AVtb").reshape(e)
            return ("symexpr", c10.to_text(e2, rng)), e2
        if p[0] == "num":
            return p, e
        if p[0] in ("neg", "inv", "normalized", "linv", "rinv"):
            p2, e2 = reshape_prog(p[1], e[1])
            return (p[0], p2), (e[0], e2)
        if p[0] in ("add", "sub", "mul"):
            a1, b1 = reshape_prog(p[1], e[1])
            a2, b2 = reshape_prog(p[2], e[2])
            return (p[0], a1, a2), (e[0], b1, b2)
        if p[0] == "div":
            a1, b1 = reshape_prog(p[1], e[1])
            return ("div", a1, p[2]), ("div", b1) + e[2:]
        return p, e

    TYPED = [None]     # when set to a vocabulary: every symbol leaf is created already typed (PointerSymbol(name, TVocabulary(v)))

    def run_prog(p):
        k = p[0]
        if k == "sym":
            if TYPED[0] is not None:
                return PointerSymbol(c10.NAMES[p[1]], TVocabulary(TYPED[0]))
            return getattr(sym, c10.NAMES[p[1]])
        if k == "symexpr":
            if TYPED[0] is not None:
                return PointerSymbol(sym(p[1])._expr_tree, TVocabulary(TYPED[0]))     # what sym('<text>') builds, typed
            return sym(p[1])
        if k == "num":
            return p[2]
        if k == "neg":
            return -run_prog(p[1])
        if k == "inv":
            return ~run_prog(p[1])
        if k in ("normalized", "linv", "rinv"):
            return getattr(run_prog(p[1]), k)()
        x, y = run_prog(p[1]), run_prog(p[2])
        return {"add": lambda: x + y, "sub": lambda: x - y, "mul": lambda: x * y, "div": lambda: x / y}[k]()

    for al in algs.ALGS:
        A = algs.alg_obj(al)
        d = 4
        ents = [algs.rand_vec(rng, d, -2, 2) for _ in range(4)]
        voc = spa.Vocabulary(d, algebra=A)
        for nm, v in zip(c10.NAMES, ents):
            voc.add(nm, algs.fl(v))
        cents = c.lst([c.zlist(v) for v in ents])
        # fixed programs first: sym('<text>') leaves whose text starts with '(' and ends with ')' without being one group,
        # each under a tighter-binding context
        nm = lambda i: ("name", i)  # noqa
        two = lambda op, a, b, c2, d2: (op, ("add", nm(a), nm(b)), ("add", nm(c2), nm(d2)))  # noqa
        FORCED = []
        for t, ctx in ((two("mul", 0, 1, 2, 3), "inv"), (two("mul", 1, 0, 3, 2), "neg"), (two("mul", 0, 2, 1, 3), "normalized"),
                       (two("mul", 3, 1, 0, 2), "mul-left"), (two("mul", 2, 1, 0, 3), "mul-right")) + \
                ((((two("sub", 0, 1, 2, 3), "mul-left"), (two("add", 0, 1, 2, 3), "mul-right"), (two("sub", 3, 2, 1, 0), "neg")) if al == "AHrr" else ())):
            leaf = ("symexpr", c10.to_text(t, rng))
            if ctx in ("inv", "neg", "normalized"):
                FORCED.append(((ctx, leaf), (ctx, t)))
            elif ctx == "mul-left":
                FORCED.append((("mul", ("sym", 1), leaf), ("mul", nm(1), t)))
            else:
                FORCED.append((("mul", leaf, ("sym", 2)), ("mul", t, nm(2))))
        for it in range(len(FORCED) + (70 if quick else 600)):
            p, e = FORCED[it] if it < len(FORCED) else gen_prog(rng.choice([1, 2, 3]) if quick else rng.choice([2, 3, 4, 5]), al)
            if p[0] == "num":
                continue

            def noise_normalised(q):
                # normalising is discontinuous at zero: an operand that is exactly zero but rounding noise in floating
                # point (nilpotent VTB / TVTB matrices) makes exact and float results differ legitimately
                if not isinstance(q, tuple):
                    return False
                if q[0] == "normalized":
                    try:
                        with warnings.catch_warnings():
                            warnings.simplefilter("ignore")
                            nrm = float(np.linalg.norm(PointerSymbol(run_prog(q[1])._expr_tree, TVocabulary(voc)).evaluate().v))
                        if 0.0 < nrm < 1e-9:
                            return True
                    except Exception:  # noqa
                        pass
                return any(noise_normalised(y) for y in q[1:])
            if noise_normalised(p):
                rep.count("normalisation-of-rounding-noise-skipped")
                continue
            typed = it % 3 == 1      # leaves typed from the start: the result must still know its vocabulary and evaluate on its own
            with warnings.catch_warnings():
                warnings.simplefilter("ignore")
                if typed:
                    TYPED[0] = voc
                    try:
                        o = c.observe(lambda: run_prog(p).evaluate().v)
                    finally:
                        TYPED[0] = None
                else:
                    o = c.observe(lambda: PointerSymbol(run_prog(p)._expr_tree, TVocabulary(voc)).evaluate().v)
                txt = c.observe(lambda: str(run_prog(p)._expr_tree))
            exprs.append(f"check_parse {al} {c.nat(d)} {cents} {c10.to_coq(e)} ({c.z(4 ** 5 * d ** 4)}, 1000000000%Z) "
                         + (c.obs_term(o, algs.enc_vec) if o[0] != "ok" or np.ndim(o[1]) == 1 else "(OExn OtherError)"))
            meta.append({"alg": al, "program": repr(p), "typed_leaves": typed, "printed": txt[1] if txt[0] == "ok" else None, "entries": ents,
                         "obs": c.obs_json(o) if o[0] == "ok" else list(o[:2])})
            rexprs.append(f"parse_representable {al} {c.nat(d)} {cents} {c10.to_coq(e)}")
            rep.case(("symbolic", al, repr(p)), nontrivial=c10.size(e) > 2,
                     sample={"alg": al, "program": repr(p), "printed": txt[1] if txt[0] == "ok" else None} if c10.size(e) == 4 else None)
            rep.count("symbolic")
    verdicts = c.coq_eval("C06", "sym", IMPORTS, exprs, shard=150)
    reps_ = c.coq_eval("C06", "symrepr", IMPORTS, rexprs, shard=300)
    rep.dist["symbolic_skipped_unrepresentable"] = len(reps_) - sum(reps_)
    for ok, m in zip(verdicts, meta):
        if ok:
            continue
        key = None
        prog = m["program"]
        if any(f"('{k}', ('" in prog and not f"('{k}', ('sym'" in prog for k in ("normalized", "linv", "rinv")) or \
                any(prog.count(f"('{k}', (") and ("'add'" in prog or "'mul'" in prog or "'sub'" in prog or "'neg'" in prog) for k in ("normalized", "linv", "rinv")):
            key = "symbolic-method-on-compound"
        if "np." in prog or "0-d array" in prog:
            key = key or "symbolic-numpy-scalar-repr"
        rep.violation(f"symbolic program {m['program']} (printed {m['printed']!r}) does not evaluate to the same operations applied to the vocabulary's pointers ({m['alg']})",
                      {"case": {k: v for k, v in m.items() if k != "obs"}, "observed": m["obs"], "finding_key": key,
                       "python": "# build the program with nengo_spa.sym and evaluate it in a vocabulary; see case\nassert False, 'symbolic evaluation differs from direct evaluation'\n",
                       "expected": "Model/Parse.v eval of the written operations (C10) = direct application"})

    # ---------------- (iii) generated names re-parse to the same vector ---------------------
    for al in algs.ALGS:
        A = algs.alg_obj(al)
        d = 4 if al != "AHrr" else 5
        voc = spa.Vocabulary(d, algebra=A)
        for nm in c10.NAMES:
            voc.add(nm, algs.fl(algs.rand_vec(rng, d, -2, 2)))
        # exact zero pointers with compound names (A - A, B*0 + C*0) normalised and then used under tighter-binding operations
        za, zb = voc[c10.NAMES[0]], voc[c10.NAMES[1]]
        ZERO_CASES = [("~((A - A).normalized())", lambda: ~((za - za).normalized())), ("(A - A).normalized() * B", lambda: (za - za).normalized() * zb),
                      ("B * (A - A).normalized()", lambda: zb * (za - za).normalized()), ("-(B*0 + A*0).normalized()", lambda: -((zb * 0 + za * 0).normalized())),
                      ("(A - A).normalized() - B", lambda: (za - za).normalized() - zb), ("B - (A - A).normalized()", lambda: zb - (za - za).normalized())]
        for label, fn in ZERO_CASES:
            with warnings.catch_warnings():
                warnings.simplefilter("ignore")
                try:
                    pz = fn()
                except NotImplementedError:
                    continue
                name = pz.name
                rep.case(("name-zero", al, label))
                rep.count("name")
                if name is None or "..." in name:
                    continue
                try:
                    back = voc.parse(name).v
                    okz, errz = np.allclose(back, pz.v, atol=1e-8), None
                except Exception as e:  # noqa
                    okz, errz = False, f"{type(e).__name__}: {e}"[:150]
            if not okz:
                rep.violation(f"pointer name {name!r} (built as {label}) does not parse back to the pointer's vector ({al}; {errz or 'different vector'})",
                              {"case": {"alg": al, "built_as": label, "name": name},
                               "python": "import numpy as np, nengo_spa as spa\nv = spa.Vocabulary(16, pointer_gen=np.random.RandomState(1)); v.populate('A; B')\nA, B = v['A'], v['B']\n"
                                         f"p = {label}\nassert np.allclose(v.parse(p.name).v, p.v), p.name\n"})
        for _ in range(80 if quick else 800):
            p = voc[rng.choice(c10.NAMES)]
            steps = []
            with warnings.catch_warnings():
                warnings.simplefilter("ignore")
                try:
                    for _s in range(rng.randint(1, 5)):
                        k = rng.choice(["add", "sub", "mul", "rmul", "rbind", "neg", "inv", "scale", "rscale", "div", "pow", "normalized", "linv", "rinv", "negscale"])
                        q = voc[rng.choice(c10.NAMES)]
                        if k in ("add", "sub", "mul", "rmul") and rng.random() < 0.3:
                            # a symbolic operand: the result is still a named pointer of the vocabulary
                            q = rng.choice([lambda: getattr(sym, rng.choice(c10.NAMES)), lambda: sym(f"{rng.choice(c10.NAMES)} * {rng.choice(c10.NAMES)}"),
                                            lambda: getattr(sym, rng.choice(c10.NAMES)).normalized()])()
                            k_rec = k + "-symbol"
                        else:
                            k_rec = k
                        steps.append(k_rec)
                        if k == "add":
                            p = p + q
                        elif k == "sub":
                            p = p - q
                        elif k == "mul":
                            p = p * q
                        elif k == "rmul":
                            p = q * p
                        elif k == "rbind":
                            p = p.rbind(q)
                        elif k == "neg":
                            p = -p
                        elif k == "inv":
                            p = ~p
                        elif k == "scale":
                            p = p * rng.choice([2, 0.5, np.float64(1.5)])
                        elif k == "negscale":
                            p = p * -2
                        elif k == "rscale":
                            p = rng.choice([2, 0.5]) * p
                        elif k == "div":
                            p = p / rng.choice([2, 4.0])
                        elif k == "pow":
                            p = p ** rng.choice([2, 3, 0, -1])
                        else:
                            p = getattr(p, k)()
                except NotImplementedError:
                    continue
                name = p.name
                if name is None or "..." in name:
                    continue
                rep.case(("name", al, name))
                rep.count("name")
                try:
                    back = voc.parse(name).v
                    ok = np.allclose(back, p.v, atol=1e-8 * (1 + np.abs(p.v).max()))
                    err = None
                except Exception as e:  # noqa
                    ok, err = False, f"{type(e).__name__}: {e}"[:150]
            if not ok:
                key = "name-left-nested-pow" if "**" in name and steps.count("pow") >= 2 else None
                rep.violation(f"pointer name {name!r} does not parse back to the pointer's vector ({al}; {err or 'different vector'})",
                              {"case": {"alg": al, "steps": steps, "name": name}, "finding_key": key,
                               "python": "assert False, 'vocab.parse(p.name) differs from p.v'\n"})
